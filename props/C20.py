"""C20 — freeing a reader releases everything, on any call history or allocation failure."""
import sys, re
from vlib.core import Case
from vlib import core, archgen as A, streams as S
import check as CK

ID = "C20"
LEAN_MODULES = ["LhasaV.Props.C20", "LhasaV.Props.C20Alloc"]
VH_FEATURES = ["reader"]
PER_OP_SECONDS = 30
THEOREMS = {'free_releases_all': 'full: every stream, policy, legal history', 'free_releases_all_prefix': 'full: abandoned at any point',
            'legal_iff_segments': 'full', 'decoders_exact': 'full: decoder objects counted exactly on legal histories',
            'alloc_failure_releases_all': 'full: every legal history, EVERY k: no leak, no double free (allocation-aware model, 16 sites in C order)',
            'alloc_failure_releases_all_prefix': 'full', 'alloc_failure_new': 'full: k < 3, the constructors',
            'alloc_failures_release_all': 'full: ANY set of failing allocations, ANY history',
            'alloc_failure_reports': 'full: the call during which the allocation fails reports failure / end-of-archive / a re-presented entry, never a header from the stream',
            'alloc_failures_report': 'full: any failure set', 'nextA_never_faults': 'full: next never faults under any failures',
            'alloc_failure_no_later_fault': 'full', 'header_under_failure': 'full: a header returned under failures is the header the fault-free parser returns',
            'fired_iff': 'full', 'alloc_failure_decoders_exact': 'full', 'runA_refines': 'full: no failure => the allocation-aware model IS the reader model',
            'freeA_refines': 'full', 'results_refine': 'full', 'header_readA_refines': 'full', 'header_readA_blocks': 'full: block accounting of the parser',
            '(invalid accesses outside the modelled ownership/parse logic under failure)': 'observed by ASan/UBSan, not proved'}
TRUSTED = ["ghost allocation ledger of LhasaV.Model.Reader (header objects with reference counts and their string blocks, decoders); "
           "tied to the C by comparing the number of live heap blocks after lha_reader_free + lha_input_stream_free on every history",
           "harness/ops_reader.c: link-time --wrap of malloc/calloc/realloc/free/strdup counts live blocks and injects failures"]
ASSUMPTIONS = ["at most one decode operation per member and one extract per entry (the property's quantifier)",
               "file handles: the one handle the library opens itself (the output file, lha_arch_fopen) is a cookie stream of the harness whose close is observed; the input FILE is the caller's"]
RULE = ("legal call histories (next / read k / check / extract with scripted file-system outcome) over corpus, mutated and structured "
        "archives incl. nested directories and dangerous symlinks, cut at every prefix (the reader is abandoned there), four stream kinds, "
        "three directory policies; then the same histories with the k-th library allocation failing (k sampled in the quick tier, all k in "
        "the thorough tier). Judge: after free, live heap blocks = 0; no sanitizer report; for fault-free runs live count and results = model. "
        "non-trivial: history contains an extract of a directory or symlink, or an injected failure that fired")

canon = A.canon_rdr


def budget(tier):
    return 120 if tier == "quick" else 6000


def judge(c_out):
    if c_out.startswith(("CRASH", "TIMEOUT")) or "OVERREAD" in c_out:
        return "memory error / abnormal termination: " + c_out[:200]
    if "HANDLE-LEAK" in c_out:
        return "a file handle the library opened (the output file of an extraction) was still open when lha_reader_extract returned"
    cnt = A.rdr_counters(c_out)
    if cnt.get("live", 0) != 0:
        return "leak: %d heap block(s) still allocated after the reader and its stream were freed" % cnt["live"]
    return None


def pick_archives(r, smalls):
    # favour archives with directories / symlinks
    pref = [x for x in smalls if any(t in x[0] for t in ("symlink", "subdir", "dir", "h0_", "unix"))]
    return pref if pref and r.random() < 0.7 else smalls


def gen_cases(ctx, n):
    r = ctx.rng
    smalls = A.small_archives(30000)
    out = []
    for i in range(n):
        name, d = r.choice(pick_archives(r, smalls))
        k = r.random()
        kind = "corpus"
        if k < 0.25:
            d = A.mutate_archive(r, d); kind = "mutated"
        elif k < 0.35:
            d = A.structured_archive(r); kind = "structured"
        elif k < 0.45:
            d = A.mac_many(r); kind = "mac-short"
        elif k < 0.6:
            d = r.choice([A.dirkind_archive, A.dirkind_archive, A.odd_method_archive, A.prefix_dirs_archive])(r); kind = "dir-kinds"
        toks = A.legal_history(r, maxentries=8, extract_fail=0.15) if kind != "dir-kinds" else A.extract_history(r, 8)
        # make extraction frequent: it is what creates fake directories and deferred symlinks
        toks = [("x1" if (t == "c" and r.random() < 0.5) else t) for t in toks]
        if kind == "dir-kinds" and r.random() < 0.5:
            # trees with dangerous links and directories, every entry extracted, the file-system step failing on a third of them
            # (placeholder cannot be created, directory exists, link refused): the failure paths of every extract_* function
            from vlib import treegen as T
            ents = T.rand_tree(r, maxdepth=2, nfiles=6, dangerous=0.45, safe_links=0.15, levels=(r.choice([0, 1, 2]),))
            d = T.encode_archive(ents)
            toks = []
            for _ in range(len(ents) + 3):
                toks += ["n", "x0" if r.random() < 0.35 else "x1"]
            kind = "tree-extract-fail"
        skind, pol = r.choice(A.KINDS), r.choice(A.POLICIES)
        cuts = sorted(set([len(toks)] + [r.randrange(1, len(toks) + 1) for _ in range(3)])) if ctx.tier == "quick" \
            else range(1, len(toks) + 1)
        for cut in cuts:
            tags = {"fault-free", kind, "extract" if any(t.startswith("x") for t in toks[:cut]) else "noextract"}
            out.append(Case(A.rdr_op(skind, pol, toks[:cut], d), judge=judge, tags=tags, note=("ff", i) if cut == len(toks) else None))
        if kind == "tree-extract-fail":
            # the same with the file system answering "a directory component of this path is a symbolic link" (token x2) on some
            # extractions: the refusal branch of a re-presented deferred link (the reader model has no such answer: C alone)
            t2 = [("x2" if (t == "x1" and r.random() < 0.6) else t) for t in toks]
            out.append(Case(A.rdr_op(skind, pol, t2, d), judge=judge, tags={"fault-free", kind, "extract", "component-is-symlink", "c-only"}))
        ks = range(0, 40) if ctx.tier == "thorough" else sorted(set(r.randrange(0, 30) for _ in range(5)))
        for kk in ks:
            out.append(Case(A.rdr_op(skind, pol, toks, d, fail_at=kk), judge=judge, tags={"alloc-fail", kind, "c-only"}, note=("inj", i)))
    return out


def corpus_cases(ctx):
    """minimised past failures: (kind, policy, fail_at, history, archive) lines; each is run with and without the injected failure"""
    import os
    out = []
    d = os.path.join(core.VERIF, "corpus", "C20")
    if os.path.isdir(d):
        n = 0
        for f in sorted(os.listdir(d)):
            for line in open(os.path.join(d, f)):
                line = line.strip()
                if not line or line.startswith("#"):
                    continue
                kind, pol, k, hist, hx = line.split()
                gid = 10 ** 6 + n
                n += 1
                data = bytes.fromhex(hx)
                out.append(Case(A.rdr_op(kind, pol, hist.split(";"), data), judge=judge, tags={"corpus", "fault-free"}, note=("ff", gid)))
                out.append(Case(A.rdr_op(kind, pol, hist.split(";"), data, fail_at=int(k)), judge=judge,
                                tags={"corpus", "alloc-fail", "c-only"}, note=("inj", gid)))
    return out


FAILURE_TOKENS = ("END", "x0", "c0", "-", "r0")


def judge_groups(cases, c_outs):
    """'the affected call reports failure or end-of-archive': a run with an injected allocation failure must be the fault-free run of
    the same history up to some call, and from there on may differ only by reporting failure - in particular every header it returns
    must be exactly the header the fault-free run returns at that call (not the member with a string missing)"""
    ff = {}
    for i, c in enumerate(cases):
        if isinstance(c.note, tuple) and c.note[0] == "ff":
            ff[c.note[1]] = c_outs[i]
    why = {}
    for i, c in enumerate(cases):
        if not (isinstance(c.note, tuple) and c.note[0] == "inj") or c.note[1] not in ff:
            continue
        a = c_outs[i].split(" live=")[0].split(";")
        b = ff[c.note[1]].split(" live=")[0].split(";")
        if c_outs[i].startswith(("CRASH", "TIMEOUT")) or ff[c.note[1]].startswith(("CRASH", "TIMEOUT")) or len(a) != len(b):
            continue
        diverged = False
        for j, (x, y) in enumerate(zip(a, b)):
            if x == y and not diverged:
                continue
            diverged = True
            # (H1 = an entry the reader re-presents on its own - a directory whose metadata is due, a deferred link: these still
            # come after the archive has been reported as ended, which is what the failing call does)
            if x.startswith("H0") and x != y:
                why[i] = ("with one allocation failing, call %d returned the header [%s] where the archive holds [%s]: the failure was not "
                          "reported (a string of the header is silently missing)" % (j + 1, x[:80], y[:80]))
                break
    return why


def evaluate(ctx, env, cases, with_model):
    P = sys.modules[__name__]
    conc, corr, st = CK.evaluate(ctx, P, env, cases, with_model)      # injected cases carry the tag c-only: judged on the C alone
    st["evaluations"] = len(cases)
    # the allocation-aware model (Model/ReaderAlloc, driver lhva) against the C under injection: results, live blocks, allocation
    # counts, whether and in which call the failure fired - token for token; and the failing call reports failure
    global _alloc_eval
    if _alloc_eval is None:
        from vlib import dtwrap
        _alloc_eval = dtwrap.evaluate_with("difftest_alloc.py", ID, quick_scale=0.3, thorough_scale=6.0)
    c2, r2, st2 = _alloc_eval(ctx, env, [], with_model)
    st["evaluations"] += st2.get("evaluations", 0)
    ctx.dist["alloc-model-tie-cases"] += st2.get("evaluations", 0)
    return conc + c2, corr + r2, st


_alloc_eval = None


def nontrivial(c):
    return "extract" in c.tags or (isinstance(c.note, tuple) and c.note[0] == "inj")


def signature(case, c_out, why):
    import re
    m = re.match(r"CRASH (\S+)", c_out)
    if m:
        return "crash:" + m.group(1)
    if "allocation failing" in why:
        return "alloc-failure-not-reported"
    return "leak" + (":alloc-fail" if isinstance(case.note, tuple) and case.note[0] == "inj" else "")


LEVEL_TEXT = ("Lean theorem over the reader model's allocation ledger: after any legal history, freeing the reader leaves no live header, "
              "string or decoder; the C is tied by exact live-block counts after free on every generated history, and allocation failures "
              "are injected at sampled/all positions under ASan.")
LEVEL_NOTE = ("Both halves are proved at model level (release after any legal history; and under ANY allocation failures: release, failure "
              "reporting, no fault). Partial in that the allocator and the absence of invalid accesses outside the modelled ownership / parse "
              "logic are observed (ASan + live-block count + allocation-order correspondence), not proved; file handles are the caller's.")
TECHNIQUE = ("Lean 4 proof (ownership-ledger invariant over the reader state machine; allocation-aware refinement with a failure oracle: release, "
             "failure reporting and refinement theorems) + live-block / allocation-order differential correspondence under fault injection")
