"""C13 — every call returns; work and heap are bounded by bytes present and declared size."""
import re
from vlib.core import Case
from vlib import core, archgen as A, streams as S, lhaenc as E, hdrgen as G

ID = "C13"
LEAN_MODULES = ["LhasaV.Props.C13"]
VH_FEATURES = ["reader"]
PER_OP_SECONDS = 8
THEOREMS = {'decode_stops': 'full: any inner decoder incl. endless ones', 'extend_cap': 'full', 'scan_bounds': 'full', 'read_bounds': 'full', 'skip_bounds': 'full', 'stream_no_fault': 'full', 'next_work_linear': 'full: one next is linear in the bytes present, on every history', 'heap_bounded': 'full: live headers and blocks',
            'avail_nonincreasing': 'full: along ANY history the stream never goes backwards (no byte is pulled twice)',
            'listing_work_linear': 'full: a WHOLE listing of n calls pulls <= the bytes present and makes <= A/32 + (A+11)/12 + 2n + 2 source requests in total',
            'tool_loops_end_in_fuel': 'full: every loop of the tool models ends (end of archive / exit(-1) / parser fault) within its fuel, for every archive: the fuel hides no non-termination',
            'work_bounded': 'full: EVERY history - bytes pulled + bytes still present <= bytes PHYSICALLY present at the start (no declared size in the bound); requests; heap; output <= declared lengths on legal histories',
            'next_work_present': 'full: one next pulls at most the bytes present', 'decoders_present': 'full: no decoder of the table moves its source past the data that is there',
            'run_bounded': 'full: every history - bytes pulled <= present + declared compressed sizes of the members actually decoded; requests; heap',
            '(allocator overhead, libc buffering, wall-clock)': 'observed through the malloc wrapper and per-call alarm'}
TRUSTED = ["hand-written models of stream / basic reader / reader / decoders; every model function is total (structural or well-founded "
           "recursion, fuel only where it is explained by a consumed-input measure)",
           "harness: counts source read requests and bytes, tracks live/peak heap through the malloc wrapper, per-call alarm"]
ASSUMPTIONS = ["source callbacks return the requested bytes except at end of input; allocator overhead and libc buffering are outside"]
RULE = ("four stream kinds x {all truncations of small archives, mutated archives, archives with extreme length fields (level-3 header "
        "length to 2^32-1, level-1 extended-header chains, 4 GiB member sizes), -pm1- members with tiny data and large declared length, "
        "many-member Mac archives with large-window methods} x call patterns (listing only, read, check, extract). Judge: every call "
        "returns (per-call alarm), source requests <= 2*|A| + 16*ops + 64, bytes pulled <= |A|, peak heap <= 8 MiB + 2*|A|, bytes obtained by malloc/calloc <= 2 MiB*calls + 64*|A| + 4 MiB (a block copied as a whole on every extension is quadratic); C = model. "
        "non-trivial: truncated / extreme-field archive or a decode of >= 1 KiB")

canon = A.canon_rdr
MIB = 1 << 20


def budget(tier):
    return 400 if tier == "quick" else 20000


def mk_judge(alen, nops, toks=None):
    def j(c_out):
        if c_out.startswith("TIMEOUT"):
            return "a call did not return within the time limit"
        if c_out.startswith("CRASH") or "OVERREAD" in c_out:
            return "abnormal termination: " + c_out[:150]
        for tok in c_out.split(" live=")[0].split(";"):
            m = re.match(r"H\d+:[^:]*:[^:]*:[^:]*:[0-9a-f]*:(\d+):(\d+)$", tok)
            if m and (int(m.group(1)) >= 2 ** 32 or int(m.group(2)) >= 2 ** 32):
                return ("a returned header declares length %s / compressed length %s: more than the 32-bit fields of the format can say "
                        "(the bound 'work <= bytes present and declared size' is void; a wrapped subtraction)" % (m.group(1), m.group(2)))
        if toks is not None:
            # decoding a member stops after at most its DECLARED uncompressed length (also when that length is 0)
            res = c_out.split(" live=")[0].split(";")
            declared, got = None, 0
            for o, x in zip(toks, res):
                if o == "n":
                    m = re.match(r"H\d+:[^:]*:[^:]*:[^:]*:[0-9a-f]*:(\d+):(\d+)$", x)
                    declared, got = (int(m.group(1)) if m else None), 0
                elif o.startswith("r") and declared is not None and re.match(r"^[0-9a-f]+$", x):
                    got += len(x) // 2
                    if got > declared:
                        return "reads on a member returned %d bytes, its header declares %d" % (got, declared)
        cnt = A.rdr_counters(c_out)
        if "reads" in cnt:
            if cnt["reads"] > 2 * alen + 16 * nops + 64:
                return "work not linear in the bytes present: %d source requests for %d archive bytes, %d calls" % (cnt["reads"], alen, nops)
            if cnt["moved"] > alen:
                return "pulled %d bytes from a %d byte source" % (cnt["moved"], alen)
        if cnt.get("fresh", 0) > 2 * MIB * nops + 64 * alen + 4 * MIB:
            return ("work not linear in the bytes present: %d bytes obtained by malloc/calloc for %d archive bytes and %d calls (a block "
                    "re-allocated and copied as a whole every time it grows?)" % (cnt["fresh"], alen, nops))
        if cnt.get("peak", 0) > 8 * MIB + 2 * alen:
            return "peak heap %d bytes exceeds 8 MiB + 2*|A| (|A| = %d)" % (cnt["peak"], alen)
        return None
    return j


def long_chain(r):
    """level-1 with a VERY long chain of tiny extended headers (tens of thousands): the header grows once per extended header, so
    anything that handles the whole header per extension is quadratic"""
    f = G.rand_fields(r, level=1)
    f.exts = [(r.choice([0x7f, 0x7e, 0x3f]), b"")] * r.choice([12000, 16000])
    f.common_crc = False
    f.clen = r.choice([0, 10])
    return E.encode(f) + S.rand_bytes(r, 20)


def extreme_archive(r):
    k = r.random()
    if k < 0.3:      # level-3 header with huge length field
        f = G.rand_fields(r, level=3)
        hb = bytearray(E.encode(f))
        hb[24:28] = r.choice([0xffffffff, 0x7fffffff, 0x00100001, 0x00100000, 0x000fffff, len(hb) + 100000,
                              # between the 1 MiB ceiling and the next powers of two / sixteen: 2, 4, 9, 12, 16 MiB and one beyond
                              0x00200000, 0x00400000, 0x00900000, 0x00c00000, 0x01000000, 0x01000001, 0x02000000, 0x10000000]).to_bytes(4, "little")
        return bytes(hb) + S.rand_bytes(r, r.choice([0, 10, 5000]))
    if k < 0.4:      # level-1 whose extended-header chain is LONGER than the declared skip size (the header must be rejected; were it
        #                  accepted, the member length would wrap to ~4 GiB and a seekable source would be positioned backwards)
        f = G.rand_fields(r, level=1)
        f.exts = [(0x7e, S.rand_bytes(r, r.choice([0, 1, 30]))) for _ in range(r.choice([1, 3, 20]))]
        f.common_crc = False
        f.clen = 0
        hb = bytearray(E.encode(f))
        chain = int.from_bytes(hb[7:11], "little")
        hb[7:11] = r.choice([0, 1, max(0, chain - 1), chain // 2]).to_bytes(4, "little")
        hb[1] = sum(hb[2:2 + hb[0]]) & 0xff
        return bytes(hb) * r.choice([1, 1, 3]) + S.rand_bytes(r, r.choice([0, 20]))
    if k < 0.44:
        return long_chain(r)
    if k < 0.5:      # level-1 with a long chain of extended headers
        f = G.rand_fields(r, level=1)
        f.exts = [(0x7e, S.rand_bytes(r, r.choice([0, 1, 200]))) for _ in range(r.choice([1, 10, 200]))]
        f.clen = r.choice([0, 10, 2 ** 31])
        return E.encode(f) + S.rand_bytes(r, 20)
    if k < 0.8:      # 4 GiB member sizes (stored / directory methods: a random static-Huffman stream may legitimately
        #                  expand to megabytes, which is not what this case is about)
        f = G.rand_fields(r)
        f.method = r.choice([b"-lh0-", b"-lz4-", b"-pm0-", b"-lhd-", b"-lzs-", b"-lz5-"])
        f.clen = r.choice([0xffffffff, 0xfffffff0, 0x80000000])
        f.length = r.choice([0xffffffff, 0x80000000, 100])
        f.common_crc = False
        return E.encode(f) + S.rand_bytes(r, r.choice([0, 100, 3000]))
    # pm1 zero-fill: tiny data, large declared length
    f = E.Fields(level=0, method=b"-pm1-", clen=3, length=r.choice([1000, 50000, 200000]), name=b"z", crc=0)
    return E.encode(f) + S.rand_bytes(r, 3)


mac_many = A.mac_many


def gen_cases(ctx, n):
    r = ctx.rng
    smalls = [x for x in A.small_archives(9000) if len(x[1]) > 30]
    out = []

    def add(d, toks, kind, tag):
        tags = {tag, "kind=" + kind}
        if tag == "extreme" and len(d) > 30000:
            # tens of thousands of extended headers: the Lean model handles the chain as a list (quadratic): the C alone is judged
            tags |= {"c-only", "very-long-chain"}
        out.append(Case(A.rdr_op(kind, r.choice(A.POLICIES), toks, d), judge=mk_judge(len(d), len(toks), toks), tags=tags, note=tag))
    # every truncation of a few small archives, listing and decoding, all kinds
    for name, d in r.sample(smalls, min(len(smalls), 3 if ctx.tier == "quick" else 25)):
        step = max(1, len(d) // (60 if ctx.tier == "quick" else 400))
        for cut in range(0, len(d), step):
            for kind in A.KINDS:
                add(d[:cut], ["n"] * 6, kind, "truncated-list")
                if cut % (2 * step) == 0:
                    add(d[:cut], ["n", "c", "n", "r100000", "n", "c", "n"], kind, "truncated-decode")
    # callback sources whose read reports an I/O error (-1, the documented value) from some offset on - also in the middle of
    # a member that is being skipped by reading: every call must still return (judged on the C alone; the model's sources do not fail)
    for _ in range(max(6, n // 12)):
        name, d = r.choice(smalls)
        if len(d) < 60:
            continue
        off = r.choice([0, 1, 20, 21, 33, 40, len(d) // 2, len(d) - 5, r.randrange(len(d))])
        k_ = r.choice(["cbnoskiperr:%d" % off, "cbnoskiperr:%d" % off, "cbskiperr:%d" % off])
        for toks in (["n"] * 5, ["n", "r10", "n", "n", "n"], ["n", "c", "n", "x1", "n"]):
            out.append(Case(A.rdr_op(k_, r.choice(A.POLICIES), toks, d), judge=mk_judge(len(d) + 64, len(toks)), tags={"read-error", "c-only"},
                            note="extreme"))
    base = len(out)
    for kind in A.KINDS:
        add(long_chain(r), ["n", "n"], kind, "extreme")
        # a member that DECLARES length 0 while compressed data is present (0 is a length, not "unknown"): reads deliver nothing
        for meth_, data_ in ((b"-lh0-", S.rand_bytes(r, 3000)), (b"-lz4-", S.rand_bytes(r, 100)), (b"-lzs-", S.rand_bytes(r, 600))):
            fz = E.Fields(level=r.choice([0, 1, 2]), method=meth_, clen=len(data_), length=0, crc=0, name=b"zero.bin", os_type=0x55)
            if fz.level == 2:
                fz.exts = [(E.EXT_FILENAME, b"zero.bin")]; fz.name = b""
            g2 = E.Fields(level=1, method=b"-lh0-", clen=3, length=3, crc=E.crc16(b"end"), name=b"end", os_type=0x55)
            add(E.encode(fz) + data_ + E.encode(g2) + b"end\0", ["n", "r100000", "r100000", "n", "r10", "n"], kind, "declared-zero")
    while len(out) < base + n:
        k = r.random()
        kind = r.choice(A.KINDS)
        if k < 0.4:
            add(extreme_archive(r), r.choice([["n"] * 4, ["n", "c", "n", "n"], ["n", "r100000", "r100000", "n"]]), kind, "extreme")
        elif k < 0.55:
            d = mac_many(r)
            toks = []
            for _ in range(26):
                toks += ["n", r.choice(["c", "x1", "r1000"])]
            add(d, toks, kind, "mac-many")
        elif k < 0.62:
            add(r.choice([A.dirkind_archive, A.odd_method_archive, A.prefix_dirs_archive])(r), A.extract_history(r), kind, "dir-kinds")
        elif k < 0.8:
            name, d = r.choice(smalls)
            add(A.mutate_archive(r, d), A.legal_history(r), kind, "mutated")
        else:
            add(A.structured_archive(r, consistent=0.2), A.legal_history(r), kind, "structured")
    return out


def nontrivial(c):
    return c.note in ("truncated-list", "truncated-decode", "extreme", "mac-many")


def signature(case, c_out, why):
    return re.sub(r"[^a-zA-Z]+", "-", why.split(":")[0])[:40]


LEVEL_TEXT = ("Termination is structural in the models (every modelled loop is a total Lean function whose measure is consumed input or a "
              "finite table); step-count and heap bounds are evaluated on the C through counters in the harness for truncated, extreme-field "
              "and endless (-pm1-) inputs over four stream kinds; C = model.")
LEVEL_NOTE = "Partial: allocator overhead, libc buffering and wall-clock time are outside the model; bounds on the C are observed per run."
TECHNIQUE = "Lean 4 totality (termination proofs as obligations) + step/heap-counter differential correspondence"
