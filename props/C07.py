"""C07 — a member is reported good only if its bytes match the recorded length and CRC-16."""
import os, re, tempfile, shutil
from concurrent.futures import ThreadPoolExecutor
from vlib.core import Case
from vlib import core, archgen as A, streams as S, lhaenc as E, corpus
from vlib.lhaenc import crc16

ID = "C07"
LEAN_MODULES = ["LhasaV.Props.C07"]
VH_FEATURES = ["reader"]
PER_OP_SECONDS = 20
THEOREMS = {"test_intact_archive": "full, on bytes: lha t on the archive of ANY encodable entry list, every packer/option set: all selected entries good, exact stdout, status 0, file system untouched",
            "test_detects_damage": "full, on bytes: a burst of <= 16 bits (CRC bit order) in ONE stored member's data: that member `CRC error`, every other member good, status 1",
            "test_detects_truncation": "full, on bytes: the archive cut anywhere inside a stored member's data: members before it good, it bad, status 1",
            "exit_status_iff": "full at model level: exit status 0 iff no exit(-1), no fault, every handled member good (lha t / x / e, any archive)",
            "handled_members_selected": "full", "exit_status_cases": "full: 255 after exit(-1), else 0 iff every handled member good, else 1 (no fault can occur)", "progress_bar_width": "full",
            "check_iff": "full: verdict good <-> length and CRC of the decoded bytes match (non-Mac members)",
            "check_iff_arc": "full: ... and that CRC is CRC-16/ARC", "extract_iff": "full", "truncation_bad": "full",
            "check_dir": "full", "check_iff_all": "full: every member incl. the MacBinary pass-through (no OS-type hypothesis)", "extract_iff_all": "full", "truncation_bad_all": "full",
            "crc16_burst": "full: every data, every non-zero error burst of <= 16 bits changes the CRC (16 is optimal)",
            "crc_linear": "full", "single_bit_detected": "full",
            "(exit status of the tool)": "correspondence only"}
TRUSTED = ["hand-written reader model (check / extract verdicts) and wrapper model (length and CRC bookkeeping, C14)",
           "harness: lha_arch file layer replaced by an in-memory file that records what was written; real tool for the exit status"]
ASSUMPTIONS = ["the output file can be written (fwrite succeeds)"]
RULE = ("stored and compressed members (encoder-made and real corpus members) with: every burst of 1..16 flipped bits at every bit offset "
        "of small stored members (exhaustive for members <= 24 bytes, sampled beyond), truncation at every offset, wrong recorded length or "
        "CRC, engineered CRC collisions of a truncated prefix; verdict of check and of extract (with the bytes written), and `lha t` / `lha xqf` "
        "lines and exit status on multi-member archives where one member is bad. Judge: verdict good <=> bytes produced have the recorded length "
        "and CRC (CRC computed independently); bursts/truncations => bad; exit status != 0 iff some member bad. C = model. "
        "non-trivial: a corrupted / truncated / mis-recorded member")

canon = A.canon_rdr


def budget(tier):
    return 40 if tier == "quick" else 3000


def stored_member(data, name=b"f.bin", level=1, length=None, crc=None, method=b"-lh0-"):
    f = E.Fields(level=level, method=method, clen=len(data), length=len(data) if length is None else length,
                 crc=crc16(data) if crc is None else crc, name=name if level < 2 else b"",
                 exts=[] if level < 2 else [(E.EXT_FILENAME, name)], os_type=0x4d)
    return E.encode(f) + data


def judge_x(expect_len, expect_crc, must_be_bad):
    """for history n;x1: result token 'x<v>:<len>:<crc>'"""
    def j(c_out):
        if c_out.startswith(("CRASH", "TIMEOUT")):
            return "implementation crashed: " + c_out[:120]
        toks = c_out.split(" live=")[0].split(";")
        if len(toks) < 2:
            return None
        m = re.match(r"x([01])(?::(\d+):([0-9a-f]{4}))?$", toks[1])
        if not m:
            return None
        good = m.group(1) == "1"
        if m.group(2) is not None:
            n, c = int(m.group(2)), int(m.group(3), 16)
            ok = (n == expect_len and c == expect_crc)
            if good != ok:
                return ("verdict %s but the %d bytes written have CRC %04x and the header records length %d, CRC %04x"
                        % ("good" if good else "bad", n, c, expect_len, expect_crc))
        if must_be_bad and good:
            return "a corrupted / truncated member was reported good"
        return None
    return j


def judge_seq(expect_len, expect_crc):
    """any history on ONE intact member: every extract that reports success must have written exactly the member"""
    def j(c_out):
        if c_out.startswith(("CRASH", "TIMEOUT")):
            return "implementation crashed: " + c_out[:120]
        for tok in c_out.split(" live=")[0].split(";"):
            m = re.match(r"x([01]):(\d+):([0-9a-f]{4})$", tok)
            if m and m.group(1) == "1":
                n, c = int(m.group(2)), int(m.group(3), 16)
                if n != expect_len or c != expect_crc:
                    return ("extract reported success but wrote %d bytes with CRC %04x; the header records length %d, CRC %04x "
                            "(a second decoding operation on the same member)" % (n, c, expect_len, expect_crc))
        return None
    return j


def collision_tail(prefix):
    """two bytes t such that crc16(prefix + 8 random + t) == crc16(prefix): a truncation that keeps the CRC"""
    target = crc16(prefix)
    return target


def gen_cases(ctx, n):
    r = ctx.rng
    out = []
    # (0) members with blocks of ZERO bytes – in the middle, at the end, nothing else – and lengths that are multiples of the block sizes
    # an extraction loop could use (64, 512, 4096): the bytes WRITTEN are judged (the output file can be positioned like a regular
    # file, so "seek instead of write" optimisations leave holes and short files that the harness sees)
    for k in range(8):
        blk = r.choice([64, 64, 512, 4096])
        parts = [r.choice([bytes(blk), bytes(blk), S.rand_bytes(r, blk)]) for _ in range(r.choice([1, 2, 4, 5]))]
        data = b"".join(parts) + r.choice([bytes(blk), bytes(blk), bytes(2 * blk), b"", bytes(7)])
        meth_data = stored_member(data, level=r.choice([0, 1, 2]), name=b"z%d.bin" % k)
        out.append(Case(A.rdr_op(r.choice(A.KINDS), "eod", ["n", "x1"], meth_data), judge=judge_x(len(data), crc16(data), False),
                        tags={"intact", "zero-blocks"}))
    # (1) exhaustive bursts on tiny stored members, every truncation
    for k in range(max(2, n // 20)):
        ln = r.choice([1, 2, 3, 8, 17, 24])
        data = S.rand_bytes(r, ln)
        good = stored_member(data, level=r.choice([0, 1, 2]))
        hl = len(good) - ln
        out.append(Case(A.rdr_op(r.choice(A.KINDS), "eod", ["n", "x1"], good), judge=judge_x(ln, crc16(data), False), tags={"intact"}))
        for width in range(1, 17):
            for bit in range(0, ln * 8 - width + 1):
                if ln > 8 and r.random() > 0.15:
                    continue
                pat = r.getrandbits(width) | 1 | (1 << (width - 1))
                d2 = bytearray(data)
                for b in range(width):
                    if (pat >> b) & 1:
                        pos = bit + b
                        d2[pos // 8] ^= 1 << (pos % 8)      # bit order of CRC-16/ARC (reflected: least significant bit first)
                if bytes(d2) == data:
                    continue
                arch = good[:hl] + bytes(d2)
                out.append(Case(A.rdr_op("seek", "eod", ["n", "x1"], arch), judge=judge_x(ln, crc16(data), True),
                                tags={"burst", "w=%d" % width}, note="bad"))
        for cut in range(ln):
            arch = good[:hl + cut]
            out.append(Case(A.rdr_op(r.choice(A.KINDS), "eod", ["n", "x1"], arch), judge=judge_x(ln, crc16(data), True),
                            tags={"truncated"}, note="bad"))
        out.append(Case(A.rdr_op("seek", "eod", ["n", "x1"], stored_member(data, crc=crc16(data) ^ (1 << r.randrange(16)))),
                        judge=judge_x(ln, None, True), tags={"wrong-crc"}, note="bad"))
        out.append(Case(A.rdr_op("seek", "eod", ["n", "x1"], stored_member(data, length=ln + r.choice([1, 5]))),
                        judge=judge_x(None, None, True), tags={"wrong-length"}, note="bad"))
        # special recorded values: 0x0000 / 0xffff / byte-swapped where they are NOT the CRC of the data
        for special in (0x0000, 0xffff, ((crc16(data) & 0xff) << 8) | (crc16(data) >> 8)):
            if special != crc16(data):
                for op_ in ("x1", "c"):
                    out.append(Case(A.rdr_op(r.choice(A.KINDS), "eod", ["n", op_], stored_member(data, crc=special)),
                                    judge=judge_x(ln, None, True) if op_ == "x1" else
                                    (lambda o: ("a member whose recorded CRC is not the CRC of its bytes was reported good by check"
                                                if ";c1" in o.split(" live=")[0] else None)),
                                    tags={"wrong-crc", "special-crc"}, note="bad"))
        # data whose TRUE CRC is 0x0000 (the data followed by its own CRC, low byte first), then damaged by a short burst
        z = data + crc16(data).to_bytes(2, "little")
        if crc16(z) == 0:
            out.append(Case(A.rdr_op("seek", "eod", ["n", "x1"], stored_member(z)), judge=judge_x(len(z), 0, False), tags={"intact", "crc-zero"}))
            for _ in range(6):
                d2 = bytearray(z)
                pos = r.randrange(len(z) * 8 - 3)
                for b in range(r.randrange(1, 4)):
                    d2[(pos + b) // 8] ^= 1 << ((pos + b) % 8)
                good0 = stored_member(z)
                arch = good0[:len(good0) - len(z)] + bytes(d2)
                out.append(Case(A.rdr_op("seek", "eod", ["n", "x1"], arch), judge=judge_x(len(z), 0, True), tags={"burst", "crc-zero"}, note="bad"))
    # (1b) several decoding operations on the same member: a success verdict must still mean "the file holds the member"
    for k in range(max(3, n // 10)):
        ln = r.choice([1, 30, 200, 3000])
        data = S.rand_bytes(r, ln)
        good = stored_member(data, level=r.choice([0, 1, 2])) + stored_member(b"second", name=b"g.bin")
        for hist in (["n", "c", "x1"], ["n", "r10", "x1"], ["n", "x1", "x1"], ["n", "r%d" % ln, "x1"], ["n", "c", "c", "x1"],
                     ["n", "r1", "r1", "x1", "n", "x1"], ["n", "x1", "c", "n", "c", "x1"]):
            out.append(Case(A.rdr_op(r.choice(A.KINDS), r.choice(A.POLICIES), hist, good), judge=judge_seq(ln, crc16(data)) if hist.count("n") == 1 else None,
                            tags={"multi-op", "c-only"}, note="bad"))      # judged on the implementation only: the reader MODEL follows
            # the C on histories with at most one decoding operation per member (the library's contract, C15/C20's quantifier)
    # (2) engineered CRC collision: the first 1024 bytes have the same CRC as all 1034; archive cut short inside the tail
    for k in range(max(1, n // 20)):
        pre = S.rand_bytes(r, 1024)
        mid = S.rand_bytes(r, 8)
        target = crc16(pre)
        base = crc16(pre + mid)
        tail = None
        for t in range(65536):
            if crc16(bytes([t & 255, t >> 8]), base) == target:
                tail = bytes([t & 255, t >> 8]); break
        if tail is None:
            continue
        data = pre + mid + tail
        good = stored_member(data)
        for lost in (1, 2, 5, 10):
            out.append(Case(A.rdr_op(r.choice(A.KINDS), "eod", ["n", "x1"], good[:len(good) - lost]),
                            judge=judge_x(len(data), crc16(data), True), tags={"crc-collision-truncation"}, note="bad"))
            out.append(Case(A.rdr_op("seek", "eod", ["n", "c"], good[:len(good) - lost]),
                            judge=lambda o: ("a truncated member was reported good by check" if ";c1" in o.split(" live=")[0] else None),
                            tags={"crc-collision-truncation"}, note="bad"))
    # (3) real compressed members: intact, corrupted, truncated
    mem = [m for m in corpus.members(core.lhv_path()) if m["complete"] and 0 < len(m["data"]) < 9000 and m["length"] < 60000
           and m["method"] not in (b"-lhd-",)]
    for k in range(n):
        m = r.choice(mem)
        name = b"m.bin"
        f = E.Fields(level=1, method=m["method"], clen=len(m["data"]), length=m["length"], crc=m["crc"], name=name, os_type=0x4d)
        data = m["data"]
        kind = r.random()
        bad = False
        if kind < 0.3:
            pass
        elif kind < 0.65:
            i = r.randrange(len(data)); data = data[:i] + bytes([data[i] ^ (1 << r.randrange(8))]) + data[i + 1:]; bad = None
        else:
            data = data[:r.randrange(len(data))]; bad = None
        g = f.copy(); g.clen = len(data)
        out.append(Case(A.rdr_op(r.choice(A.KINDS), "eod", ["n", "x1"], E.encode(g) + data),
                        judge=judge_x(m["length"], m["crc"], False), tags={"corpus-member", "intact" if kind < 0.3 else "damaged"},
                        note="bad" if kind >= 0.3 else None))
    # (4) tool: multi-member archives, one member bad somewhere; exit status
    for k in range(max(4, n // 3)):
        nm = r.randrange(2, 5)
        badi = r.choice([None] + list(range(nm)))
        arch = b""
        for i in range(nm):
            d = S.rand_bytes(r, r.choice([1, 30, 300]))
            mem_b = stored_member(d, name=b"f%d" % i)
            if i == badi:
                mem_b = mem_b[:-1] + bytes([mem_b[-1] ^ 0x10])
            arch += mem_b
        for mode in ("t", "xqf", "tq", "xf"):
            out.append(Case("cli7 %s %s %s" % (mode, "bad" if badi is not None else "good", arch.hex()),
                            tags={"cli", "mode=" + mode}, note="bad" if badi is not None else None))
    # (4b) MANY failing members: the exit status is non-zero however many fail (a count handed to exit() keeps its low 8 bits only)
    for nbad, ntot in ([(256, 256), (256, 300), (512, 520), (255, 256), (257, 257)] if ctx.tier != "quick" else [(256, 256), (256, 300), (512, 512), (255, 255)]):
        arch = b""
        bad = set(r.sample(range(ntot), nbad))
        for i in range(ntot):
            d = S.rand_bytes(r, r.choice([1, 5]))
            mem_b = stored_member(d, name=b"m%d" % i, level=r.choice([0, 1]))
            if i in bad:
                mem_b = mem_b[:-1] + bytes([mem_b[-1] ^ 0x01])
            arch += mem_b
        for mode in ("t", "xqf", "tq"):
            out.append(Case("cli7 %s bad %s" % (mode, arch.hex()), tags={"cli", "mode=" + mode, "failing-members=%d" % nbad}, note="bad"))
    # (5) members that cannot be decoded at all: a genuine but unsupported method (-lh2-, -lh3-, ...), a MacLHA member cut inside its
    # first 128 decoded bytes. No bytes are produced, so the verdict must be bad - in the library and in the tool's exit status
    def judge_undecodable(c_out):
        if c_out.startswith(("CRASH", "TIMEOUT")):
            return "implementation crashed: " + c_out[:120]
        for tok in c_out.split(" live=")[0].split(";"):
            if re.match(r"c(?!0$)", tok) and tok != "c0":
                return "check of a member that cannot be decoded did not report failure (result token %r)" % tok
            m = re.match(r"x1", tok)
            if m:
                return "extract of a member that cannot be decoded reported success"
        return None
    for k in range(max(6, n // 2)):
        kk = r.random()
        data = S.rand_bytes(r, r.choice([1, 20, 200]))
        if kk < 0.55:
            bad = stored_member(data, name=b"odd.bin", level=r.choice([0, 1, 2]), method=r.choice(A.ODD_METHODS), length=r.choice([len(data), 1000]))
        else:
            short = S.rand_bytes(r, r.choice([0, 1, 60, 127]))
            f = E.Fields(level=1, method=r.choice([b"-lh0-", b"-lh5-", b"-lz5-"]), clen=len(short), length=r.choice([128, 200, 5000]),
                         crc=r.randrange(65536), name=b"mac.bin", os_type=0x6d)
            bad = E.encode(f) + short
        for op_ in ("c", "x1"):
            out.append(Case(A.rdr_op(r.choice(A.KINDS), "eod", ["n", op_], bad), judge=judge_undecodable, tags={"undecodable"}, note="bad"))
        g1 = stored_member(S.rand_bytes(r, 9), name=b"first")
        g2 = stored_member(S.rand_bytes(r, 30), name=b"last")
        arch = r.choice([g1 + bad + g2, bad + g2, g1 + bad, bad])
        for mode in ("t", "tq", "xqf"):
            out.append(Case("cli7 %s bad %s" % (mode, arch.hex()), tags={"cli", "mode=" + mode, "undecodable"}, note="bad"))
    return out


def prepare(ctx, env):
    vh, err = core.build_vh(ctx, VH_FEATURES)
    if vh is None:
        return "C harness: " + err
    env["vh"] = vh
    lha, err = core.build_lha(ctx, sanitize=True)
    if lha is None:
        return "lha tool: " + err
    env["lha"] = lha
    return None


def run_cli7(env, ctx, op):
    _, mode, expect, hx = op.split()
    d = tempfile.mkdtemp(prefix="cli-", dir=ctx.tmp)
    try:
        ap = os.path.join(d, "a.lzh")
        open(ap, "wb").write(bytes.fromhex(hx))
        wd = os.path.join(d, "w"); os.mkdir(wd)
        rc, so, se, verdict = core.run_cli(env["lha"], [mode, ap], wd, stdin_data=b"")
        if verdict != "ok":
            return verdict
        return "rc=%d" % rc
    finally:
        shutil.rmtree(d, ignore_errors=True)


def evaluate_own(ctx, env, cases, with_model):
    import sys, check as CK
    P = sys.modules[__name__]
    lib = [c for c in cases if c.op.startswith("rdr")]
    cli = [c for c in cases if c.op.startswith("cli7")]
    conc, corr, st = CK.evaluate(ctx, P, env, lib, with_model)
    with ThreadPoolExecutor(core.JOBS) as ex:
        outs = list(ex.map(lambda c: run_cli7(env, ctx, c.op), cli))
    for c, o in zip(cli, outs):
        expect_bad = c.op.split()[2] == "bad"
        why = None
        if o.startswith(("CRASH", "TIMEOUT")):
            why = "tool crashed: " + o
        elif expect_bad and o == "rc=0":
            why = "a member failed its check but the exit status of `lha %s` is 0" % c.op.split()[1]
        elif not expect_bad and o != "rc=0":
            why = "all members are intact but the exit status is " + o
        if why:
            conc.append({"op": c.op[:300], "c_out": o, "why": why, "sig": "exit-status", "tags": sorted(c.tags)})
    st["evaluations"] = len(cases)
    return conc, corr, st


_msgs_eval = None


def evaluate(ctx, env, cases, with_model):
    """own cases + the messages tie: Model/Messages (every printf of src/extract.c, the progress bar, prompts, exit status) against the
    real tool's stdout / stderr / exit status / tree on generated archives and commands (tools/difftest_msgs.py)"""
    global _msgs_eval
    conc, corr, st = evaluate_own(ctx, env, cases, with_model)
    if _msgs_eval is None:
        from vlib import dtwrap
        _msgs_eval = dtwrap.evaluate_with("difftest_msgs.py", ID, quick_scale=0.15, thorough_scale=2.0, extra_env={"DIFFTEST_SEED_OFFSET": "7"})
    c2, r2, st2 = _msgs_eval(ctx, env, [], with_model)
    st["evaluations"] = st.get("evaluations", 0) + st2.get("evaluations", 0)
    ctx.dist["messages-tie-cases"] += st2.get("evaluations", 0)
    return conc + c2, corr + r2, st


def nontrivial(c):
    return c.note == "bad"


def signature(case, c_out, why):
    return re.sub(r"[^a-zA-Z]+", "-", why)[:40]


LEVEL_TEXT = ("Lean theorems over the reader model: the verdict of check / extract is good exactly when the decoded bytes have the recorded "
              "length and CRC-16/ARC (any truncation => bad). The C is tied by runs that record what was written and compare with an independent "
              "CRC: exhaustive bit bursts on small stored members, every truncation, CRC-collision truncations, damaged real members; the tool's "
              "exit status on multi-member archives.")
LEVEL_NOTE = ("The verdict logic for every member kind (plain and MacBinary), the burst-error property of CRC-16/ARC and the tool's exit status "
              "(0 iff every handled member good, over the message model of lha t / x) are proved; partial only in that the tool model is tied "
              "to the real tool by correspondence.")
TECHNIQUE = "Lean 4 proof (verdict = length and CRC, via the wrapper bookkeeping theorems) + corruption-enumeration correspondence"
