"""C03 — LArc -lzs-/-lz5- and the stored methods decode every valid stream exactly."""
from vlib.core import Case
from vlib import streams as S, core

ID = "C03"
LEAN_MODULES = ["LhasaV.Props.C03"]
VH_FEATURES = ["decoder"]
THEOREMS = {"lz_init_matches_source": "full (translator tie): the rings and write positions lha_lz5_init / lha_lzs_init of the working tree build, dumped on every run, = the models' initial states", 
    "lzs_decode_serialise": "full: every valid command list, declared length, schedule, callback chunking",
    "lz5_decode_serialise": "full (callback answers in full: the decoder's contract)",
    "null_identity": "full: every byte string, declared length, schedule, chunking",
    "lz5_fill_eq_closed_form": "full: all 4096 cells",
    "ring_copy_refines": "full: modulo ring = abstract ring, overlap and never-written cells",
}
TRUSTED = ["spec LhasaV.Spec.Lz77 (abstract ring expansion, serialisers, closed-form lz5 fill); validated against the corpus: real "
           "-lzs-/-lz5-/-lh0-/-lz4-/-pm0- members decode in model and C to their recorded CRC (run in C14/C09 and here)",
           "hand-written decoder models LhasaV.Model.Lzs (lzs, lz5, null), tied to the C by the differential run"]
ASSUMPTIONS = ["-lz5- callback returns the 2 requested bytes unless at end of input"]
RULE = ("random command lists (literal / copy with position anywhere in the ring incl. never-written cells, the five initial lz5 regions, "
        "seam-crossing and self-overlapping copies, every length 2..17 / 3..18, final partial lz5 group), serialised by the Lean spec; "
        "stored: random bytes around multiples of 1024. Three-way: C output = model output = spec expansion truncated to the declared "
        "length, under random schedules. non-trivial: at least one copy command (or >= 1 KiB for stored)")


def budget(tier):
    return 700 if tier == "quick" else 60000


def rand_cmds(r, meth):
    size, lo, hi = (2048, 2, 17) if meth == "lzs" else (4096, 3, 18)
    n = r.choice([0, 1, 2, 7, 8, 9, 16, 17, 40, 200])
    cmds = []
    wp = size - (17 if meth == "lzs" else 18)
    for _ in range(n):
        k = r.random()
        if k < 0.4:
            cmds.append("L%02x" % r.randrange(256)); wp = (wp + 1) % size
        else:
            ln = r.choice([lo, hi, r.randrange(lo, hi + 1)])
            kk = r.random()
            if kk < 0.25:
                pos = r.randrange(size)
            elif kk < 0.5:
                pos = (wp - r.randrange(1, 5)) % size            # self-overlap
            elif kk < 0.65:
                pos = (size - r.randrange(1, 6)) % size           # seam crossing
            elif kk < 0.8 and meth == "lz5":
                pos = r.choice([0, 12, 13, 3327, 3328, 3583, 3584, 3839, 3840, 3967, 3968, 4077, 4078, 4095]) 
            else:
                pos = (wp + r.randrange(0, 30)) % size            # never-written / just ahead
            cmds.append("C%d.%d" % (pos, ln)); wp = (wp + ln) % size
    return ",".join(cmds) or "-"


def seam_cmds(r, meth):
    """command lists that put a run of 8 literals (for -lz5-: one whole flag group, flag byte 0xff) at a chosen ring position next to
    the seam (size-8: the run ends exactly at the end of the ring), then read the cells around the seam back with copies"""
    size, lo, hi = (2048, 2, 17) if meth == "lzs" else (4096, 3, 18)
    start = size - (17 if meth == "lzs" else 18)
    T = r.choice([size - 8, size - 8, size - 8, size - 9, size - 7, size - 16, size - 1, 0, size - 4])
    D = (T - start) % size
    if D < 8:
        D += size
    cmds = []
    wp = start
    # whole groups of 8 maximal copies while far away
    while D >= 8 * hi + 8:
        for _ in range(8):
            cmds.append("C%d.%d" % ((wp - 1) % size, hi)); wp = (wp + hi) % size
        D -= 8 * hi
    # one last group of 8 commands producing exactly D bytes (8 <= D < 8*hi+8): literals upgraded to copies
    for _ in range(200):
        lens = [1] * 8
        rest = D - 8
        order = list(range(8)); r.shuffle(order)
        for i in order:
            if rest == 0:
                break
            add = min(rest, hi - 1)
            if add < lo - 1:
                break
            if rest - add in range(1, lo - 1):
                add -= (lo - 1)
                if add < lo - 1:
                    break
            lens[i] = 1 + add
            rest -= add
        if rest == 0:
            break
    else:
        return None
    for ln in lens:
        if ln == 1:
            cmds.append("L%02x" % r.randrange(256)); wp = (wp + 1) % size
        else:
            cmds.append("C%d.%d" % ((wp - r.randrange(1, 4)) % size, ln)); wp = (wp + ln) % size
    # the run of 8 literals at T (two of them for good measure), then the read-back
    for _ in range(r.choice([8, 16])):
        cmds.append("L%02x" % r.randrange(1, 256)); wp = (wp + 1) % size
    for pos, ln in [(size - 2, min(hi, 5)), (0, lo + 1), (T % size, min(hi, 10)), (size - 1, lo), (1, lo)]:
        cmds.append("C%d.%d" % (pos, ln)); wp = (wp + ln) % size
    return ",".join(cmds)


def mk_spec_judge(declen):
    def sj(c_out, s_out):
        if c_out.startswith(("CRASH", "TIMEOUT")):
            return "implementation crashed: " + c_out[:120]
        d = S.parse_dec(c_out)
        if d is None:
            return "unexpected output " + c_out[:80]
        exp = "" if s_out == "-" else s_out
        exp = exp[:2 * declen]
        got = "" if d["out"] == "-" else d["out"]
        if got != exp:
            return "decoded bytes differ from the denotation of the commands (got %d bytes, expected %d)" % (len(got) // 2, len(exp) // 2)
        return None
    return sj


def gen_cases(ctx, n):
    r = ctx.rng
    out = []
    specs = []
    for i in range(n):
        meth = r.choice(["lzs", "lz5"])
        c = seam_cmds(r, meth) if i % 6 == 0 else None
        specs.append((meth, c or rand_cmds(r, meth)))
    ser, _ = core.run_lines_parallel([core.lhv_path()], ["lzser %s %s" % s for s in specs])
    exl, _ = core.run_lines_parallel([core.lhv_path()], ["lzexp %s %s" % s for s in specs])
    for (meth, cmds), hx, ex in zip(specs, ser, exl):
        full = 0 if ex == "-" else len(ex) // 2
        declen = r.choice([full, full, full + 10, max(0, full - 3), r.randrange(full + 1)])
        chunk = 0 if meth == "lz5" else r.choice([0, 0, 1, 2, 3])
        data = b"" if hx == "-" else bytes.fromhex(hx)
        out.append(Case(S.dec_op(meth, declen, chunk, -1, S.schedule(r, declen), data), spec="lzexp %s %s" % (meth, cmds),
                        spec_judge=mk_spec_judge(declen), tags={"m=" + meth, "copy" if "C" in cmds else "lits"}, note=cmds))
    # TWO decoder objects alive together (the window and all other decoder state live in the object: an application may decode two
    # members, or two archives, at the same time): each delivers what it delivers alone; the harness compares in C
    streams = [(m, bytes.fromhex(hx), len(ex) // 2) for (m, _), hx, ex in zip(specs, ser, exl) if hx not in ("-", "") and ex not in ("-", "")
               and not hx.startswith(("bad", "invalid", "FAULT"))]

    def j2(c_out):
        if c_out.startswith(("CRASH", "TIMEOUT")):
            return "implementation crashed: " + c_out[:120]
        if c_out.startswith("DIFFERENT"):
            return "two decoders alive at the same time disturb one another: " + c_out
        return None
    for _ in range(min(24, len(streams) // 2)):
        (ma, da, la), (mb, db, lb) = r.choice(streams), r.choice(streams)
        if r.random() < 0.5:
            mb = ma
            cand = [x for x in streams if x[0] == ma]
            (mb, db, lb) = r.choice(cand)
        out.append(Case("dec2 %s %d %s %s %d %s %d" % (ma, la, da.hex(), mb, lb, db.hex(), r.choice([1, 7, 64, 300])), judge=j2,
                        tags={"two-decoders", "c-only", "pair=%s+%s" % (ma, mb)}))
    for i in range(n // 5):
        meth = r.choice(["lh0", "lz4", "pm0"])
        ln = r.choice([0, 1, 1023, 1024, 1025, 2047, 2048, 2049, 3000, r.randrange(5000)])
        data = S.rand_bytes(r, ln)
        declen = r.choice([ln, ln, ln + 5, max(0, ln - 1), r.randrange(ln + 1)])
        exp = data[:declen].hex() or "-"

        def j(c_out, exp=exp):
            d = S.parse_dec(c_out)
            if d is None:
                return "implementation crashed / unexpected: " + c_out[:100]
            return None if d["out"] == exp else "stored method did not deliver the compressed bytes unchanged up to the declared length"
        out.append(Case(S.dec_op(meth, declen, r.choice([0, 1, 7, 1024]), -1, S.schedule(r, declen), data), judge=j,
                        tags={"m=" + meth, "stored"}, note="big" if ln >= 1024 else None))
    return out


def corpus_cases(ctx):
    """tie (c): real -lzs-/-lz5- members (LArc) parsed by vlib/lhparse.py; the Lean spec must re-serialise them bit for bit and
    the C output on the real bytes must equal the spec expansion of the parsed commands"""
    from vlib import corpus, lhparse
    lhv = core.lhv_path()
    bm = corpus.by_method(lhv)
    items = []
    for meth, pf in (("lzs", lhparse.parse_lzs), ("lz5", lhparse.parse_lz5)):
        for m in bm.get("-%s-" % meth, []):
            cmds, produced = pf(m["data"], m["length"])
            items.append((meth, m, cmds))
    ser, _ = core.run_lines_parallel([lhv], ["lzser %s %s" % (meth, c) for meth, m, c in items])
    out = []
    for (meth, m, cmds), o in zip(items, ser):
        sb = bytes.fromhex(o) if o not in ("-", "bad-op") else b""
        tie = None
        if not (m["data"].startswith(sb) and len(m["data"]) - len(sb) <= 2):
            tie = "Spec.Lz77.serialise%s does not reproduce a real member of %s bit for bit" % (meth, m["archive"])
        sj0 = mk_spec_judge(m["length"])

        def sj(c_out, s_out, tie=tie, sj0=sj0):
            return ("TIE: " + tie) if tie else sj0(c_out, s_out)
        out.append(Case(S.dec_op(meth, m["length"], 0, -1, [], m["data"]), spec="lzexp %s %s" % (meth, cmds), spec_judge=sj,
                        tags={"corpus", "m=" + meth}, note="C corpus"))
    return out


def nontrivial(c):
    return (c.note is not None) and ("C" in c.note or c.note == "big")


def signature(case, c_out, why):
    return case.op.split()[1] + ":wrong-output"


LEVEL_TEXT = ("Kernel-checked round-trip theorems: for every valid -lzs-/-lz5- command list (any ring position incl. never-written "
              "cells, overlap, partial final group) and every byte string for the stored methods, reading through the decoder API "
              "with any declared length and schedule yields exactly the denotation. Model tied to the C by a three-way differential run.")
LEVEL_NOTE = "Trusted: Lean kernel; Spec.Lz77 as the meaning of the formats; hand decoder models (differentially validated, also on corpus members)."
TECHNIQUE = "Lean 4 proof (bit-reader refinement + ring refinement + per-command induction) + three-way differential correspondence"
