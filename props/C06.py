"""C06 — extraction reproduces the archived tree: contents, names, times, modes, links."""
import os, re, random
from concurrent.futures import ThreadPoolExecutor
from vlib.core import Case
from vlib import core, treegen as T, sandbox as SB, lhaenc as E, lhnewgen as LG, pmgen as PG

ID = "C06"
LEAN_MODULES = ["LhasaV.Props.C06"]
VH_FEATURES = []
THEOREMS = {"macbinary_layout_matches_source": "full (translator tie): the model's MacBinary header test is the source's over the regenerated layout macros", "glob_iff": "full: match_glob = wildcard semantics for every pattern and string", "select_spec": "full", "glob_literal": "full", "glob_trailing_stars": "full",
            "macbinary_strip": "full: recognised envelope -> data fork (or resource fork)", "macbinary_keep": "full", "mac_header_spec": "full: field-by-field characterisation",
            "no_filter_selects_all": "full", "flatten_ignores_path": "full", "flatten_single_component": "full", "relocate_prefix": "full",
            "extract_reproduces_tree": "FULL, end to end on bytes: for every well-formed encodable tree, lha x of the archive that encodes it (headers by the C05 "
                                       "encoder, stored members) into an empty directory reproduces exactly that tree; no hypothesis about the reader",
            "extract_reproduces_tree_all_methods": "FULL for the eleven methods with decoder round trips (stored, lzs, lz5, lh1, lh4-7, lhx, pm1, pm2), levels 1/2: "
                                                   "member data written by the method's specification encoder",
            "extract_selected": "full for parent-closed selections: wildcard arguments select exactly the matching members (tree of the selected entries)",
            "extract_relocated": "full: w=DIR (clean relative DIR, nothing below its place): tree below cwd/DIR, DIR created 0755-umask",
            "extract_flattened": "full: option i with pairwise distinct names: every selected file/link directly in the extraction directory",
            "overwrite_policy": "full: pre-existing top-level files; an archived file replaces an existing one exactly when the independent policy "
                                "specification (f / q / prompt answers y n a s, junk, end of input = abort) says so; everything else untouched",
            "prompt_follows_spec": "full", "overwrite_outcome_spelled": "definition unfolding",
            "print_writes_selected": "full, on bytes, every option set: lha p = for each selected entry banner + EXACTLY the file's data",
            "extract_implicit_parents": "full: archives without directory entries - every entry as archived, every missing parent 0755-umask / now",
            "extract_mixed": "full: explicit + implicit + LATE directory entries (a late entry is ignored, as the tool does)", "implicit_tree_spelled": "full",
            "extract_reproduces_tree_lk7": "full: LHark members (-lh7-, level 1, OS ' ' presented as -lk7-): all twelve decodable methods are now covered",
            "extract_level0_dos": "full: plain level-0 headers (DOS stamp; even seconds from 1980), all eleven methods",
            "extract_level0_unix": "full: level-0 headers with the Unix area (exact time, permissions, links)", "dos_time_roundtrip": "full",
            "extract_flat_unified": "full: option i TOGETHER WITH wildcards, w=DIR, pre-existing files and the overwrite policy", "flat_no_directories": "full",
            "extract_unified": "full: wildcards x w=DIR x implicit parents x late directory entries x overwrite policy in ONE statement (the other tree theorems are instances); option i excepted",
            "extract_selected_any": "full: ANY wildcard list on a directory-first archive (no closure condition)",
            "extract_reproduces_tree_packed": "full: the same for any member packer with a decoder round trip (stored L1/L2, -lzs-, -lz5- instantiated)",
            "archive_denotes_tree": "full: the Denotes hypothesis of run_tree_partial is a theorem for such archives",
            "sample_tree_with_files_extracts": "non-vacuity incl. files and read-only directories",
            "extract_models_agree": "full: Extract.run = Messages.run .extract (fs incl. mutation log, reader, result, abort) under two necessary side conditions",
            "run_tree_partial": "partial: lha x (no w=/i/wildcards) into an empty directory, root or ordinary user: for every well-formed "
                                "(directory-first, explicit parents, safe links) entry list the archive denotes, the object at EVERY path below the "
                                "extraction directory is the archived one and nothing outside changes; hypotheses evaluated on every generated "
                                "in-domain archive by lhvt (op xtree) and the promised tree compared with the real tool's",
            "dir_meta_final": "full under the same hypotheses: recorded directory mode and time survive the later writes into it",
            "option_letters_spec": "full: meaning of every accepted option string (f/q overwrite, i, n, v, w=dir)", "command_letter_spec": "full",
            "access_regimes": "full", "sample_tree_extracts": "non-vacuity on real archive bytes (kernel evaluation of parser+reader)",
            "dir_entry_for_existing_dir_ignored": "fact outside the domain (contents before their directory entry)",
            "(options i, w=, wildcards, pre-existing files, dangerous links: resulting tree)": "correspondence: real tree = independent oracle = Fs/Extract model"}
TRUSTED = ["gen/ext_tool.c + gcc: MacBinary layout macros of lib/macbinary.c", "abstract file system LhasaV.Model.Fs and extraction model LhasaV.Model.Extract (x/e loop with wildcard filter, overwrite "
           "policy, parent creation, two-stage directories, placeholders, print command), tied to the real tool by complete-tree / "
           "stdout comparison on every generated run, as root and as an unprivileged user",
           "the expected tree is computed by an independent oracle (props/C06.py: expected_tree) straight from the generated entries",
           "member contents of compressed methods are expansions of stream descriptions serialised by the Lean format specs"]
ASSUMPTIONS = ["umask 022, TZ=UTC", "extraction starts in an empty directory (or one holding only the listed pre-existing files)",
               "chown effects and sub-second timestamps are not compared"]
RULE = ("generated directory-first trees (depth <= 4, sibling directories, read-only and 0700 directories with several children, files "
        "with and without recorded permissions and times, safe relative symlinks), members stored and compressed with every method "
        "(-lh1- -lh4..7- -lhx- -lk7- -lzs- -lz5- -pm1- -pm2- via the Lean format specs), header levels 0/1/2, MacBinary-wrapped members; "
        "option sets from {f, q, q0, q1, q2, i, v, w=DIR}, wildcard argument lists ('*', '?', literal, several patterns), pre-existing "
        "files with every prompt answer (y n a s, upper case, junk lines), the print command p/pq; as root and as nobody. "
        "Judge on the real tool: complete resulting tree (type, mode, mtime, size, CRC, link target of every object) = oracle tree, exit "
        "status 0; p: stdout = banners + contents; and real tree / stdout = Lean model (xrun2). non-trivial: >= 1 directory and >= 2 files")


def budget(tier):
    return 140 if tier == "quick" else 2500


# ---------------------------------------------------------------------------------------------
# member contents: for compressed methods the content is the expansion of a random valid stream

_pool = {}


def fill_pool(r, per_method=6):
    lhv = core.lhv_path()
    descs = []
    for meth in ("lh4", "lh5", "lh6", "lh7", "lhx", "lk7"):
        for _ in range(per_method):
            d, tags, produced = LG.gen_stream(r, meth, "small")
            descs.append((meth, "lhnser %s %s" % (meth, d), "lhnexp %s %s" % (meth, d)))
    for _ in range(per_method):
        g = None
        while g is None:
            g = PG.gen_pm2(r, r.choice([10, 300, 1500]), r.choice(["mixed", "bytes", "small"]))
        f, rb, cm, n, tags = g
        descs.append(("pm2", "pm2ser %d %s %s" % (f, rb, cm), "pm2exp %d %s %s" % (f, rb, cm)))
        t, cm, n, tags = PG.gen_pm1(r, r.choice([10, 300, 1500]))
        descs.append(("pm1", "pm1ser %d %s" % (t, cm), "pm1exp %d %s" % (t, cm)))
    for meth in ("lzs", "lz5"):
        for _ in range(per_method):
            cmds = ",".join("L%02x" % r.randrange(256) for _ in range(r.choice([1, 5, 40, 300])))
            descs.append((meth, "lzser %s %s" % (meth, cmds), "lzexp %s %s" % (meth, cmds)))
    for _ in range(per_method):
        cmds = ",".join(("L%02x" % r.randrange(65, 91)) if r.random() < 0.7 else "C%d.%d" % (r.randrange(64), r.randrange(3, 20))
                        for _ in range(r.choice([1, 5, 40, 300])))
        descs.append(("lh1", "lh1ser " + cmds, "lh1exp " + cmds))
    ser, _ = core.run_lines_parallel([lhv], [d[1] for d in descs])
    exp, _ = core.run_lines_parallel([lhv], [d[2] for d in descs])
    for (meth, _, _), s, e in zip(descs, ser, exp):
        s = s.split()[-1] if s.startswith("ok") else s
        if s in ("invalid", "bad-op") or e == "bad-op":
            continue
        comp = b"" if s == "-" else bytes.fromhex(s)
        data = b"" if e == "-" else bytes.fromhex(e)
        _pool.setdefault(meth, []).append((data, comp))


def assign_contents(r, entries):
    """give every file entry a method and content; returns dict id(entry)->compressed bytes"""
    comp = {}
    for e in entries:
        if e.kind != "file":
            continue
        k = r.random()
        if k < 0.45 or not _pool:
            e.method = r.choice([b"-lh0-", b"-lz4-", b"-pm0-"])
            # (the Mac epoch field is 32 bits: it ends in 2040)
            if r.random() < 0.3 and 100000 < e.mtime < 2_200_000_000 and b"/" not in e.path[-64:].split(b"/")[-1]:
                macbinary_member(r, e)
            comp[id(e)] = e.data
        else:
            meth = r.choice(sorted(_pool))
            data, c = r.choice(_pool[meth])
            e.method = ("-%s-" % meth).encode()
            e.data = data
            comp[id(e)] = c
    return comp


MAC_TIME_OFFSET = 2082844800


def macbinary_member(r, e):
    """turn file entry `e` into a MacLHA member: 128-byte MacBinary header + data fork + resource fork, padded to 128"""
    name = e.path.split(b"/")[-1][:63]
    kind = r.choice(["both", "data", "res", "empty", "decoy-name", "decoy-time", "decoy-len"])
    dl = 0 if kind in ("res", "empty") else r.choice([1, 100, 127, 128, 129, 300])
    rl = 0 if kind in ("data", "empty") else r.choice([1, 100, 127, 128, 129])
    data = bytes(r.randrange(256) for _ in range(dl))
    res = bytes(r.randrange(256) for _ in range(rl))
    h = bytearray(128)
    h[1] = len(name)
    h[2:2 + len(name)] = name
    h[0x41:0x49] = b"TEXTttxt"
    h[0x53:0x57] = dl.to_bytes(4, "big")
    h[0x57:0x5b] = rl.to_bytes(4, "big")
    skew = r.choice([0, 1, -1, 14 * 3600, -14 * 3600])
    if kind == "decoy-time":
        skew = r.choice([14 * 3600 + 1, -14 * 3600 - 1])
    h[0x5f:0x63] = ((e.mtime + skew + MAC_TIME_OFFSET) & 0xffffffff).to_bytes(4, "big")
    if kind == "decoy-name":
        h[2] ^= 1
    body = bytes(h) + data + res
    body += bytes((-len(body)) % 128)
    if kind == "decoy-len":
        body += bytes(128)
    e.os_type, e.level, e.method = 0x6d, 2, b"-lh0-"
    e.data = body
    e.visible = body if kind.startswith("decoy") else (data if dl > 0 else res)
    return kind


def vis(e):
    return getattr(e, "visible", e.data)


def encode_archive(entries, comp):
    out = b""
    for e in entries:
        out += T.encode_entry(e, (lambda m, d, e=e: comp[id(e)]) if e.kind == "file" else None)
    return out + b"\0"


# ---------------------------------------------------------------------------------------------
# independent oracle: the tree the property promises

def glob_match(pat, s):
    """'*' any run, '?' one byte, otherwise literal (case-sensitive)"""
    if not pat:
        return not s
    if pat[:1] == b"*":
        return any(glob_match(pat[1:], s[k:]) for k in range(len(s) + 1))
    return bool(s) and (pat[:1] == b"?" or pat[:1] == s[:1]) and glob_match(pat[1:], s[1:])


def selected(e, filters):
    return not filters or any(glob_match(f, e.path) for f in filters)


def hx(b):
    return b.hex() or "-"


def key_of(path_bytes):
    return "/726f6f74" + "".join("/" + hx(c) for c in path_bytes.split(b"/") if c)


def expected_tree(entries, opts, filters, pre, answers):
    """returns (listing string, aborted?) — see RULE. pre: list of (relpath, data) regular files 0644 mtime 1000"""
    tree = {}          # key -> desc
    flat = "i" in opts
    wdir = None
    for o in opts:
        if o.startswith("w"):
            wdir = bytes.fromhex(o[1:])
    policy = "all" if any(o in ("f", "q", "q0", "q1", "q2") for o in opts) else "prompt"
    ans = [l[:1] for l in answers.split(b"\n")] if answers else []
    touched_root = False
    aborted = False
    for rel, data in pre:
        tree[key_of(rel)] = "f644,1000,%d,%04x" % (len(data), E.crc16(data))
        parts = rel.split(b"/")
        for i in range(1, len(parts)):
            tree.setdefault(key_of(b"/".join(parts[:i])), "d755,1000")

    def parents(p):
        nonlocal touched_root
        comps = [c for c in p.split(b"/") if c][:-1]
        for i in range(1, len(comps) + 1):
            k = key_of(b"/".join(comps[:i]))
            if k not in tree:
                tree[k] = "d755,NOW"
                stamp_parent(b"/".join(comps[:i]))

    def stamp_parent(p):
        nonlocal touched_root
        comps = [c for c in p.split(b"/") if c][:-1]
        if not comps:
            touched_root = True
            return
        k = key_of(b"/".join(comps))
        if k in tree and tree[k].startswith("d"):
            mode = tree[k].split(",")[0]
            tree[k] = mode + ",NOW"

    finals = []      # directory metadata applied when the directory's contents are done (after everything below it)
    for e in entries:
        if aborted:
            break
        if not selected(e, filters):
            continue
        path = e.path.rstrip(b"/")
        if flat:
            if e.kind == "dir":
                continue
            path = path.split(b"/")[-1]
        if wdir is not None:
            path = wdir + b"/" + path
        k = key_of(path)
        if e.kind == "dir":
            parents(path)
            if k not in tree:
                stamp_parent(path)
            mode = (e.perms & 0o7777) if e.perms is not None else 0o755
            finals.append((k, "d%o,%s" % (mode, str(e.mtime) if e.mtime else "NOW")))
            tree[k] = "d700,NOW" if e.perms is not None else "d755,NOW"
        elif e.kind == "link":
            parents(path)
            stamp_parent(path)
            tree[k] = "l" + hx(e.target)
        else:
            if k in tree and not tree[k].startswith("d"):
                # existing file: overwrite policy
                if policy == "prompt":
                    decided = None
                    while decided is None:
                        if not ans:
                            aborted = True
                            break
                        a = ans.pop(0).lower()
                        if a == b"y":
                            decided = True
                        elif a in (b"n", b""):
                            decided = False
                        elif a == b"a":
                            decided, policy = True, "all"
                        elif a == b"s":
                            decided, policy = False, "skip"
                    if aborted:
                        break
                    if not decided:
                        continue
                elif policy == "skip":
                    continue
            parents(path)
            stamp_parent(path)
            mode = (e.perms & 0o7777) if e.perms is not None else 0o600
            tree[k] = "f%o,%s,%d,%04x" % (mode, str(e.mtime) if e.mtime else "NOW", len(vis(e)), E.crc16(vis(e)))
    for k, d in finals:
        if k in tree and tree[k].startswith("d"):
            tree[k] = d
    root = "d755,NOW" if touched_root else "d755,1000"
    items = [("/6f757473696465", "d755,1000"), ("/6f757473696465/63616e617279", "f644,1000,6,%04x" % E.crc16(b"canary")),
             ("/6f757473696465/737562", "d700,1000"),
             ("/726f6f74", root)] + list(tree.items())
    items.sort(key=lambda x: x[0])
    return ";".join(k + "=" + v for k, v in items), aborted


def expected_print(entries, opts, filters):
    out = b""
    quiet2 = any(o in ("q", "q2") for o in opts)
    flat = "i" in opts
    for e in entries:
        if not selected(e, filters):
            continue
        path = e.path
        if flat:
            path = b"" if e.kind == "dir" else path.split(b"/")[-1]
        if e.kind == "file":
            if not quiet2:
                out += b"::::::::\n" + path + b"\n::::::::\n"
            out += vis(e)
        elif e.kind == "link" and not quiet2:
            out += b"Symbolic Link " + path + b" -> " + e.target + b"\n"
    return out


# ---------------------------------------------------------------------------------------------

_cases = {}


def uniq_names(entries):
    seen = set()
    for e in entries:
        if e.kind != "dir":
            n = e.path.split(b"/")[-1]
            if n in seen:
                return False
            seen.add(n)
    return True


def gen_cases(ctx, n):
    r = ctx.rng
    if not _pool:
        fill_pool(r)
    out = []
    for i in range(n):
        while True:
            ents = T.rand_tree(r, maxdepth=r.choice([1, 2, 3, 4]), nfiles=r.choice([3, 6, 9]), dangerous=0.0, safe_links=0.15,
                               levels=r.choice([(2,), (2,), (1,), (0,), (0, 1, 2)]), readonly_dirs=0.5)
            # level-0/1 encodings in treegen carry times through DOS stamps only for level 1 with ext; keep Unix-style entries
            if ents:
                break
        long_paths = False
        want_long = r.random() < 0.1 or i < 4          # the first four cases of every run: long paths + wildcard arguments
        for e in ents:
            if e.kind == "dir" and e.level == 0:
                e.level = 2          # level-0 directory entries cannot carry a trailing separator portably
        implicit = None
        kk = r.random() if i >= 4 else 1.0          # (the first four cases are the long-path cases: explicit directories)
        if kk < 0.12 and any(e.kind != "dir" for e in ents):
            ents = [e for e in ents if e.kind != "dir"]                 # an archive without directory entries (LHA for DOS, LHarc)
            implicit = "nodirs"
        elif kk < 0.18:
            dirs = [e for e in ents if e.kind == "dir"]
            if dirs and len(ents) > 2:
                drop = r.choice(dirs)                                    # one directory entry missing: its contents make it implicitly
                ents = [e for e in ents if e is not drop]
                implicit = "onedrop"
        comp = assign_contents(r, ents)
        if i < 4:
            for e in ents:
                if e.kind == "file" and e.method == b"-lk7-":
                    e.method = b"-lh0-"          # LHark members are level 1 and cannot carry a long path: stored instead
                    comp[id(e)] = e.data
        for e in ents:
            if e.kind == "file" and e.method.startswith(b"-pm") and e.level == 0:
                e.level = 2          # level-0 headers of PMarc methods carry no Unix area (the parser ignores it by design)
            if e.kind == "file" and e.method == b"-lk7-":
                # LHark writes its members as "-lh7-" in a level-1 header with OS type ' '
                e.method, e.level, e.os_type = b"-lh7-", 1, 0x20
            if e.level == 0 and e.perms is None:
                e.level = 1          # a level-0 header carries the Unix time only inside the Unix area (with permissions)
        if want_long and not implicit and not any(getattr(e, "os_type", None) == 0x20 for e in ents):
            # LONG stored paths: the whole tree below two directories with long names, so that the members' paths straddle 255 / 256 /
            # 257 characters and more (what a fixed path buffer in the tool would cut); level-2 headers carry them
            d1 = bytes(r.choice(b"abcdefghijklmnopqrstuvwxyz0123456789") for _ in range(r.choice([60, 100, 120]) if i >= 4 else 120))
            d2 = bytes(r.choice(b"abcdefghijklmnopqrstuvwxyz0123456789") for _ in range(r.choice([90, 120, 124, 125, 126, 127, 128, 130]) if i >= 4 else 133 + i))
            chain = [T.Entry("dir", d1 + b"/", perms=0o40755, mtime=1_000_000_123, level=2),
                     T.Entry("dir", d1 + b"/" + d2 + b"/", perms=0o40750, mtime=1_000_000_456, level=2)]
            for e in ents:
                e.path = d1 + b"/" + d2 + b"/" + e.path
                e.level = 2
            ents = chain + ents
            long_paths = True
        k = r.random()
        opts, filters, pre, answers, cmd = [], [], [], b"", "x"
        if implicit:
            k = r.random() * 0.25          # plain extraction: the implicit-parents theorem's domain
        elif long_paths and (i < 4 or r.random() < 0.7):
            k = 0.6 + r.random() * 0.15    # wildcard arguments on long stored paths
        if k < 0.25:
            opts = [r.choice(["f", "q", "q0", "q1", "q2"])]
        elif k < 0.35:
            opts = ["f", "i"] if uniq_names(ents) else ["f"]
        elif k < 0.5:
            opts = ["f", "w" + r.choice([b"sub", b"sub/deeper", b"x.d"]).hex()]
            if r.random() < 0.35 and uniq_names(ents):
                opts.insert(1, "i")          # flatten INTO a relocation directory that does not exist yet
            if r.random() < 0.3:
                opts[0] = r.choice(["q", "q1", "q2"])
        elif k < 0.6:
            opts = ["f", "v"]
        elif k < 0.75:
            # wildcard arguments
            names = [e.path for e in ents]
            pats = []
            for _ in range(r.choice([1, 1, 2, 3])):
                nm = r.choice(names)
                kk = r.random()
                if kk < 0.3:
                    pats.append(nm)
                elif kk < 0.6:
                    j = r.randrange(len(nm) + 1)
                    pats.append(nm[:j] + b"*")
                elif kk < 0.8:
                    j = r.randrange(len(nm))
                    pats.append(nm[:j] + b"?" + nm[j + 1:])
                elif kk < 0.87:
                    pats.append(b"*" + nm[r.randrange(len(nm)):])
                else:
                    j = r.randrange(len(nm) + 1)
                    pats.append(r.choice([nm[:j] + b"**", nm + b"**", nm + b"***", b"**", nm[:j] + b"*?", nm[:j] + b"?*",
                                          nm[:j] + b"*" + nm[j:], nm[:j] + b"**" + nm[j:], b"?" * len(nm), b"?" * len(nm) + b"*?"]))
            filters = pats
            opts = ["f"]
        elif k < 0.9:
            # pre-existing files and prompt answers
            files = [e for e in ents if e.kind == "file" and b"/" not in e.path]     # top level: no pre-existing directories
            for e in r.sample(files, min(len(files), r.choice([1, 2, 3]))):
                pre.append((e.path, b"OLD-" + e.path))
            if not pre:
                pre = []
            answers = b"".join(r.choice([b"y\n", b"n\n", b"a\n", b"s\n", b"Y\n", b"N\n", b"\n", b"zzz\ny\n", b"A\n", b"S\n"])
                               for _ in range(len(pre) + 2))
            opts = r.choice([[], [], ["f"], ["q1"]])
        else:
            cmd = r.choice(["p", "p", "pq"])
            if r.random() < 0.4:
                nm = r.choice(ents).path
                filters = [nm[:r.randrange(len(nm) + 1)] + b"*"]
            opts = ["q"] if cmd == "pq" else []
            cmd = "p"
        as_root = r.random() < 0.5
        key = "x06 %d" % len(_cases)
        _cases[key] = dict(ents=ents, comp=comp, opts=opts, filters=filters, pre=pre, answers=answers, cmd=cmd, as_root=as_root, implicit=implicit)
        nd = sum(1 for e in ents if e.kind == "dir")
        nf = sum(1 for e in ents if e.kind == "file")
        tags = {"cmd=" + cmd, "root" if as_root else "nobody"} | {"opt=" + (o[0] if o.startswith("w") else o) for o in opts}
        if filters:
            tags.add("wildcards")
        if pre:
            tags.add("pre-existing")
        if implicit:
            tags.add("implicit-parents=" + implicit)
        tags |= {"m=" + e.method.decode() for e in ents if e.kind == "file"}
        if any(hasattr(e, "visible") for e in ents):
            tags.add("macbinary")
        out.append(Case(key, tags=tags, note="nt" if nd >= 1 and nf >= 2 else ""))
    return out


def prepare(ctx, env):
    lha, err = core.build_lha(ctx, sanitize=True)
    if lha is None:
        return "lha tool: " + err
    env["lha"] = lha
    vh, err = core.build_vh(ctx, ["tool", "cli"])
    if vh is None:
        return "harness (src/filter.c): " + err
    env["vh"] = vh
    ok, log = core.lake_build(["lhvt"])
    if not ok:
        return "hypothesis driver lhvt (imports the ExtractTree proofs): " + log[-1500:]
    env["lhvt"] = core.lhv_path() + "t"
    return None


GLOB_ALPH = b"ab*?/."


def glob_cases(r, n):
    """(pattern, string) pairs: exhaustive short ones over a small alphabet + random longer ones"""
    import itertools
    out = []
    pats = [bytes(t) for k in range(0, 4) for t in itertools.product(b"a*?", repeat=k)]
    strs = [bytes(t) for k in range(0, 4) for t in itertools.product(b"ab", repeat=k)]
    for p in pats:
        for s_ in strs:
            out.append((p, s_))
    for _ in range(n):
        s_ = bytes(r.choice(b"ab/.") for _ in range(r.randrange(0, 12)))
        k = r.random()
        if k < 0.5:      # derive the pattern from the string: mostly matching
            p = bytearray()
            for ch in s_:
                kk = r.random()
                if kk < 0.15:
                    p += b"?"
                elif kk < 0.3:
                    p += b"*" * r.choice([1, 1, 2, 3])
                    if r.random() < 0.5:
                        p.append(ch)
                elif kk < 0.35:
                    pass
                else:
                    p.append(ch)
            p += b"*" * r.choice([0, 0, 0, 1, 2, 3])
            p = bytes(p)
        else:
            p = bytes(r.choice(GLOB_ALPH) for _ in range(r.randrange(0, 9)))
        out.append((p, s_))
    return out


def cli_cases(r, n):
    """command arguments: every letter pair exhaustively over a small alphabet + random longer ones"""
    import itertools
    alph = b"xelvtpfinqw=-019a"
    out = [bytes(t) for k in range(0, 3) for t in itertools.product(alph, repeat=k)]
    for _ in range(n):
        k = r.random()
        if k < 0.6:      # mostly valid
            c = r.choice([b"", b"-"]) + bytes([r.choice(b"xelvtp")])
            for _ in range(r.randrange(0, 6)):
                c += r.choice([b"f", b"i", b"n", b"v", b"q", b"q0", b"q1", b"q2", b"q9", b"qf", b"qq"])
            if r.random() < 0.3:
                c += b"w" + r.choice([b"", b"=", b"==", b"=d", b"d", b"=out/dir", b"fq", b"=w=f"])
            out.append(c)
        else:
            out.append(bytes(r.choice(alph) for _ in range(r.randrange(1, 8))))
    return out


def cli_oracle(cmd):
    """what the usage text promises: [-]{lvtxep}[q{num}][finv][w=<dir>]"""
    if cmd[:1] == b"-":
        cmd = cmd[1:]
    if not cmd or cmd[:1] not in b"lvtxep":
        return "fail"
    mode = {b"l": "l", b"v": "v", b"t": "t", b"x": "x", b"e": "x", b"p": "p"}[cmd[:1]]
    ow = quiet = verbose = dry = 0
    usepath = 1
    path = "none"
    i = 1
    while i < len(cmd):
        c = cmd[i:i + 1]
        if c == b"f":
            ow = 1
        elif c == b"i":
            usepath = 0
        elif c == b"n":
            dry = 1
        elif c == b"v":
            verbose = 1
        elif c == b"q":
            ow = 1
            if cmd[i + 1:i + 2].isdigit():
                quiet = int(cmd[i + 1:i + 2]); i += 1
            else:
                quiet = 2
        elif c == b"w":
            d = cmd[i + 1:]
            if d[:1] == b"=":
                d = d[1:]
            path = hx(d)
            break
        else:
            return "fail"
        i += 1
    return "ok mode=%s ow=%d quiet=%d verbose=%d dry=%d usepath=%d path=%s" % (mode, ow, quiet, verbose, dry, usepath, path)


def run_cli(ctx, env, cmds):
    """three-way: parse_command_line (C, src/main.c) = Cli.parseCommandLine (model) = the usage grammar (oracle)"""
    ops = ["cli " + hx(c) for c in cmds if c]
    cmds = [c for c in cmds if c]
    c_out, _ = core.run_lines_parallel([env["vh"], "20"], ops)
    m_out, _ = core.run_lines_parallel([env["lhv"]], ops) if env.get("lhv") else (None, None)
    conc, corr = [], []
    for i, c in enumerate(cmds):
        want = cli_oracle(c)
        rec = {"op": ops[i], "c_out": c_out[i], "tags": ["cli"], "desc": "command argument %r" % c, "opts": [], "filters": []}
        if m_out is not None:
            rec["model_out"] = m_out[i]
        if c_out[i] != want:
            rec["why"] = "command argument %r: the tool parses it as [%s], the documented option grammar gives [%s]" % (c, c_out[i], want)
            rec["sig"] = "cli-options"
            conc.append(rec)
        elif m_out is not None and m_out[i] != c_out[i]:
            rec["why"] = "model and implementation disagree"
            corr.append(rec)
    return conc, corr


def run_globs(ctx, env, pairs):
    """three-way: match_glob (C) = matchGlob (model) = GlobSpec (specification) = glob_match (oracle)"""
    ops = ["globm %s %s" % (hx(p), hx(s_)) for p, s_ in pairs]
    c_out, _ = core.run_lines_parallel([env["vh"], "20"], ops)
    m_out, _ = core.run_lines_parallel([env["lhv"]], ops) if env.get("lhv") else (None, None)
    s_out, _ = core.run_lines_parallel([env["lhv"]], ["globs %s %s" % (hx(p), hx(s_)) for p, s_ in pairs]) if env.get("lhv") else (None, None)
    conc, corr = [], []
    for i, (p, s_) in enumerate(pairs):
        want = "1" if glob_match(p, s_) else "0"
        rec = {"op": ops[i], "c_out": c_out[i], "tags": ["glob"], "desc": "pattern %r string %r" % (p, s_), "opts": [], "filters": [p.decode("latin1")]}
        if s_out is not None:
            rec["spec_out"] = s_out[i]
            rec["model_out"] = m_out[i]
        if c_out[i] != want or (s_out is not None and s_out[i] != want):
            rec["why"] = "wildcard %r %s %r: match_glob says %s, the glob semantics ('*' any run, '?' one byte) say %s" % (
                p, "vs", s_, c_out[i], want)
            rec["sig"] = "glob-semantics"
            conc.append(rec)
        elif m_out is not None and m_out[i] != c_out[i]:
            rec["why"] = "model and implementation disagree"
            corr.append(rec)
    return conc, corr


def run_case(ctx, env, c):
    d = _cases[c.op]
    arch = encode_archive(d["ents"], d["comp"])
    optstr = ",".join(d["opts"]) or "-"
    fl = ",".join(hx(f) for f in d["filters"]) or "-"
    pre_sb = [("f", p, data) for p, data in d["pre"]]
    pre_m = ",".join("f:%s:%s" % (hx(p), hx(data)) for p, data in d["pre"]) or "-"
    res = SB.run_extract(env["lha"], ctx.tmp, arch, d["opts"], pre=pre_sb, answers=d["answers"], as_root=d["as_root"],
                         cmd=d["cmd"], extra_args=list(d["filters"]))
    why = None
    if res["verdict"] != "ok":
        why = "tool crashed: " + res["verdict"]
    elif d["cmd"] == "p":
        exp = expected_print(d["ents"], d["opts"], d["filters"])
        if res["stdout"] != exp:
            why = "print command: standard output is not banner + contents of the selected files (%d bytes, expected %d)" % (
                len(res["stdout"]), len(exp))
        elif res["rc"] != 0:
            why = "print command failed (exit status %d)" % res["rc"]
        c_out = "rc=%d stdout=%s" % (res["rc"], hx(res["stdout"]))
    if d["cmd"] != "p":
        exp, aborted = expected_tree(d["ents"], d["opts"], d["filters"], d["pre"], d["answers"])
        c_out = "rc=%d %s" % (res["rc"], res["listing"])
        if why is None and res["listing"] != exp:
            a = dict(x.split("=", 1) for x in res["listing"].split(";"))
            b = dict(x.split("=", 1) for x in exp.split(";"))
            diff = sorted(k for k in set(a) | set(b) if a.get(k) != b.get(k))[:4]
            why = "extracted tree differs from the archived tree at " + "; ".join(
                "%s: got %s, expected %s" % (bytes.fromhex(k.replace("/", "2f")).decode("latin1"), a.get(k), b.get(k)) for k in diff)
        elif why is None and not aborted and res["rc"] != 0:
            why = "extraction reported failure (exit status %d) although every member was extracted" % res["rc"]
    mop = "xrun2 %s %s %d %s %s %s %s %s" % (d["cmd"], optstr, 1 if d["as_root"] else 0, hx(res["abs_prefix"]), hx(d["answers"]),
                                           pre_m, fl, arch.hex())
    top = tree_op(d, arch, res["abs_prefix"]) if in_theorem_domain(d) else \
        (tree2_op(d, arch, res["abs_prefix"]) if option_theorem_kind(d) else
         (tree3_op(d, arch, res["abs_prefix"]) if overwrite_theorem_case(d) else None))
    return {"why": why, "c_out": c_out, "rc": res["rc"], "listing": res["listing"], "stdout": res["stdout"], "model_op": mop,
            "stderr": res["stderr"][:200], "cmd": d["cmd"], "tree_op": top}


THEOREM_OPTS = {"f", "q", "q0", "q1", "q2", "v"}


def in_theorem_domain(d):
    """the hypotheses of Props.C06.run_tree_partial that are about the invocation: `lha x`, no w=/i, no wildcard arguments,
    empty extraction directory"""
    return d["cmd"] == "x" and not d["filters"] and not d["pre"] and all(o in THEOREM_OPTS for o in d["opts"])


def entry_desc(e):
    path = hx(e.path.rstrip(b"/"))
    pm = "-" if e.perms is None else str(e.perms & 0xffff)
    if e.kind == "dir":
        return "d:%s:%s:%d" % (path, pm, e.mtime)
    if e.kind == "link":
        return "l:%s:%s" % (path, hx(e.target))
    return "f:%s:%s:%s:%d" % (path, hx(vis(e)), pm, e.mtime)


def option_theorem_kind(d):
    """which option theorem of Props/C06 covers this invocation: 'sel' (wildcards), 'reloc' (w=DIR), 'flat' (i), or None"""
    if d["cmd"] != "x" or d["pre"]:
        return None
    plain = [o for o in d["opts"] if o in THEOREM_OPTS]
    w = [o for o in d["opts"] if o.startswith("w")]
    flat = "i" in d["opts"]
    if len(plain) + len(w) + (1 if flat else 0) != len(d["opts"]):
        return None
    if d["filters"] and not w and not flat:
        return "sel"
    if w and not d["filters"] and not flat:
        return "reloc"
    if flat and not w:
        return "flat"
    return None


def overwrite_theorem_case(d):
    """plain `lha x` with pre-existing files: the domain of Props.C06.overwrite_policy"""
    return d["cmd"] == "x" and d["pre"] and not d["filters"] and all(o in THEOREM_OPTS for o in d["opts"])


def tree3_op(d, arch, abs_prefix):
    pre_m = ",".join("f:%s:%s" % (hx(p), hx(data)) for p, data in d["pre"]) or "-"
    return "xtree3 %s %d %s %s %s %s %s" % (",".join(d["opts"]) or "-", 1 if d["as_root"] else 0, hx(abs_prefix), hx(d["answers"]), pre_m,
                                            ",".join(entry_desc(e) for e in d["ents"]) or "-", arch.hex())


def tree2_op(d, arch, abs_prefix):
    return "xtree2 %s %d %s %s %s %s" % (",".join(d["opts"]) or "-", 1 if d["as_root"] else 0, hx(abs_prefix),
                                         ",".join(hx(f) for f in d["filters"]) or "-",
                                         ",".join(entry_desc(e) for e in d["ents"]) or "-", arch.hex())


def tree_op(d, arch, abs_prefix):
    if d.get("implicit"):
        return "xtree4 %s %d %s %s %s" % (",".join(d["opts"]) or "-", 1 if d["as_root"] else 0, hx(abs_prefix),
                                          ",".join(entry_desc(e) for e in d["ents"]) or "-", arch.hex())
    return "xtree %s %d %s %s %s" % (",".join(d["opts"]) or "-", 1 if d["as_root"] else 0, hx(abs_prefix),
                                     ",".join(entry_desc(e) for e in d["ents"]) or "-", arch.hex())


def evaluate(ctx, env, cases, with_model):
    cases = [c for c in cases if c.op in _cases]
    with ThreadPoolExecutor(core.JOBS) as ex:
        rs = list(ex.map(lambda c: run_case(ctx, env, c), cases))
    conc, corr = [], []
    mouts = {}
    if env.get("lhv") and with_model:
        mo, _ = core.run_lines_parallel([env["lhv"]], [r["model_op"] for r in rs])
        mouts = dict(enumerate(mo))
    touts = {}
    if env.get("lhvt") and with_model:
        idx = [i for i, r in enumerate(rs) if r["tree_op"]]
        to, _ = core.run_lines_parallel([env["lhvt"]], [rs[i]["tree_op"] for i in idx])
        touts = dict(zip(idx, to))
    gpairs = glob_cases(ctx.rng, 4000 if ctx.tier == "quick" else 100000) if env.get("vh") else []
    if gpairs:
        gc, gr = run_globs(ctx, env if with_model else {**env, "lhv": env.get("lhv")}, gpairs)
        conc += gc
        corr += gr
        ctx.dist["glob-pairs"] += len(gpairs)
        ctx.dist["glob-matching"] += sum(1 for p, s_ in gpairs if glob_match(p, s_))
        ccmds = cli_cases(ctx.rng, 600 if ctx.tier == "quick" else 20000)
        cc, cr = run_cli(ctx, env, ccmds)
        conc += cc
        corr += cr
        ctx.dist["cli-arguments"] += len(ccmds)
        ctx.dist["cli-accepted"] += sum(1 for c in ccmds if c and cli_oracle(c) != "fail")
    for i, (c, r) in enumerate(zip(cases, rs)):
        rec = {"op": r["model_op"][:6000], "c_out": r["c_out"][:3000], "tags": sorted(c.tags), "stderr": r["stderr"],
               "desc": repr(_cases[c.op]["ents"])[:1500], "opts": _cases[c.op]["opts"], "filters": [f.decode("latin1") for f in _cases[c.op]["filters"]]}
        if i in mouts:
            rec["model_out"] = mouts[i][:3000]
        if r["why"]:
            rec["why"] = r["why"]
            rec["sig"] = signature(c, r["c_out"], r["why"])
            conc.append(rec)
        elif i in mouts:
            m = mouts[i]
            if r["cmd"] == "p":
                ok = m == "stdout=" + hx(r["stdout"])
            else:
                mfs = re.search(r"fs=(\S*)", m)
                mres = re.search(r"res=(\d)", m)
                ok = mfs is not None and mfs.group(1) == r["listing"] and (mres.group(1) == "1") == (r["rc"] == 0)
            if not ok:
                rec["why"] = "model and implementation disagree"
                corr.append(rec)
        if i in touts and not r["why"]:
            # the theorem run_tree_partial on this very archive: hypotheses evaluated by lhvt, conclusion compared with the real tree
            t = touts[i]
            if t.startswith("kind="):
                # an option theorem (extract_selected / extract_relocated / extract_flattened): when its decidable hypotheses hold
                # for this generated case, the tree it promises must be the real tool's tree
                m2 = re.match(r"kind=(\w+) hyp=([01]) (?:abort=[01] )?tree=(\S*)$", t)
                if m2 is None:
                    corr.append(dict(rec, why="TIE: hypothesis driver output not understood: " + t[:200]))
                    continue
                kind = m2.group(1)
                ctx.dist["option-theorem-%s-cases" % kind] += 1
                if m2.group(2) == "1":
                    ctx.dist["option-theorem-%s-hyp-holds" % kind] += 1
                    real = sorted(x for x in r["listing"].split(";") if x.startswith("/726f6f74/"))
                    mab = re.search(r" abort=([01]) ", t)
                    rc_ok = (r["rc"] == 0) if mab is None else ((r["rc"] != 0) == (mab.group(1) == "1"))
                    if sorted(x for x in m2.group(3).split(";") if x) != real or not rc_ok:
                        corr.append(dict(rec, why="TIE: the tree promised by the option theorem of Props.C06 (%s) differs from the tree the real "
                                         "tool produced" % kind, tree_out=t[:3000]))
                    else:
                        ctx.dist["option-theorem-%s-confirmed" % kind] += 1
                continue
            ctx.dist["theorem-domain-cases"] += 1
            hyp = re.match(r"opts=1 wf=1 fuel=1 den=1 tree=(\S*)$", t)
            real = sorted(x for x in r["listing"].split(";") if x.startswith("/726f6f74/"))
            if hyp is None:
                rec2 = dict(rec, why="TIE: hypotheses of Props.C06.run_tree_partial do not hold for a generated directory-first archive: " + t[:200],
                            tree_out=t[:3000])
                corr.append(rec2)
            elif sorted(x for x in hyp.group(1).split(";") if x) != real or r["rc"] != 0:
                rec2 = dict(rec, why="TIE: the tree promised by Props.C06.run_tree_partial (treeOf) differs from the tree the real tool produced",
                            tree_out=t[:3000])
                corr.append(rec2)
            else:
                ctx.dist["theorem-conclusion-confirmed"] += 1
    return conc, corr, {"evaluations": len(cases) + len(gpairs)}


def case_from_replay(rec):
    return Case("replay-unsupported")


def nontrivial(c):
    return bool(c.note)


def signature(case, c_out, why):
    return re.sub(r"[^a-zA-Z]+", "-", why)[:40]


LEVEL_TEXT = ("Lean theorems: extraction of a well-formed archive yields exactly the archived tree (every path, modes, times, link targets, "
              "two-stage directories; root and ordinary user); the wildcard matcher equals its specification for every pattern and string; path construction; the "
              "file-system model of the whole extraction (Fs + Extract + Reader) is tied to the real tool by complete-tree and stdout "
              "comparison, and the real tool's tree is judged against an independent oracle of the archived tree (root and non-root).")
LEVEL_NOTE = ("Partial: the file system is a model (no hard links, chown, whole-second times); tree equality is PROVED end to end on archive "
              "bytes for plain `lha x` of well-formed trees with explicit parent entries (extract_reproduces_tree: header encoder + stored/"
              "-lzs-/-lz5- members; run_tree_partial for any archive that denotes the tree) and checked by correspondence for options "
              "nested pre-existing files / pre-existing directories / byte-exact LHark headers. Implicit parents and mixed archives are proved (extract_implicit_parents, extract_mixed). Options i, w=DIR and parent-closed wildcard "
              "selections are proved (extract_flattened, extract_relocated, extract_selected), all eleven other methods too. See evidence.theorems.")
TECHNIQUE = ("Lean 4 proof (whole-tree theorem over the Fs/Extract/Reader models by loop invariant; glob semantics; MacBinary) + "
             "hypothesis evaluation on generated archives + file-system-model correspondence + independent tree oracle")
