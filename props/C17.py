"""C17 — the checksum routine is CRC-16/ARC for every buffer and every split."""
from vlib.core import Case

ID = "C17"
LEAN_MODULES = ["LhasaV.Props.C17"]
VH_FEATURES = []
THEOREMS = {
    "crc_step_eq": "full: all 2^24 (state, byte) pairs, by proof (256-entry table fact + linearity)",
    "crc_buf_eq_ref": "full: every start value, every buffer",
    "crc_is_arc": "full",
    "crc_append": "full: every split point",
    "crc_pieces": "full: every number of pieces",
}
TRUSTED = ["gen/ext_crc.c + gcc: crc16_table is extracted by compiling lib/crc16.c",
           "hand-written model LhasaV.Model.Crc of the 6-line loop of lha_crc16_buf; tied by the differential run",
           "spec LhasaV.Spec.Crc (bitwise CRC-16/ARC, poly 0xA001, init 0, no xorout)"]
ASSUMPTIONS = ["the loop of lha_crc16_buf is modelled by hand; the table is regenerated from the source"]
RULE = ("random buffers (length 0..300, geometric), random start value, random piece schedule; plus all 256 "
        "single-byte buffers from state 0 and from a random state (hits every table entry); whole and split buffers of 4095..300001 bytes (thorough: to 1 MiB). C result must equal "
        "the bitwise spec (crcref) and the table model. non-trivial: length >= 2 and at least one split")


def budget(tier):
    return 3000 if tier == "quick" else 400000


def _mk(c, bs, ks, tags):
    hexs = bytes(bs).hex() or "-"
    kstr = ",".join(map(str, ks)) or "-"
    return Case("crc %04x %s %s" % (c, hexs, kstr), spec="crcref %04x %s" % (c, hexs), tags=tags)


def gen_cases(ctx, n):
    r = ctx.rng
    out = []
    s = r.randrange(65536)
    for b in range(256):
        out.append(_mk(0, [b], [], {"single-byte"}))
        out.append(_mk(s, [b], [], {"single-byte"}))
    big = [4095, 4096, 4097, 8193, 65537, 262143, 262144, 262145, 300001] if n < 10000 else \
          [4095, 4096, 4097, 8193, 65536, 65537, 131073, 262143, 262144, 262145, 300001, 524289, 1048579]
    for ln in big:
        bs = [r.randrange(256) for _ in range(ln)]
        out.append(_mk(r.randrange(65536), bs, [], {"len=4096+", "pieces=0"}))
        out.append(_mk(0, bs, [r.randrange(ln), 0, 1], {"len=4096+", "pieces=3"}))
    # data followed by ITS OWN CRC (low byte first) and zero padding, the CRC field at every alignment 0..7 from the start of the call:
    # the residue is 0x0000 and stays 0 through the zeros (word-at-a-time rewrites fold the running CRC into the next bytes – a
    # folded word of zero is NOT always "zero bytes on a zero CRC"); also with a non-zero start value and the field at offset 0
    from vlib import lhaenc as _E

    def _crc(init, bs):
        c = init
        for b in bs:
            c ^= b
            for _ in range(8):
                c = (c >> 1) ^ 0xA001 if c & 1 else c >> 1
        return c
    for _ in range(120):
        init = r.choice([0, 0, r.randrange(1, 65536)])
        pre = [r.randrange(256) for _ in range(r.choice([0, 0, 1, 2, 3, 4, 5, 6, 7, 8, 12, 16, 60, 64, 255, 256]))]
        c = _crc(init, pre)
        bs = pre + [c & 255, c >> 8] + [0] * r.choice([2, 2, 6, 14]) + [r.randrange(256) for _ in range(r.choice([0, 0, 3, 9]))]
        ks = r.choice([[], [], [], [1], [len(pre)], [len(pre) + 2]])
        out.append(_mk(init, bs, ks, {"own-crc-then-zeros", "field-offset%%4=%d" % (len(pre) % 4)}))
    # the accumulator inside the buffer (a record summed in place with its own CRC field): the bytes of the call are the
    # buffer as it stands at the call, the field holding the start value (little-endian on the platforms the harness runs on)
    import sys as _sys
    for _ in range(60 if _sys.byteorder == "little" else 0):
        ln = r.choice([2, 4, 16, 64, 65, 300])
        bs = [r.randrange(256) for _ in range(ln)]
        off = 2 * r.randrange(0, (ln - 2) // 2 + 1)
        c = r.choice([0, 0xffff, r.randrange(65536)])
        bs[off], bs[off + 1] = c & 255, c >> 8
        out.append(Case("crca %04x %s %x" % (c, bytes(bs).hex(), off), spec="crcref %04x %s" % (c, bytes(bs).hex()),
                        tags={"c-only", "aliased-accumulator"}))
    while len(out) < n:
        ln = min(int(r.expovariate(1 / 40.0)), 4000) if r.random() < 0.9 else r.randrange(0, 3)
        bs = [r.randrange(256) for _ in range(ln)]
        c = r.choice([0, 0, 0xffff, r.randrange(65536)])
        ks = []
        rem = ln
        while rem > 0 and r.random() < 0.6:
            k = r.randrange(0, rem + 1)
            ks.append(k)
            rem -= k
        if r.random() < 0.5:
            # empty pieces anywhere (the harness passes those at odd positions as (NULL, 0), the others as (pointer, 0))
            for _ in range(r.choice([1, 1, 2, 3])):
                ks.insert(r.randrange(len(ks) + 1), 0)
        tags = {"len=%s" % ("0" if ln == 0 else "1" if ln == 1 else "2-15" if ln < 16 else "16-255" if ln < 256 else "256+"),
                "pieces=%d" % min(len(ks), 4)}
        if 0 in ks:
            tags.add("empty-piece")
        out.append(_mk(c, bs, ks, tags))
    return out


def nontrivial(c):
    t = c.op.split()
    return len(t[2]) >= 4 and t[3] != "-" and t[0] == "crc"


def signature(case, c_out, why):
    return "crc-mismatch"

LEVEL_TEXT = ("Kernel-checked Lean theorems: for every 16-bit state and byte the table step equals the bitwise "
              "CRC-16/ARC step (hence all 2^24 pairs and every buffer), and piecewise = whole for every split. The "
              "table is regenerated from lib/crc16.c on every run; the 6-line loop is tied by a differential run.")
LEVEL_NOTE = ("Trusted: Lean kernel; axioms propext, Classical.choice, Quot.sound; gen/ext_crc.c; the hand model of the "
              "loop in lha_crc16_buf (validated differentially against the compiled C on every run).")
TECHNIQUE = "Lean 4 proof (table fact by kernel decide + GF(2) linearity) + regenerated table + differential correspondence"
