"""C12 — headers failing their own checksum, CRC or length rules are never returned."""
from vlib.core import Case
from vlib import hdrgen as G, lhaenc as E

ID = "C12"
LEAN_MODULES = ["LhasaV.Props.C12"]
VH_FEATURES = ["header"]
THEOREMS = {"accept_sound": "full: every input byte string, every level incl. the common-CRC clause",
            "bad_header_not_returned": "full (contrapositive)", "accept_has_name": "full", "read_consumes": "full",
            "short_input_rejected": "full"}
TRUSTED = ["spec LhasaV.Spec.Integrity (the integrity rules written from the format description, independent of the parser model)",
           "hand-written parser model LhasaV.Model.Header, tied to the C by the differential run"]
ASSUMPTIONS = ["input bytes are presented at the header start (the SFX scan is C16's subject)"]
RULE = ("generated well-formed headers of every level (random typed fields and extended headers, common CRC present or not); for each: "
        "all 255 substitutions at every byte position, every truncation, +-k perturbations of every length field, plus the unmodified header. "
        "Judge: if the C parser returns a header then Spec.Integrity.ok(bytes) must be true; and C = parser model on every case. "
        "non-trivial: the perturbed header differs from a well-formed one in a length, checksum, CRC or level byte")


def budget(tier):
    return 10 if tier == "quick" else 300     # base headers


def sj(c_out, s_out):
    if c_out.startswith(("CRASH", "TIMEOUT")):
        return "implementation crashed: " + c_out[:120]
    if c_out.startswith("ok ") and s_out != "1":
        return "a header was returned although it fails the integrity rules (spec says %s)" % s_out
    return None


def mk(hb, tags, note=None):
    hx = hb.hex() or "-"
    return Case("hdr " + hx, spec="integ " + hx, spec_judge=sj, tags=tags, note=note)


def gen_cases(ctx, nbase):
    r = ctx.rng
    out = []
    for bi in range(nbase):
        f = G.rand_fields(r, level=bi % 4)
        # keep them small so that the exhaustive substitution stays cheap
        if len(f.name) > 24:
            f.name = f.name[:24]
        f.exts = f.exts[:4]
        hb = E.encode(f)
        tail = bytes(r.randrange(256) for _ in range(6))
        lvl = "L%d" % f.level
        out.append(mk(hb + tail, {lvl, "unmodified"}))
        for pos in range(len(hb)):
            orig = hb[pos]
            crit = pos in (0, 1, 20, 21) or (f.level >= 2 and pos in (24, 25, 26, 27, 28, 29, 30, 31))
            for v in range(256):
                if v == orig:
                    continue
                m = bytearray(hb)
                m[pos] = v
                out.append(mk(bytes(m) + tail, {lvl, "subst", "crit" if crit else "other"}, note="crit" if crit else None))
        for cut in range(len(hb)):
            out.append(mk(hb[:cut], {lvl, "truncated"}, note="crit"))
        # perturb length fields and re-fix the level-0/1 checksum so that the length rule itself is exercised
        for delta in (-3, -2, -1, 1, 2, 3, 7):
            m = bytearray(hb)
            if f.level in (0, 1):
                m[0] = (m[0] + delta) % 256
                out.append(mk(bytes(m) + tail, {lvl, "len-perturbed"}, note="crit"))
                m2 = bytearray(m)
                l = m2[0]
                m2[1] = sum(m2[2:2 + l]) & 0xff
                out.append(mk(bytes(m2) + tail, {lvl, "len-perturbed+csum"}, note="crit"))
                m3 = bytearray(hb)
                m3[21] = (m3[21] + delta) % 256
                m3[1] = sum(m3[2:2 + m3[0]]) & 0xff
                out.append(mk(bytes(m3) + tail, {lvl, "namelen-perturbed+csum"}, note="crit"))
            elif f.level == 2:
                v = (int.from_bytes(m[0:2], "little") + delta) % 65536
                m[0:2] = v.to_bytes(2, "little")
                out.append(mk(bytes(m) + tail, {lvl, "len-perturbed"}, note="crit"))
                out.append(mk(hb[:len(hb) + min(delta, 0)] + (tail if delta > 0 else b""), {lvl, "cut/grown"}, note="crit"))
            else:
                v = (int.from_bytes(m[24:28], "little") + delta) % 2 ** 32
                m[24:28] = v.to_bytes(4, "little")
                out.append(mk(bytes(m) + tail, {lvl, "len-perturbed"}, note="crit"))
        # the stored common CRC replaced by special values (0x0000, 0xffff, complement, byte-swapped, +-1): the header's own CRC rule
        if f.level >= 1 and f.common_crc:
            fs = 4 if f.level == 3 else 2
            exts2 = list(f.exts)
            exts2.insert(min(f.common_pos, len(exts2)), (E.EXT_COMMON, b"\0\0" + f.common_extra))
            start = {1: len(hb) - sum(len(d) + 1 + fs for _, d in exts2) - 2, 2: 24, 3: 28}[f.level]
            off = start
            for (t, d) in exts2:
                if t == E.EXT_COMMON:
                    cpos = off + fs + 1
                    true = int.from_bytes(hb[cpos:cpos + 2], "little")
                    for v in {0, 0xffff, true ^ 0xffff, ((true & 0xff) << 8) | (true >> 8), (true + 1) & 0xffff, (true - 1) & 0xffff,
                              true & 0xff, true & 0xff00}:
                        if v == true:
                            continue
                        m = bytearray(hb)
                        m[cpos:cpos + 2] = v.to_bytes(2, "little")
                        out.append(mk(bytes(m) + tail, {lvl, "common-crc-special"}, note="crit"))
                    break
                off += len(d) + 1 + fs
        # extended-header size perturbations (with the common CRC recomputed where there is none to protect it)
        if f.level >= 1 and f.exts:
            g = f.copy()
            g.common_crc = False
            hb2 = E.encode(g)
            fs = 4 if f.level == 3 else 2
            start = {1: len(hb2) - sum(len(d) + 1 + fs for _, d in g.exts) - 2, 2: 24, 3: 28}[f.level]
            off = start
            for (t, d) in g.exts:
                for delta in (-4, -2, -1, 1, 2, 3, 4, 5):
                    m = bytearray(hb2)
                    v = (int.from_bytes(m[off:off + fs], "little") + delta) % (2 ** (8 * fs))
                    m[off:off + fs] = v.to_bytes(fs, "little")
                    if f.level == 1:
                        m[1] = sum(m[2:2 + m[0]]) & 0xff
                    out.append(mk(bytes(m) + tail, {lvl, "extsize-perturbed"}, note="crit"))
                off += len(d) + 1 + fs
            if f.level == 1:
                # the level-1 skip-size field (extended headers + data) set BELOW the size of the extended headers that follow, checksum
                # re-fixed: the chain points outside what the header says belongs to the member – must not be returned (independent judge)
                ext_total = sum(len(d) + 1 + fs for _, d in g.exts)
                for v in sorted({0, 1, ext_total - 1, ext_total - 2, ext_total // 2, r.randrange(ext_total)}):
                    if v < 0 or v >= ext_total:
                        continue
                    m = bytearray(hb2)
                    m[7:11] = v.to_bytes(4, "little")
                    m[1] = sum(m[2:2 + m[0]]) & 0xff
                    c = mk(bytes(m) + tail, {lvl, "skip-size<ext-chain"}, note="crit")
                    c.spec_judge = (lambda co, so: ("implementation crashed: " + co[:100]) if co.startswith(("CRASH", "TIMEOUT")) else
                                    "a level-1 header whose skip size does not even cover its own extended headers was returned" if co.startswith("ok ") else None)
                    out.append(c)
            for delta in (1, 2, 3, 4, 5):
                out.append(mk(hb2[:len(hb2) - delta], {lvl, "cut-no-crc"}, note="crit"))
                if f.level >= 2:
                    m = bytearray(hb2[:len(hb2) - delta])
                    if f.level == 2:
                        m[0:2] = (len(m)).to_bytes(2, "little")
                    else:
                        m[24:28] = (len(m)).to_bytes(4, "little")
                    out.append(mk(bytes(m), {lvl, "cut-no-crc+len"}, note="crit"))
    # (the skip-size rule on dedicated level-1 headers that certainly carry extended headers)
    for _ in range(6):
        g = G.rand_fields(r, level=1)
        g.name = g.name[:24]
        g.exts = (g.exts[:3] or [(0x7e, b"xyz")])
        g.common_crc = False
        hb2 = E.encode(g)
        tail = bytes(r.randrange(256) for _ in range(6))
        ext_total = sum(len(d) + 3 for _, d in g.exts)
        out.append(mk(hb2 + tail, {"L1", "unmodified"}))
        for v in sorted({0, 1, ext_total - 1, ext_total - 2, ext_total // 2, r.randrange(ext_total)}):
            if 0 <= v < ext_total:
                m = bytearray(hb2)
                m[7:11] = v.to_bytes(4, "little")
                m[1] = sum(m[2:2 + m[0]]) & 0xff
                c = mk(bytes(m) + tail, {"L1", "skip-size<ext-chain"}, note="crit")
                c.spec_judge = (lambda co, so: ("implementation crashed: " + co[:100]) if co.startswith(("CRASH", "TIMEOUT")) else
                                "a level-1 header whose skip size does not even cover its own extended headers was returned" if co.startswith("ok ") else None)
                out.append(c)
    # the common CRC header FOLLOWED by each other extended-header type (and preceded by it): whatever a later header's decoder does to the
    # header object, the whole-header CRC must still be checked - one byte of the later header's data is substituted, CRC left alone
    known = [(0x01, b"name.txt"), (0x02, b"dir\xff"), (0x41, bytes(24)), (0x50, (0o100644).to_bytes(2, "little")), (0x51, bytes(4)),
             (0x52, b"grp"), (0x53, b"usr"), (0x54, (1000000000).to_bytes(4, "little")), (0xcc, bytes(range(1, 13))), (0x7e, b"xyz"),
             (0x40, b"\x20\x00"), (0xff, bytes(6))]
    for lvl in (1, 2, 3):
        for (t, dat) in known:
            for cpos in (0, 1):
                f = E.Fields(level=lvl, method=b"-lh0-", clen=0, length=0, crc=0, os_type=r.choice([0x55, 0x39, 0x4d]),
                             name=b"n" if lvl == 1 else b"", time=0x3c210000 if lvl == 1 else 1000000000,
                             exts=[(t, dat)] + ([(0x01, b"f")] if t != 0x01 and lvl > 1 else []), common_crc=True)
                f.common_pos = cpos
                hb = E.encode(f)
                tail = bytes(r.randrange(256) for _ in range(4))
                lv = "L%d" % lvl
                out.append(mk(hb + tail, {lv, "ext-order", "unmodified"}))
                # locate the data of ext `t` (first occurrence of its type byte followed by its data)
                pos = hb.find(bytes([t]) + dat)
                if pos < 0:
                    continue
                for k in range(1, len(dat) + 1):
                    m = bytearray(hb)
                    m[pos + k] ^= r.choice([0x01, 0x80, 0xff])
                    out.append(mk(bytes(m) + tail, {lv, "ext-order", "after-common" if cpos == 0 else "before-common", "t=%02x" % t}, note="crit"))
    # the NAME rule ("a file entry without a name or a directory entry without a path"): -lhd- headers in every combination of
    # permission type (none / directory / symlink / file), name with and without the `name|target` separator, with and without a path
    from vlib import archgen as AG
    for lvl in (0, 1, 2):
        for perms in (None, 0o40755, 0o120777, 0o100644, 0o120000):
            for path in (b"", b"d/"):
                for name in (b"", b"foo", b"foo|bar", b"|", b"foo|"):
                    if lvl == 0 and not (path + name):
                        continue
                    for meth in (b"-lhd-", b"-lh0-"):
                        hb = AG._member(r, path, name, method=meth, perms=perms, level=lvl)
                        tail = bytes(r.randrange(256) for _ in range(4))
                        c = mk(hb + tail, {"L%d" % lvl, "name-rule", "perms=%s" % ("none" if perms is None else oct(perms >> 12))}, note="crit")
                        # the rule, independently of the parser: a -lhd- entry typed as a symbolic link must carry `name|target`; any other
                        # -lhd- entry is a directory and must have a path; any other method is a file and must have a name
                        symlink = perms is not None and (perms & 0o170000) == 0o120000
                        must_reject = None
                        if name in (b"", b"foo", b"foo|bar"):
                            if meth == b"-lhd-":
                                must_reject = (b"|" not in name) if symlink else (path == b"")
                            else:
                                # (level 0 splits the in-header "d/" into path "d/" and an EMPTY but present file name: the rule, in the
                                # library and in accept_has_name, is about presence)
                                must_reject = name == b"" and lvl != 0
                        if must_reject:
                            c.spec_judge = (lambda co, so, what=("a -lhd- entry with symlink permissions and no target" if (meth == b"-lhd-" and symlink)
                                                              else "a directory entry without a path" if meth == b"-lhd-" else "a file entry without a name"):
                                            ("implementation crashed: " + co[:100]) if co.startswith(("CRASH", "TIMEOUT")) else
                                            ("%s was handed to the caller" % what) if co.startswith("ok ") else None)
                        out.append(c)
    return out


def nontrivial(c):
    return c.note == "crit"


def signature(case, c_out, why):
    return "accepted-bad-header" if "returned" in why else "crash"


LEVEL_TEXT = ("Lean theorem over the parser model: a returned header satisfies the independently written integrity predicate "
              "(checksum, common CRC, level, length rules); exhaustive single-byte substitution / truncation / length perturbation "
              "runs tie model and C and evaluate the predicate on what the C returns.")
LEVEL_NOTE = "Trusted: Lean kernel; Spec.Integrity as the reading of the format's rules; hand parser model (differentially validated)."
TECHNIQUE = "Lean 4 proof (acceptance soundness of the parser model w.r.t. an independent integrity spec) + exhaustive perturbation correspondence"
