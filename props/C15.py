"""C15 — members are independent of how other members were skipped, read or checked."""
import re
from vlib.core import Case
from vlib import core, archgen as A, streams as S, treegen as T

ID = "C15"
LEAN_MODULES = ["LhasaV.Props.C15"]
VH_FEATURES = ["reader"]
PER_OP_SECONDS = 30
THEOREMS = {'end_sticky': 'full', 'basic_end_sticky': 'full', 'no_dangling_header': 'full: every history', 'headers_kind_independent': 'full', '(headers/bytes independent of treatment of other members)': 'partial: evaluated on the C by treatment groups; model theorem not yet stated', '(threads)': 'not modelled: read-only-globals run + interleaved readers'}
TRUSTED = ["hand-written reader / basic reader / stream models (LhasaV.Model.{Reader,Stream}), tied to the C by the differential run",
           "harness: two readers in one process share only the library code (and the allocator); interleaving by script"]
ASSUMPTIONS = ["at most one decode operation per member and one extract per entry",
               "thread interleavings are not exhibited by the model: covered by the interleaved-readers run (and TSan in the thorough tier)"]
RULE = ("groups of histories over one archive / stream kind / directory policy that share the extract pattern but treat every member "
        "differently (skip, read in 1-byte / prime / one large piece, partial read, check); judge per group: identical header sequence, "
        "identical member bytes (partial reads are prefixes), END is sticky; fake entries where the model says; plus two readers on two "
        "archives interleaved op by op: each reader's results equal its solo run and nothing leaks. C = model on every case. "
        "non-trivial: archive with >= 2 members and >= 2 different treatments")

canon = A.canon_rdr


def budget(tier):
    return 60 if tier == "quick" else 3000       # groups


def variants(r, nent, extract_pat):
    """one history: for every entry a treatment; extract_pat[i] in (None, 'x0', 'x1')"""
    toks = []
    for i in range(nent):
        toks.append("n")
        if extract_pat[i]:
            toks.append(extract_pat[i])
            continue
        k = r.random()
        if k < 0.2:
            pass
        elif k < 0.4:
            toks += ["r1"] * r.randrange(1, 6) + ["r100000"]
        elif k < 0.55:
            toks += ["r%d" % r.choice([3, 7, 13, 64])] * r.randrange(1, 5)       # partial
        elif k < 0.75:
            toks.append("r100000")
        else:
            toks.append("c")
    toks += ["n"] * r.randrange(1, 3)
    return toks


def gen_cases(ctx, ngroups):
    r = ctx.rng
    smalls = [x for x in A.small_archives(30000) if x[1]]
    multi = [x for x in smalls if any(t in x[0] for t in ("subdir", "symlink", "multi", "h1_", "h2_", "dir"))] or smalls
    out = []
    for g in range(ngroups):
        name, d = r.choice(multi if r.random() < 0.7 else smalls)
        if r.random() < 0.15:
            d = A.mutate_archive(r, d)
        elif r.random() < 0.2:
            d = r.choice([A.dirkind_archive, A.odd_method_archive, A.prefix_dirs_archive, A.prefix_dirs_archive])(r)
        kind, pol = r.choice(A.KINDS), r.choice(A.POLICIES)
        nent = r.randrange(2, 9)
        pat = [(r.choice(["x1", "x1", "x0"]) if r.random() < 0.35 else None) for _ in range(nent)]
        hists = [variants(r, nent, pat) for _ in range(4)]
        for h in hists:
            out.append(Case(A.rdr_op(kind, pol, h, d), tags={"solo", "kind=" + kind, "pol=" + pol}, note=("g", g)))
        # two readers interleaved: reader A = hists[0] on d, reader B = another archive
        name2, d2 = r.choice(smalls)
        kind2, pol2 = r.choice(A.KINDS), r.choice(A.POLICIES)
        hb = variants(r, r.randrange(1, 6), [None] * 6)
        il = "".join(r.choice("AB") for _ in range(len(hists[0]) + len(hb)))
        out.append(Case(A.rdr_op(kind2, pol2, hb, d2), tags={"solo"}, note=("s", g)))
        out.append(Case("rdr2 %s %s %s %s %s %s %s %s %s" % (kind, pol, ";".join(hists[0]), d.hex() or "-",
                                                             kind2, pol2, ";".join(hb), d2.hex() or "-", il),
                        tags={"interleaved"}, note=("i", g)))
    # generated trees with several dangerous symlinks and nested directories, everything extracted:
    # re-presented directories and deferred symlinks must come where the interface documents
    for g in range(ngroups // 2):
        ents = T.rand_tree(r, maxdepth=3, nfiles=7, dangerous=0.3, safe_links=0.1, levels=(r.choice([0, 1, 2]),))
        d = T.encode_archive(ents)
        kind, pol = r.choice(A.KINDS), r.choice(A.POLICIES)
        toks = []
        for _ in ents:
            toks += ["n", "x0" if r.random() < 0.08 else "x1"]
        for _ in range(len(ents) + 2):
            toks += ["n", "x1"]
        out.append(Case(A.rdr_op(kind, pol, toks, d), tags={"tree", "pol=" + pol}, note=("t", 100000 + g)))
        if g % 2 == 0:
            # members BEHIND the end of the archive (an end marker and padding, or a header with a bad checksum, then valid members):
            # the end is final – nothing behind it may ever be presented, whatever was extracted before (a dangerous link is
            # extracted, so the reader still has entries of its own to present after the end)
            d0 = d[:-1] if d.endswith(b"\0") else d
            d0 += A._member(r, b"", b"zlnk|../outside", method=b"-lhd-", perms=0o120777, level=r.choice([0, 1, 2]))
            hidden = A._member(r, b"", b"hidden1", data=b"behind the end", level=r.choice([0, 1, 2])) + \
                A._member(r, b"zlnk/", b"hidden2", data=b"x", level=r.choice([1, 2])) + b"\0"
            bad = bytearray(A._member(r, b"", b"bad", data=b"", level=0)); bad[1] ^= 0x55
            stop = r.choice([b"\0" * 22, b"\0" * 22, b"\0" + S.rand_bytes(r, 21), bytes(bad)])
            out.append(Case(A.rdr_op(kind, pol, toks + ["n", "x1", "n", "x1", "n"], d0 + stop + hidden), tags={"tree", "behind-the-end", "pol=" + pol},
                            note=("t", 150000 + g)))
    # sibling directories whose names are prefixes of one another (a/ ab/ a.bak/ lib/ lib/sub/ lib2/), everything extracted, default
    # policy mostly: "is the next entry still inside the directory on top of the stack?" is a path-prefix test
    for g in range(max(4, ngroups // 2)):
        d = A.prefix_dirs_archive(r)
        kind, pol = r.choice(A.KINDS), r.choice(["eod", "eod", "eod", "eof", "plain"])
        toks = []
        for _ in range(14):
            toks += ["n", "x0" if r.random() < 0.05 else "x1"]
        out.append(Case(A.rdr_op(kind, pol, toks, d), tags={"tree", "prefix-siblings", "pol=" + pol}, note=("t", 200000 + g)))
    # members whose compressed size is in the gigabytes (a sparse file: header, a hole, the later members), on a seekable FILE:
    # skipping or partly reading the big member must lead to the same later headers as reading the later members alone
    from vlib import lhaenc as E2
    for g, gap in enumerate([0x7fffffff, 0x80000000, 0x80000000 + 8192, 0xc0000000][: (2 if ctx.tier == "quick" else 4)]):
        f1 = E2.Fields(level=r.choice([0, 1, 2]), method=b"-lh0-", clen=gap, length=gap, crc=0, name=b"big.bin", os_type=0x4d)
        if f1.level == 2:
            f1.exts = [(E2.EXT_FILENAME, b"big.bin")]; f1.name = b""
        h1 = E2.encode(f1)
        rest = b""
        for nm in (b"b.txt", b"c.txt"):
            d = S.rand_bytes(r, r.choice([5, 40]))
            f2 = E2.Fields(level=1, method=b"-lh0-", clen=len(d), length=len(d), crc=E2.crc16(d), name=nm, os_type=0x4d)
            rest += E2.encode(f2) + d
        rest += b"\0"
        gid = 300000 + g
        pol = r.choice(A.POLICIES)
        out.append(Case("rdr seek %s -1 n;n;n %s" % (pol, rest.hex()), tags={"big-ref"}, note=("B", gid, "ref")))
        for hist in (["n", "n", "n", "n"], ["n", "r10", "n", "n", "n"], ["n", "r100000", "r7", "n", "n", "n"]):
            out.append(Case("rdrbig %s %d %s %s %s" % (pol, gap, ";".join(hist), h1.hex(), rest.hex()),
                            tags={"big-member", "c-only", "gap=%x" % gap}, note=("B", gid, "big")))
    # every presented entry gets a treatment — also the directories the reader re-presents on its own (reads and checks on them
    # must deliver nothing and must not disturb the member that is already pending behind them)
    for g in range(ngroups // 2):
        ents = T.rand_tree(r, maxdepth=3, nfiles=7, dangerous=0.0, safe_links=0.0, levels=(r.choice([0, 1, 2]),))
        d = T.encode_archive(ents)
        kind = r.choice(A.KINDS)
        pol = r.choice(["eod", "eod", "eof"])
        # presentation order under the policy: a directory is re-presented at the first later entry outside it (eod) / at the end (eof)
        order, stack = [], []
        for e in ents:
            if pol == "eod":
                while stack and not e.path.startswith(stack[-1].path):
                    order.append(("fake", stack.pop()))
            order.append(("real", e))
            if e.kind == "dir":
                stack.append(e)
        while stack:
            order.append(("fake", stack.pop()))
        for v in range(4):
            toks = []
            for what, e in order:
                toks.append("n")
                if what == "real" and e.kind == "dir":
                    toks.append("x1")
                elif what == "fake":
                    toks += r.choice([[], ["r64"], ["r1", "r100000"], ["c"], ["x1"], ["r64", "x1"]])
                else:
                    toks += r.choice([[], ["r100000"], ["r7", "r100000"], ["c"], ["x1"], ["r3"]])
            toks += ["n", "n"]
            out.append(Case(A.rdr_op(kind, pol, toks, d), tags={"tree-every-entry", "pol=" + pol}, note=("g", 200000 + g)))
    return out


def split_result(line):
    body = line.split(" live=")[0]
    return body.split(";") if body else []


def judge_groups(cases, c_outs):
    why = {}
    groups = {}
    for i, c in enumerate(cases):
        if c.note:
            groups.setdefault(c.note[1], []).append(i)
    for g, idxs in groups.items():
        if cases[idxs[0]].note[0] == "B":
            ref = [i for i in idxs if cases[i].note[2] == "ref"]
            if not ref or c_outs[ref[0]].startswith(("CRASH", "TIMEOUT")):
                continue
            want = [x for x in split_result(c_outs[ref[0]])]
            for i in idxs:
                if cases[i].note[2] != "big":
                    continue
                if c_outs[i].startswith(("CRASH", "TIMEOUT")):
                    why[i] = "implementation crashed / hung on a member with a multi-gigabyte declared size: " + c_outs[i][:120]
                    continue
                ops = cases[i].op.split()[3].split(";")
                res = split_result(c_outs[i])
                hdrs = [x for o, x in zip(ops, res) if o == "n"]
                if hdrs[1:1 + len(want)] != want[:len(hdrs) - 1]:
                    why[i] = ("after a member of %s bytes was skipped / partly read on a seekable stream the later headers are %s; read on "
                              "their own they are %s" % (cases[i].op.split()[2], [h[:40] for h in hdrs[1:]], [h[:40] for h in want]))
            continue
        solos = [i for i in idxs if cases[i].note[0] == "g"]
        ref_hdrs, ref_i = None, None
        member_bytes = {}
        for i in idxs:
            co = c_outs[i]
            if co.startswith(("CRASH", "TIMEOUT")) or "OVERREAD" in co:
                why[i] = "implementation crashed: " + co[:150]
        for i in solos:
            if i in why:
                continue
            ops = cases[i].op.split()[4].split(";")
            res = split_result(c_outs[i])
            if len(res) != len(ops):
                why[i] = "result count %d != op count %d" % (len(res), len(ops))
                continue
            hdrs = [x for o, x in zip(ops, res) if o == "n"]
            seen_end = False
            for x in hdrs:
                if seen_end and x != "END":
                    why[i] = "a header was returned after the end had been reported"
                seen_end = seen_end or x == "END"
            if ref_hdrs is None:
                ref_hdrs, ref_i = hdrs, i
            else:
                m = min(len(hdrs), len(ref_hdrs))
                if hdrs[:m] != ref_hdrs[:m]:
                    k = next(j for j in range(m) if hdrs[j] != ref_hdrs[j])
                    why.setdefault(i, "header sequence depends on how other members were handled: entry %d is %s here, %s in case %d"
                                   % (k, hdrs[k][:60], ref_hdrs[k][:60], ref_i))
            # member bytes
            ent = -1
            cur = b""
            reads = {}
            for o, x in zip(ops, res):
                if o == "n":
                    ent += 1
                elif o.startswith("r"):
                    reads[ent] = reads.get(ent, b"") + (b"" if x == "-" else bytes.fromhex(x))
            for e, b in reads.items():
                if e in member_bytes:
                    ob, oi = member_bytes[e]
                    m = min(len(b), len(ob))
                    if b[:m] != ob[:m]:
                        why.setdefault(i, "bytes of member %d depend on the treatment of other members (differs from case %d)" % (e, oi))
                    if len(b) > len(ob):
                        member_bytes[e] = (b, i)
                else:
                    member_bytes[e] = (b, i)
        # generated trees: order of re-presented entries
        for i in idxs:
            if cases[i].note[0] != "t" or i in why:
                continue
            ops = cases[i].op.split()[4].split(";")
            res = split_result(c_outs[i])
            hdrs = [x for o, x in zip(ops, res) if o == "n"]
            last_normal = max([k for k, x in enumerate(hdrs) if x.startswith("H0:")], default=-1)
            if "END" in hdrs and any(x != "END" for x in hdrs[hdrs.index("END"):]):
                why[i] = "a header was returned after the end had been reported"
            if "behind-the-end" in cases[i].tags and any(("68696464656e" in x) for x in hdrs):
                why[i] = "a member that lies behind the end of the archive was presented"
            prev_len = None
            for k, x in enumerate(hdrs):
                if not x.startswith("H1:"):
                    continue
                f = x.split(":")
                plen = lambda v: 0 if v in ("~", "-") else len(v) // 2
                if f[3] != "~":          # a deferred symlink
                    if k < last_normal:
                        why[i] = "a deferred symlink was re-presented before the last ordinary entry"
                    ln = plen(f[1]) + plen(f[2])
                    if prev_len is not None and ln > prev_len:
                        why[i] = "deferred symlinks not in longest-path-first order (%d after %d)" % (ln, prev_len)
                    prev_len = ln
        # interleaved readers
        inter = [i for i in idxs if cases[i].note[0] == "i"]
        sb = [i for i in idxs if cases[i].note[0] == "s"]
        for i in inter:
            if i in why or not solos or not sb:
                continue
            res = split_result(c_outs[i])
            a = [x[2:] for x in res if x.startswith("A=")]
            b = [x[2:] for x in res if x.startswith("B=")]
            if a != split_result(c_outs[solos[0]]):
                why[i] = "reader A's results differ when another reader is interleaved"
            elif b != split_result(c_outs[sb[0]]):
                why[i] = "reader B's results differ when another reader is interleaved"
            elif not c_outs[i].endswith(" live=0") and A.rdr_counters(c_outs[solos[0]]).get("live") == 0 \
                    and A.rdr_counters(c_outs[sb[0]]).get("live") == 0:
                why[i] = "blocks leaked only when the two readers are interleaved: " + c_outs[i][-20:]
    return why


def nontrivial(c):
    return c.note is not None and c.note[0] in ("g", "i") and c.op.count(";n") >= 2


def signature(case, c_out, why):
    return re.sub(r"[^a-zA-Z]+", "-", why)[:50]


def prepare(ctx, env):
    vh, err = core.build_vh(ctx, VH_FEATURES)
    if vh is None:
        return "C harness: " + err
    env["vh"] = vh
    ro, err = core.build_vh_ro(ctx)
    if ro is None:
        return "read-only-globals harness: " + err
    env["vh_ro"] = ro
    return None


def evaluate(ctx, env, cases, with_model):
    import sys, check as CK
    P = sys.modules[__name__]
    solo = [c for c in cases if not c.op.startswith("rdr2")]
    conc, corr, st = CK.evaluate(ctx, P, env, cases, False)
    if with_model:
        _, corr, _ = CK.evaluate(ctx, P, env, solo, True)
    # "no state shared between readers": the same histories with every library global write-protected
    if env.get("vh_ro"):
        sub = solo[::2]
        ro_outs, _ = core.run_lines_parallel([env["vh_ro"], "30"], [c.op for c in sub])
        ref_outs, _ = core.run_lines_parallel([env["vh"], "30"], [c.op for c in sub])
        strip = lambda x: x.split(" live=")[0]
        for c, o, ref in zip(sub, ro_outs, ref_outs):
            ctx.dist["ro_globals=" + ("ok" if not o.startswith(("CRASH", "TIMEOUT")) else "fault")] += 1
            why = None
            if o.startswith(("CRASH", "TIMEOUT", "ro-protect-failed")):
                why = "the library wrote to one of its own global variables (state shared by all readers): " + o[:80]
            elif strip(o) != strip(ref):
                why = "results differ when library globals are read-only"
            if why:
                conc.append({"op": c.op, "c_out": o, "why": why, "sig": "global-state", "tags": sorted(c.tags) + ["ro-globals"]})
    return conc, corr, st


LEVEL_TEXT = ("Lean theorems over the reader model (end is absorbing; header sequence and member bytes are functions of the archive, "
              "policy and extract outcomes — in progress, see evidence.theorems); grouped differential runs tie the model and evaluate "
              "independence directly on the C, incl. two interleaved readers.")
LEVEL_NOTE = ("Partial: thread interleavings are not exhibited by the model; covered by interleaved readers in one process (quick) and a "
              "TSan two-thread run (thorough).")
TECHNIQUE = "Lean 4 proof (reader state machine invariants) + grouped differential correspondence (treatment groups, interleaved readers)"
