"""C04 — PMarc -pm1-/-pm2- decode every valid stream exactly."""
from vlib.core import Case
from vlib import streams as S, core, pmgen as G
from props.C01 import mk_spec_judge

ID = "C04"
LEAN_MODULES = ["LhasaV.Props.C04"]
VH_FEATURES = ["decoder"]
PER_OP_SECONDS = 60
THEOREMS = {"pm_init_matches_source": "full (translator tie): lha_pm1_init / lha_pm2_decoder_init of the working tree run, their states dumped on every run = the models' init", 
    "pm1_decode_serialise": "FULL STATEMENT (-pm1-): every well-formed description, any chunking/schedule, declared length <= expansion (< 4 GiB)",
    "pm2_decode_serialise": "FULL STATEMENT (-pm2-): every well-formed description incl. every table form at every rebuild point, declared length <= expansion",
    "history_refines_mtf": "full: every output sequence", "history_find": "full: both walking directions",
    "pm2_schedule": "full: rebuild exactly at 1024, 2048, 4096, 8192 + 4096k, also inside a copy",
    "pm1_trees_ok": "full (Gen): the 32 byte-class trees", "tables_match_source": "full (Gen)", "init_history_is_initOrder": "full (Gen)",
}
TRUSTED = ["spec LhasaV.Spec.PmEnc (the -pm1-/-pm2- stream formats as encoders, all constants stated independently of the source: "
           "move-to-front initial order, byte/copy classes, pm1 position thresholds and 32 byte-class trees, pm2 rebuild schedule) "
           "and Spec.Lz77.expandWin",
           "hand-written decoder models LhasaV.Model.Pm (pm1, pm2, history list) over tables regenerated from the compiled source "
           "(Gen.Decoders), tied to the C by the three-way differential run"]
ASSUMPTIONS = ["callback returns <= requested bytes and 0 only at end of input", "declared length <= length of the expansion "
               "(-pm1- continues on zero bits past the end of its input, by design of the decoder)"]
RULE = ("well-formed descriptions: -pm2-: byte commands at move-to-front positions of every class, copies of every length class "
        "(2..256, both codes for 256) and distance class valid at the current rebuild phase (incl. into the space-filled window), "
        "outputs crossing the rebuild points 1024/2048/4096/8192/12288 also inside a copy, code tables as Huffman/random complete/"
        "single-code/numCodes<10 (no offset tree)/numCodes=29,min=0, offset tables complete/single/all-zero when unused, flag bit "
        "0/1 at the later points; -pm1-: all 32 start headers, byte blocks of every length class incl. 216 (no trailing copy), "
        "copies of every count class and every range incl. distances at each position-dependent narrowing, both paths of tree 17. "
        "Serialised by the Lean spec (pm1ser/pm2ser). Three-way: C output = model output = spec expansion truncated to the "
        "declared length (<= full length), random schedules and chunkings. non-trivial: contains a copy command")


def budget(tier):
    return 400 if tier == "quick" else 8000


def gen_cases(ctx, n):
    r = ctx.rng
    descs = []
    for i in range(n):
        if i % 2 == 0:
            prof = r.choice(["mixed", "mixed", "mixed", "bytes", "small", "single28", "singlebyte", "ten", "singlecopy", "switch", "switch", "switch"])
            target = r.choice([10, 200, 1100, 2100, 3000, 4200, 5000, 8300, 9000, 13000, 17000])
            g = None
            while g is None:
                g = G.gen_pm2(r, target, prof)
            f, rb, cm, produced, tags = g
            descs.append(("pm2", "%d %s %s" % (f, rb, cm), tags, produced))
        else:
            tree = (i // 2) % 32 if i < 200 else None
            target = r.choice([10, 70, 330, 600, 900, 1200, 1700, 2700, 3000, 3700, 4700, 6800, 11000, 17000])
            t, cm, produced, tags = G.gen_pm1(r, target, tree)
            descs.append(("pm1", "%d %s" % (t, cm), tags, produced))
    ser, _ = core.run_lines_parallel([core.lhv_path()], ["%sser %s" % (m, d) for m, d, _, _ in descs])
    out = []
    for (meth, d, tags, produced), hx in zip(descs, ser):
        if not hx.startswith("ok"):
            out.append(Case("dec %s 0 0 -1 - -" % meth, judge=lambda c, hx=hx: "generator produced a description the spec rejects: " + hx[:60],
                            tags={"generator-bug"}, note=d[:200]))
            continue
        hexs = hx.split()[1] if len(hx.split()) > 1 else "-"
        data = b"" if hexs == "-" else bytes.fromhex(hexs)
        full = produced
        declen = r.choice([full, full, full, max(0, full - 3), r.randrange(full + 1)])
        chunk = r.choice([0, 0, 0, 1, 2, 3, 5])
        sched = S.schedule(r, declen) if declen < 50000 else []
        tags = set(tags) | {"m=" + meth}
        out.append(Case(S.dec_op(meth, declen, chunk, -1, sched, data), spec="%sexp %s" % (meth, d),
                        spec_judge=mk_spec_judge(declen), tags=tags, note="copy" if ("C" in d or "A" in d.split()[-1]) else ""))
        if meth == "pm1":
            # "a -pm1- stream that ends before the declared length is continued as if followed by zero bits":
            # (a) the same stream with ALL its trailing zero bytes removed must decode to the same bytes;
            stripped = data.rstrip(b"\0")
            if len(stripped) < len(data):
                out.append(Case(S.dec_op(meth, declen, chunk, -1, sched, stripped), spec="%sexp %s" % (meth, d), spec_judge=mk_spec_judge(declen),
                                tags=tags | {"zero-tail-stripped", "lost=%d" % min(len(data) - len(stripped), 9)}, note="copy"))
            # (b) a declared length far beyond what the stream denotes: the stream followed by any number of explicit zero bytes and
            # the bare stream must decode alike (pairs, judged together)
            if len(out) % 3 == 0:
                gid = len(out)
                more = full + r.choice([5, 64, 700, 5000])
                for role, dd in (("a", data), ("b", data + bytes(r.choice([8, 64, 700])))):
                    out.append(Case(S.dec_op(meth, more, chunk, -1, [], dd), tags=tags | {"zero-continued"}, note=("zc", gid, role)))
    return out


def judge_groups(cases, c_outs):
    why = {}
    seen = {}
    for i, c in enumerate(cases):
        if isinstance(c.note, tuple) and c.note[0] == "zc":
            if c.note[1] in seen:
                j = seen[c.note[1]]
                a, b = c_outs[j].split(" ")[0], c_outs[i].split(" ")[0]
                if c_outs[j] != c_outs[i]:
                    why[i] = ("a -pm1- stream read past its end is not continued as if followed by zero bits: with %s explicit zero bytes "
                              "appended the decoder gives a different result (%s vs %s)" % ("some", core.short(c_outs[i], 80), core.short(c_outs[j], 80)))
            else:
                seen[c.note[1]] = i
    return why


def corpus_cases(ctx):
    """tie (c): real -pm1-/-pm2- members written by PMarc are parsed by an independent parser (vlib/lhparse.py) into the spec's
    description language; Spec.PmEnc must re-serialise them bit for bit (up to the last, zero-padded byte) and the C decoder's
    output on the real bytes must equal the spec expansion of the parsed commands"""
    from vlib import corpus, lhparse
    lhv = core.lhv_path()
    bm = corpus.by_method(lhv, maxlen=40000 if ctx.tier == "quick" else None)
    items = []
    for m in bm.get("-pm1-", []):
        try:
            t, c, p = lhparse.parse_pm1(m["data"], m["length"])
            items.append(("pm1", m, "%d %s" % (t, c), None))
        except Exception as e:
            items.append(("pm1", m, None, "parser failed: %r" % e))
    for m in bm.get("-pm2-", []):
        try:
            f, r, c, p = lhparse.parse_pm2(m["data"], m["length"])
            items.append(("pm2", m, "%d %s %s" % (f, r, c), None))
        except Exception as e:
            items.append(("pm2", m, None, "parser failed: %r" % e))
    ser, _ = core.run_lines_parallel([lhv], ["%sser %s" % (meth, d) for meth, m, d, err in items if d is not None])
    ser = iter(ser)
    out = []
    for meth, m, d, err in items:
        tie = err
        if d is not None:
            o = next(ser)
            if not o.startswith("ok"):
                tie = "the spec rejects a real %s member of %s as not well-formed" % (meth, m["archive"])
            else:
                hx = o.split()[1] if len(o.split()) > 1 else "-"
                sb = bytes.fromhex(hx) if hx != "-" else b""
                k = min(len(sb), len(m["data"])) - 1
                if k < 0 or sb[:k] != m["data"][:k] or len(sb) > len(m["data"]) + 1:
                    tie = "Spec.PmEnc does not reproduce a real %s member of %s bit for bit" % (meth, m["archive"])
        sj0 = mk_spec_judge(m["length"])

        def sj(c_out, s_out, tie=tie, sj0=sj0):
            return ("TIE: " + tie) if tie else sj0(c_out, s_out)
        out.append(Case(S.dec_op(meth, m["length"], 0, -1, [], m["data"]), spec="%sexp %s" % (meth, d or "0 -"), spec_judge=sj,
                        tags={"corpus", "m=" + meth}, note="copy corpus"))
    ctx.dist["corpus-members-reserialised"] += len(items)
    return out


def nontrivial(c):
    return bool(c.note)


def signature(case, c_out, why):
    return case.op.split()[1] + ":wrong-output"


LEVEL_TEXT = ("Kernel-checked round-trip theorems at full strength for -pm1- and -pm2-: for every well-formed stream description, any callback "
              "chunking, read schedule and declared length up to the expansion's length, the decoder API yields exactly the expansion; with "
              "the move-to-front refinement of the history list, the -pm2- rebuild schedule and every variable-length code. Models tied to "
              "the C by a three-way differential run; tables regenerated from the compiled source.")
LEVEL_NOTE = ("Trusted: Lean kernel; axioms propext, Classical.choice, Quot.sound; Spec.PmEnc/Spec.Lz77 as the meaning of the formats; the hand "
              "decoder models (differentially validated on every run); gen/ext_small.c. Declared length <= expansion is the property's own domain "
              "(-pm1- zero-fills, -pm2- has no end marker).")
TECHNIQUE = "Lean 4 proof (move-to-front refinement, code bijections, rebuild schedule) + three-way differential correspondence"
