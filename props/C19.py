"""C19 — list output renders every member's header fields faithfully in Unix-LHA layout."""
from vlib import dtwrap

ID = "C19"
NO_COVERAGE = True      # the cases live inside a stand-alone differential script (tools/difftest_*.py), not in this module
LEAN_MODULES = ["LhasaV.Props.C19"]
VH_FEATURES = []
THEOREMS = {"os_names_match_source": "full (translator tie): os_type_to_string evaluated for all 256 identifier bytes = the listing model's OS-name column", "listing_of_archive": "full, on bytes: walking archiveWith pk es yields exactly the headers of es; the listing is head + one row group per SELECTED entry + totals of the selected entries, every mode/quiet/clock",
            "total_line": "full: lha l ends with ` Total N files <sum of sizes> ...`, N = number of selected entries",
            "no_filter_selects_all": "full", "listing_shape": "full: head ++ rows ++ tail", "row_independent": "full", "totals_exact": "full (true sums below 2^32; mod 2^32 beyond)",
            "row_lines": "full", "timestamp_recent": "full", "timestamp_old": "full: exact six-month boundary", "selection_spec": "full: wildcard selection = GlobSpec"}
TRUSTED = ["gen/ext_tool.c + gcc: os_type_to_string evaluated by compiling src/list.c", "LhasaV.Model.ListOut.render IS the reference layout (columns, widths, footers transcribed from src/list.c; binary32 ratio arithmetic "
           "and glibc %5.1f rounding modelled with exact integers; gmtime by civil-from-days); validated byte for byte against the real tool",
           "printf, localtime (TZ=UTC) and float hardware are modelled, not verified"]
ASSUMPTIONS = ["TZ=UTC, C locale, TEST_NOW_TIME fixes the current time, archive mtime set by the test"]
RULE = ("tools/difftest_list.py: archives of 1-6 generated members (sizes 0..2^32-1 incl. packed > original and original = 0, every OS type 0..255, "
        "Unix and OS-9 permission words over the full 16-bit range, uid/gid 0..65535, timestamps 0..2^32-1 with a dense sweep around now - 15552000, "
        "hostile names, symlinks, directories, levels 0-3, totals wrapping 2^32), commands l lv v vv with quiet levels and wildcard lists: stdout of "
        "the real tool = render byte for byte; wildcard: C match_glob = matchGlob = GlobSpec exhaustively over {a,b,*,?}^<=4 x ^<=4 and randomly; direct "
        "probes of the ratio and timestamp printers. non-trivial: every case")


def budget(tier):
    return 1


def gen_cases(ctx, n):
    return dtwrap.one_case("list")


evaluate = dtwrap.evaluate_with("difftest_list.py", ID, quick_scale=0.25, thorough_scale=3.0,
                                concrete_kinds=("list", "glob-c", "glob-c-listing", "probe"))


def nontrivial(c):
    return True


def signature(case, c_out, why):
    return "list-mismatch"


LEVEL_TEXT = ("Lean: an executable rendering function for the four list modes with theorems about its structure (rows in order, one per member, "
              "printable output, footer statistics) — see evidence.theorems; tied to the real tool byte for byte on generated archives over the "
              "property's whole quantifier range.")
LEVEL_NOTE = "Partial: the reference layout is the Lean rendering function itself; printf/localtime/float behaviour of libc is modelled."
TECHNIQUE = "Lean 4 executable layout model + structural theorems + byte-for-byte differential correspondence with the real tool"
