"""C01 — LHA static-Huffman methods (lh4/5/6/7/x, lk7) decode every valid stream exactly."""
from vlib.core import Case
from vlib import streams as S, core, lhnewgen as G

ID = "C01"
LEAN_MODULES = ["LhasaV.Props.C01"]
VH_FEATURES = ["decoder"]
PER_OP_SECONDS = 60
THEOREMS = {"lhnew_init_matches_source": "full (translator tie): lha_lh_new_init of the working tree run for the five parameter sets, its state dumped on every run = the model's init", 
    "lhnew_decode_serialise": "FULL STATEMENT: every well-formed description, every parameter set with RTParams, any chunking, declared length, schedule",
    "lh5_decode_serialise": "full (-lh4-/-lh5-)", "lh6_decode_serialise": "full", "lh7_decode_serialise": "full",
    "lhx_decode_serialise": "full", "lk7_decode_serialise": "full (LHark)",
    "fmt_matches_source": "full (Gen): spec format constants = compiled source", "params_ok": "full (Gen)",
    "bit_reader_refines": "full: layer i", "tree_decodes_canonical_code": "full: layer ii, any complete table over any previous table contents",
    "tree_build_in_bounds": "full", "tree_single": "full", "block_header_roundtrip": "full: layer iii",
    "ring_copy_is_window_copy": "full: layer iv", "ring_literal": "full",
    "lhark_length_code_roundtrip": "full", "distance_code_roundtrip": "full",
}
TRUSTED = ["spec LhasaV.Spec.LhNewEnc (stream format as an encoder: block layout, length-value code, zero-run tokens, skip field, "
           "canonical code assignment Spec.Canon, LHark length/distance codes) and Spec.Lz77.expandWin (window pre-filled with spaces)",
           "hand-written decoder models LhasaV.Model.{Bits,Tree,LhNew,Ring,Wrap} with parameters regenerated from the compiled "
           "source (Gen.Decoders), tied to the C by the three-way differential run"]
ASSUMPTIONS = ["callback returns <= requested bytes and 0 only at end of input"]
RULE = ("well-formed stream descriptions for each of lh4 lh5 lh6 lh7 lhx lk7: 1..5 blocks (sizes 0,1,2,…,65535), commands with distances "
        "stratified (0, small, = bytes produced so far, just into the space-filled window, ring-1, powers of two) and lengths over the whole "
        "range incl. every LHark code class and both codes for 514; per table Huffman / forced-deep / random complete / unused-but-coded "
        "symbols / single-code form; every run of unused symbols split at random over the three zero-run forms, overshooting final runs, "
        "trailing entries, all skip-field values; serialised by the Lean spec (`lhnser`). Three-way: C output = model output = "
        "spec expansion truncated to the declared length, under random schedules and callback chunkings. "
        "non-trivial: >= 2 blocks or a copy command")


def budget(tier):
    return 500 if tier == "quick" else 12000


def mk_spec_judge(declen):
    def sj(c_out, s_out):
        if c_out.startswith(("CRASH", "TIMEOUT")):
            return "implementation crashed: " + c_out[:120]
        d = S.parse_dec(c_out)
        if d is None:
            return "unexpected output " + c_out[:80]
        exp = "" if s_out == "-" else s_out
        exp = exp[:2 * declen]
        got = "" if d["out"] == "-" else d["out"]
        if got != exp:
            n = 0
            while n < min(len(got), len(exp)) and got[n] == exp[n]:
                n += 1
            return ("decoded bytes differ from the denotation of the commands (got %d bytes, expected %d, first difference at byte %d)"
                    % (len(got) // 2, len(exp) // 2, n // 2))
        return None
    return sj


def gen_cases(ctx, n):
    r = ctx.rng
    descs = []
    meths = list(G.FMT)
    for i in range(n):
        meth = meths[i % len(meths)]
        k = r.random()
        if i < 6 and ctx.tier == "thorough":
            sc = "wrap"
        elif i < 2:
            sc = "wrap"          # quick: lh4/lh5 ring wraps (16 KiB)
        elif i < (14 if ctx.tier == "quick" else 66) and (ctx.tier != "quick" or meth not in ("lhx", "lh7")):
            sc = "ringend-exact" if i < 8 else "ringend"       # a copy ending exactly at the end of the ring (and one byte either side), then look-backs over the seam
        elif k < 0.08:
            sc = "flat"          # flat code table sent through a single-code temporary table
        elif k < 0.75:
            sc = "small"
        elif k < 0.97:
            sc = "medium"
        else:
            sc = "maxblock"
        d, tags, produced = G.gen_stream(r, meth, sc)
        descs.append((meth, d, tags, produced))
    ser, _ = core.run_lines_parallel([core.lhv_path()], ["lhnser %s %s" % (m, d) for m, d, _, _ in descs])
    out = []
    for (meth, d, tags, produced), hx in zip(descs, ser):
        if not hx.startswith("ok"):
            # the generator left the spec's well-formed domain: a generator bug, reported as a broken tie
            out.append(Case("dec %s 0 0 -1 - -" % meth, judge=lambda c, hx=hx: "generator produced a description the spec rejects: " + hx[:60],
                            tags={"generator-bug"}, note=d[:200]))
            continue
        hexs = hx.split()[1] if len(hx.split()) > 1 else "-"
        data = b"" if hexs == "-" else bytes.fromhex(hexs)
        full = produced
        declen = r.choice([full, full, full, full + 10, max(0, full - 3), r.randrange(full + 1)])
        chunk = r.choice([0, 0, 0, 1, 2, 3, 5])
        tags = set(tags) | {"m=" + meth}
        sched = S.schedule(r, declen) if declen < 50000 else r.choice([[], [4096], [declen + 5], [65536, 1000], [100000, 0, 8191]])
        out.append(Case(S.dec_op(meth, declen, chunk, -1, sched, data), spec="lhnexp %s %s" % (meth, d),
                        spec_judge=mk_spec_judge(declen), tags=tags,
                        note=("copy" if ("C" in d.split(";")[-1] or "A" in d) else "") + (" multi" if "/" in d else "")))
    return out


def corpus_cases(ctx):
    """tie (c): real members written by historical encoders (LHA 2.x, LHA for Unix, LHmelt, UNLHA32, LHark …) are parsed by an
    independent parser (vlib/lhparse.py) into the spec's description language; the Lean spec must re-serialise them bit for bit
    (so `serialise` IS the real format) and the C decoder's output on the real bytes must equal `expand` of the parsed commands"""
    from vlib import corpus, lhparse
    lhv = core.lhv_path()
    bm = corpus.by_method(lhv, maxlen=30000 if ctx.tier == "quick" else None)
    items = []
    for meth in ("lh4", "lh5", "lh6", "lh7", "lhx", "lk7"):
        for m in bm.get("-%s-" % meth, []):
            try:
                blocks, produced, bits = lhparse.parse(meth, m["data"], m["length"])
            except Exception as e:
                items.append((meth, m, None, "parser failed: %r" % e))
                continue
            items.append((meth, m, "/".join(b for b, _, _ in blocks), None))
    ser, _ = core.run_lines_parallel([lhv], ["lhnser %s %s" % (meth, d) for meth, m, d, err in items if d is not None])
    ser = iter(ser)
    out = []
    for meth, m, d, err in items:
        tie = err
        if d is not None:
            o = next(ser)
            hx = o.split()[1] if o.startswith("ok") and len(o.split()) > 1 else ""
            if not o.startswith("ok"):
                tie = "the spec rejects a real %s member of %s as not well-formed (%s)" % (meth, m["archive"], o[:30])
            else:
                sb = bytes.fromhex(hx) if hx != "-" else b""
                if not (m["data"].startswith(sb) and len(m["data"]) - len(sb) <= 2):
                    tie = "Spec.LhNewEnc.serialise does not reproduce a real %s member of %s bit for bit" % (meth, m["archive"])
        sj0 = mk_spec_judge(m["length"])

        def sj(c_out, s_out, tie=tie, sj0=sj0, m=m):
            if tie:
                return "TIE: " + tie
            why = sj0(c_out, s_out)
            if why:
                return why
            dd = S.parse_dec(c_out)
            if dd and int(dd["crc"], 16) != m["crc"]:
                return "real member of %s decodes to data whose CRC differs from the recorded one" % m["archive"]
            return None
        out.append(Case(S.dec_op(meth, m["length"], 0, -1, [], m["data"]), spec="lhnexp %s %s" % (meth, d or "-;-;-;-"),
                        spec_judge=sj, tags={"corpus", "m=" + meth}, note="copy corpus"))
    ctx.dist["corpus-members-reserialised"] += len(items)
    return out


def nontrivial(c):
    return bool(c.note and c.note.strip())


def signature(case, c_out, why):
    return case.op.split()[1] + ":wrong-output"


LEVEL_TEXT = ("Kernel-checked round-trip theorem at full strength: for every well-formed stream description (any blocks, tables in any "
              "transmitted form, commands) of each of lh4/5/6/7/x/k7, any callback chunking, declared length and read schedule, reading "
              "the serialised stream through the decoder API yields exactly the expansion (layers: bit reader, canonical-code tree, "
              "table transmission, ring = window, wrapper). Model tied to the C by a three-way differential run over generated "
              "descriptions serialised by the Lean specification; format constants and capacities regenerated from the source.")
LEVEL_NOTE = ("Trusted: Lean kernel; axioms propext, Classical.choice, Quot.sound; Spec.LhNewEnc/Spec.Canon/Spec.Lz77 as the meaning of the "
              "format; the hand-written decoder models (differentially validated on every run); gen/ext_lhnew.c.")
TECHNIQUE = "Lean 4 proof (bit-reader refinement, canonical-code tree theorem, ring refinement) + three-way differential correspondence"
