"""C02 — -lh1- adaptive-Huffman decoder stays in lock-step with the LZHUF model."""
from vlib import dtwrap

ID = "C02"
LEAN_MODULES = ["LhasaV.Props.C02"]
VH_FEATURES = ["decoder"]
THEOREMS = {"position_tables_consistent": "full", "decoder_tree_invariant": "full: any input", "RoundTripStatement / lock-step": "NOT proved: stated; mirror map and round trip checked by correspondence after every command"}
TRUSTED = ["spec LhasaV.Spec.Lzhuf: a literal transcription of LZHUF.C (StartHuff, reconst, update, EncodeChar, EncodePosition, p_len/p_code); "
           "validated against the corpus: all 23 real -lh1- members decode under the spec decoder to their recorded CRC and the spec encoder "
           "reproduces their compressed bytes exactly",
           "hand-written decoder model LhasaV.Model.Lh1 (frequency groups), tied to the C by the differential run"]
ASSUMPTIONS = ["streams produced by the LZHUF encoder (the property's domain)"]
RULE = ("tools/difftest_lh1.py: command sequences over literals and copies (length 3..60, distance 0..4095): skewed / uniform histograms, "
        "> 32768 symbols (several tree rebuilds, some > 100000 symbols), tie patterns (round robin over k = 2..314 symbols, all 314 symbols), all "
        "64 upper-distance classes, first use of a symbol right after a rebuild, codes up to 18 bits; encoded by the Lean LZHUF spec; C output = "
        "model output = spec decoder output = LZ77 expansion; after EVERY command the model's tree is the mirror image (i <-> 626-i) of the LZHUF "
        "tree; corpus oracle. non-trivial: every generated sequence (all go through the adaptive tree)")


def budget(tier):
    return 1


def gen_cases(ctx, n):
    return dtwrap.one_case("lh1")


evaluate = dtwrap.evaluate_with("difftest_lh1.py", ID, quick_scale=1.0, thorough_scale=1.0)


def nontrivial(c):
    return True


def signature(case, c_out, why):
    return "lh1-mismatch"


LEVEL_TEXT = ("Lean: the decoder model never leaves its tree invariant (C09: lh1_no_fault: sorted frequencies, sums, groups = runs, leaders), the "
              "LZHUF position tables are proved inverse to the decoder's lookup; lock-step of decoder tree and LZHUF tree (mirror map) and the "
              "round trip are evaluated after every command on generated sequences incl. many rebuilds, and on the corpus.")
LEVEL_NOTE = ("Partial: the lock-step theorem (Mirror (Lh1.run syms) (Lzhuf.run syms) for all syms) and the round-trip theorem are stated but "
              "not proved; they are checked by correspondence (mirror predicate evaluated after every command).")
TECHNIQUE = "Lean 4 proof (decoder tree invariant, position-table inverse) + executable LZHUF transcription + mirror-map differential correspondence"
