"""C02 — -lh1- adaptive-Huffman decoder stays in lock-step with the LZHUF model."""
from vlib import dtwrap

ID = "C02"
NO_COVERAGE = True      # the cases live inside a stand-alone differential script (tools/difftest_*.py), not in this module
LEAN_MODULES = ["LhasaV.Props.C02"]
VH_FEATURES = ["decoder"]
THEOREMS = {"lh1_init_matches_source": "full (translator tie): the state lha_lh1_init of the working tree builds (offset lookup, offset lengths, code-to-leaf map, ring, position), dumped on every run, = the model's init for every source", "lh1_lockstep": "FULL STATEMENT: every symbol sequence, any length, any number of rebuilds: decoder tree = mirror image of the LZHUF tree",
            "lh1_decode_encode": "FULL round trip: every valid command list, any chunking/schedule, declared length <= expansion (necessary: zero padding)",
            "mirror_init": "full", "mirror_step": "full: one symbol incl. rebuild", "rebuild_reached": "full: the rebuild branch is reached after 32454 symbols",
            "mirror_is_what_the_tie_evaluates": "full: Mirror implies the driver's mirrorDiff = none",
            "position_tables_consistent": "full", "decoder_tree_invariant": "full: any input"}
TRUSTED = ["spec LhasaV.Spec.Lzhuf: a literal transcription of LZHUF.C (StartHuff, reconst, update, EncodeChar, EncodePosition, p_len/p_code); "
           "validated against the corpus: all 23 real -lh1- members decode under the spec decoder to their recorded CRC and the spec encoder "
           "reproduces their compressed bytes exactly",
           "hand-written decoder model LhasaV.Model.Lh1 (frequency groups), tied to the C by the differential run"]
ASSUMPTIONS = ["streams produced by the LZHUF encoder (the property's domain)"]
RULE = ("tools/difftest_lh1.py: command sequences over literals and copies (length 3..60, distance 0..4095): skewed / uniform histograms, "
        "> 32768 symbols (several tree rebuilds, some > 100000 symbols), tie patterns (round robin over k = 2..314 symbols, all 314 symbols), all "
        "64 upper-distance classes, first use of a symbol right after a rebuild, codes up to 18 bits; encoded by the Lean LZHUF spec; C output = "
        "model output = spec decoder output = LZ77 expansion; after EVERY command the model's tree is the mirror image (i <-> 626-i) of the LZHUF "
        "tree; corpus oracle. non-trivial: every generated sequence (all go through the adaptive tree)")


def budget(tier):
    return 1


def gen_cases(ctx, n):
    return dtwrap.one_case("lh1")


evaluate = dtwrap.evaluate_with("difftest_lh1.py", ID, quick_scale=1.0, thorough_scale=4.0)


def nontrivial(c):
    return True


def signature(case, c_out, why):
    return "lh1-mismatch"


LEVEL_TEXT = ("Kernel-checked lock-step theorem at full strength: for every symbol sequence (any length, any number of rebuilds, any tie pattern) the "
              "decoder model's tree is the mirror image of the tree of a literal LZHUF transcription; and the round trip: decoding what LZHUF "
              "encodes yields the denoted bytes for every valid command list, chunking, schedule and declared length up to the expansion. Model "
              "and spec tied to the C by generated sequences (many rebuilds) with the mirror map evaluated after every command, and to the corpus.")
LEVEL_NOTE = ("Trusted: Lean kernel; axioms propext, Classical.choice, Quot.sound; Spec.Lzhuf as the transcription of LZHUF.C (validated: the 23 real "
              "-lh1- members re-encode bit for bit); the hand decoder model (differentially validated). The declared length <= expansion condition "
              "is necessary (zero padding decodes as symbols), as in LZHUF's own decoder.")
TECHNIQUE = "Lean 4 proof (mirror refinement between the decoder's grouped tree and LZHUF's arrays, incl. reconstruction; round trip) + mirror-map differential correspondence"
