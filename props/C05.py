"""C05 — every well-formed level 0-3 header is returned with exactly its encoded fields."""
from vlib.core import Case
from vlib import core, hdrspec as G

ID = "C05"
LEAN_MODULES = ["LhasaV.Props.C05"]
VH_FEATURES = ["header"]
THEOREMS = {"os9_permissions_match_source": "full (translator tie): os9_to_unix_permissions evaluated from the working tree for all 65536 words = the model, for every header", 
    "header_roundtrip": "FULL STATEMENT: every well-formed typed field assignment of levels 0-3, any mktime, any following data",
    "header_roundtrip_ok": "full", "layout_matches_source": "full (Gen): spec layout constants = compiled source",
    "level1_compressed_size": "full",
}
TRUSTED = ["spec LhasaV.Spec.HeaderEnc (levels 0-3 layouts as an encoder of typed fields; typed meaning of each extended header and "
           "level-0 area; constants stated independently of the source) and Header.postProcess as the meaning of the normalisation "
           "stage (its pieces are characterised by C11's and this property's lemmas)",
           "hand-written parser model LhasaV.Model.Header tied to lib/lha_file_header.c + lib/ext_header.c by the differential run",
           "mktime as timegm (harness runs under TZ=UTC)"]
ASSUMPTIONS = ["TZ=UTC, C locale", "input callbacks deliver full reads except at end of input"]
RULE = ("typed field assignments for each level 0..3: all 14 methods, 19 OS types, sizes/times/ids at 0, 1, 2^k-1, 2^(k-1) and random, "
        "names lower/upper/mixed/with separators, '|', 0xFF, arbitrary bytes up to the level's limit; level-0 Unix ('U'/'K') and "
        "OS-9 areas and unrecognised areas; level-1 padding bytes and compressed sizes up to 2^32 minus the chain; every supported "
        "extended header with and without trailing bytes, unknown types, known types too short to decode, duplicates, any order, "
        "common-CRC headers anywhere; directories and symlinks in all 'name|target' layouts; OS-9/68k level-2 quirk. Encoded by the "
        "Lean spec (hdrenc), followed by random member data. Three-way: C header dump = model dump = normalise(fields) "
        "incl. the number of bytes left for the member. non-trivial: >= 2 extended headers or a level-0 area")


def budget(tier):
    return 3000 if tier == "quick" else 300000


def gen_cases(ctx, n):
    r = ctx.rng
    descs = [G.rand_fields(r, i % 4) for i in range(n)]
    enc, _ = core.run_lines_parallel([core.lhv_path()], ["hdrenc " + d for d, _ in descs])
    # length-targeted variants: a level-2/3 header padded by one unknown extended header so that its TOTAL length is an exact
    # multiple of 256 (the low byte of the 16-bit length field is 0), one less and one more; level-0/1 headers have their length
    # in one byte and are covered by the name lengths up to the maximum
    var = []
    for (d, tags), e in zip(list(descs), list(enc)):
        if not e.startswith("ok") or d[1] not in "23" or ";X" not in d or "chain" in " ".join(tags) or r.random() > 0.3:
            continue
        ln = len(e.split()[1]) // 2
        over = 3 if d[1] == "2" else 5
        for delta in (0, -1, 1):
            target = (ln + over + 255) // 256 * 256 + r.choice([0, 0, 256]) + delta
            k = target - ln - over
            if k < 0 or target > 4000:
                continue
            pre, x = d.split(";X")
            ext = "O%d.%s" % (r.choice([0x3f, 0x7e]), G.hx(bytes([r.randrange(256)]) * k))
            var.append((pre + ";X" + (x + "|" if x else "") + ext, set(tags) | {"total-length%256=" + str(delta % 256)}))
    venc, _ = core.run_lines_parallel([core.lhv_path()], ["hdrenc " + d for d, _ in var])
    for (d, tags), e in zip(var, venc):
        if e.startswith("ok"):
            descs.append((d, tags)); enc.append(e)
    out = []
    for (d, tags), e in zip(descs, enc):
        if not e.startswith("ok"):
            out.append(Case("hdr -", judge=lambda c, e=e: "generator produced fields the spec rejects: " + e[:60],
                            tags={"generator-bug"}, note=d[:300]))
            continue
        data = bytes(r.randrange(256) for _ in range(r.choice([0, 1, 7, 40])))
        hexs = e.split()[1] + data.hex()

        def sj(c_out, s_out):
            if c_out.startswith(("CRASH", "TIMEOUT")):
                return "implementation crashed: " + c_out[:150]
            if c_out != s_out:
                ck = dict(t.partition("=")[::2] for t in c_out.split()[1:]) if c_out.startswith("ok") else {}
                sk = dict(t.partition("=")[::2] for t in s_out.split()[1:]) if s_out.startswith("ok") else {}
                diff = [k for k in sk if ck.get(k) != sk.get(k)]
                return "returned header differs from the encoded fields (%s; fields: %s)" % (
                    "accepted" if c_out.startswith("ok") else c_out[:20], ",".join(diff[:8]) or "verdict")
            return None
        ne = d.split(";X")[1].count("|") + 1 if ";X" in d and d.split(";X")[1] else 0
        out.append(Case("hdr " + hexs, spec="hdrnorm %s %d" % (d, len(data)), spec_judge=sj, tags=tags,
                        note="nt" if (ne >= 2 or ";A" in d) else ""))
    return out


def corpus_cases(ctx):
    """tie (c): the headers of every member of the repository's archives (written by ~20 historical archivers) are parsed by an
    independent parser (vlib/hdrparse.py) into typed fields; Spec.HeaderEnc.encode must reproduce them byte for byte and the C
    parser's result on the real bytes must equal normalise(fields)"""
    import os
    from vlib import corpus, hdrparse
    lhv = core.lhv_path()
    mem = corpus.members(lhv)
    cache, items = {}, []
    for m in mem:
        f = os.path.join(corpus.ARCH_DIR, m["archive"])
        if f not in cache:
            cache[f] = open(f, "rb").read()
        buf = cache[f][m["offset"]:]
        try:
            txt, hlen, clen = hdrparse.parse(buf)
        except Exception as e:
            continue
        items.append((m, buf[:hlen], buf[hlen:hlen + 8], txt))
    enc, _ = core.run_lines_parallel([lhv], ["hdrenc " + t for _, _, _, t in items])
    out = []
    for (m, hb, data, txt), e in zip(items, enc):
        tie = None
        if e == "bad-op":
            ctx.dist["corpus-header-not-expressible"] += 1      # e.g. padding after the chain (field `z`), until the spec has it
            continue
        if not e.startswith("ok"):
            tie = "the spec rejects a real header of %s as not well-formed" % m["archive"]
        elif bytes.fromhex(e.split()[1]) != hb:
            tie = "Spec.HeaderEnc.encode does not reproduce a real header of %s byte for byte" % m["archive"]

        def sj(c_out, s_out, tie=tie):
            if tie:
                return "TIE: " + tie
            if c_out.startswith(("CRASH", "TIMEOUT")):
                return "implementation crashed: " + c_out[:150]
            return None if c_out == s_out else "returned header differs from the fields of a real header"
        out.append(Case("hdr " + (hb + data).hex(), spec="hdrnorm %s %d" % (txt, len(data)), spec_judge=sj,
                        tags={"corpus", "level=%d" % hb[20]}, note="nt"))
    ctx.dist["corpus-headers-reencoded"] += len(out)
    return out


def nontrivial(c):
    return bool(c.note)


def signature(case, c_out, why):
    return "header-fields-differ"


LEVEL_TEXT = ("Kernel-checked round-trip theorem at full strength: for every well-formed typed field assignment of level 0-3 (any values, "
              "any typed extended headers in any order incl. duplicates/unknown/too-short/common-CRC, level-0 areas, level-1 padding) and "
              "any following data, the parser model returns exactly normalise(fields) and leaves the member data. Model tied to the C by a "
              "three-way differential run: C parse(encode f) = model parse(encode f) = normalise f on generated typed fields.")
LEVEL_NOTE = ("Trusted: Lean kernel; axioms propext, Classical.choice, Quot.sound; Spec.HeaderEnc as the meaning of the layouts; "
              "Header.postProcess as the definition of the normalisation stage; the hand parser model (differentially validated); "
              "mktime as a parameter (timegm under TZ=UTC in the harness).")
TECHNIQUE = "Lean 4 proof (typed-field round trip through the parser model) + three-way differential correspondence"
