"""C18 — archive-derived text printed by the tool is printable ASCII only."""
import os, re, tempfile, shutil
from concurrent.futures import ThreadPoolExecutor
from vlib.core import Case
from vlib import core, lhaenc as E, streams as S
from vlib.lhaenc import crc16

ID = "C18"
LEAN_MODULES = ["LhasaV.Props.C18"]
VH_FEATURES = ["tool"]
THEOREMS = {"safe_class_matches_source": "full (translator tie): safe_output of src/safe.c evaluated for every byte = the model; byte-wise on every string", "os_names_match_source": "full (translator tie): os_type_to_string of src/list.c evaluated for all 256 identifier bytes = the model", "progress_len_matches_source": "full (translator tie): MAX_PROGRESS_LEN", "safe_output_printable": "full: every byte string", "safe_keeps_printable": "full",
            "test_output_printable": "full: stdout of lha t on every archive/options (progress bars, Tested / CRC error, VERIFY)",
            "extract_output_printable": "full: stdout of lha x/e/xn on every archive, options, file system, answers",
            "stderr_printable": "full: prompts and error messages of both modes",
            "listing_printable": "full: every byte of every l/lv/v/vv listing, any quiet level, for ARBITRARY headers",
            "print_banners_printable": "full: lha p = banner segments (printable/newline) + member contents",
            "(t/x progress and error messages go through the sanitiser)": "correspondence only"}
TRUSTED = ["an ISO-8859-1 LC_CTYPE compiled with localedef into the run's temp area (vlib/locale8.py) for half of the tool runs; if localedef is missing all runs use the C locale (recorded in evidence as locale8)", "gen/ext_tool.c + gcc: os_type_to_string, safe_output and MAX_PROGRESS_LEN are evaluated by compiling src/list.c, src/safe.c, src/extract.c", "model LhasaV.Model.Safe of safe_output (src/safe.c), tied by the `safe` op; which call sites go through it is observed on the "
           "real tool's stdout/stderr, mode by mode"]
ASSUMPTIONS = ["file contents dumped by `p` are outside the property: generated members contain printable data"]
RULE = ("archives whose header string fields carry arbitrary bytes 0x01..0xFF: in-header names, name / path / user / group extended headers, "
        "symlink targets, the 5-byte method field of the first member (constrained only by the signature scan) and of later members, with "
        "directories, files and symlinks at levels 0-2; every mode l lv v vv t tq xqf xq0f xq1f xf xn p pq, from a file and from stdin. Judge: every byte of "
        "stdout and stderr is in {0x20..0x7E, LF, CR, TAB}. Plus safe_printf itself on every single byte and random strings (C = model). "
        "non-trivial: a hostile byte reaches a field that the mode prints")

MODES = ["l", "lv", "v", "vv", "t", "tq", "xqf", "xq0f", "xq1f", "xf", "xn", "p", "pq", "pn", "tn",
         # second extraction into the same directory, overwrite policy "prompt", with scripted answers on standard input: the prompt,
         # "Skipped..." and "but file is exist" lines carry the names of members that already exist
         "x+s", "x+a", "x+n", "x+y", "x+junk", "xn+", "e+s"]
ANSWERS = {"s": b"s\n", "a": b"a\n", "n": b"n\n" * 12, "y": b"y\n" * 12, "junk": b"zz\n\x1b\n\ny\ns\n", "": b""}
ALLOWED = set(range(0x20, 0x7f)) | {0x0a, 0x0d, 0x09}


def budget(tier):
    return 150 if tier == "quick" else 2500


def hostile(r, n=None, avoid=b"\x00"):
    n = n or r.randrange(1, 9)
    pool = [0x1b, 0x07, 0x08, 0x0a, 0x0d, 0x7f, 0x80, 0x9b, 0xff, 0x01, 0x1f] + list(range(1, 256))
    out = bytearray()
    while len(out) < n:
        b = r.choice(pool) if r.random() < 0.6 else r.choice(b"abcXYZ._-")
        if bytes([b]) not in avoid and b != 0:
            out.append(b)
    return bytes(out)


def hostile_archive(r):
    out = b""
    nm = r.randrange(1, 4)
    for i in range(nm):
        lvl = r.choice([0, 1, 2])
        kind = r.choice(["file", "file", "dir", "link"])
        data = bytes(r.choice(b"printable data 0123\n") for _ in range(r.choice([0, 5, 40])))
        method = b"-lh0-"
        if kind == "file" and r.random() < 0.5:
            # hostile method field: first member must still look like a signature to the scanner
            if i == 0:
                method = b"-lh" + hostile(r, 1) + b"-"
            else:
                method = r.choice([b"-" + hostile(r, 3) + b"-", hostile(r, 5), b"-lh" + hostile(r, 1) + b"-"])
        if method in (b"-lh1-", b"-lh4-", b"-lh5-", b"-lh6-", b"-lh7-", b"-lhx-", b"-lz4-", b"-lz5-", b"-lzs-", b"-pm0-", b"-pm1-", b"-pm2-", b"-lhd-") and kind == "file":
            method = b"-lh0-"        # a hostile byte that spells a real method would make `p` dump decoded (non-printable) data
        name = hostile(r, avoid=b"\x00/\\\xff|")
        pathc = hostile(r, r.randrange(1, 5), avoid=b"\x00/\\\xff|")
        if lvl == 2 and r.random() < 0.3:
            # long strings (a formatted line of 1 KiB and more): level-2 headers carry names, paths and link targets of any length
            name = hostile(r, r.choice([300, 600, 1023, 1024, 1500]), avoid=b"\x00/\\\xff|")
            if r.random() < 0.5:
                pathc = hostile(r, r.choice([200, 600, 1100]), avoid=b"\x00/\\\xff|")
        exts = []
        # the OS identifier byte is archive-derived too (a member without permission headers shows the OS name in the first column):
        # known identifiers, and any other byte – control characters, DEL, the 8-bit range
        os_t = r.choice([0x55, 0x55, 0x4d, r.choice([0x1b, 0x7f, 0x80, 0x9b, 0xff, 0x0a, 0x07]), r.randrange(1, 256), r.randrange(0x7f, 256)])
        if kind == "dir":
            method = b"-lhd-"
        if kind == "link":
            method = b"-lhd-"
            name = name + b"|" + hostile(r, r.choice([None, None, 700, 1400]) if lvl == 2 else None, avoid=b"\x00")
            exts.append((E.EXT_PERM, (0o120777).to_bytes(2, "little")))
        if r.random() < 0.4:
            exts.append((E.EXT_USER, hostile(r)))
            exts.append((E.EXT_GROUP, hostile(r)))
        if lvl == 2:
            if kind != "dir":
                exts.append((E.EXT_FILENAME, name))
            if kind == "dir" or r.random() < 0.5:
                exts.append((E.EXT_PATH, pathc + b"\xff"))
            f = E.Fields(level=2, method=method, clen=len(data) if kind == "file" else 0, length=len(data) if kind == "file" else 0,
                         crc=crc16(data) if kind == "file" else 0, os_type=os_t, exts=exts, time=r.choice([0, 1300000000]))
        else:
            nm_in = (pathc + b"\\" + name) if (kind != "dir" and r.random() < 0.5) else (name if kind != "dir" else pathc + b"\\")
            f = E.Fields(level=lvl, method=method, clen=len(data) if kind == "file" else 0, length=len(data) if kind == "file" else 0,
                         crc=crc16(data) if kind == "file" else 0, os_type=r.choice([0x4d, 0x55, 0x00, os_t]), name=nm_in,
                         exts=exts if lvl == 1 else [], time=r.choice([0, 0x3c210000]))
            if lvl == 0 and kind == "link":
                f.area = bytes([0x55, 0, 0, 0, 0, 0]) + (0o120777).to_bytes(2, "little") + b"\0\0\0\0"
        out += E.encode(f) + (data if kind == "file" else b"")
    return out


def gen_cases(ctx, n):
    r = ctx.rng
    out = []
    for b in range(1, 256):
        out.append(Case("safe %02x41" % b, tags={"safe-op"}))
    for _ in range(200):
        out.append(Case("safe " + S.rand_bytes(r, r.randrange(1, 30)).hex(), tags={"safe-op"}))
    for ln in (255, 256, 511, 512, 1022, 1023, 1024, 1025, 2047, 2048, 4096, 5000, 70000):
        out.append(Case("safe " + hostile(r, ln).hex(), tags={"safe-op", "long"}))
    # fixed archives (not left to the random draws): printf directives in every string field (a sanitised string used as a FORMAT), and a
    # LATER member whose method field begins and ends with a non-printable byte (only the first member's method is vetted by the scan)
    fixed = []
    for nm in (b"%n%n%n%n", b"%s%s%s%s%s%s", b"%c%c%c%c%c%c%c%c", b"%5000x%n", b"100%"):
        fixed.append(E.encode(E.Fields(level=2, method=b"-lh0-", clen=2, length=2, crc=crc16(b"ok"), os_type=0x55, time=1000000000,
                                       exts=[(E.EXT_FILENAME, nm), (E.EXT_PATH, nm + b"\xff"), (E.EXT_USER, nm), (E.EXT_GROUP, nm)])) + b"ok"
                     + E.encode(E.Fields(level=2, method=b"-lhd-", clen=0, length=0, crc=0, os_type=0x55, time=1000000000,
                                         exts=[(E.EXT_FILENAME, nm + b"|" + nm), (E.EXT_PERM, (0o120777).to_bytes(2, "little"))])))
    for m2 in (b"\x1blh0\x9b", b"\xfflh0\x07", b"\x9b\x9b\x9b\x9b\x9b"):
        fixed.append(E.encode(E.Fields(level=1, method=b"-lh0-", clen=2, length=2, crc=crc16(b"ok"), os_type=0x55, name=b"first", time=0x3c210000)) + b"ok"
                     + E.encode(E.Fields(level=1, method=m2, clen=2, length=2, crc=crc16(b"ok"), os_type=0x55, name=b"second", time=0x3c210000)) + b"ok")
    for d in fixed:
        for mode in MODES:
            out.append(Case("cli18 %s %s %s" % (mode, "file", d.hex()), tags={"cli", "mode=" + mode, "fixed"}, note="cli"))
    for i in range(n):
        d = hostile_archive(r)
        for mode in (r.sample(MODES, 5) if ctx.tier == "quick" else MODES):
            out.append(Case("cli18 %s %s %s" % (mode, r.choice(["file", "file", "stdin"]) + r.choice(["", "@loc"]), d.hex()), tags={"cli", "mode=" + mode}, note="cli"))
    return out


def prepare(ctx, env):
    vh, err = core.build_vh(ctx, VH_FEATURES)
    if vh is None:
        return "C harness: " + err
    env["vh"] = vh
    lha, err = core.build_lha(ctx, sanitize=True)
    if lha is None:
        return "lha tool: " + err
    env["lha"] = lha
    # an 8-bit locale for half of the tool runs (see vlib/locale8.py); without localedef every run uses the C locale
    from vlib import locale8
    loc, why = locale8.build(ctx.tmp)
    env["loc"] = loc
    ctx.extra["locale8"] = why
    return None


def run_cli18(env, ctx, op):
    _, mode, how, hx = op.split()
    data = bytes.fromhex(hx)
    d = tempfile.mkdtemp(prefix="cli-", dir=ctx.tmp)
    try:
        ap = os.path.join(d, "a.lzh")
        open(ap, "wb").write(data)
        wd = os.path.join(d, "w"); os.mkdir(wd)
        lenv = env.get("loc") if how.endswith("@loc") else None
        how = how.split("@")[0]
        if lenv is not None:
            _run = core.run_cli
            run8 = lambda exe, args, cwd, stdin_data=None: _run(exe, args, cwd, stdin_data=stdin_data, env=lenv)
        else:
            run8 = core.run_cli
        if "+" in mode:
            # first a quiet forced extraction, then the same archive again with the prompt policy and scripted answers
            run8(env["lha"], ["xqf", ap], wd, stdin_data=b"")
            m2, ans = mode.split("+")
            rc, so, se, verdict = run8(env["lha"], [m2, ap], wd, stdin_data=ANSWERS[ans])
        elif how == "file":
            rc, so, se, verdict = run8(env["lha"], [mode, ap], wd, stdin_data=b"")
        else:
            rc, so, se, verdict = run8(env["lha"], [mode, "-"], wd, stdin_data=data)
        if verdict != "ok":
            return verdict
        # the archive path itself is echoed in some error messages: it is ours and printable
        bad = sorted(set(so) - ALLOWED)
        bad_e = sorted(set(se.encode("latin1", "replace")) - ALLOWED)
        if bad or bad_e:
            i = next(k for k, b in enumerate(so) if b not in ALLOWED) if bad else -1
            return "NONPRINTABLE stdout=%s stderr=%s context=%r" % (bytes(bad).hex(), bytes(bad_e).hex(), so[max(0, i - 30):i + 10])
        return "clean out=%d" % len(so)
    finally:
        shutil.rmtree(d, ignore_errors=True)


def evaluate_own(ctx, env, cases, with_model):
    import sys, check as CK
    P = sys.modules[__name__]
    lib = [c for c in cases if c.note != "cli"]
    cli = [c for c in cases if c.note == "cli"]
    conc, corr, st = CK.evaluate(ctx, P, env, lib, with_model)
    with ThreadPoolExecutor(core.JOBS) as ex:
        outs = list(ex.map(lambda c: run_cli18(env, ctx, c.op), cli))
    for c, o in zip(cli, outs):
        ctx.dist["cli=" + o.split(" ")[0]] += 1
        why = None
        if o.startswith(("CRASH", "TIMEOUT")):
            why = "tool crashed: " + o[:120]
        elif o.startswith("NONPRINTABLE"):
            why = "the tool wrote bytes outside printable ASCII / LF CR TAB in mode %s: %s" % (c.op.split()[1], o[:200])
        if why:
            conc.append({"op": c.op[:600], "c_out": o[:300], "why": why, "sig": signature(c, o, why), "tags": sorted(c.tags)})
    st["evaluations"] = len(cases)
    return conc, corr, st


def judge_all(case, c_out):
    if case.op.startswith("safe "):
        if c_out.startswith(("CRASH", "TIMEOUT")):
            return "safe_printf crashed: " + c_out[:150]
        try:
            ob = b"" if c_out == "-" else bytes.fromhex(c_out)
        except ValueError:
            return "safe_printf: unexpected harness output " + c_out[:100]
        if any(b not in ALLOWED for b in ob):
            return "safe_printf let a non-printable byte through"
    return None


_msgs_eval = None


def evaluate(ctx, env, cases, with_model):
    """own cases + the messages tie: Model/Messages (every printf of src/extract.c, the progress bar, prompts, exit status) against the
    real tool's stdout / stderr / exit status / tree on generated archives and commands (tools/difftest_msgs.py)"""
    global _msgs_eval
    conc, corr, st = evaluate_own(ctx, env, cases, with_model)
    if _msgs_eval is None:
        from vlib import dtwrap
        _msgs_eval = dtwrap.evaluate_with("difftest_msgs.py", ID, quick_scale=0.2, thorough_scale=3.0, extra_env={"DIFFTEST_SEED_OFFSET": "0"})
    c2, r2, st2 = _msgs_eval(ctx, env, [], with_model)
    st["evaluations"] = st.get("evaluations", 0) + st2.get("evaluations", 0)
    ctx.dist["messages-tie-cases"] += st2.get("evaluations", 0)
    return conc + c2, corr + r2, st


def nontrivial(c):
    return c.note == "cli"


def signature(case, c_out, why):
    m = re.search(r"context=b'(.{0,30})", c_out)
    mode = case.op.split()[1] if case.op.startswith("cli18") else "safe"
    col = "method-column" if (m and re.search(r"\d+\.\d%|\*{6}", c_out)) and mode in ("v", "vv") else "other"
    return "raw-bytes:%s:%s" % (mode if col == "other" else "v", col)


LEVEL_TEXT = ("Lean theorems: safe_output maps every byte string to printable ASCII; every byte of every listing (l lv v vv, all quiet levels) "
              "is printable or newline for arbitrary headers; lha p output = printable banners + member contents. The models are tied to the real "
              "tool byte for byte (C19, C06) and the byte-set is evaluated on the real stdout/stderr of every mode for hostile header bytes.")
LEVEL_NOTE = ("Partial: libc's printf and the terminal are outside the model; the output of every mode (l lv v vv p t x e xn, stdout and stderr) is "
              "modelled in Lean, proved printable for every archive, and compared byte for byte with the real tool on generated archives.")
TECHNIQUE = ("Lean 4 proof (sanitiser range; printable-output theorems over the listing, print, test and extract message models by loop invariant) + "
             "byte-for-byte output correspondence and output-byte-set observation on the real tool")
