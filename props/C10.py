"""C10 — extraction never touches anything outside the extraction directory."""
import os, re, sys
from concurrent.futures import ThreadPoolExecutor
from vlib.core import Case
from vlib import core, treegen as T, sandbox as SB, lhaenc as E

ID = "C10"
LEAN_MODULES = ["LhasaV.Props.C10"]
VH_FEATURES = []
THEOREMS = {"stripSlashes_no_lead": "full", "full_path_flat": "full", "full_path_relative": "full", "full_path_contained": "full: no .. component, relative (given C11's invariant; name != ..)", "dotdot_name_possible": "full: the side condition is necessary",
            "run_contained_w": "full at model level: w=DIR (relative, no '..'), any of f q i n and wildcards, ANY archive and answers: every mutation below cwd/DIR except the mkdirs of DIR's own missing components",
            "run_contained_w_cwd": "full: whatever DIR is, everything stays below cwd (both models)",
            "test_touches_nothing": "full: lha t leaves the file system exactly as it was", "dry_run_touches_nothing": "full: xn / en likewise, no answer consumed",
            "run_contained_messages": "full: whole-run containment transferred to the message-bearing model (the one tied byte for byte to the tool)",
            "guard_resolves_below_cwd": "full: any file system state", "deferred_link_contained": "full: mutations of a deferred link creation stay under cwd", "deferred_link_refused": "full",
            "run_contained": "FULL STATEMENT (model of the repaired tool, no w=): ANY archive, ANY prompt answers: every mutation of the whole run is below the extraction directory",
            "safe_links_resolve_inside": "full: safe links never lead out",
            "(w=DIR with '..' or absolute DIR - the user's own choice; list/print have no file-system argument in the model; parent-directory time stamps)": "correspondence (canary + complete tree = model)"}
TRUSTED = ["abstract file system LhasaV.Model.Fs (no hard links, single user, symlink resolution with a loop bound) and the extraction "
           "model LhasaV.Model.Extract; both tied to the real tool by comparing the complete resulting tree (types, modes, times, contents, "
           "link targets) after every generated run, as root and as an unprivileged user",
           "the real tool is run in a private directory with a sibling canary directory; absolute targets used by the generator point "
           "into that private area"]
ASSUMPTIONS = ["the extraction directory initially contains no symbolic links to directories", "umask 022, TZ=UTC"]
RULE = ("archives = random entry sequences (length 1..7) over an alphabet of hostile entries: names/paths with '..', leading '/', doubled "
        "separators, backslash- and 0xFF-separated, NUL; symlinks with absolute, '..'-first, '..'-inside ('x/../..', './..'), and safe targets; "
        "safe->dangerous chains, links later replaced by files/directories/links, equal-length deferred links; options f q q1 i w=DIR; as root "
        "and as nobody. Judge: the canary area beside the extraction root is byte- and time-identical afterwards and the sandbox has no new "
        "top-level objects; list/test/print/dry-run modes change nothing at all; complete tree = model tree; every mutation the model logs "
        "resolves under the root. non-trivial: archive contains a symlink or a '..'/absolute name")

READONLY_MODES = ["l", "v", "t", "p", "xn", "en", "lq", "tq", "pq"]
INITIAL_OUTSIDE = None


def budget(tier):
    return 160 if tier == "quick" else 3000


def alphabet(r, base):
    """hostile entries; `base` = absolute path of the sandbox (bytes)"""
    out_abs = base + b"/outside"
    names = [b"a", b"aaaa", b"b", b"d", b"e", b"cc"]
    A = []
    for n in names[:4]:
        A.append(T.Entry("dir", n + b"/", perms=0o40755, mtime=1100000000))
    A.append(T.Entry("file", b"d/c", data=b"DATA-dc"))
    A.append(T.Entry("file", b"b/c", data=b"DATA-bc"))
    A.append(T.Entry("file", b"aaaa", data=b"DATA-aaaa"))
    A.append(T.Entry("file", b"../outside/evil", data=b"EVIL1"))
    A.append(T.Entry("file", b"/" + out_abs[1:] + b"/evil2", data=b"EVIL2"))
    A.append(T.Entry("file", b"x/../../outside/evil3", data=b"EVIL3"))
    for n, tg in [(b"aaaa", b"d"), (b"b", b"aaaa"), (b"b", b"d"), (b"e", b"./d"), (b"cc", b"d/c")]:
        A.append(T.Entry("link", n, target=tg))
    for n, tg in [(b"aaaa", out_abs), (b"b/c", out_abs + b"/x"), (b"e", b"../outside"), (b"b", b"d/../../outside"),
                  (b"cc", b"./../outside"), (b"d/c", b"/"), (b"aaaa", b"../outside"), (b"b", out_abs), (b"e", b"x/../.."),
                  (b"d/lnk", b".."), (b"a", b"d/../.."), (b"a", b"./..")]:
        A.append(T.Entry("link", n, target=tg))
    for n in (b"e/evil4", b"a/evil5", b"cc/evil6", b"d/lnk/outside/evil7", b"b/evil8", b"aaaa/evil9"):
        A.append(T.Entry("file", n, data=b"THROUGH-" + n))
    # members NAMED ".." (a file name may be ".." — only directory components are collapsed): appended last so that
    # the indices used by corpus/C10 stay stable
    A.append(T.Entry("file", b"..", data=b"DOTDOT"))
    A.append(T.Entry("file", b"d/..", data=b"DOTDOT2"))
    A.append(T.Entry("link", b"..", target=b"d"))
    A.append(T.Entry("link", b"d/..", target=out_abs))
    # directory entries whose stored path is ".." after the C-string cut at a NUL byte (no trailing separator, so
    # collapse_path leaves it): the path header carries '..' 00 ff
    A.append(T.Entry("dir", b"..\x00/", perms=0o40777, mtime=1000000000, uid=0, gid=0))
    A.append(T.Entry("dir", b"d/..\x00/", perms=0o40700, mtime=1000000001))
    A.append(T.Entry("dir", b"./", perms=0o40711, mtime=1000000002))
    # parents of a DEFERRED link resolved through links made earlier in the deferred phase (found by the containment proof):
    # a/d/, a/llll -> /ABS/outside (dangerous), a/llll -> d (safe, replaces the placeholder), p -> a/llll, p/q/m -> /zz (dangerous)
    A.append(T.Entry("dir", b"a/d/", perms=0o40755, mtime=1100000000))       # 40
    A.append(T.Entry("link", b"a/llll", target=out_abs))                      # 41
    A.append(T.Entry("link", b"a/llll", target=b"d"))                         # 42
    A.append(T.Entry("link", b"p", target=b"a/llll"))                         # 43
    A.append(T.Entry("link", b"p/q/m", target=b"/zz"))                        # 44
    # metadata applied at the END of the archive through a link that has meanwhile become dangerous: e -> ../outside (deferred), e -> ./d
    # (replaces the placeholder), the directory e/sub/ (lands in d/sub, metadata pending), nothing after it; /outside/sub exists
    A.append(T.Entry("dir", b"e/sub/", perms=0o40777, mtime=1000000007))     # 45
    A.append(T.Entry("dir", b"aaaa/sub/", perms=0o40711, mtime=1000000008))  # 46
    A.append(T.Entry("dir", b"b/sub/", perms=0o40777, mtime=1000000009))     # 47
    # a deferred link TWO levels below a harmless link whose target is later replaced by a dangerous one (the guard must look at EVERY
    # directory prefix, not only the immediate parent): d/sub/, L -> d, b -> L, b/sub/c -> /ABS/outside/x (deferred), L -> ../outside
    # (deferred; its path is LONGER than b/sub/c, so it is created first); /outside/sub exists as a real directory
    A.append(T.Entry("dir", b"d/sub/", perms=0o40755, mtime=1100000001))            # 48
    A.append(T.Entry("link", b"aaaaaaaa", target=b"d"))                              # 49
    A.append(T.Entry("link", b"b", target=b"aaaaaaaa"))                              # 50
    A.append(T.Entry("link", b"b/sub/c", target=out_abs + b"/x"))                    # 51
    A.append(T.Entry("link", b"aaaaaaaa", target=b"../outside"))                     # 52
    # not an entry: an end-of-archive marker and 21 bytes of padding (a failed header read consumes 22 bytes) – whatever follows lies
    # BEHIND the end of the archive and must never be extracted, also not after the deferred links have been made
    A.append(T.Entry("raw", b"", data=bytes(22)))                                    # 53
    # FILE members (and a directory entry with a file name) whose stored directory is ".." after the C-string cut at a NUL byte – no
    # trailing separator, so it is not a path component: the tool's name is "..NAME" inside the extraction directory, never "../NAME"
    A.append(T.Entry("file", b"..\x00/nulcut1", data=b"NULCUT1"))                    # 54
    A.append(T.Entry("file", b"d/..\x00/nulcut2", data=b"NULCUT2"))                  # 55
    A.append(T.Entry("file", b"x/../..\x00/nulcut3", data=b"NULCUT3"))               # 56
    # every file member records a modification time (a metadata call is one more thing that can land outside)
    for i, e in enumerate(A):
        if e.kind == "file" and not e.mtime:
            e.mtime = 1000000100 + i
    return A


def build(r, base, idxs, level, style):
    """style 0: names as '/'-paths via path ext header; 1: doubled leading separators; 2: backslashes in level-0/1 names"""
    ents = alphabet(r, base)
    chosen = [ents[i % len(ents)] for i in idxs]
    out = b""
    for e in chosen:
        if e.kind == "raw":
            out += e.data
            continue
        e.level = level
        if style == 1 and e.kind != "link":
            e = T.Entry(e.kind, b"//" + e.path if not e.path.startswith(b"/") else b"/" + e.path, e.data, e.target, e.perms, e.mtime,
                        level=level)
        out += T.encode_entry(e)
    return out + b"\0"


def gen_cases(ctx, n):
    r = ctx.rng
    out = []
    for i in range(n):
        k = r.randrange(1, 8)
        idxs = [r.randrange(128) for _ in range(k)]
        if i % 6 == 5:
            # a dangerous link, the end of the archive, then a member whose path leads through that link (behind the end)
            al = alphabet(r, b"/X")
            raw = next(j for j, e in enumerate(al) if e.kind == "raw")
            pairs = [(a, b) for a, x in enumerate(al) if x.kind == "link" and (b".." in x.target or x.target.startswith(b"/"))
                     for b, y in enumerate(al) if y.kind == "file" and y.path.startswith(x.path + b"/")]
            a, b = r.choice(pairs)
            idxs = [r.randrange(128) for _ in range(r.randrange(0, 3))] + [a, raw, b] + [r.randrange(128) for _ in range(r.randrange(0, 2))]
        pre_kind = None
        if i % 6 == 3:
            # a symbolic link ALREADY PRESENT at the output path of a dangerous link (a second extraction of the same archive, or a link
            # the user left there), pointing at an existing file outside / at a name outside that does not exist: the placeholder and the
            # final link must replace it, never write through it
            al = alphabet(r, b"/X")
            dang = [j for j, e in enumerate(al) if e.kind == "link" and (b".." in e.target or e.target.startswith(b"/"))
                    and b".." not in e.path and b"\x00" not in e.path and not e.path.startswith(b"/")]
            idxs = [r.randrange(128) for _ in range(r.randrange(0, 3))] + [r.choice(dang)] + [r.randrange(128) for _ in range(r.randrange(0, 2))]
            pre_kind = r.choice(["canary", "dangling"])
        if i % 6 == 4:
            idxs = [r.randrange(128) for _ in range(r.randrange(0, 3))] + [r.choice([54, 55, 56])] + [r.randrange(128) for _ in range(r.randrange(0, 2))]
        level = r.choice([0, 1, 2, 2])
        style = r.choice([0, 0, 0, 1])
        opts = r.choice([["f"], ["q"], ["q1"], ["f", "i"], ["f", "w" + b"sub".hex()], ["f", "w" + b"sub/../x".hex()]])
        as_root = r.random() < 0.6
        if pre_kind:
            opts = r.choice([["f"], ["f", "i"], ["f", "w" + b"sub".hex()]])
        out.append(Case("x10 %s %d %d %d %s%s" % (",".join(opts), 1 if as_root else 0, level, style, ",".join(map(str, idxs)),
                                                   (" pre=" + pre_kind) if pre_kind else ""),
                        tags={"extract", "root" if as_root else "nobody", "style=%d" % style} | ({"pre-existing-link=" + pre_kind} if pre_kind else set()),
                        note="x"))
        if i % 4 == 0:
            out.append(Case("ro10 %s %d %d %s" % (r.choice(READONLY_MODES), level, style, ",".join(map(str, idxs))), tags={"readonly"}, note="ro"))
    return out


def corpus_cases(ctx):
    out = []
    p = os.path.join(core.VERIF, "corpus", "C10")
    if os.path.isdir(p):
        for f in sorted(os.listdir(p)):
            for line in open(os.path.join(p, f)):
                line = line.strip()
                if line and not line.startswith("#"):
                    out.append(Case(line, tags={"corpus"}, note="x" if line.startswith("x10") else "ro"))
    return out


def prepare(ctx, env):
    lha, err = core.build_lha(ctx, sanitize=True)
    if lha is None:
        return "lha tool: " + err
    env["lha"] = lha
    vh, err = core.build_vh(ctx, ["danger"])
    if vh is None:
        return "harness (lib/lha_reader.c is_dangerous_symlink): " + err
    env["vh"] = vh
    return None


def danger_spec(t):
    """the property's predicate: a link target is dangerous iff it is absolute or has a '..' component"""
    t = t.split(b"\0")[0]
    return t[:1] == b"/" or b".." in t.split(b"/")


def danger_cases(r, n):
    import itertools
    out = [bytes(t) for k in range(0, 8) for t in itertools.product(b"./a", repeat=k)]
    for _ in range(n):
        out.append(bytes(r.choice(b"../a./-\\") for _ in range(r.randrange(0, 14))))
    return out


def run_danger(ctx, env, targets):
    ops = ["danger " + (t.hex() or "-") for t in targets]
    c_out, _ = core.run_lines_parallel([env["vh"], "20"], ops)
    m_out, _ = core.run_lines_parallel([env["lhv"]], ops) if env.get("lhv") else (None, None)
    conc, corr = [], []
    for i, t in enumerate(targets):
        want = "1" if danger_spec(t) else "0"
        rec = {"op": ops[i], "c_out": c_out[i], "tags": ["danger-predicate"]}
        if m_out is not None:
            rec["model_out"] = m_out[i]
        if c_out[i] != want:
            rec["why"] = ("link target %r: is_dangerous_symlink says %s, but 'absolute or has a .. component' is %s "
                          "(a dangerous target treated as safe is created at once; a safe one treated as dangerous is deferred)" % (t, c_out[i], want))
            rec["sig"] = "danger-predicate"
            conc.append(rec)
        elif m_out is not None and m_out[i] != c_out[i]:
            rec["why"] = "model and implementation disagree"
            corr.append(rec)
    return conc, corr


def outside_part(listing):
    return ";".join(x for x in listing.split(";") if x.startswith("/6f757473696465"))       # "/outside"


def top_level(listing):
    return sorted({x.split("=")[0].split("/")[1] for x in listing.split(";") if x})


EXPECT_OUTSIDE = "/6f757473696465=d755,1000;/6f757473696465/63616e617279=f644,1000,6,%04x;/6f757473696465/737562=d700,1000" % E.crc16(b"canary")


def run_case(ctx, env, c):
    t = c.op.split()
    r = ctx.rng
    if t[0] == "x10":
        opts, as_root, level, style, idxs = t[1].split(","), t[2] == "1", int(t[3]), int(t[4]), [int(x) for x in t[5].split(",")]
        import random
        rr = random.Random(0)
        holder = {}

        def mk(base):
            holder["arch"] = build(rr, base, idxs, level, style)
            return holder["arch"]
        pre = []
        if len(t) > 6 and t[6].startswith("pre="):
            tail = b"canary" if t[6] == "pre=canary" else b"brand-new"
            wdir = next((bytes.fromhex(o[1:]) for o in opts if o.startswith("w")), b"")
            flat = "i" in opts
            seen = set()
            for e in [alphabet(rr, b"/X")[i % len(alphabet(rr, b"/X"))] for i in idxs]:
                if e.kind == "link" and (b".." in e.target or e.target.startswith(b"/")) and b".." not in e.path and b"\x00" not in e.path \
                        and not e.path.startswith(b"/"):
                    rel = (e.path.rsplit(b"/", 1)[-1] if flat else e.path)
                    rel = (wdir + b"/" if wdir else b"") + rel
                    if rel in seen or any(rel.startswith(q + b"/") or q.startswith(rel + b"/") for q in seen):
                        continue
                    seen.add(rel)
                    comps = rel.split(b"/")[:-1]
                    for k in range(1, len(comps) + 1):          # its parent directories exist too (in the real world and in the model)
                        dpath = b"/".join(comps[:k])
                        if not any(x[1] == dpath for x in pre):
                            pre.append(("d", dpath, 0o755))
                    pre.append(("l", rel, b"../" * (rel.count(b"/") + 1) + b"outside/" + tail))
        res = SB.run_extract(env["lha"], ctx.tmp, mk, opts, as_root=as_root, pre=pre)
        why = None
        if res["verdict"] != "ok":
            why = "tool crashed: " + res["verdict"]
        elif outside_part(res["listing"]) != EXPECT_OUTSIDE:
            why = "objects outside the extraction directory were created, changed, deleted or re-timed: " + outside_part(res["listing"])[:300]
        elif top_level(res["listing"]) != ["6f757473696465", "726f6f74"]:
            why = "new objects beside the extraction directory: " + str(top_level(res["listing"]))
        elif res.get("base_changed"):
            why = "the PARENT of the extraction directory was modified (outside the extraction directory): " + res["base_changed"]
        pre_txt = ",".join(("l:%s:%s" % (p_.hex(), tg.hex())) if k_ == "l" else ("d:%s:%o" % (p_.hex(), tg)) for k_, p_, tg in pre) or "-"
        mop = "xrun %s %d %s - %s %s" % (",".join(opts), 1 if as_root else 0, res["abs_prefix"].hex(), pre_txt, holder["arch"].hex())
        return {"why": why, "listing": res["listing"], "rc": res["rc"], "model_op": mop, "stderr": res["stderr"][:200]}
    else:
        mode, level, style, idxs = t[1], int(t[2]), int(t[3]), [int(x) for x in t[4].split(",")]
        import random
        rr = random.Random(0)
        pre = [("f", b"keep.txt", b"keep"), ("d", b"d", 0o755)]
        res = SB.run_extract(env["lha"], ctx.tmp, lambda base: build(rr, base, idxs, level, style), [], pre=pre, cmd=mode)
        expect = EXPECT_OUTSIDE + ";/726f6f74=d755,1000;/726f6f74/64=d755,1000;/726f6f74/6b6565702e747874=f644,1000,4,%04x" % E.crc16(b"keep")
        why = None
        if res["verdict"] != "ok":
            why = "tool crashed: " + res["verdict"]
        elif res["listing"] != expect:
            why = "mode %s created or modified file-system objects: %s" % (mode, res["listing"][:300])
        return {"why": why, "listing": res["listing"], "rc": res["rc"], "model_op": None, "stderr": res["stderr"][:200]}


def evaluate(ctx, env, cases, with_model):
    with ThreadPoolExecutor(core.JOBS) as ex:
        rs = list(ex.map(lambda c: run_case(ctx, env, c), cases))
    conc, corr = [], []
    ntargets = 0
    if env.get("vh"):
        targets = danger_cases(ctx.rng, 3000 if ctx.tier == "quick" else 60000)
        ntargets = len(targets)
        dc, dr = run_danger(ctx, env, targets)
        conc += dc
        corr += dr
        ctx.dist["danger-targets"] += ntargets
    mops = [(i, r["model_op"]) for i, r in enumerate(rs) if r["model_op"]]
    mouts = {}
    if env.get("lhv") and mops:
        mo, _ = core.run_lines_parallel([env["lhv"]], [m for _, m in mops])
        mouts = {i: o for (i, _), o in zip(mops, mo)}
    for i, (c, r) in enumerate(zip(cases, rs)):
        why = r["why"]
        rec = {"op": c.op, "c_out": "rc=%s %s" % (r["rc"], r["listing"][:1500]), "tags": sorted(c.tags), "stderr": r["stderr"]}
        if i in mouts:
            m = mouts[i]
            rec["model_out"] = m[:1500]
            mfs = re.search(r"fs=(\S*)", m)
            mlog = re.search(r"log=(\S*)", m)
            # model-level containment: every logged mutation lies under /root
            esc = [x for x in (mlog.group(1).split(",") if mlog and mlog.group(1) else []) if not x.split(":")[1].startswith("/726f6f74")]
            if why is None and esc and "6f757473696465" in "".join(esc):
                rec["model_escape"] = esc[:5]
        if why:
            rec["why"] = why
            rec["sig"] = signature(c, rec["c_out"], why)
            conc.append(rec)
        elif with_model and i in mouts:
            mfs = re.search(r"fs=(\S*)", mouts[i])
            mres = re.search(r"res=(\d)", mouts[i])
            if mfs is None or mfs.group(1) != r["listing"] or (mres.group(1) == "1") != (r["rc"] == 0):
                rec["why"] = "model and implementation disagree"
                corr.append(rec)
    return conc, corr, {"evaluations": len(cases) + ntargets}


def nontrivial(c):
    return c.note == "x"


def signature(case, c_out, why):
    if "outside the extraction directory" in why:
        t = case.op.split()
        return "escape:" + (t[5] if len(t) > 5 else "?")
    return re.sub(r"[^a-zA-Z]+", "-", why)[:40]


LEVEL_TEXT = ("Kernel-checked whole-run containment over the file-system model: for ANY archive and prompt answers every mutation of `lha x` "
              "(parents, files, directories, links, placeholders, metadata, deferred dangerous links) acts below the extraction directory, given "
              "only that the directory starts without unsafe links; with the path-construction and link-guard lemmas. The abstract file-system "
              "model is tied to the real tool by complete-tree comparison; containment is also observed on the real tool against a canary area "
              "(root and non-root) and the dangerous-link predicate by a dense three-way tie.")
LEVEL_NOTE = ("Partial only in that the file system is a model: whole-run containment (run_contained) is proved for every archive over the "
              "Fs/Extract/Reader models of the repaired tool (the proof attempt on the pinned tree exposed two defects, fixes e479cab and 4393d80); "
              "the models are tied to the real tool by complete-tree comparison and a canary area; w=DIR with a clean relative DIR is proved (run_contained_w), other DIRs by correspondence; lha t and the dry run are proved to touch nothing.")
TECHNIQUE = "Lean 4 proof (whole-run containment invariant over the Fs/Extract/Reader models; safe-link resolution; deferred-link guard) + file-system-model correspondence + canary observation"
