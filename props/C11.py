"""C11 — returned paths never contain '.', '..' or empty components; names contain no '/'."""
from vlib.core import Case
from vlib import hdrgen as G

ID = "C11"
LEAN_MODULES = ["LhasaV.Props.C11"]
VH_FEATURES = ["header"]
THEOREMS = {
    "collapse_rel_clean": "full: every byte string",
    "collapse_path_clean": "full: every byte string, one optional leading '/'",
    "header_names_clean": "full: every input byte string to the parser model, every level / ext header / OS type / mktime",
}
TRUSTED = ["hand-written models LhasaV.Model.PathFix (collapse_path) and LhasaV.Model.Header (the whole parser); "
           "tied to lib/lha_file_header.c + lib/ext_header.c by the differential run on every generated header",
           "gen/ext_header.c: header constants and the ext-header (num, min_len) table regenerated from the source"]
ASSUMPTIONS = ["C strings end at the first NUL (the model cuts buffers with cstr)", "TZ=UTC for the harness"]
RULE = ("(1) collapse_path on every string over {'.','/','a'} up to a length bound and random longer ones; "
        "(2) whole-parser runs: every string over {'.','/','\\\\',0xFF,NUL,'a','|'} up to a length bound, and random longer "
        "ones, through each entry route (level-0/1 in-header name, dir entry, ext 0x01, ext 0x02, both, four symlink forms). "
        "Judge on the C result: name has no '/', path satisfies CleanPath; and C result = model result. "
        "non-trivial: input contains a separator and a dot")

ALPH1 = [0x2e, 0x2f, 0x61]
ALPH2 = [0x2e, 0x2f, 0x5c, 0xff, 0x00, 0x61, 0x7c]


def budget(tier):
    return 1 if tier == "quick" else 2


def judge_hdr(c_out):
    if c_out.startswith(("CRASH", "TIMEOUT")):
        return "implementation crashed: " + c_out
    d = G.parse_dump(c_out)
    if d is None:
        return None
    return G.name_violation(G.hexfield(d["name"])) or G.clean_path_violation(G.hexfield(d["path"]))


def judge_collapse(c_out):
    if c_out.startswith(("CRASH", "TIMEOUT")):
        return "implementation crashed: " + c_out
    return G.clean_path_violation(b"" if c_out == "-" else bytes.fromhex(c_out))


def gen_cases(ctx, scale):
    r = ctx.rng
    thorough = ctx.tier == "thorough"
    out = []
    n1 = 9 if thorough else 8
    for w in G.words(ALPH1, n1):
        for lead in (b"", b"/"):
            s = lead + w
            out.append(Case("collapse " + (s.hex() or "-"), judge=judge_collapse, tags={"collapse-exh"}))
    for _ in range(3000 * scale):
        s = G.rand_word(r, ALPH1 + [0x2e, 0x2f], 40)
        out.append(Case("collapse " + (s.hex() or "-"), judge=judge_collapse, tags={"collapse-rand"}))
    n2 = 5 if thorough else 4
    for w in G.words(ALPH2, n2):
        for tag, hb in G.name_routes(r, w):
            out.append(Case("hdr " + hb.hex(), judge=judge_hdr, tags={"route=" + tag, "exh"}, note=w.hex()))
    for _ in range((3000 if thorough else 600) * scale):
        w = G.rand_word(r, ALPH2 + [0x2e, 0x2f, 0x2f, 0x61], 24)
        w2 = G.rand_word(r, ALPH2 + [0x2e, 0x2f, 0x41], 12)
        for tag, hb in G.name_routes(r, w, w2):
            out.append(Case("hdr " + hb.hex(), judge=judge_hdr, tags={"route=" + tag, "rand"}, note=w.hex()))
    return out


def nontrivial(c):
    t = c.op.split()
    if t[0] == "collapse":
        return "2f" in t[1] and "2e" in t[1]
    return c.note is not None and ("2f" in c.note or "5c" in c.note or "ff" in c.note) and "2e" in c.note


def signature(case, c_out, why):
    return "path-not-clean" if "path" in why else ("name-has-slash" if "name" in why else "crash")


def judge_all(case, c_out):
    # count accepted headers for the distribution report
    return None


LEVEL_TEXT = ("Kernel-checked Lean theorems over the whole header-parser model: for every input byte string the returned "
              "file name has no '/' and the returned path is clean (collapse_path invariant proved for every string). "
              "Model tied to the C by exhaustive small-alphabet and random differential runs through every entry route.")
LEVEL_NOTE = ("Trusted: Lean kernel; axioms propext, Classical.choice, Quot.sound; the hand-written parser model "
              "(differentially validated on every run, incl. 470 corpus headers in C05); gen/ext_header.c.")
TECHNIQUE = "Lean 4 proof (loop invariant of collapse_path + name invariant through the parser model) + differential correspondence"
