"""C09 — no compressed data can make any decompressor touch invalid memory."""
from vlib.core import Case
import os
from vlib import streams as S, core

ID = "C09"
LEAN_MODULES = ["LhasaV.Props.C09"]
VH_FEATURES = ["decoder"]
PER_OP_SECONDS = 30
THEOREMS = {'wrap_le_asked': 'full', 'lhnew_reach_inv': 'full', 'lhnew_no_fault': 'full: lh4/5/6/7/x/k7, any input', 'lhnew_params_good': 'full (Gen)', 'lhnew_max_read_ok': 'full (Gen)', 'lzs_no_fault': 'full', 'lz5_no_fault': 'full', 'null_no_fault': 'full', 'pm2_no_fault': 'full', 'pm1_no_fault': 'full', 'lh1_no_fault': 'full: incl. rebuild', 'all_methods_covered': 'full: 14 names'}
TRUSTED = ["hand-written decoder models (LhasaV.Model.{Bits,Tree,LhNew,Lh1,Lzs,Pm,Wrap}); every C array access is a checked "
           "access against the capacity extracted from the compiled source (Gen.Decoders)",
           "clang ASan + UBSan(bounds,null,...) as the observer of memory errors in the compiled decoders"]
ASSUMPTIONS = ["callback returns <= requested bytes and 0 only at end of input"]
RULE = ("per method (14 names): uniform random byte strings; bit/byte mutations and truncations of real corpus members; "
        "table-hostile structured streams (unconstrained counts, single-code tables, over-long zero runs, incomplete and "
        "over-subscribed length tables); random declared length, read schedule (incl. 0-byte reads), callback chunking. "
        "Judge on C: no sanitizer report, no timeout, no read returning more than asked, total <= declared length; "
        "and C result = model result (a model FAULT is a reported checked-access failure). "
        "non-trivial: the stream decodes at least one byte or is a hostile/mutated stream")


def budget(tier):
    return 120 if tier == "quick" else 8000      # per method


def judge(declen):
    def j(c_out):
        if c_out.startswith(("CRASH", "TIMEOUT")):
            return "memory error / abnormal termination in the implementation: " + c_out[:200]
        d = S.parse_dec(c_out)
        if d is None:
            return "unexpected harness output " + c_out[:80]
        if "OVERREAD" in d["extra"]:
            return "a read returned more bytes than asked for"
        n = 0 if d["out"] == "-" else len(d["out"]) // 2
        if n > declen:
            return "more bytes (%d) than the declared length %d" % (n, declen)
        return None
    return j


def gen_cases(ctx, per_method):
    r = ctx.rng
    seeds = S.seeds(core.lhv_path())
    out = []
    for meth in S.METHODS:
        pool = seeds.get(meth, [])
        for i in range(per_method):
            k = r.random()
            tags = {"m=" + meth}
            if k < 0.3 or not pool:
                data = S.rand_bytes(r, S.geometric_len(r, 30, 600))
                declen = r.choice([0, 1, 17, 300, 5000, 70000])
                tags.add("random")
            elif k < 0.6:
                data, dl = r.choice(pool)
                if len(data) > 3000:
                    cut = r.randrange(0, 3000)
                    data = data[:cut]
                for _ in range(r.choice([1, 1, 2, 5])):
                    data = S.mutate(r, data)
                declen = r.choice([dl, dl, dl + 100, max(0, dl - 7), 4000])
                declen = min(declen, 80000)
                tags.add("mutated-corpus")
            else:
                if meth in S.LHNEW:
                    data = S.hostile_lhnew(r, meth)
                elif meth == "pm2":
                    data = S.hostile_pm2(r)
                elif meth == "pm1":
                    data = S.hostile_pm1(r)
                else:
                    data = S.rand_bytes(r, S.geometric_len(r, 12, 100))
                declen = r.choice([10, 1000, 20000, 70000])
                tags.add("hostile")
            sched = S.schedule(r, declen)
            chunk = r.choice([0, 0, 0, 1, 2, 3])
            out.append(Case(S.dec_op(meth, declen, chunk, r.choice([-1, -1, 0, 1]), sched, data),
                            judge=judge(declen), tags=tags))
    # structured valid streams that drive the ADAPTIVE tables to their extremes (random and mutated streams never do):
    # -lh1-: every one of the 314 symbols (256 literals, 58 copy lengths), in several orders, so that every slot of the node table -
    # the last one included - is updated while alone in its frequency group; then skewed tails; serialised by the Lean LZHUF spec
    descs = []
    for i in range(6 if per_method < 400 else 40):
        lits = list(range(256))
        lens = list(range(3, 61))
        syms = [("L", b) for b in lits] + [("C", l) for l in lens]
        mode = i % 3
        if mode == 0:
            r.shuffle(syms)
        elif mode == 1:
            syms = syms[::-1]
        cmds = []
        for j, (k_, v) in enumerate(syms):
            if k_ == "L":
                cmds.append("L%02x" % v)
            else:
                cmds.append("C%d.%d" % (r.randrange(min(64, 1 + j)), v))
        heavy = r.choice(lits)
        cmds += ["L%02x" % heavy] * r.choice([0, 50, 400]) + [cmds[r.randrange(len(cmds))] for _ in range(r.choice([0, 20, 300]))]
        descs.append(",".join(cmds))
    ser, _ = core.run_lines_parallel([core.lhv_path()], ["lh1ser " + d for d in descs])
    for d, hx in zip(descs, ser):
        hexs = hx.split()[-1] if hx.startswith("ok") else hx
        if hexs in ("invalid", "bad-op") or hexs.startswith(("FAULT", "error")):
            continue
        data = b"" if hexs == "-" else bytes.fromhex(hexs)
        for declen in (r.choice([300, 2000]), 70000):
            out.append(Case(S.dec_op("lh1", declen, r.choice([0, 1, 3]), -1, S.schedule(r, min(declen, 20000)), data), judge=judge(declen),
                            tags={"m=lh1", "all-symbols"}))
    # valid static-Huffman streams made of long copies over a SINGLE-CODE offset table (an offset costs no bits), cut at every byte:
    # the data ends inside the extra length bits of a copy code while the few bits left over still decode – the "no more input"
    # answer of every sub-step must stop the command (for -lk7- the extra length bits are a step of their own)
    from vlib import lhnewgen as LG
    ldescs = []
    for i in range(12 if per_method < 400 else 80):
        meth = "lk7" if i % 2 == 0 else r.choice(["lh4", "lh5", "lh6", "lh7", "lhx"])
        lhark = LG.FMT[meth][4]
        cmds = ["L%02x" % r.randrange(256) for _ in range(r.choice([1, 3]))]
        dist = r.choice([0, 0, 1, 3])
        for _ in range(r.choice([6, 20, 60])):
            n = r.choice([11, 12, 15, 16, 23, 24, 40, 100, 200, 256] + ([257, 300, 400, 513, 514] if lhark else [3, 4]))
            cmds.append("C%d.%d" % (dist, n))
        ldescs.append((meth, LG.gen_block(r, meth, cmds, ("huff", "single", r.choice(["huff", "single"])))))
    lser, _ = core.run_lines_parallel([core.lhv_path()], ["lhnser %s %s" % (m, d) for m, d in ldescs])
    for (meth, d), hx in zip(ldescs, lser):
        if not hx.startswith("ok") or len(hx.split()) < 2:
            continue
        data = bytes.fromhex(hx.split()[1])
        for cut in range(max(1, len(data) - 40), len(data) + 1):
            out.append(Case(S.dec_op(meth, 70000, r.choice([0, 0, 1]), -1, [r.choice([70000, 4096, 1])], data[:cut]), judge=judge(70000),
                            tags={"m=" + meth, "valid-long-copies-cut"}))
    if ctx.tier == "thorough" and not os.environ.get("VERIF_NO_FUZZ"):
        out += fuzz_cases(ctx, int(os.environ.get("VERIF_FUZZ_SECONDS", "120")))
    return out


def fuzz_cases(ctx, seconds):
    """thorough tier: libFuzzer (coverage-guided) on all 14 methods; crashes are findings, the corpus is replayed through C and model"""
    import os, subprocess, glob
    bdir = os.path.join(ctx.tmp, "fuzz")
    os.makedirs(os.path.join(bdir, "corpus"), exist_ok=True)
    inc = ["-I", core.REPO, "-I", os.path.join(core.REPO, "lib"), "-I", os.path.join(core.REPO, "lib", "public"), "-DHAVE_CONFIG_H", "-w"]
    srcs = [os.path.join(core.REPO, "lib", f) for f in core.lib_sources()] + [os.path.join(core.HARNESS, "fuzz_decoder.c")]
    exe = os.path.join(bdir, "fuzz_decoder")
    r = subprocess.run(["clang", "-O1", "-g", "-fsanitize=fuzzer,address,bounds,null", "-fno-sanitize-recover=all"] + inc + srcs + ["-o", exe],
                       capture_output=True, text=True)
    if r.returncode != 0:
        ctx.extra["fuzz"] = {"error": r.stderr[-500:]}
        return []
    # seed corpus: real members of every method
    seeds = S.seeds(core.lhv_path(), maxlen=4000)
    for mi, meth in enumerate(S.METHODS):
        for j, (data, dl) in enumerate(seeds.get(meth, [])[:6]):
            open(os.path.join(bdir, "corpus", "seed-%s-%d" % (meth, j)), "wb").write(
                bytes([mi, min(dl, 65535) & 0xff, min(dl, 65535) >> 8, 0]) + data)
    e = dict(os.environ); e.update(core.SAN_ENV)
    fr = subprocess.run([exe, os.path.join(bdir, "corpus"), "-max_total_time=%d" % seconds, "-max_len=2048", "-jobs=%d" % core.JOBS,
                         "-workers=%d" % core.JOBS, "-artifact_prefix=" + bdir + "/crash-", "-print_final_stats=1"],
                        cwd=bdir, capture_output=True, text=True, env=e, timeout=seconds * 3 + 600)
    crashes = sorted(glob.glob(os.path.join(bdir, "crash-*")))
    files = sorted(glob.glob(os.path.join(bdir, "corpus", "*")))
    ctx.extra["fuzz"] = {"seconds": seconds, "corpus_files": len(files), "crash_artifacts": len(crashes)}
    out = []
    for f in crashes + files[:6000]:
        d = open(f, "rb").read()
        if len(d) < 4:
            continue
        meth = S.METHODS_FUZZ[d[0] % 14]
        declen = d[1] | (d[2] << 8)
        k = 1 + (d[3] >> 2) * 37
        out.append(Case(S.dec_op(meth, declen, d[3] % 4, -1, [k], d[4:]), judge=judge(declen),
                        tags={"m=" + meth, "fuzz-crash" if f in crashes else "fuzz-corpus"}))
    return out


def corpus_cases(ctx):
    import glob, os
    out = []
    for f in sorted(glob.glob(os.path.join(core.VERIF, "corpus", "C09", "*.txt"))):
        for line in open(f):
            line = line.strip()
            if line:
                out.append(Case(line, judge=judge(int(line.split()[2])), tags={"corpus", "m=" + line.split()[1]}))
    return out


def nontrivial(c):
    return "hostile" in c.tags or "mutated-corpus" in c.tags or "fuzz-corpus" in c.tags or "fuzz-crash" in c.tags


def signature(case, c_out, why):
    import re
    m = re.match(r"CRASH (\S+)", c_out)
    meth = case.op.split()[1]
    return "%s:%s" % (meth, m.group(1) if m else why.split(":")[0][:40])


LEVEL_TEXT = ("Lean theorems over checked-access decoder models (fault unreachable) for the parts proved, with capacities "
              "regenerated from the compiled source; differential + sanitizer correspondence for all 14 methods")
LEVEL_NOTE = ("Partial: proofs cover index arithmetic of the modelled decoders; that the compiled code performs no other "
              "invalid access is observed by ASan/UBSan, not proved. See evidence.theorems for per-theorem status.")
TECHNIQUE = "Lean 4 proof (no-fault invariants over checked-access models) + Gen capacities + sanitizer differential correspondence"
