"""C08 — no archive bytes can make the library or tool touch invalid memory or abort."""
import os, tempfile, shutil
from concurrent.futures import ThreadPoolExecutor
from vlib.core import Case
from vlib import core, archgen as A, streams as S
import check as CK

ID = "C08"
LEAN_MODULES = ["LhasaV.Props.C08"]
VH_FEATURES = ["reader", "header"]
PER_OP_SECONDS = 30
THEOREMS = {'header_no_fault': 'full: every input byte string', 'header_consumes_within': 'full', 'leadin_no_fault': 'full', 'reader_no_uaf': 'full: every history',
            'tool_no_fault': 'full at model level: lha x/e/p/l/v on every archive, options, file-system state, answers - no step of the run faults',
            'extract_run_no_fault': 'full', 'print_run_no_fault': 'full', 'list_headers_no_fault': 'full',
            'history_no_fault': 'full: library on every history (also the next/check loop of lha t): next never faults, ownership, no decoder fault mark',
            'test_run_no_fault': 'full: lha t on every archive (and the message-bearing x loop)', 'fault_flag_never_set': 'full',
            'visited_state_ok': 'full: what holds at every reader state the tool visits',
            '(compiled binary, libc)': 'observed by ASan/UBSan, not proved'}
TRUSTED = ["hand-written models of the header parser, input stream, basic reader, reader and MacBinary pass-through "
           "(LhasaV.Model.{Header,Stream,Reader}); every raw-data / lead-in access is a checked access, header ownership is a ghost ledger",
           "clang ASan + UBSan as the observer of memory errors in the compiled library and tool; file-system layer of the library "
           "replaced by stubs in the reader harness, the real one in the CLI runs"]
ASSUMPTIONS = ["each entry is decoded or extracted at most once (the property's quantifier)", "TZ=UTC"]
RULE = ("(a) library: reader API histories (next / read k / check / extract, at most one decode and one extract per entry) over the four "
        "stream kinds and three directory policies on: real corpus archives, their bit/byte/truncation/insertion mutations, structured "
        "archives from the header encoder with inconsistent length fields, unstructured bytes. (b) tool: the sanitizer-built lha in modes "
        "l v lv vv t p xn xqf on the same inputs (file and stdin). Judge: no sanitizer report, signal, timeout; library results = model. "
        "non-trivial: the archive yields at least one header and is not an unmodified corpus file")

canon = A.canon_rdr
CLI_MODES = ["l", "v", "lv", "vv", "t", "p", "xn", "xqf", "pq", "tq2"]


def budget(tier):
    return 900 if tier == "quick" else 12000


def judge(c_out):
    if c_out.startswith(("CRASH", "TIMEOUT")) or "OVERREAD" in c_out:
        return "memory error / abnormal termination: " + c_out[:200]
    return None


def gen_archive(r, smalls):
    k = r.random()
    if k < 0.12:
        name, d = r.choice(smalls)
        return d, "corpus"
    if k < 0.22:
        return A.dirkind_archive(r), "dir-kinds"
    if k < 0.27:
        return r.choice([A.odd_method_archive, A.prefix_dirs_archive])(r), "odd-members"
    if k < 0.55:
        name, d = r.choice(smalls)
        return A.mutate_archive(r, d), "mutated"
    if k < 0.8:
        return A.structured_archive(r), "structured"
    if k < 0.93:
        return A.hostile_member_archive(r), "hostile-member"
    return S.rand_bytes(r, S.geometric_len(r, 60, 2000)), "random"


def gen_cases(ctx, n):
    r = ctx.rng
    smalls = A.small_archives(30000)
    out = []
    for i in range(n):
        d, kind = gen_archive(r, smalls)
        toks = A.decode_history(r) if kind == "hostile-member" else A.legal_history(r)
        if kind in ("dir-kinds", "odd-members"):
            toks = A.extract_history(r)
        out.append(Case(A.rdr_op(r.choice(A.KINDS), r.choice(A.POLICIES), toks, d), judge=judge,
                        tags={"lib", kind}))
        if i % 3 == 0:
            mode = r.choice(["t", "p", "xqf"]) if kind == "hostile-member" else \
                r.choice(["xqf", "xf", "eq", "xqfi", "t", "v"]) if kind in ("dir-kinds", "odd-members") else r.choice(CLI_MODES)
            out.append(Case("cli %s %s %s" % (mode, r.choice(["file", "stdin"]), d.hex() or "-"), judge=judge,
                            tags={"cli", "mode=" + mode, kind}))
    # fixed: a DANGEROUS symbolic link whose placeholder cannot be created (the file-system step of its extraction fails), then the walk
    # goes on to the end of the archive, where the reader presents its deferred links – for every policy and stream kind, with the
    # link at top level and inside a directory (not left to the random histories)
    for kind_ in A.KINDS:
        for pol in A.POLICIES:
            for path in (b"", b"d/"):
                d = (A._member(r, b"", b"d|", method=b"-lhd-", perms=0o40755, level=2) if False else b"")
                d = A._member(r, path, b"lnk|../outside", method=b"-lhd-", perms=0o120777, level=r.choice([0, 1, 2])) + \
                    A._member(r, b"", b"after.txt", data=b"after", level=r.choice([0, 1, 2])) + b"\0"
                for toks in (["n", "x0", "n", "x1", "n", "n"], ["n", "x0", "n", "n", "x1", "n"], ["n", "x0"]):
                    out.append(Case(A.rdr_op(kind_, pol, toks, d), judge=judge, tags={"lib", "placeholder-fails"}))
    # fixed: members whose extraction path is EMPTY after the tool strips leading separators (a name that is just "/" or "\\", a path
    # header that is just 0xff; as a file and as a directory entry), really extracted – also flattened and below w=DIR
    from vlib import lhaenc as E8
    empties = []
    for meth in (b"-lh0-", b"-lhd-"):
        for lvl, nm in ((0, b"/"), (1, b"\\"), (1, b"//"), (0, b"\\\\")):
            empties.append(E8.encode(E8.Fields(level=lvl, method=meth, clen=0, length=0, crc=0, name=nm, os_type=0x55)))
        empties.append(E8.encode(E8.Fields(level=2, method=meth, clen=0, length=0, crc=0, os_type=0x55, time=1000000000, exts=[(E8.EXT_PATH, b"\xff")])))
        empties.append(E8.encode(E8.Fields(level=2, method=meth, clen=0, length=0, crc=0, os_type=0x55, time=1000000000,
                                           exts=[(E8.EXT_PATH, b"\xff\xff"), (E8.EXT_FILENAME, b"")] if meth == b"-lhd-" else [(E8.EXT_PATH, b"\xff"), (E8.EXT_FILENAME, b"x")])))
    tailm = A._member(r, b"", b"hello.txt", data=b"hello", level=1)
    for em in empties:
        for mode in ("xqf", "xf", "eq", "xqfi", "xfw=d"):
            out.append(Case("cli %s file %s" % (mode, (em + tailm + b"\0").hex()), judge=judge, tags={"cli", "mode=" + mode, "empty-extraction-path"}))
    # header-level perturbations (every single-byte substitution at the length/level bytes, every truncation,
    # extended-header size perturbations) of a few generated headers: the parser alone, and through the reader
    import props.C12 as C12
    for c in C12.gen_cases(ctx, 4 if n < 2000 else 16):
        if c.note == "crit" or r.random() < 0.02:
            out.append(Case(c.op, judge=judge, tags={"hdr-perturbed"}))
            if r.random() < 0.15:
                hx = c.op.split()[1]
                out.append(Case("rdr %s %s -1 n;c;n;n %s" % (r.choice(A.KINDS), r.choice(A.POLICIES), hx), judge=judge,
                                tags={"lib", "hdr-perturbed"}))
    return out


def prepare(ctx, env):
    vh, err = core.build_vh(ctx, VH_FEATURES)
    if vh is None:
        return "C harness: " + err
    env["vh"] = vh
    lha, err = core.build_lha(ctx, sanitize=True)
    if lha is None:
        return "lha tool: " + err
    env["lha"] = lha
    return None


def run_cli_case(env, ctx, op):
    _, mode, how, hx = op.split()
    data = b"" if hx == "-" else bytes.fromhex(hx)
    d = tempfile.mkdtemp(prefix="cli-", dir=ctx.tmp)
    try:
        ap = os.path.join(d, "a.lzh")
        open(ap, "wb").write(data)
        wd = os.path.join(d, "w")
        os.mkdir(wd)
        if how == "file":
            rc, so, se, verdict = core.run_cli(env["lha"], [mode, ap], wd, stdin_data=b"")
        else:
            rc, so, se, verdict = core.run_cli(env["lha"], [mode, "-"], wd, stdin_data=data)
        return ("exit=%d" % rc) if verdict == "ok" else verdict
    finally:
        shutil.rmtree(d, ignore_errors=True)


def evaluate(ctx, env, cases, with_model):
    import sys
    P = sys.modules[__name__]
    lib = [c for c in cases if not c.op.startswith("cli ")]
    cli = [c for c in cases if c.op.startswith("cli ")]
    conc, corr, st = CK.evaluate(ctx, P, env, lib, with_model)
    with ThreadPoolExecutor(core.JOBS) as ex:
        outs = list(ex.map(lambda c: run_cli_case(env, ctx, c.op), cli))
    for c, o in zip(cli, outs):
        ctx.dist["cli_result=" + o.split(":")[0].split("=")[0]] += 1
        why = judge(o)
        if why:
            conc.append({"op": c.op, "c_out": o, "why": why, "sig": signature(c, o, why), "tags": sorted(c.tags)})
    st["evaluations"] = len(cases)
    return conc, corr, st


def nontrivial(c):
    return "corpus" not in c.tags


def signature(case, c_out, why):
    import re
    m = re.match(r"CRASH (\S+)", c_out)
    return ("cli:" if case.op.startswith("cli") else "lib:") + (m.group(1) if m else "timeout/other")


LEVEL_TEXT = ("Lean theorems: the header parser model never faults for any input bytes (every raw-data and extended-header index is "
              "in range); with C09's decoder theorems for member data, NO STEP of a whole run of lha x/e/p/l/v on any archive faults "
              "(tool_no_fault: every reader state the loops visit is the state of a legal history, next cannot fault on it, ownership holds, "
              "the open decoder is reachable and unmarked). Sanitizer-observed correspondence runs of the reader API over "
              "four stream kinds and of the CLI tool on corpus, mutated, structured and random archives.")
LEVEL_NOTE = ("Partial: proofs cover the index and ownership arithmetic of the modelled code; that the compiled binary performs no other "
              "invalid access (libc, printf, stack) is observed by ASan/UBSan on the generated inputs, not proved.")
TECHNIQUE = ("Lean 4 proof (fault-unreachability of the checked-access models: parser, stream, every decoder, reader on every history, and the "
             "whole run of lha x/e/p/l/v by loop invariant) + sanitizer differential correspondence (library histories and CLI)")
