"""C16 — same members from file, pipe or callbacks, and after any self-extractor prefix."""
import re
import os, re, tempfile, shutil
from concurrent.futures import ThreadPoolExecutor
from vlib.core import Case
from vlib import core, archgen as A, streams as S

ID = "C16"
LEAN_MODULES = ["LhasaV.Props.C16"]
VH_FEATURES = ["reader"]
PER_OP_SECONDS = 20
THEOREMS = {"tool_kind_independent": "full: the whole tool (x/e/p/t/l...) behaves identically from a file, a pipe, callbacks with/without skip: flags, file system, stdout, stderr, exit status, headers",
            "tool_prefix_transparent": "full: ... and after a self-extractor prefix (no signature/marker, first header within the scan limit), any two kinds",
            "listing_kind_independent": "full",
            "tool_shift_transparent": "full: ANY prefix the scan passes over (general form; clean stubs and marker+decoy prefixes are instances)",
            "tool_decoy_transparent": "full: stub + SFX marker + decoy signature, at tool level",
            "prefix_passed_over_iff": "full: for an archive starting with a header, exactly the prefixes in which the scan of P alone finds nothing and leaves no decoy pending",
            "sfx_archive_end_to_end": "full (C16 o C06 o C19): a self-extracting archive from any kind of source extracts / prints / lists exactly the tree it encodes",
            "scan_finds_first": "full", "first_signature": "full", "prefix_transparent": "full", "prefix_transparent_zero": "full",
            "decoy_skipped": "full", "skip_kinds": "full", "kinds_agree": "full", "kinds_agree_n": "full"}
TRUSTED = ["hand-written models LhasaV.Model.{Stream,Reader}; spec Stream.firstHeader (declarative scan) proved equal to the model's windowed scan",
           "harness: seekable temp file, pipe fed by a child process, callbacks with / without skip"]
ASSUMPTIONS = ["source callbacks answer in full except at end of input"]
RULE = ("groups: an archive (corpus / generated, possibly truncated) traversed with the same history (every member checked) through the four "
        "stream kinds, and with prefixes P ++ A: P signature-free of every length 0..64 (sampled in quick), around multiples of 12/24, "
        "128 KiB..256 KiB+8 (boundary 262151/262152), and stub + marker + decoy + stub with the marker at every offset 0..72. Judge per "
        "group: identical header sequence / bytes / verdicts as the plain seekable run (except beyond the scan limit: no members); `lha t A` "
        "vs `lha t - < A` identical output and status. C = model. non-trivial: prefix non-empty or kind != seekable")

canon = A.canon_rdr
LIMIT = 262144 + 8


def budget(tier):
    return 14 if tier == "quick" else 600


def clean_bytes(r, n):
    """bytes without '-' and without 'L' (no signature, no marker can start or complete inside)"""
    return bytes(r.choice(b"abcdefghijkmnopqrstuvwxyz0123456789 \x00\xff\x7f") for _ in range(n))


def decoy_header(r):
    from vlib import lhaenc as E
    return E.encode(E.Fields(level=0, method=b"-lh5-", name=b"DECOY", clen=5, length=5))[:r.choice([20, 24, 27])]


def gen_cases(ctx, ngroups):
    r = ctx.rng
    smalls = [x for x in A.small_archives(8000) if len(x[1]) > 40]
    # archives that start with a header (no stub of their own)
    starts = [x for x in smalls if x[1][2:3] == b"-" and x[1][6:7] == b"-"]
    out = []
    gid = 0
    for g in range(ngroups):
        name, d = r.choice(starts)
        if r.random() < 0.25:
            d = d[:r.randrange(30, len(d) + 1)]
        toks = []
        for _ in range(6):
            toks += ["n", "c"]
        pol = r.choice(A.POLICIES)
        for kind in A.KINDS:
            out.append(Case(A.rdr_op(kind, pol, toks, d), tags={"kinds", "kind=" + kind}, note=("ref" if kind == "seek" else "same", gid, 0)))
        lens = [r.randrange(0, 65) for _ in range(4)] + [r.choice([11, 12, 13, 23, 24, 25, 35, 36, 37, 47, 48, 49])]
        if g % 3 == 0:
            lens += [r.choice([131096, 200000, 262000, LIMIT - 1])]
        if g % 5 == 0:
            lens += [LIMIT, LIMIT + 12]
        for ln in lens:
            P = clean_bytes(r, ln)
            kind = r.choice(A.KINDS)
            out.append(Case(A.rdr_op(kind, pol, toks, P + d), tags={"prefix", "plen=" + ("0-64" if ln <= 64 else "big")},
                            note=("same" if ln < LIMIT else "none", gid, ln)))
        for _ in range(3):
            marker = r.choice([b"LHA-SFX", b"LhASFX V1.2,"])
            off = r.randrange(0, 73)
            P = clean_bytes(r, off) + marker + clean_bytes(r, r.randrange(0, 20)) + decoy_header(r) + clean_bytes(r, r.randrange(13, 60))
            out.append(Case(A.rdr_op(r.choice(A.KINDS), pol, toks, P + d), tags={"decoy", "marker=" + marker[:3].decode()},
                            note=("same", gid, len(P))))
        # NEAR-MISS markers: bytes that begin like a self-extractor marker but are not one (another version's banner, the marker cut
        # short, wrong case): neither a marker nor a signature, so the first header behind them is the archive's first member
        for _ in range(3):
            near = r.choice([b"LhASFX V1.1,", b"LhASFX V1.2.", b"LhASFX V1.2", b"LhASFX ", b"LhASFX", b"LHA-SF", b"LHA-SFx", b"LHA-sfx", b"lha-sfx",
                             b"LhASFX V2.0,", b"LHA-SF\x00", b"LhASFX\x00V1.2,"])
            P = clean_bytes(r, r.randrange(0, 73)) + near + clean_bytes(r, r.randrange(1, 40))
            out.append(Case(A.rdr_op(r.choice(A.KINDS), pol, toks, P + d), tags={"prefix", "near-miss-marker"}, note=("same", gid, len(P))))
        # skip lengths: stored members whose data (or whose rest after a partial read) is passed over in blocks – exact multiples
        # of the block sizes a read-based skip could use, one more, one less – by every kind of source, with and without reading
        from vlib import streams as S
        sizes = [r.choice([4096, 8192, 12288, 16384, 65536, 512, 1024, 2048, 4095, 4097, 8191, 1, 0, 300]) for _ in range(r.choice([2, 3, 4]))]
        sd = b"".join(A._member(r, b"", b"m%d" % j, data=S.rand_bytes(r, sz), level=r.choice([0, 1, 2])) for j, sz in enumerate(sizes))
        sd += A._member(r, b"", b"last", data=b"the end", level=r.choice([0, 1, 2])) + b"\0"
        stoks = []
        for sz in sizes:
            stoks.append("n")
            k = r.random()
            if k < 0.3 and sz > 1:
                stoks.append("r%d" % r.choice([sz - 4096, sz - 8192, 1, sz % 4096 or 7]) if sz > 8192 else "r%d" % r.choice([1, sz % 4096 or 7]))
            elif k < 0.4:
                stoks.append("c")
        stoks = [t for t in stoks if not t.startswith("r-")] + ["n", "c", "n"]
        gid += 1
        for kind in A.KINDS:
            out.append(Case(A.rdr_op(kind, pol, stoks, sd), tags={"skip-sizes", "kind=" + kind}, note=("ref" if kind == "seek" else "same", gid, 0)))
        out.append(Case("cli2 t:last %s" % sd.hex(), tags={"cli-stdin", "skip-sizes"}, note=("cli", gid, 0)))
        out.append(Case("cli2 t %s" % d.hex(), tags={"cli-stdin"}, note=("cli", gid, 0)))
        if g % 2 == 0:
            # the same FILE object first on a regular file, then reopened on a FIFO: both passes must present the same members
            out.append(Case("rdrreopen %s %s %s" % (pol, ";".join(toks), d.hex()), tags={"reopen", "c-only"}, judge=judge_reopen, note=("reopen", 10 ** 6 + gid, 0)))
            # … and the same with a pure LISTING history (every member's data is passed over: the skip is what differs between a file and a pipe)
            # (on the archive with members of 4096·k bytes: a skip that stays inside stdio's buffer proves nothing)
            out.append(Case("rdrreopen %s %s %s" % (pol, ";".join(["n"] * 8), sd.hex()), tags={"reopen", "reopen-listing", "c-only"}, judge=judge_reopen,
                            note=("reopen", 2 * 10 ** 6 + gid, 0)))
        gid += 1
    # a member whose data is 2 GiB and more, SKIPPED on a seekable FILE (a sparse file: header, a hole, the later members): the seek
    # offset is a long, not a 32-bit int – the later members are the same as from any other kind of source / read on their own
    from vlib import lhaenc as E2
    for g, gap in enumerate([0x7fffffff, 0x80000000, 0x80000000 + 4096, 0xfffffff0][: (3 if ctx.tier == "quick" else 4)]):
        f1 = E2.Fields(level=r.choice([0, 1]), method=b"-lh0-", clen=gap, length=gap, crc=0, name=b"big.bin", os_type=0x4d)
        h1 = E2.encode(f1)
        rest = b""
        for nm in (b"b.txt", b"c.txt"):
            dd = S.rand_bytes(r, r.choice([5, 40]))
            rest += E2.encode(E2.Fields(level=1, method=b"-lh0-", clen=len(dd), length=len(dd), crc=E2.crc16(dd), name=nm, os_type=0x4d)) + dd
        rest += b"\0"
        pol = r.choice(A.POLICIES)
        out.append(Case("rdr seek %s -1 n;n;n %s" % (pol, rest.hex()), tags={"big-ref", "kind=seek"}, note=("bigref", 500000 + g, 0)))
        out.append(Case("rdrbig %s %d n;n;n;n %s %s" % (pol, gap, h1.hex(), rest.hex()), tags={"big-member-skipped", "c-only", "gap=%x" % gap},
                        note=("big", 500000 + g, 0)))
    return out


def body(line):
    return line.split(" live=")[0]


def judge_reopen(c_out):
    if c_out.startswith(("CRASH", "TIMEOUT")):
        return "implementation crashed: " + c_out[:150]
    m = re.match(r"A:(.*)\|B:(.*) live=(\d+)$", c_out)
    if m is None:
        return "the second pass (same FILE object, reopened on a pipe) did not run: " + c_out[:150]
    if m.group(1) != m.group(2):
        return ("members from a pipe differ from the members from the file when the same FILE object is used for both (state kept "
                "about a FILE* from one stream to the next): file %s | pipe %s" % (m.group(1)[:120], m.group(2)[:120]))
    return None


def judge_groups(cases, c_outs):
    why = {}
    groups = {}
    for i, c in enumerate(cases):
        groups.setdefault(c.note[1], []).append(i)
    for g, idxs in groups.items():
        for i in idxs:
            if cases[i].note[0] == "reopen":
                w = judge_reopen(c_outs[i])
                if w:
                    why[i] = w
        bigref = [i for i in idxs if cases[i].note[0] == "bigref"]
        if bigref and not c_outs[bigref[0]].startswith(("CRASH", "TIMEOUT")):
            want = body(c_outs[bigref[0]]).split(";")
            for i in idxs:
                if cases[i].note[0] != "big":
                    continue
                if c_outs[i].startswith(("CRASH", "TIMEOUT")):
                    why[i] = "implementation crashed / hung on a member with a multi-gigabyte declared size: " + c_outs[i][:120]
                    continue
                got = body(c_outs[i]).split(";")
                if got[1:1 + len(want)] != want[:len(got) - 1]:
                    why[i] = ("after a member of %s bytes was skipped on a seekable FILE the later members are %s; from their own bytes (and "
                              "from every non-seekable source) they are %s" % (cases[i].op.split()[2], [h[:40] for h in got[1:]], [h[:40] for h in want]))
        ref = [i for i in idxs if cases[i].note[0] == "ref"]
        if not ref:
            continue
        refo = c_outs[ref[0]]
        for i in idxs:
            co = c_outs[i]
            kind = cases[i].note[0]
            if kind == "cli":
                if co != "same":
                    why[i] = "`lha t A` and `lha t - < A` differ: " + co[:200]
                continue
            if co.startswith(("CRASH", "TIMEOUT")):
                why[i] = "implementation crashed: " + co[:150]
            elif kind == "same" and body(co) != body(refo):
                why[i] = "members differ from the plain seekable run (prefix length %d): %s vs %s" % (cases[i].note[2], body(co)[:80], body(refo)[:80])
            elif kind == "none" and not body(co).startswith("END"):
                why[i] = "a header was found beyond the 256 KiB scan limit"
    return why


def prepare(ctx, env):
    vh, err = core.build_vh(ctx, VH_FEATURES)
    if vh is None:
        return "C harness: " + err
    env["vh"] = vh
    lha, err = core.build_lha(ctx, sanitize=True)
    if lha is None:
        return "lha tool: " + err
    env["lha"] = lha
    return None


def run_cli2(env, ctx, op):
    _, mode, hx = op.split()
    data = bytes.fromhex(hx)
    d = tempfile.mkdtemp(prefix="cli-", dir=ctx.tmp)
    try:
        ap = os.path.join(d, "a.lzh")
        open(ap, "wb").write(data)
        mode, *more = mode.split(":")          # "t:last" = `lha t <archive> last`: every other member is passed over
        r1 = core.run_cli(env["lha"], [mode, ap] + more, d, stdin_data=b"")
        r2 = core.run_cli(env["lha"], [mode, "-"] + more, d, stdin_data=data)
        if r1[3] != "ok" or r2[3] != "ok":
            return "CRASH " + r1[3] + " / " + r2[3]
        if (r1[0], r1[1]) != (r2[0], r2[1]):
            return "file: rc=%d %r ; stdin: rc=%d %r" % (r1[0], r1[1][-120:], r2[0], r2[1][-120:])
        return "same"
    finally:
        shutil.rmtree(d, ignore_errors=True)


def evaluate(ctx, env, cases, with_model):
    import sys, check as CK
    P = sys.modules[__name__]
    lib = [c for c in cases if c.op.startswith("rdr")]
    cli = [c for c in cases if c.op.startswith("cli2")]
    with ThreadPoolExecutor(core.JOBS) as ex:
        cli_outs = list(ex.map(lambda c: run_cli2(env, ctx, c.op), cli))
    # run the library cases, then judge groups over all of them
    c_outs, crashes = core.run_lines_parallel([env["vh"], str(PER_OP_SECONDS)], [c.op for c in lib])
    allc = lib + cli
    allo = c_outs + cli_outs
    why = judge_groups(allc, allo)
    conc = [{"op": allc[i].op[:400] + ("..." if len(allc[i].op) > 400 else ""), "full_op_len": len(allc[i].op), "c_out": allo[i][:400],
             "why": w, "sig": signature(allc[i], allo[i], w), "tags": sorted(allc[i].tags), "note": list(allc[i].note)} for i, w in why.items()]
    corr = []
    if with_model and env.get("lhv"):
        m_outs, _ = core.run_lines_parallel([env["lhv"]], [c.op for c in lib])
        for c, co, mo in zip(lib, c_outs, m_outs):
            if "c-only" in c.tags:
                continue
            if canon(co) != mo and not any(x["op"].startswith(c.op[:400]) for x in conc):
                corr.append({"op": c.op[:400], "c_out": co[:300], "model_out": mo[:300], "why": "model and implementation disagree"})
    for c in allc:
        for t in c.tags:
            pass
    return conc, corr, {"evaluations": len(cases)}


def nontrivial(c):
    return c.note[0] in ("same", "none") and (c.note[2] > 0 or "kind=seek" not in c.tags)


def signature(case, c_out, why):
    return re.sub(r"[^a-zA-Z]+", "-", why.split(":")[0])[:50]


LEVEL_TEXT = ("Lean theorems: the windowed self-extractor scan equals a declarative first-header specification (each offset examined once, "
              "one decoy per marker, exact 256 KiB+8 limit), prefix transparency and decoy skipping follow, and basic-reader states that "
              "differ only in the kind of source return the same headers for ever. Grouped differential runs over four stream kinds, "
              "prefixes and decoy stubs; `lha t A` vs `lha t -`.")
LEVEL_NOTE = ("Trusted: Lean kernel; hand models of stream, reader and tool loops (differentially validated). Library AND tool level are proved "
              "(tool_kind_independent, tool_prefix_transparent); the real `lha ... -` is additionally run against the file form.")
TECHNIQUE = "Lean 4 proof (scan refinement to a declarative spec + kind-independence bisimulation) + grouped differential correspondence"
