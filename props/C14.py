"""C14 — decoder reads: split-invariant, exact declared length, faithful CRC/length."""
import re, os
from vlib.core import Case
from vlib import streams as S, core
from vlib.lhaenc import crc16

ID = "C14"
LEAN_MODULES = ["LhasaV.Props.C14"]
VH_FEATURES = ["decoder"]
PER_OP_SECONDS = 30
THEOREMS = {
    "wrap_stream": "full: every inner decoder, declared length, schedule",
    "wrap_split_invariant": "full", "wrap_eq_single": "full", "wrap_exact": "full", "wrap_le_asked": "full",
    "wrap_crc_len": "full", "wrap_crc_is_arc": "full (with C17)",
    "wrap_progress": "full: calls 0..ceil(pos/bs) in order, total = ceil(length/bs), last <= total, = total when complete "
                     "(the converse is false: a truncated stream can reach the last block; counterexample proved in Lemmas/WrapProps)",
    "wrap_progress_late": "full: monitor attached after any prefix of reads",
}
TRUSTED = ["hand-written model LhasaV.Model.Wrap of lha_decoder_read / lha_decoder_monitor / check_progress_callback; "
           "inner decoders are arbitrary pure steps in the theorems and the 12 decoder models in the differential run",
           "harness/ops_decoder.c: exact-size user buffers, dead stack overwritten with a per-read pattern before each call"]
ASSUMPTIONS = ["the inner decoder step is a function of the decoder state alone (no hidden mutable state, no uninitialised reads): "
               "checked by running every stream under several schedules with different stack patterns",
               "callback returns the requested number of bytes except at end of input (chunked callbacks only for bit-stream methods)"]
RULE = ("per method: real corpus members (valid), their mutations/truncations (invalid), random and hostile streams; x declared "
        "lengths (exact, shorter, longer) x a group of schedules [one maximal read, 1-byte reads, primes, zeros interleaved, larger than "
        "the output] x monitor attach points. Judge on C per group: identical bytes for every schedule, never more than declared, "
        "len = bytes returned, crc = independent CRC-16 of those bytes, progress calls = 0..ceil(len/bs) in order with total = "
        "ceil(declared/bs); and C = model for every case. non-trivial: output non-empty and group has >= 3 different schedules")


def block_sizes():
    txt = open(os.path.join(core.LEAN, "LhasaV", "Gen", "Decoders.lean")).read()
    return {m.group(1): int(m.group(2)) for m in re.finditer(r'\("-(\w+)-", \d+, \d+, \d+, (\d+)\)', txt)}


def budget(tier):
    return 14 if tier == "quick" else 150       # stream groups per method


def gen_cases(ctx, per_method):
    r = ctx.rng
    seeds = S.seeds(core.lhv_path(), maxlen=12000)
    out = []
    gid = 0
    for meth in S.METHODS:
        pool = [p for p in seeds.get(meth, []) if p[1] <= 60000]
        for i in range(per_method):
            k = r.random()
            if meth == "lz5" and i % 3 == 0:
                data = S.rand_lz5(r, half_copy=(i % 2 == 0))
                dl = 4000
                kind = "lz5-commands"
            elif pool and k < 0.35:
                data, dl = r.choice(pool)
                kind = "valid"
            elif pool and k < 0.7:
                data, dl = r.choice(pool)
                for _ in range(r.choice([1, 1, 3])):
                    data = S.mutate(r, data)
                kind = "mutated"
            elif k < 0.85:
                data = S.rand_bytes(r, S.geometric_len(r, 40, 500))
                dl = r.choice([5, 100, 3000])
                kind = "random"
            else:
                data = (S.hostile_lhnew(r, meth) if meth in S.LHNEW else S.hostile_pm2(r) if meth == "pm2"
                        else S.hostile_pm1(r) if meth == "pm1" else S.rand_bytes(r, 20))
                dl = r.choice([50, 4000])
                kind = "hostile"
            declen = r.choice([dl, dl, max(0, dl - r.choice([1, 9, 1000])), dl + r.choice([1, 50, 5000])])
            declen = min(declen, 70000)
            scheds = [[declen + 7], [1], [r.choice([3, 7, 13, 251])], [0, r.choice([2, 100]), 0, 0, r.choice([1, 4096])],
                      [declen + 100000], [r.choice([1024, 4096, 8192, 20000])]]
            chunk = 0 if meth in ("lz5", "lz4", "lh0", "pm0") else r.choice([0, 0, 1, 3])
            for sc in scheds:
                mon = r.choice([-1, 0, 0, 1, 2, 5])
                out.append(Case(S.dec_op(meth, declen, chunk, mon, sc, data),
                                tags={"m=" + meth, kind, "declen=" + ("exact" if declen == dl else "short" if declen < dl else "long")},
                                note=(gid, declen, mon)))
            gid += 1
        # declared lengths at and beyond 2^32 (the API takes a size_t): the bytes obtainable are what the stream can produce, the same
        # for every such declared length and every read schedule (pm1 continues a short stream with zero bits for ever: left out)
        if pool and meth != "pm1":
            data, dl = r.choice(pool)
            for declen in (2 ** 32 - 1, 2 ** 32, 2 ** 32 + r.choice([1, 100, 4097]), 2 ** 33 + 5, 2 ** 40):
                for sc in ([100000], [r.choice([1, 7, 4096])] if dl < 3000 else [8192]):
                    mon = r.choice([-1, 0, 1])
                    out.append(Case(S.dec_op(meth, declen, 0, mon, sc, data), tags={"m=" + meth, "valid", "declen>=2^32" if declen >= 2 ** 32 else "declen=2^32-1"},
                                    note=(gid, declen, mon)))
            gid += 1
    return out


def corpus_cases(ctx):
    """past failures: '<method> <declared length> <stream hex>' per line, run under the standard schedule group"""
    import glob
    out = []
    gid = -1
    for f in sorted(glob.glob(os.path.join(core.VERIF, "corpus", "C14", "*.txt"))):
        for line in open(f):
            t = line.split()
            if len(t) != 3:
                continue
            meth, declen, hx = t[0], int(t[1]), t[2]
            data = b"" if hx == "-" else bytes.fromhex(hx)
            for sc, mon in [([declen + 7], 0), ([1], -1), ([0, 100, 0, 0, 4096], 2), ([3], 1), ([declen + 100000], 0)]:
                out.append(Case(S.dec_op(meth, declen, 0, mon, sc, data), tags={"corpus", "m=" + meth}, note=(gid, declen, mon)))
            gid -= 1
    return out


def judge_groups(cases, c_outs):
    bs = block_sizes()
    why = {}
    groups = {}
    for i, c in enumerate(cases):
        if c.note is None:
            continue
        groups.setdefault(c.note[0], []).append(i)
    for g, idxs in groups.items():
        ref = None
        for i in idxs:
            co = c_outs[i]
            meth = cases[i].op.split()[1]
            declen, mon = cases[i].note[1], cases[i].note[2]
            if co.startswith(("CRASH", "TIMEOUT")):
                why[i] = "implementation crashed: " + co[:150]
                continue
            d = S.parse_dec(co)
            if d is None:
                why[i] = "unexpected output " + co[:80]
                continue
            ob = b"" if d["out"] == "-" else bytes.fromhex(d["out"])
            if "OVERREAD" in d["extra"]:
                why[i] = "a read returned more than asked"
            elif "MIDSTREAM" in d["extra"]:
                why[i] = ("in mid-stream the reported length / CRC are not those of the bytes returned so far: " +
                          [t for t in d["extra"].split() if t.startswith("MIDSTREAM")][0])
            elif len(ob) > declen:
                why[i] = "returned %d bytes, declared length %d" % (len(ob), declen)
            elif int(d["len"]) != len(ob):
                why[i] = "reported length %s != bytes returned %d" % (d["len"], len(ob))
            elif int(d["crc"], 16) != crc16(ob):
                why[i] = "reported CRC %s != CRC-16 of the returned bytes %04x" % (d["crc"], crc16(ob))
            elif ref is None:
                ref = (i, ob)
            elif ob != ref[1] and declen != cases[ref[0]].note[1]:
                why[i] = ("the bytes obtainable depend on the declared length although both declared lengths (%d, %d) exceed what the stream "
                          "can produce: %d bytes here, %d there" % (declen, cases[ref[0]].note[1], len(ob), len(ref[1])))
            elif ob != ref[1]:
                why[i] = "split-dependent output: %d bytes here, %d bytes with schedule of case %d (first difference at %d)" % (
                    len(ob), len(ref[1]), ref[0], next((k for k in range(min(len(ob), len(ref[1]))) if ob[k] != ref[1][k]), min(len(ob), len(ref[1]))))
            if i in why:
                continue
            # progress monitor
            total_s, _, calls_s = d["prog"].partition(":")
            calls = [] if calls_s == "-" else [int(x) for x in calls_s.split(",")]
            b = bs.get(meth)
            nreads_attach = mon
            if mon >= 0 and calls:
                if calls != list(range(0, (len(ob) + b - 1) // b + 1)):
                    why[i] = "progress calls %s are not 0..%d in order" % (calls[:12], (len(ob) + b - 1) // b)
                elif int(total_s) != (declen + b - 1) // b:
                    why[i] = "announced total %s != ceil(%d/%d)" % (total_s, declen, b)
                elif len(ob) == declen and calls[-1] != int(total_s):
                    why[i] = "stream decoded completely but last block %d != total %s" % (calls[-1], total_s)
    return why


def nontrivial(c):
    return c.note is not None and ("valid" in c.tags or "mutated" in c.tags)


def signature(case, c_out, why):
    meth = case.op.split()[1]
    if "split-dependent" in why:
        return meth + ":split-dependent"
    return meth + ":" + re.sub(r"[^a-zA-Z]+", "-", why)[:40]


LEVEL_TEXT = ("Kernel-checked Lean theorems for every inner decoder, declared length and read schedule: the returned bytes are a "
              "prefix function of the stream (split invariance), never exceed the declared length or the request, reported "
              "length/CRC are those of exactly the returned bytes (CRC = CRC-16/ARC via C17), progress calls rise one by one from 0. "
              "Model tied to lib/lha_decoder.c and all 14 methods by the grouped differential run.")
LEVEL_NOTE = ("Trusted: Lean kernel; axioms propext, Classical.choice, Quot.sound; hand model of lha_decoder.c; the inner decoder "
              "is assumed to be a deterministic function of its state (validated by the schedule groups with stack scribbling).")
TECHNIQUE = "Lean 4 proof (stream lemma rest_split by functional induction on the copy loop) + grouped differential correspondence"
