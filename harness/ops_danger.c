// The dangerous-symlink predicate of lib/lha_reader.c (static is_dangerous_symlink), reached by inclusion.
#include "vh.h"
#include "lib/lha_reader.c"

int vh_ops_danger(int argc, char **argv)
{
	// danger <target hex>: is_dangerous_symlink on a header whose symlink target is the given C string
	if (!strcmp(argv[0], "danger") && argc == 2) {
		VhBytes b;
		LHAFileHeader h;
		char *s;
		if (!vh_parse_hex(argv[1], &b)) return 0;
		s = malloc(b.len + 1);
		memcpy(s, b.data, b.len);
		s[b.len] = 0;
		memset(&h, 0, sizeof(h));
		h.symlink_target = s;
		vh_out("%d", is_dangerous_symlink(&h) ? 1 : 0);
		free(s); free(b.data);
		return 1;
	}
	return 0;
}
