// Command-line parsing of src/main.c reached by inclusion (main renamed; the command functions it dispatches to are stubs,
// the op never runs a command).
#define _GNU_SOURCE
#include "vh.h"
#define main vh_lha_main_unused
#include "src/main.c"
#undef main

void list_file_basic(LHAFilter *filter, LHAOptions *options, FILE *fstream) { (void) filter; (void) options; (void) fstream; }
void list_file_verbose(LHAFilter *filter, LHAOptions *options, FILE *fstream) { (void) filter; (void) options; (void) fstream; }
int test_file_crc(LHAFilter *filter, LHAOptions *options) { (void) filter; (void) options; return 1; }
int extract_archive(LHAFilter *filter, LHAOptions *options) { (void) filter; (void) options; return 1; }
int print_archive(LHAFilter *filter, LHAOptions *options) { (void) filter; (void) options; return 1; }
#ifndef VH_WITH_TOOL   /* ops_tool.c brings the real src/filter.c */
void lha_filter_init(LHAFilter *filter, LHAReader *reader, char **filters, unsigned int num_filters)
{ (void) filter; (void) reader; (void) filters; (void) num_filters; }
#endif

int vh_ops_cli(int argc, char **argv)
{
	// cli <command argument hex>: init_options + parse_command_line of src/main.c
	if (!strcmp(argv[0], "cli") && argc == 2) {
		VhBytes b;
		char *s;
		ProgramMode mode = MODE_UNKNOWN;
		LHAOptions o;
		int ok;
		if (!vh_parse_hex(argv[1], &b)) return 0;
		s = malloc(b.len + 1);
		memcpy(s, b.data, b.len);
		s[b.len] = 0;
		init_options(&o);
		ok = parse_command_line(s, &mode, &o);
		if (!ok) {
			vh_out("fail");
		} else {
			char hex[2 * 300 + 2];
			size_t i, n = o.extract_path != NULL ? strlen(o.extract_path) : 0;
			const char *m = mode == MODE_LIST ? "l" : mode == MODE_LIST_VERBOSE ? "v" : mode == MODE_CRC_CHECK ? "t"
			              : mode == MODE_EXTRACT ? "x" : mode == MODE_PRINT ? "p" : "?";
			if (n > 300) n = 300;
			for (i = 0; i < n; ++i) sprintf(hex + 2 * i, "%02x", (unsigned char) o.extract_path[i]);
			hex[2 * n] = 0;
			vh_out("ok mode=%s ow=%d quiet=%d verbose=%d dry=%d usepath=%d path=%s", m,
			       o.overwrite_policy == LHA_OVERWRITE_ALL ? 1 : 0, o.quiet, o.verbose, o.dry_run, o.use_path,
			       o.extract_path == NULL ? "none" : (n == 0 ? "-" : hex));
		}
		free(s); free(b.data);
		return 1;
	}
	return 0;
}
