/* Direct access to the static column printers of src/list.c for tools/difftest_list.py.
 *
 * Compiled into the lha binary next to the real list.c (the two public entry points are renamed
 * so that the second copy does not clash).  When LHV_LIST_PROBE is set, a constructor answers
 * one request per stdin line and exits before main() runs:
 *   r <compressed> <uncompressed>   ratio_column_print of a non-directory member
 *   f <compressed> <uncompressed>   ratio_column_footer
 *   t <now> <timestamp>             output_timestamp under TEST_NOW_TIME=<now>
 *   T <now> <timestamp>             output_full_timestamp
 * Each answer is the printed text followed by a newline.
 */
#define list_file_basic list_probe_unused_basic
#define list_file_verbose list_probe_unused_verbose
#include "src/list.c"
#include <unistd.h>

__attribute__((constructor)) static void list_probe(void)
{
	char kind;
	unsigned long a, b;
	char buf[32];

	if (getenv("LHV_LIST_PROBE") == NULL) {
		return;
	}

	while (scanf(" %c %lu %lu", &kind, &a, &b) == 3) {
		if (kind == 'r') {
			LHAFileHeader h;
			memset(&h, 0, sizeof(h));
			strcpy(h.compress_method, "-lh5-");
			h.compressed_length = (unsigned int) a;
			h.length = (unsigned int) b;
			ratio_column_print(&h);
		} else if (kind == 'f') {
			FileStatistics s;
			memset(&s, 0, sizeof(s));
			s.compressed_length = (unsigned int) a;
			s.length = (unsigned int) b;
			ratio_column_footer(&s);
		} else if (kind == 't' || kind == 'T') {
			sprintf(buf, "%lu", a);
			setenv("TEST_NOW_TIME", buf, 1);
			if (kind == 't') {
				output_timestamp((unsigned int) b);
			} else {
				output_full_timestamp((unsigned int) b);
			}
		}
		printf("\n");
	}

	fflush(stdout);
	_exit(0);
}
