#ifdef VH_RO_GLOBALS
#define _GNU_SOURCE
#endif
#include <stdarg.h>
#include <unistd.h>
#include <signal.h>
#include "vh.h"

static char *outbuf;
static size_t outlen, outcap;

static void out_reserve(size_t extra)
{
	if (outlen + extra + 1 > outcap) {
		outcap = (outlen + extra + 1) * 2;
		outbuf = realloc(outbuf, outcap);
	}
}

void vh_out(const char *fmt, ...)
{
	va_list ap;
	int n;
	va_start(ap, fmt);
	n = vsnprintf(NULL, 0, fmt, ap);
	va_end(ap);
	out_reserve((size_t) n);
	va_start(ap, fmt);
	vsnprintf(outbuf + outlen, (size_t) n + 1, fmt, ap);
	va_end(ap);
	outlen += (size_t) n;
}

void vh_out_hex(const uint8_t *p, size_t n)
{
	static const char *d = "0123456789abcdef";
	size_t i;
	if (n == 0) {
		vh_out("-");
		return;
	}
	out_reserve(n * 2);
	for (i = 0; i < n; ++i) {
		outbuf[outlen++] = d[p[i] >> 4];
		outbuf[outlen++] = d[p[i] & 15];
	}
	outbuf[outlen] = 0;
}

static int hv(int c)
{
	if (c >= '0' && c <= '9') return c - '0';
	if (c >= 'a' && c <= 'f') return c - 'a' + 10;
	if (c >= 'A' && c <= 'F') return c - 'A' + 10;
	return -1;
}

int vh_parse_hex(const char *s, VhBytes *out)
{
	size_t n = strlen(s), i;
	out->data = malloc(n / 2 + 1);
	out->len = 0;
	if (!strcmp(s, "-")) return 1;
	if (n % 2) return 0;
	for (i = 0; i < n; i += 2) {
		int a = hv(s[i]), b = hv(s[i + 1]);
		if (a < 0 || b < 0) return 0;
		out->data[out->len++] = (uint8_t) (a * 16 + b);
	}
	return 1;
}

int vh_parse_nats(const char *s, size_t **out, size_t *n)
{
	size_t cap = strlen(s) / 2 + 2;
	*out = malloc(cap * sizeof(size_t));
	*n = 0;
	if (!strcmp(s, "-")) return 1;
	while (*s) {
		char *end;
		unsigned long long v = strtoull(s, &end, 10);
		if (end == s) return 0;
		(*out)[(*n)++] = (size_t) v;
		s = end;
		if (*s == ',') ++s;
		else if (*s) return 0;
	}
	return 1;
}

unsigned long vh_parse_hexnat(const char *s)
{
	return strtoul(s, NULL, 16);
}

__attribute__((noinline)) void vh_scribble_stack(unsigned char pattern)
{
	volatile unsigned char junk[16384];
	size_t i;
	for (i = 0; i < sizeof(junk); ++i) junk[i] = pattern;
}

static VhOp ops[] = {
	vh_ops_crc,
#ifdef VH_WITH_DECODER
	vh_ops_decoder,
#endif
#ifdef VH_WITH_TREE
	vh_ops_tree,
#endif
#ifdef VH_WITH_HEADER
	vh_ops_header,
#endif
#ifdef VH_WITH_STREAM
	vh_ops_stream,
#endif
#ifdef VH_WITH_READER
	vh_ops_reader,
#endif
#ifdef VH_WITH_TOOL
	vh_ops_tool,
#endif
#ifdef VH_WITH_DANGER
	vh_ops_danger,
#endif
#ifdef VH_WITH_CLI
	vh_ops_cli,
#endif
};

#ifdef VH_RO_GLOBALS
// Make every writable segment of the library's shared object read-only: any later write to a
// library global (i.e. state shared between readers) faults.
#include <link.h>
#include <sys/mman.h>
static int ro_cb(struct dl_phdr_info *info, size_t size, void *data)
{
	int i;
	(void) size;
	if (info->dlpi_name == NULL || strstr(info->dlpi_name, "liblhasa_ro") == NULL) return 0;
	for (i = 0; i < info->dlpi_phnum; ++i) {
		const ElfW(Phdr) *ph = &info->dlpi_phdr[i];
		if (ph->p_type == PT_LOAD && (ph->p_flags & PF_W)) {
			uintptr_t start = (info->dlpi_addr + ph->p_vaddr) & ~(uintptr_t) 4095;
			uintptr_t end = (info->dlpi_addr + ph->p_vaddr + ph->p_memsz + 4095) & ~(uintptr_t) 4095;
			if (mprotect((void *) start, end - start, PROT_READ) == 0) ++*(int *) data;
		}
	}
	return 0;
}
#endif

static void on_alarm(int sig)
{
	static const char msg[] = "TIMEOUT\n";
	(void) sig;
	if (write(1, msg, sizeof(msg) - 1)) {}
	_exit(3);
}

int main(int argc, char **argv)
{
	char *line = NULL;
	size_t cap = 0;
	ssize_t n;
	unsigned int per_op_seconds = 20;

	if (argc > 1) per_op_seconds = (unsigned int) atoi(argv[1]);
	signal(SIGALRM, on_alarm);
#ifdef VH_RO_GLOBALS
	{
		int n = 0;
		dl_iterate_phdr(ro_cb, &n);
		if (n == 0) { puts("ro-protect-failed"); return 4; }
	}
#endif

	while ((n = getline(&line, &cap, stdin)) > 0) {
		char *toks[64];
		int nt = 0, handled = 0;
		size_t i;
		char *p = line;
		while (n > 0 && (line[n - 1] == '\n' || line[n - 1] == '\r')) line[--n] = 0;
		while (*p && nt < 64) {
			while (*p == ' ') ++p;
			if (!*p) break;
			toks[nt++] = p;
			while (*p && *p != ' ') ++p;
			if (*p) *p++ = 0;
		}
		outlen = 0;
		out_reserve(16);
		outbuf[0] = 0;
		alarm(per_op_seconds);
		for (i = 0; nt > 0 && i < sizeof(ops) / sizeof(*ops) && !handled; ++i) {
			handled = ops[i](nt, toks);
		}
		alarm(0);
		if (!handled) {
			puts("bad-op");
		} else {
			puts(outbuf);
		}
		fflush(stdout);
	}
	return 0;
}
