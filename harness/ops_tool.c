// Tool-level helpers reached by inclusion: src/safe.c (safe_printf / safe_fprintf).
#define _GNU_SOURCE
#include "vh.h"
#include "src/safe.c"
#include "src/filter.c"

int vh_ops_tool(int argc, char **argv)
{
	// safe <cstring hex>: safe_fprintf(stream, "%s", s) into a memory stream
	if (!strcmp(argv[0], "safe") && argc == 2) {
		VhBytes b;
		char *s, *buf = NULL;
		size_t len = 0;
		FILE *f;
		if (!vh_parse_hex(argv[1], &b)) return 0;
		s = malloc(b.len + 1);
		memcpy(s, b.data, b.len);
		s[b.len] = 0;
		f = open_memstream(&buf, &len);
		safe_fprintf(f, "%s", s);
		fclose(f);
		vh_out_hex((uint8_t *) buf, len);
		free(buf); free(s); free(b.data);
		return 1;
	}
	// globm <pattern hex> <string hex>: match_glob(pattern, string) of src/filter.c
	if (!strcmp(argv[0], "globm") && argc == 3) {
		VhBytes p, t;
		char *ps, *ts;
		if (!vh_parse_hex(argv[1], &p) || !vh_parse_hex(argv[2], &t)) return 0;
		ps = malloc(p.len + 1); memcpy(ps, p.data, p.len); ps[p.len] = 0;
		ts = malloc(t.len + 1); memcpy(ts, t.data, t.len); ts[t.len] = 0;
		vh_out("%d", match_glob(ps, ts) ? 1 : 0);
		free(ps); free(ts); free(p.data); free(t.data);
		return 1;
	}
	return 0;
}
