// Decoder-level op: any method through lha_decoder_new / lha_decoder_read.
#include <limits.h>
#include "vh.h"
#include "lib/lha_decoder.h"

typedef struct {
	const uint8_t *data;
	size_t len, pos, chunk;
} DecSrc;

static size_t dec_cb(void *buf, size_t buf_len, void *user)
{
	DecSrc *s = user;
	size_t n = s->len - s->pos;
	if (n > buf_len) n = buf_len;
	if (s->chunk && n > s->chunk) n = s->chunk;
	memcpy(buf, s->data + s->pos, n);
	s->pos += n;
	return n;
}

typedef struct {
	unsigned int total;
	unsigned int *blocks;
	size_t n, cap;
} ProgLog;

static void prog_cb(unsigned int num_blocks, unsigned int total_blocks, void *user)
{
	ProgLog *p = user;
	if (p->n == p->cap) {
		p->cap = p->cap ? p->cap * 2 : 64;
		p->blocks = realloc(p->blocks, p->cap * sizeof(unsigned int));
	}
	p->blocks[p->n++] = num_blocks;
	p->total = total_blocks;
}

// dec <method> <declared len> <chunk> <monitor-at> <schedule> <stream hex>
int vh_ops_decoder(int argc, char **argv)
{
	char name[16];
	VhBytes in;
	size_t *sched, nsched, idx = 0, last_k = 4096, outcap = 1 << 16, outlen = 0;
	long monitor_at;
	uint8_t *out;
	DecSrc src;
	ProgLog pl = { 0, NULL, 0, 0 };
	LHADecoderType *dtype;
	LHADecoder *dec;
	int overread = 0;

	if (strcmp(argv[0], "dec") || argc != 7) return 0;
	snprintf(name, sizeof(name), "-%s-", argv[1]);
	dtype = lha_decoder_for_name(name);
	if (dtype == NULL) return 0;
	if (!vh_parse_nats(argv[5], &sched, &nsched) || !vh_parse_hex(argv[6], &in)) return 0;
	monitor_at = atol(argv[4]);
	src.data = in.data; src.len = in.len; src.pos = 0; src.chunk = (size_t) atol(argv[3]);
	dec = lha_decoder_new(dtype, dec_cb, &src, (size_t) strtoull(argv[2], NULL, 10));
	if (dec == NULL) { vh_out("new-failed"); return 1; }
	out = malloc(outcap);
	if (nsched > 0) last_k = sched[nsched - 1] ? sched[nsched - 1] : 4096;

	for (;;) {
		size_t k, got;
		uint8_t *buf;
		int implicit = idx >= nsched;
		if (monitor_at == (long) idx) {
			lha_decoder_monitor(dec, prog_cb, &pl);
		}
		if (idx < nsched) k = sched[idx];
		else if (idx > 400000) break;
		else k = last_k;
		buf = malloc(k ? k : 1);          // exact size: ASan sees any over-write
		vh_scribble_stack((unsigned char) (0xA5 ^ idx));
		got = lha_decoder_read(dec, buf, k);
		if (got > k) { overread = 1; got = k; }
		if (outlen + got > outcap) {
			while (outlen + got > outcap) outcap *= 2;
			out = realloc(out, outcap);
		}
		memcpy(out + outlen, buf, got);
		outlen += got;
		free(buf);
		++idx;
		if (implicit && got == 0) break;
	}
	vh_out("out=");
	vh_out_hex(out, outlen);
	vh_out(" len=%lu crc=%04x prog=", (unsigned long) lha_decoder_get_length(dec),
	       lha_decoder_get_crc(dec));
	{
		// total as announced to the callback (0 if never called)
		size_t i;
		unsigned int total = 0;
		if (monitor_at >= 0 && (size_t) monitor_at < idx + 1) {
			// recompute as the library does: visible via any callback; if none was made, report 0
			total = pl.n ? pl.total : 0;
		}
		vh_out("%u:", total);
		if (pl.n == 0) vh_out("-");
		for (i = 0; i < pl.n; ++i) vh_out("%s%u", i ? "," : "", pl.blocks[i]);
	}
	if (overread) vh_out(" OVERREAD");
	lha_decoder_free(dec);
	free(out); free(in.data); free(sched); free(pl.blocks);
	return 1;
}
