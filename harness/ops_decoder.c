// Decoder-level op: any method through lha_decoder_new / lha_decoder_read.
#include <limits.h>
#include "vh.h"
#include "lib/lha_decoder.h"

typedef struct {
	const uint8_t *data;
	size_t len, pos, chunk;
} DecSrc;

static size_t dec_cb(void *buf, size_t buf_len, void *user)
{
	DecSrc *s = user;
	size_t n = s->len - s->pos;
	if (n > buf_len) n = buf_len;
	if (s->chunk && n > s->chunk) n = s->chunk;
	memcpy(buf, s->data + s->pos, n);
	s->pos += n;
	return n;
}

typedef struct {
	unsigned int total;
	unsigned int *blocks;
	size_t n, cap;
} ProgLog;

static void prog_cb(unsigned int num_blocks, unsigned int total_blocks, void *user)
{
	ProgLog *p = user;
	if (p->n == p->cap) {
		p->cap = p->cap ? p->cap * 2 : 64;
		p->blocks = realloc(p->blocks, p->cap * sizeof(unsigned int));
	}
	p->blocks[p->n++] = num_blocks;
	p->total = total_blocks;
}

// read a whole stream through a fresh decoder, `k` bytes per call
static size_t dec_all(LHADecoder *d, uint8_t *out, size_t cap, size_t k)
{
	size_t n = 0, got;
	while (n < cap && (got = lha_decoder_read(d, out + n, (cap - n) < k ? (cap - n) : k)) > 0) n += got;
	return n;
}

// dec2 <methodA> <declenA> <hexA> <methodB> <declenB> <hexB> <k>: TWO decoder objects alive at the same time, read alternately k bytes
// at a time (and B created while A is in mid-stream): each must deliver what it delivers alone (decoder state lives in the object)
static int dec2_op(int argc, char **argv)
{
	char na[16], nb[16];
	VhBytes ia, ib;
	DecSrc sa, sb;
	LHADecoderType *ta, *tb;
	LHADecoder *da, *db;
	uint8_t *soloA, *soloB, *outA, *outB;
	size_t la, lb, nsa, nsb, na_ = 0, nb_ = 0, k, got;
	int enda = 0, endb = 0;
	if (argc != 8) return 0;
	snprintf(na, sizeof(na), "-%s-", argv[1]); snprintf(nb, sizeof(nb), "-%s-", argv[4]);
	ta = lha_decoder_for_name(na); tb = lha_decoder_for_name(nb);
	if (ta == NULL || tb == NULL) return 0;
	la = (size_t) strtoull(argv[2], NULL, 10); lb = (size_t) strtoull(argv[5], NULL, 10);
	if (la > (1u << 22) || lb > (1u << 22)) return 0;
	if (!vh_parse_hex(argv[3], &ia) || !vh_parse_hex(argv[6], &ib)) return 0;
	k = (size_t) atol(argv[7]); if (k == 0) k = 1;
	soloA = malloc(la + 1); soloB = malloc(lb + 1); outA = malloc(la + 1); outB = malloc(lb + 1);
	sa.data = ia.data; sa.len = ia.len; sa.pos = 0; sa.chunk = 0;
	da = lha_decoder_new(ta, dec_cb, &sa, la); nsa = dec_all(da, soloA, la, 4096); lha_decoder_free(da);
	sb.data = ib.data; sb.len = ib.len; sb.pos = 0; sb.chunk = 0;
	db = lha_decoder_new(tb, dec_cb, &sb, lb); nsb = dec_all(db, soloB, lb, 4096); lha_decoder_free(db);
	// now together: A first reads a little, THEN B is created
	sa.pos = 0; sb.pos = 0;
	da = lha_decoder_new(ta, dec_cb, &sa, la);
	got = lha_decoder_read(da, outA, la < k ? la : k); na_ += got; if (got == 0) enda = 1;
	db = lha_decoder_new(tb, dec_cb, &sb, lb);
	while (!enda || !endb) {
		if (!endb) { got = lha_decoder_read(db, outB + nb_, (lb - nb_) < k ? (lb - nb_) : k); nb_ += got; if (got == 0) endb = 1; }
		if (!enda) { got = lha_decoder_read(da, outA + na_, (la - na_) < k ? (la - na_) : k); na_ += got; if (got == 0) enda = 1; }
	}
	lha_decoder_free(da); lha_decoder_free(db);
	if (na_ == nsa && nb_ == nsb && memcmp(outA, soloA, nsa) == 0 && memcmp(outB, soloB, nsb) == 0) {
		vh_out("same A=%lu B=%lu", (unsigned long) nsa, (unsigned long) nsb);
	} else {
		size_t i = 0, j = 0;
		while (i < na_ && i < nsa && outA[i] == soloA[i]) ++i;
		while (j < nb_ && j < nsb && outB[j] == soloB[j]) ++j;
		vh_out("DIFFERENT A:%lu/%lu-first-difference-at-%lu B:%lu/%lu-first-difference-at-%lu", (unsigned long) na_, (unsigned long) nsa,
		       (unsigned long) i, (unsigned long) nb_, (unsigned long) nsb, (unsigned long) j);
	}
	free(soloA); free(soloB); free(outA); free(outB); free(ia.data); free(ib.data);
	return 1;
}

// dec <method> <declared len> <chunk> <monitor-at> <schedule> <stream hex>
int vh_ops_decoder(int argc, char **argv)
{
	char name[16];
	VhBytes in;
	size_t *sched, nsched, idx = 0, last_k = 4096, outcap = 1 << 16, outlen = 0;
	long monitor_at;
	uint8_t *out;
	DecSrc src;
	ProgLog pl = { 0, NULL, 0, 0 };
	LHADecoderType *dtype;
	LHADecoder *dec;
	int overread = 0;
	int mid_bad = 0; uint16_t mid_crc = 0, mid_got = 0, mid_want = 0; size_t mid_at = 0, mid_len = 0;

	if (!strcmp(argv[0], "dec2")) return dec2_op(argc, argv);
	if (strcmp(argv[0], "dec") || argc != 7) return 0;
	snprintf(name, sizeof(name), "-%s-", argv[1]);
	dtype = lha_decoder_for_name(name);
	if (dtype == NULL) return 0;
	if (!vh_parse_nats(argv[5], &sched, &nsched) || !vh_parse_hex(argv[6], &in)) return 0;
	monitor_at = atol(argv[4]);
	src.data = in.data; src.len = in.len; src.pos = 0; src.chunk = (size_t) atol(argv[3]);
	dec = lha_decoder_new(dtype, dec_cb, &src, (size_t) strtoull(argv[2], NULL, 10));
	if (dec == NULL) { vh_out("new-failed"); return 1; }
	out = malloc(outcap);
	if (nsched > 0) last_k = sched[nsched - 1] ? sched[nsched - 1] : 4096;

	for (;;) {
		size_t k, got;
		uint8_t *buf;
		int implicit = idx >= nsched;
		if (monitor_at == (long) idx) {
			lha_decoder_monitor(dec, prog_cb, &pl);
		}
		if (idx < nsched) k = sched[idx];
		else if (idx > 400000) break;
		else k = last_k;
		buf = malloc(k ? k : 1);          // exact size: ASan sees any over-write
		vh_scribble_stack((unsigned char) (0xA5 ^ idx));
		got = lha_decoder_read(dec, buf, k);
		if (got > k) { overread = 1; got = k; }
		if (outlen + got > outcap) {
			while (outlen + got > outcap) outcap *= 2;
			out = realloc(out, outcap);
		}
		memcpy(out + outlen, buf, got);
		outlen += got;
		{
			// the accessors are part of the API at EVERY point, not only at the end: after each read the reported length is the
			// number of bytes returned so far and the reported CRC is the CRC-16 of exactly those bytes (computed here bit by bit)
			size_t j; int b;
			for (j = 0; j < got; ++j) {
				mid_crc ^= buf[j];
				for (b = 0; b < 8; ++b) mid_crc = (mid_crc & 1) ? (uint16_t) ((mid_crc >> 1) ^ 0xA001) : (uint16_t) (mid_crc >> 1);
			}
			if (!mid_bad && (lha_decoder_get_length(dec) != outlen || lha_decoder_get_crc(dec) != mid_crc)) {
				mid_bad = 1; mid_at = outlen; mid_len = lha_decoder_get_length(dec); mid_got = lha_decoder_get_crc(dec); mid_want = mid_crc;
			}
		}
		free(buf);
		++idx;
		if (implicit && got == 0) break;
	}
	vh_out("out=");
	vh_out_hex(out, outlen);
	vh_out(" len=%lu crc=%04x prog=", (unsigned long) lha_decoder_get_length(dec),
	       lha_decoder_get_crc(dec));
	{
		// total as announced to the callback (0 if never called)
		size_t i;
		unsigned int total = 0;
		if (monitor_at >= 0 && (size_t) monitor_at < idx + 1) {
			// recompute as the library does: visible via any callback; if none was made, report 0
			total = pl.n ? pl.total : 0;
		}
		vh_out("%u:", total);
		if (pl.n == 0) vh_out("-");
		for (i = 0; i < pl.n; ++i) vh_out("%s%u", i ? "," : "", pl.blocks[i]);
	}
	if (overread) vh_out(" OVERREAD");
	if (mid_bad) vh_out(" MIDSTREAM:after-%lu-bytes-len=%lu-crc=%04x-want-%04x", (unsigned long) mid_at, (unsigned long) mid_len, mid_got, mid_want);
	lha_decoder_free(dec);
	free(out); free(in.data); free(sched); free(pl.blocks);
	return 1;
}
