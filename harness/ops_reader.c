#define _FILE_OFFSET_BITS 64
// Reader-level op: the public LHAReader API over four kinds of input stream, with the
// file-system layer (lha_arch_*) replaced by scripted stubs and the allocator wrapped
// (link-time --wrap) so that live blocks can be counted and allocations made to fail.
// VH-REPLACES: lib/lha_arch_unix.c
#define _GNU_SOURCE
#include <unistd.h>
#include <fcntl.h>
#include <signal.h>
#include <sys/stat.h>
#include <sys/wait.h>
#include "vh.h"
#include "lib/lha_arch.h"
#include "lib/public/lha_reader.h"
#include "lib/public/lha_input_stream.h"
#include "lib/crc16.h"

// ---------------------------------------------------------------- allocator ledger
void *__real_malloc(size_t);
void *__real_calloc(size_t, size_t);
void *__real_realloc(void *, size_t);
void __real_free(void *);
char *__real_strdup(const char *);

static int trk_on;
static long trk_count, trk_fail_at = -1, trk_live, trk_peak_bytes, trk_bytes;
static long trk_fresh_bytes;      // bytes obtained by malloc/calloc (not realloc): what a "copy the whole block on every extension" costs
#define TRK_MAX 65536
static void *trk_ptr[TRK_MAX];
static size_t trk_size[TRK_MAX];
static int trk_n;

static void trk_add(void *p, size_t n)
{
	if (!p || trk_n >= TRK_MAX) return;
	trk_ptr[trk_n] = p; trk_size[trk_n] = n; ++trk_n;
	++trk_live; trk_bytes += (long) n;
	if (trk_bytes > trk_peak_bytes) trk_peak_bytes = trk_bytes;
}

static int trk_del(void *p)
{
	int i;
	for (i = trk_n - 1; i >= 0; --i) {
		if (trk_ptr[i] == p) {
			trk_bytes -= (long) trk_size[i];
			trk_ptr[i] = trk_ptr[trk_n - 1]; trk_size[i] = trk_size[trk_n - 1];
			--trk_n; --trk_live;
			return 1;
		}
	}
	return 0;
}

static int trk_should_fail(void)
{
	return trk_on && trk_count++ == trk_fail_at;
}

#ifndef VH_NO_WRAP
void *__wrap_malloc(size_t n)
{
	void *p;
	if (!trk_on) return __real_malloc(n);
	if (trk_should_fail()) return NULL;
	p = __real_malloc(n); trk_add(p, n); trk_fresh_bytes += (long) n; return p;
}
void *__wrap_calloc(size_t a, size_t b)
{
	void *p;
	if (!trk_on) return __real_calloc(a, b);
	if (trk_should_fail()) return NULL;
	p = __real_calloc(a, b); trk_add(p, a * b); trk_fresh_bytes += (long) (a * b); return p;
}
void *__wrap_realloc(void *q, size_t n)
{
	void *p;
	if (!trk_on) return __real_realloc(q, n);
	if (trk_should_fail()) return NULL;
	p = __real_realloc(q, n);
	if (p) { if (q) trk_del(q); trk_add(p, n); }
	return p;
}
void __wrap_free(void *p)
{
	if (p && trk_on) trk_del(p);
	__real_free(p);
}
char *__wrap_strdup(const char *s)
{
	char *p;
	if (!trk_on) return __real_strdup(s);
	if (trk_should_fail()) return NULL;
	p = __real_strdup(s); trk_add(p, strlen(s) + 1); return p;
}

#endif /* VH_NO_WRAP */

// ---------------------------------------------------------------- file-system stubs
static int fs_next_ok = 1;            // outcome of the next deciding call
static char *fs_buf; static size_t fs_len; static FILE *fs_file;

int lha_arch_vasprintf(char **result, char *fmt, va_list args) { return vasprintf(result, fmt, args); }
void lha_arch_set_binary(FILE *handle) { (void) handle; }
int lha_arch_mkdir(char *path, unsigned int unix_perms) { (void) path; (void) unix_perms; return fs_next_ok; }
int lha_arch_chown(char *f, int u, int g) { (void) f; (void) u; (void) g; return 1; }
int lha_arch_chmod(char *f, int p) { (void) f; (void) p; return 1; }
int lha_arch_utime(char *f, unsigned int t) { (void) f; (void) t; return 1; }
LHAFileType lha_arch_exists(char *f) { (void) f; return LHA_FILE_NONE; }
int lha_arch_symlink(char *p, char *t) { (void) p; (void) t; return fs_next_ok; }
static int fs_component_symlink = 0;     // token x2: the file system answers "this directory component is a symbolic link"
int lha_arch_is_symlink(char *p) { (void) p; return fs_component_symlink; }
// the output file is a cookie stream: the harness sees whether the library closed it (a handle the library opened must be closed
// by the library on every path) and collects what was written
static int fs_open_handles;
static size_t fs_pos;      // the stream behaves like a regular file: it can be positioned; writing beyond the end leaves a hole of zeros,
                           // positioning beyond the end without writing does NOT lengthen the file
static ssize_t fsck_write(void *cookie, const char *buf, size_t n)
{
	int was = trk_on;
	(void) cookie;
	trk_on = 0;
	if (fs_pos + n > fs_len) {
		fs_buf = realloc(fs_buf, fs_pos + n + 1);
		if (fs_pos > fs_len) memset(fs_buf + fs_len, 0, fs_pos - fs_len);
		fs_len = fs_pos + n;
	}
	memcpy(fs_buf + fs_pos, buf, n);
	fs_pos += n;
	trk_on = was;
	return (ssize_t) n;
}
static int fsck_seek(void *cookie, off64_t *off, int whence)
{
	off64_t base = whence == SEEK_SET ? 0 : whence == SEEK_CUR ? (off64_t) fs_pos : (off64_t) fs_len;
	(void) cookie;
	if (base + *off < 0) return -1;
	fs_pos = (size_t) (base + *off);
	*off = (off64_t) fs_pos;
	return 0;
}
static int fsck_close(void *cookie) { (void) cookie; --fs_open_handles; return 0; }
FILE *lha_arch_fopen(char *filename, int uid, int gid, int perms)
{
	int was = trk_on;
	cookie_io_functions_t io = { NULL, fsck_write, fsck_seek, fsck_close };
	(void) filename; (void) uid; (void) gid; (void) perms;
	if (!fs_next_ok) return NULL;
	trk_on = 0;
	fs_buf = malloc(1); fs_len = 0; fs_pos = 0;
	fs_file = fopencookie(NULL, "w", io);
	if (fs_file != NULL) ++fs_open_handles;
	trk_on = was;
	return fs_file;
}

// ---------------------------------------------------------------- sources
typedef struct { const uint8_t *data; size_t len, pos; unsigned long reads, moved; long err_at; } CbSrc;

static int cb_read(void *h, void *buf, size_t n)
{
	CbSrc *m = h;
	size_t k = m->len - m->pos;
	// kinds "cbskiperr:<off>" / "cbnoskiperr:<off>": from offset <off> on, every read reports an I/O error (-1, the documented value)
	if (m->err_at >= 0 && (long) m->pos >= m->err_at) { ++m->reads; return -1; }
	if (m->err_at >= 0 && (long) (m->pos + n) > m->err_at) n = (size_t) (m->err_at - (long) m->pos);
	if (k > n) k = n;
	memcpy(buf, m->data + m->pos, k);
	m->pos += k; ++m->reads; m->moved += k;
	return (int) k;
}
static int cb_skip(void *h, size_t n)
{
	CbSrc *m = h;
	if (n > m->len - m->pos) return 0;
	m->pos += n;
	return 1;
}
static const LHAInputStreamType cb_type_skip = { cb_read, cb_skip, NULL };
static const LHAInputStreamType cb_type_noskip = { cb_read, NULL, NULL };

static void out_hexstr(const char *s)
{
	if (s == NULL) vh_out("~");
	else vh_out_hex((const uint8_t *) s, strlen(s));
}

typedef struct {
	VhBytes a;
	CbSrc cb;
	FILE *fh;
	LHAInputStream *stream;
	LHAReader *reader;
	int pipe_child, cur_is_file;
} RCtx;

static int rctx_open(RCtx *c, const char *kind, const char *policy, const char *hex)
{
	memset(c, 0, sizeof(*c));
	c->pipe_child = -1;
	if (!vh_parse_hex(hex, &c->a)) return 0;
	c->cb.data = c->a.data; c->cb.len = c->a.len; c->cb.err_at = -1;
	{
		const char *colon = strchr(kind, ':');
		if (colon != NULL && strstr(kind, "err:") != NULL) c->cb.err_at = atol(colon + 1);
	}
	if (!strcmp(kind, "seek")) {
		c->fh = tmpfile();
		fwrite(c->a.data, 1, c->a.len, c->fh);
		rewind(c->fh);
	} else if (!strcmp(kind, "pipe")) {
		int fds[2];
		if (pipe(fds) != 0) return 0;
		fflush(stdout);
		c->pipe_child = fork();
		if (c->pipe_child == 0) {
			size_t off = 0;
			close(fds[0]);
			while (off < c->a.len) {
				ssize_t w = write(fds[1], c->a.data + off, c->a.len - off);
				if (w <= 0) break;
				off += (size_t) w;
			}
			_exit(0);
		}
		close(fds[1]);
		c->fh = fdopen(fds[0], "rb");
	}
	trk_on = 1;
	if (c->fh != NULL) c->stream = lha_input_stream_from_FILE(c->fh);
	else if (!strncmp(kind, "cbskip", 6)) c->stream = lha_input_stream_new(&cb_type_skip, &c->cb);
	else c->stream = lha_input_stream_new(&cb_type_noskip, &c->cb);
	c->reader = c->stream ? lha_reader_new(c->stream) : NULL;
	trk_on = 0;
	if (c->reader == NULL) {
		if (c->stream) { trk_on = 1; lha_input_stream_free(c->stream); trk_on = 0; c->stream = NULL; }
		return -1;
	}
	if (!strcmp(policy, "plain")) lha_reader_set_dir_policy(c->reader, LHA_READER_DIR_PLAIN);
	else if (!strcmp(policy, "eof")) lha_reader_set_dir_policy(c->reader, LHA_READER_DIR_END_OF_FILE);
	else lha_reader_set_dir_policy(c->reader, LHA_READER_DIR_END_OF_DIR);
	return 1;
}

static void rctx_step(RCtx *c, const char *tok)
{
	LHAReader *reader = c->reader;
	if (tok[0] == 'n') {
		LHAFileHeader *h;
		trk_on = 1; h = lha_reader_next_file(reader); trk_on = 0;
		c->cur_is_file = h != NULL && strcmp(h->compress_method, "-lhd-") != 0;
		if (h == NULL) vh_out("END");
		else {
			int fake;
			trk_on = 1; fake = lha_reader_current_is_fake(reader); trk_on = 0;
			vh_out("H%d:", fake);
			out_hexstr(h->path); vh_out(":");
			out_hexstr(h->filename); vh_out(":");
			out_hexstr(h->symlink_target); vh_out(":");
			vh_out_hex((uint8_t *) h->compress_method, 5);
			vh_out(":%lu:%lu", (unsigned long) h->length, (unsigned long) h->compressed_length);
		}
	} else if (tok[0] == 'r') {
		size_t k = (size_t) atol(tok + 1), got;
		uint8_t *buf = malloc(k ? k : 1);
		vh_scribble_stack(0x5a);
		trk_on = 1; got = lha_reader_read(reader, buf, k); trk_on = 0;
		if (got > k) { vh_out("OVERREAD"); got = k; }
		vh_out_hex(buf, got);
		free(buf);
	} else if (tok[0] == 'c') {
		int r;
		trk_on = 1; r = lha_reader_check(reader, NULL, NULL); trk_on = 0;
		vh_out("c%d", r != 0);
	} else if (tok[0] == 'x') {
		int r;
		fs_next_ok = tok[1] != '0';
		fs_component_symlink = tok[1] == '2';
		fs_file = NULL; fs_buf = NULL; fs_len = 0;
		trk_on = 1; r = lha_reader_extract(reader, NULL, NULL, NULL); trk_on = 0;
		if (fs_open_handles != 0) {
			// the library returned with the output file still open
			vh_out("HANDLE-LEAK:");
			if (fs_file != NULL) fclose(fs_file);
			fs_open_handles = 0;
		}
		vh_out("x%d", r != 0);
		if (fs_buf != NULL && !c->cur_is_file) { free(fs_buf); fs_buf = NULL; }
		if (fs_buf != NULL) {
			uint16_t crc = 0;
			lha_crc16_buf(&crc, (uint8_t *) fs_buf, fs_len);
			vh_out(":%lu:%04x", (unsigned long) fs_len, crc);
			free(fs_buf); fs_buf = NULL;
		}
	} else {
		vh_out("?");
	}
}

static void rctx_close(RCtx *c)
{
	if (c->reader != NULL) {
		trk_on = 1;
		lha_reader_free(c->reader);
		lha_input_stream_free(c->stream);
		trk_on = 0;
	}
	if (c->fh != NULL) fclose(c->fh);
	if (c->pipe_child > 0) { int st; waitpid(c->pipe_child, &st, 0); }
	free(c->a.data);
}

// rdr  <kind> <policy> <fail-at|-1> <ops> <archive hex>
// rdr2 <kindA> <policyA> <opsA> <hexA> <kindB> <policyB> <opsB> <hexB> <interleaving, e.g. ABBA…>
int vh_ops_reader(int argc, char **argv)
{
	if (!strcmp(argv[0], "rdr") && argc == 6) {
		RCtx c;
		char *ops, *tok, *save;
		int first = 1, ok;
		trk_count = 0; trk_live = 0; trk_n = 0; trk_bytes = 0; trk_peak_bytes = 0; trk_fresh_bytes = 0;
		trk_fail_at = atol(argv[3]);
		ok = rctx_open(&c, argv[1], argv[2], argv[5]);
		if (ok == 0) return 0;
		if (ok < 0) {
			vh_out("new-failed");
		} else {
			ops = strdup(argv[4]);
			for (tok = strtok_r(ops, ";", &save); tok; tok = strtok_r(NULL, ";", &save)) {
				if (!first) vh_out(";");
				first = 0;
				rctx_step(&c, tok);
			}
			free(ops);
		}
		{
			int is_cb = c.fh == NULL;
			unsigned long reads, moved;
			rctx_close(&c);
			reads = c.cb.reads; moved = c.cb.moved;
			vh_out(" live=%ld allocs=%ld peak=%ld fresh=%ld", trk_live, trk_count, trk_peak_bytes, trk_fresh_bytes);
			if (is_cb) vh_out(" reads=%lu moved=%lu", reads, moved);
		}
		return 1;
	}
	// rdrbig <policy> <gap> <ops> <hex1> <hex2>: a SEEKABLE FILE holding hex1, then <gap> bytes of hole (a sparse temporary file),
	// then hex2 - members whose compressed size is in the gigabytes, without the gigabytes being written or read
	if (!strcmp(argv[0], "rdrbig") && argc == 6) {
		RCtx c;
		VhBytes b2;
		char *ops, *tok, *save;
		int first = 1;
		long long gap = atoll(argv[2]);
		trk_count = 0; trk_live = 0; trk_n = 0; trk_bytes = 0; trk_peak_bytes = 0; trk_fresh_bytes = 0; trk_fail_at = -1;
		memset(&c, 0, sizeof(c));
		c.pipe_child = -1;
		if (!vh_parse_hex(argv[4], &c.a) || !vh_parse_hex(argv[5], &b2)) return 0;
		c.fh = tmpfile();
		fwrite(c.a.data, 1, c.a.len, c.fh);
		if (gap > 0) fseeko(c.fh, (off_t) gap, SEEK_CUR);
		fwrite(b2.data, 1, b2.len, c.fh);
		rewind(c.fh);
		free(b2.data);
		trk_on = 1;
		c.stream = lha_input_stream_from_FILE(c.fh);
		c.reader = c.stream ? lha_reader_new(c.stream) : NULL;
		trk_on = 0;
		if (c.reader == NULL) return 0;
		if (!strcmp(argv[1], "plain")) lha_reader_set_dir_policy(c.reader, LHA_READER_DIR_PLAIN);
		else if (!strcmp(argv[1], "eof")) lha_reader_set_dir_policy(c.reader, LHA_READER_DIR_END_OF_FILE);
		else lha_reader_set_dir_policy(c.reader, LHA_READER_DIR_END_OF_DIR);
		ops = strdup(argv[3]);
		for (tok = strtok_r(ops, ";", &save); tok; tok = strtok_r(NULL, ";", &save)) {
			if (!first) vh_out(";");
			first = 0;
			rctx_step(&c, tok);
		}
		free(ops);
		rctx_close(&c);
		vh_out(" live=%ld", trk_live);
		return 1;
	}
	// rdrreopen <policy> <ops> <hex>: the SAME FILE object first on a regular file, then (freopen) on a FIFO fed by a child process:
	// anything the library remembers about a FILE* from one stream to the next is wrong for the second
	if (!strcmp(argv[0], "rdrreopen") && argc == 4) {
		VhBytes a;
		char dir[] = "/tmp/vh-reopen-XXXXXX", path[64], fifo[64];
		FILE *fh;
		int round, child = -1;
		trk_count = 0; trk_live = 0; trk_n = 0; trk_bytes = 0; trk_peak_bytes = 0; trk_fresh_bytes = 0; trk_fail_at = -1;
		if (!vh_parse_hex(argv[3], &a)) return 0;
		if (mkdtemp(dir) == NULL) return 0;
		snprintf(path, sizeof(path), "%s/a.lzh", dir);
		snprintf(fifo, sizeof(fifo), "%s/f", dir);
		fh = fopen(path, "wb"); fwrite(a.data, 1, a.len, fh); fclose(fh);
		mkfifo(fifo, 0600);
		fh = fopen(path, "rb");
		for (round = 0; round < 2; ++round) {
			RCtx c;
			char *ops, *tok, *save;
			int first = 1;
			if (round == 1) {
				fflush(stdout);
				child = fork();
				if (child == 0) {
					int fd = open(fifo, O_WRONLY);
					size_t off = 0;
					while (fd >= 0 && off < a.len) {
						ssize_t w = write(fd, a.data + off, a.len - off);
						if (w <= 0) break;
						off += (size_t) w;
					}
					_exit(0);
				}
				fh = freopen(fifo, "rb", fh);
				if (fh == NULL) break;
			}
			memset(&c, 0, sizeof(c));
			c.pipe_child = -1;
			c.fh = fh;
			trk_on = 1;
			c.stream = lha_input_stream_from_FILE(fh);
			c.reader = c.stream ? lha_reader_new(c.stream) : NULL;
			trk_on = 0;
			if (c.reader == NULL) break;
			if (!strcmp(argv[1], "plain")) lha_reader_set_dir_policy(c.reader, LHA_READER_DIR_PLAIN);
			else if (!strcmp(argv[1], "eof")) lha_reader_set_dir_policy(c.reader, LHA_READER_DIR_END_OF_FILE);
			else lha_reader_set_dir_policy(c.reader, LHA_READER_DIR_END_OF_DIR);
			vh_out(round == 0 ? "A:" : "|B:");
			ops = strdup(argv[2]);
			for (tok = strtok_r(ops, ";", &save); tok; tok = strtok_r(NULL, ";", &save)) {
				if (!first) vh_out(";");
				first = 0;
				rctx_step(&c, tok);
			}
			free(ops);
			trk_on = 1; lha_reader_free(c.reader); lha_input_stream_free(c.stream); trk_on = 0;
		}
		if (fh != NULL) fclose(fh);
		if (child > 0) { int st; kill(child, SIGKILL); waitpid(child, &st, 0); }
		unlink(path); unlink(fifo); rmdir(dir);
		free(a.data);
		vh_out(" live=%ld", trk_live);
		return 1;
	}
	if (!strcmp(argv[0], "rdr2") && argc == 10) {
		RCtx c[2];
		char *ops[2], *save[2], *tok[2];
		const char *il = argv[9];
		int i, first = 1;
		trk_count = 0; trk_live = 0; trk_n = 0; trk_bytes = 0; trk_peak_bytes = 0; trk_fresh_bytes = 0; trk_fail_at = -1;
		if (rctx_open(&c[0], argv[1], argv[2], argv[4]) <= 0) return 0;
		if (rctx_open(&c[1], argv[5], argv[6], argv[8]) <= 0) return 0;
		ops[0] = strdup(argv[3]); ops[1] = strdup(argv[7]);
		tok[0] = strtok_r(ops[0], ";", &save[0]);
		tok[1] = strtok_r(ops[1], ";", &save[1]);
		for (; *il || tok[0] || tok[1]; ) {
			i = *il ? (*il++ == 'B') : (tok[0] ? 0 : 1);
			if (tok[i] == NULL) continue;
			if (!first) vh_out(";");
			first = 0;
			vh_out("%c=", 'A' + i);
			rctx_step(&c[i], tok[i]);
			tok[i] = strtok_r(NULL, ";", &save[i]);
		}
		free(ops[0]); free(ops[1]);
		rctx_close(&c[0]); rctx_close(&c[1]);
		vh_out(" live=%ld", trk_live);
		return 1;
	}
	return 0;
}
