// vh: C side of the correspondence line protocol.
#ifndef VH_H
#define VH_H
#include <stdio.h>
#include <stdlib.h>
#include <string.h>
#include <stdint.h>
#include <stddef.h>

typedef struct {
	uint8_t *data;
	size_t len;
} VhBytes;

// Output buffer for one result line.
void vh_out(const char *fmt, ...);
void vh_out_hex(const uint8_t *p, size_t n);

// Parse helpers. Return 0 on malformed input.
int vh_parse_hex(const char *s, VhBytes *out);     // "-" = empty; caller frees out->data
int vh_parse_nats(const char *s, size_t **out, size_t *n); // "1,2,3" or "-"
unsigned long vh_parse_hexnat(const char *s);

// Overwrite dead stack with a pattern (makes uninitialised reads show up as
// schedule dependence).
void vh_scribble_stack(unsigned char pattern);

typedef int (*VhOp)(int argc, char **argv);   // returns 1 if handled

int vh_ops_crc(int argc, char **argv);
int vh_ops_decoder(int argc, char **argv);
int vh_ops_header(int argc, char **argv);
int vh_ops_stream(int argc, char **argv);
int vh_ops_reader(int argc, char **argv);
int vh_ops_tree(int argc, char **argv);
int vh_ops_tool(int argc, char **argv);
int vh_ops_danger(int argc, char **argv);
int vh_ops_cli(int argc, char **argv);

#endif
