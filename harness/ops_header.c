// Header-level ops: the repository's parser run on a memory stream.
// lha_file_header.c and lha_input_stream.c are #included so that statics
// (collapse_path, the stream state) are reachable without source hooks.
#include "vh.h"
#include "lib/lha_file_header.c"
#include "lib/lha_input_stream.c"

typedef struct {
	const uint8_t *data;
	size_t len, pos;
	size_t chunk;        // max bytes handed out per read call (0 = unlimited)
	unsigned long reads;
} MemSrc;

static int mem_read(void *handle, void *buf, size_t buf_len)
{
	MemSrc *m = handle;
	size_t n = m->len - m->pos;
	++m->reads;
	if (n > buf_len) n = buf_len;
	if (m->chunk && n > m->chunk) n = m->chunk;
	memcpy(buf, m->data + m->pos, n);
	m->pos += n;
	return (int) n;
}

static int mem_skip(void *handle, size_t bytes)
{
	MemSrc *m = handle;
	if (bytes > m->len - m->pos) return 0;
	m->pos += bytes;
	return 1;
}

static const LHAInputStreamType mem_type_noskip = { mem_read, NULL, NULL };
static const LHAInputStreamType mem_type_skip = { mem_read, mem_skip, NULL };

static void out_str(const char *key, const char *s)
{
	vh_out(" %s=", key);
	if (s == NULL) vh_out("~");
	else vh_out_hex((const uint8_t *) s, strlen(s));
}

void vh_dump_header(LHAFileHeader *h)
{
	vh_out("ok lvl=%u os=%02x method=", h->header_level, h->os_type);
	vh_out_hex((uint8_t *) h->compress_method, 5);
	vh_out(" clen=%lu len=%lu crc=%04x ts=%u flags=%02x perms=%u uid=%u gid=%u os9=%u ccrc=%04x",
	       (unsigned long) h->compressed_length, (unsigned long) h->length, h->crc,
	       h->timestamp, h->extra_flags, h->unix_perms, h->unix_uid, h->unix_gid,
	       h->os9_perms, h->common_crc);
	vh_out(" wc=%llu wm=%llu wa=%llu", (unsigned long long) h->win_creation_time,
	       (unsigned long long) h->win_modification_time,
	       (unsigned long long) h->win_access_time);
	out_str("path", h->path);
	out_str("name", h->filename);
	out_str("target", h->symlink_target);
	out_str("user", h->unix_username);
	out_str("group", h->unix_group);
	vh_out(" raw=");
	vh_out_hex(h->raw_data, h->raw_data_len);
}

int vh_ops_header(int argc, char **argv)
{
	// hdr <input hex>: lha_file_header_read on a stream already past the SFX scan
	if (!strcmp(argv[0], "hdr") && argc == 2) {
		VhBytes b;
		MemSrc m;
		LHAInputStream *s;
		LHAFileHeader *h;
		if (!vh_parse_hex(argv[1], &b)) return 0;
		m.data = b.data; m.len = b.len; m.pos = 0; m.chunk = 0; m.reads = 0;
		s = lha_input_stream_new(&mem_type_noskip, &m);
		s->state = LHA_INPUT_STREAM_READING;
		h = lha_file_header_read(s);
		if (h == NULL) {
			vh_out("fail");
		} else {
			vh_dump_header(h);
			vh_out(" rest=%lu", (unsigned long) (m.len - m.pos));
			lha_file_header_free(h);
		}
		lha_input_stream_free(s);
		free(b.data);
		return 1;
	}
	// collapse <cstring hex>: collapse_path on a C string
	if (!strcmp(argv[0], "collapse") && argc == 2) {
		VhBytes b;
		char *s;
		if (!vh_parse_hex(argv[1], &b)) return 0;
		s = malloc(b.len + 1);
		memcpy(s, b.data, b.len);
		s[b.len] = 0;
		collapse_path(s);
		vh_out_hex((uint8_t *) s, strlen(s));
		free(s);
		free(b.data);
		return 1;
	}
	return 0;
}
