// libFuzzer target (thorough tier of C09): byte 0 selects the method, bytes 1-2 the declared length, byte 3 the callback
// chunking; the rest is the compressed stream. Any sanitizer report is a finding; the corpus libFuzzer builds (inputs that
// reach new code) is afterwards replayed through the differential harness (C vs Lean model).
#include <stdint.h>
#include <stddef.h>
#include <string.h>
#include <stdlib.h>
#include "lib/lha_decoder.h"

static const char *methods[] = { "-lz4-", "-lz5-", "-lzs-", "-lh0-", "-lh1-", "-lh4-", "-lh5-", "-lh6-", "-lh7-",
                                 "-lhx-", "-lk7-", "-pm0-", "-pm1-", "-pm2-" };
typedef struct { const uint8_t *d; size_t len, pos, chunk; } Src;

static size_t cb(void *buf, size_t n, void *u)
{
	Src *s = u;
	size_t k = s->len - s->pos;
	if (k > n) k = n;
	if (s->chunk && k > s->chunk) k = s->chunk;
	memcpy(buf, s->d + s->pos, k);
	s->pos += k;
	return k;
}

int LLVMFuzzerTestOneInput(const uint8_t *data, size_t size)
{
	Src s;
	LHADecoder *dec;
	LHADecoderType *t;
	size_t declen, total = 0, k;
	uint8_t *buf;
	if (size < 4) return 0;
	t = lha_decoder_for_name((char *) methods[data[0] % 14]);
	declen = (size_t) data[1] | ((size_t) data[2] << 8);
	s.d = data + 4; s.len = size - 4; s.pos = 0; s.chunk = data[3] % 4;
	dec = lha_decoder_new(t, cb, &s, declen);
	if (dec == NULL) return 0;
	k = 1 + (data[3] >> 2) * 37;
	buf = malloc(k);
	for (;;) {
		size_t got = lha_decoder_read(dec, buf, k);
		if (got > k) abort();
		total += got;
		if (got == 0 || total > declen) break;
	}
	if (total > declen) abort();
	free(buf);
	lha_decoder_free(dec);
	return 0;
}
