#include "vh.h"
#include "lib/crc16.h"

// crc <init hex> <bytes hex> <piece lengths>   (a zero length at an odd index is passed as (NULL, 0))
int vh_ops_crc(int argc, char **argv)
{
	VhBytes b;
	size_t *ks, nk, i, pos = 0;
	uint16_t crc;

	if (!strcmp(argv[0], "crca") && argc == 4) {
		// crca <init hex> <bytes hex> <even offset>: the 16-bit accumulator LIES INSIDE the buffer being checksummed
		// (a record whose CRC field is part of the checksummed bytes, summed in place): the bytes of the call are the
		// buffer as it stands when the call is made, the accumulator's two bytes holding the start value
		size_t off;
		if (!vh_parse_hex(argv[2], &b)) return 0;
		off = (size_t) vh_parse_hexnat(argv[3]);
		if ((off & 1) || off + 2 > b.len) { free(b.data); return 0; }
		{
			uint16_t *acc = (uint16_t *) (b.data + off);
			*acc = (uint16_t) vh_parse_hexnat(argv[1]);
			lha_crc16_buf(acc, b.data, b.len);
			vh_out("%04x", *acc);
		}
		free(b.data);
		return 1;
	}
	if (strcmp(argv[0], "crc") || argc != 4) return 0;
	crc = (uint16_t) vh_parse_hexnat(argv[1]);
	if (!vh_parse_hex(argv[2], &b) || !vh_parse_nats(argv[3], &ks, &nk)) return 0;
	for (i = 0; i < nk; ++i) {
		size_t k = ks[i];
		if (k > b.len - pos) k = b.len - pos;
		// an empty piece is given alternately as (pointer into the buffer, 0) and as (NULL, 0): both are legal calls
		lha_crc16_buf(&crc, (k == 0 && (i & 1)) ? NULL : b.data + pos, k);
		pos += k;
	}
	lha_crc16_buf(&crc, b.data + pos, b.len - pos);
	vh_out("%04x", crc);
	free(b.data);
	free(ks);
	return 1;
}
