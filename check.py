#!/usr/bin/env python3
"""check.py <Cnn> [--tier quick|thorough] [--replay FILE]

Decides one property: regenerate Gen from /repo, rebuild and audit the Lean
theorems, rebuild the C harness from /repo's working tree, run the
correspondence (C vs Lean model vs Lean spec / property predicate), search for
a failing input when a proof obligation or the correspondence breaks, write
evidence.  Exit 0 = held; exit 1 + `VIOLATION property=<id> replay=<path>`.
"""
import sys, os, json, time, argparse, importlib, hashlib, traceback

VERIF = os.path.dirname(os.path.abspath(__file__))
sys.path.insert(0, VERIF)
from vlib import core
from vlib.core import Case, Ctx


def load_prop(pid):
    return importlib.import_module("props." + pid)


def evaluate(ctx, P, env, cases, with_model=True):
    """Run cases through C, model and spec. Returns (concrete, corr, stats)."""
    if not cases:
        return [], [], {"evaluations": 0}
    ops = [c.op for c in cases]
    c_outs, crashes = core.run_lines_parallel([env["vh"], str(getattr(P, "PER_OP_SECONDS", 20))], ops)
    crash_log = {i: se for (i, what, se) in crashes}
    m_outs = None
    if with_model and env.get("lhv"):
        # cases judged on the C alone are not sent to the model (its answer is not compared)
        midx = [i for i, c in enumerate(cases) if "c-only" not in c.tags]
        mo, mcr = core.run_lines_parallel([env["lhv"]], [ops[i] for i in midx]) if midx else ([], [])
        m_outs = ["(not sent to the model: judged on the implementation alone)"] * len(cases)
        for i, o in zip(midx, mo):
            m_outs[i] = o
    spec_idx = [i for i, c in enumerate(cases) if c.spec is not None]
    s_outs = {}
    if spec_idx and env.get("lhv"):
        so, _ = core.run_lines_parallel([env["lhv"]], [cases[i].spec for i in spec_idx])
        s_outs = dict(zip(spec_idx, so))
    canon = getattr(P, "canon", lambda x: x)
    concrete, corr = [], []
    group_why = P.judge_groups(cases, c_outs) if hasattr(P, "judge_groups") else {}
    for i, c in enumerate(cases):
        co = c_outs[i]
        ctx.dist["c_result=" + (co.split(" ")[0].split("=")[0] if co else "empty")] += 1
        why = group_why.get(i)
        if why is None and c.judge is not None:
            try:
                why = c.judge(co)
            except Exception as e:          # a judge must never hide a failure
                why = "judge raised %r on %s" % (e, core.short(co))
        if why is None and i in s_outs:
            if c.spec_judge is not None:
                why = c.spec_judge(co, s_outs[i])
            elif s_outs[i] != co:
                why = "implementation result differs from specification result"
        if why is None and hasattr(P, "judge_all"):
            try:
                why = P.judge_all(c, co)
            except Exception as e:          # a judge must never hide a failure
                why = "judge raised %r on %s" % (e, core.short(co))
        rec = {"op": c.op, "c_out": co, "note": c.note, "tags": sorted(c.tags)}
        if i in s_outs:
            rec["spec_op"] = c.spec
            rec["spec_out"] = s_outs[i]
        if m_outs is not None:
            rec["model_out"] = m_outs[i]
        if i in crash_log:
            rec["sanitizer"] = crash_log[i][-3000:]
        if why is not None and why.startswith("TIE:"):
            # a judge may report that a TIE broke (spec vs corpus oracle, generator vs spec): not an implementation failure
            rec["why"] = why[4:].strip()
            corr.append(rec)
        elif why is not None:
            rec["why"] = why
            rec["sig"] = P.signature(c, co, why) if hasattr(P, "signature") else "generic"
            concrete.append(rec)
        elif m_outs is not None and "c-only" not in c.tags and m_outs[i] != canon(co):
            rec["why"] = "model and implementation disagree"
            corr.append(rec)
    return concrete, corr, {"evaluations": len(cases)}


def split_known(P, concrete, known):
    """separate failures listed in known_findings.json (status known)."""
    new, listed = [], []
    for rec in concrete:
        hit = None
        for k in known:
            if k.get("property") == P.ID and k.get("status") == "known" and k.get("signature") == rec.get("sig"):
                hit = k
                break
        (listed if hit else new).append((rec, hit))
    return [r for r, _ in new], listed


def shrink(ctx, P, env, rec):
    """optional property-specific shrinking of a failing case."""
    if not hasattr(P, "shrink"):
        return rec

    def still_fails(op, spec=None, judge=None):
        conc, _, _ = evaluate(ctx, P, env, [Case(op, spec=spec, judge=judge)], with_model=False)
        return conc[0] if conc else None
    try:
        return P.shrink(rec, still_fails) or rec
    except Exception:
        return rec


def main():
    ap = argparse.ArgumentParser()
    ap.add_argument("prop")
    ap.add_argument("--tier", default=os.environ.get("VERIF_TIER", "quick"))
    ap.add_argument("--replay")
    ap.add_argument("--keep", action="store_true")
    a = ap.parse_args()
    tier = a.tier if a.tier in ("quick", "thorough") else "quick"
    seed = int(os.environ.get("VERIF_SEED", "1") or 1)
    P = load_prop(a.prop)
    ctx = Ctx(P.ID, tier, seed)
    rc = 2
    try:
        rc = run(ctx, P, a)
    except Exception:
        traceback.print_exc()
        path = core.write_replay(P.ID, {"property": P.ID, "kind": "check-crashed",
                                        "trace": traceback.format_exc()})
        print("VIOLATION property=%s replay=%s no-failing-input-found" % (P.ID, path))
        rc = 1
    finally:
        if not a.keep:
            ctx.cleanup()
    sys.exit(rc)


def run(ctx, P, a):
    known = core.load_known()
    broken = []          # proof obligations / ties that no longer check
    env = {}

    # 1. tie (a): regenerate Gen from the working tree
    ok, msg, digest = core.run_gen()
    ctx.say("[gen]", msg if ok else "FAILED: " + msg)
    if not ok:
        broken.append({"what": "Gen extraction (tie a)", "detail": msg})

    # 2. model driver
    ok_lhv, log = core.lake_build(["lhv"])
    if ok_lhv:
        env["lhv"] = core.lhv_path()
    else:
        broken.append({"what": "Lean model driver lhv does not build", "detail": log[-3000:]})
    ctx.say("[lean] lhv", "built" if ok_lhv else "FAILED")

    # 3. theorems
    t1 = time.time()
    ok_props, log = core.lake_build(P.LEAN_MODULES)
    ctx.say("[lean] %s %s (%.1fs)" % (" ".join(P.LEAN_MODULES), "built" if ok_props else "FAILED", time.time() - t1))
    if not ok_props:
        errs = [l for l in log.split("\n") if "error" in l][:10]
        broken.append({"what": "theorems of %s no longer check" % ",".join(P.LEAN_MODULES),
                       "detail": "\n".join(errs) + "\n...\n" + log[-2500:]})
    audit_info = {"theorems": {}}
    if ok_props:
        ok_a, audit_info = core.audit(P.ID, P.LEAN_MODULES)
        ctx.say("[audit] %d theorems, axioms ⊆ {propext, Classical.choice, Quot.sound}: %s"
                % (len(audit_info["theorems"]), ok_a))
        if not ok_a:
            broken.append({"what": "axiom/sorry audit of %s" % P.ID,
                           "detail": json.dumps({k: audit_info.get(k) for k in
                                                 ("forbidden", "missing", "bad_axioms", "audit_output")}, default=str)[:3000]})
        if ctx.tier == "thorough" and ok_a and not os.environ.get("VERIF_NO_LEANCHECKER"):
            import subprocess
            for m in P.LEAN_MODULES:
                with core.LakeLock():
                    r = subprocess.run(["lake", "env", "leanchecker", m], cwd=core.LEAN,
                                       capture_output=True, text=True)
                ctx.say("[leanchecker] %s rc=%d" % (m, r.returncode))
                ctx.extra.setdefault("leanchecker", {})[m] = r.returncode
                if r.returncode != 0:
                    broken.append({"what": "leanchecker rejects " + m, "detail": (r.stdout + r.stderr)[-2000:]})

    # 4. harness from the current working tree
    if hasattr(P, "prepare"):
        prep_err = P.prepare(ctx, env)
        if prep_err:
            broken.append({"what": "harness/tool build from the working tree", "detail": prep_err})
    else:
        vh, err = core.build_vh(ctx, getattr(P, "VH_FEATURES", []))
        if vh is None:
            broken.append({"what": "C harness no longer compiles against the working tree (tie b)", "detail": err})
        else:
            env["vh"] = vh
    ctx.say("[harness]", "ready" if not any("harness" in b["what"] for b in broken) else "FAILED")

    # replay mode
    if a.replay:
        payload = json.load(open(a.replay))
        cases = [P.case_from_replay(r) if hasattr(P, "case_from_replay") else Case(r["op"], spec=r.get("spec_op"))
                 for r in payload.get("failures", [])]
        conc, corr, _ = do_eval(ctx, P, env, cases)
        for r in conc:
            print("REPLAY-FAIL", r["why"], core.short(r["op"], 300), "->", core.short(r["c_out"], 300))
        for r in corr:
            print("REPLAY-CORRESPONDENCE", core.short(r["op"], 300), "C:", core.short(r["c_out"], 200),
                  "model:", core.short(r.get("model_out"), 200))
        if conc:
            print("VIOLATION property=%s replay=%s" % (P.ID, a.replay))
            return 1
        print("replay: no failure reproduced")
        return 0

    # 5. correspondence
    concrete, corr, evals = [], [], 0
    all_cases = []
    can_run = ("vh" in env) or hasattr(P, "evaluate")
    if can_run:
        cases = []
        if hasattr(P, "corpus_cases"):
            cases += P.corpus_cases(ctx)
        n_corpus = len(cases)
        cases += P.gen_cases(ctx, P.budget(ctx.tier))
        all_cases = cases
        t1 = time.time()
        concrete, corr, st = do_eval(ctx, P, env, cases)
        evals = st["evaluations"]
        ctx.say("[tie] %d cases (%d corpus) in %.1fs: %d concrete failures, %d model/impl disagreements"
                % (evals, n_corpus, time.time() - t1, len(concrete), len(corr)))

    # generator quality: gcov line coverage of the anchored functions under (a sample of) this run's cases
    if "vh" in env and all_cases and not hasattr(P, "evaluate") and not os.environ.get("VERIF_NO_COVERAGE"):
        try:
            cov = core.anchor_coverage(ctx, P.ID, getattr(P, "VH_FEATURES", []), [c.op for c in all_cases],
                                       max_ops=400 if ctx.tier == "quick" else 4000)
            if cov:
                ctx.extra["anchor_line_coverage"] = cov
                ctx.say("[coverage] anchored functions: %s/%s lines executed by %s sampled cases; never executed: %s" % (
                    cov.get("lines_executed"), cov.get("lines_total"), cov.get("ops_sampled"), cov.get("never_executed")))
        except Exception as e:            # coverage is a report, never a verdict
            ctx.extra["anchor_line_coverage"] = {"error": repr(e)[:200]}
    elif all_cases and hasattr(P, "evaluate") and ("vh" in env or "lha" in env) and not os.environ.get("VERIF_NO_COVERAGE") \
            and not getattr(P, "NO_COVERAGE", False):
        try:
            cov = core.anchor_coverage_custom(ctx, P, env, all_cases, max_cases=120 if ctx.tier == "quick" else 1200)
            if cov:
                ctx.extra["anchor_line_coverage"] = cov
                ctx.say("[coverage] anchored functions: %s/%s lines executed by %s sampled cases; never executed: %s" % (
                    cov.get("lines_executed"), cov.get("lines_total"), cov.get("ops_sampled"), cov.get("never_executed")))
        except Exception as e:
            ctx.extra["anchor_line_coverage"] = {"error": repr(e)[:200]}

    new_conc, listed = split_known(P, concrete, known)

    # 6. search when a proof obligation or the correspondence broke
    searched = 0
    if not new_conc and (broken or corr) and can_run:
        ctx.say("[search] proof/correspondence broken (%d, %d); searching for a failing input"
                % (len(broken), len(corr)))
        scases = []
        if hasattr(P, "search_cases"):
            scases += P.search_cases(ctx, broken, corr)
        ctx2rng = ctx.rng
        scases += P.gen_cases(ctx, P.budget(ctx.tier) * int(os.environ.get("VERIF_SEARCH_FACTOR", "10")))
        sc, _, st = do_eval(ctx, P, env, scases, with_model=False)
        searched = st["evaluations"]
        sc_new, sc_listed = split_known(P, sc, known)
        new_conc += sc_new
        listed += sc_listed
        ctx.say("[search] %d further cases, %d concrete failures" % (searched, len(sc_new)))

    seen_k = set()
    for rec, k in listed:
        if k["signature"] not in seen_k:
            seen_k.add(k["signature"])
            print("KNOWN-FINDING: property=%s %s" % (P.ID, k.get("what", k["signature"])))

    # 7. verdict + evidence
    violations = 0
    verdict_line = None
    if new_conc:
        violations = len(new_conc)
        first = shrink(ctx, P, env, new_conc[0])
        payload = {"property": P.ID, "kind": "concrete", "seed": ctx.seed, "tier": ctx.tier,
                   "failures": [first] + new_conc[1:5],
                   "broken_obligations": broken,
                   "rerun": "python3 check.py %s --replay <this file>" % P.ID}
        path = core.write_replay(P.ID, payload)
        verdict_line = "VIOLATION property=%s replay=%s" % (P.ID, path)
    elif broken or corr:
        violations = len(broken) + len(corr)
        payload = {"property": P.ID, "kind": "no-failing-input-found", "seed": ctx.seed, "tier": ctx.tier,
                   "no_longer_checks": broken,
                   "correspondence_disagreements": corr[:5],
                   "searched_cases": searched,
                   "note": "the property is no longer SHOWN to hold: a proof obligation or the "
                           "model/implementation correspondence broke and the search found no input "
                           "on which the implementation violates the property"}
        path = core.write_replay(P.ID, payload)
        verdict_line = "VIOLATION property=%s replay=%s no-failing-input-found" % (P.ID, path)

    thm_status = getattr(P, "THEOREMS", {})
    proved = audit_info.get("theorems", {})
    # obligations = the property theorems submitted to the kernel (every `#print axioms` line of Audit/<id>.lean);
    # statements that are formulated but not proved are listed separately and are not counted as obligations
    wanted = audit_info.get("wanted") or [k.split(".")[-1] for k in proved] or list(thm_status)
    obligations = max(len(wanted), 1)
    answered = {k.split(".")[-1] for k in proved}
    discharged = (len([w for w in wanted if w.split(".")[-1] in answered])
                  if ok_props and not any("audit" in b["what"] for b in broken) else 0)
    nontriv = set()
    for c in all_cases:
        if P.nontrivial(c):
            nontriv.add(hashlib.sha1(c.op.encode()).hexdigest())
        for t in c.tags:
            ctx.dist[t] += 1
    samples = [core.short(c.op, 240) for c in (all_cases[:2] + all_cases[-2:])] or ["(no cases run)"]
    coverage = {
        "obligations": obligations,
        "discharged": discharged,
        "checker_cmd": "cd /verif/lean && lake build %s && lake env lean Audit/%s.lean  (#print axioms)"
                       % (" ".join(P.LEAN_MODULES), P.ID),
        "trusted_base": ["Lean 4.33.0 kernel", "axioms: " + ", ".join(sorted({a for ax in proved.values() for a in ax})) ]
                        + list(getattr(P, "TRUSTED", [])),
        "theorems": {k.split(".")[-1]: {"axioms": v, "status": thm_status.get(k.split(".")[-1], "full")}
                     for k, v in proved.items()},
        "stated_not_proved": {k: v for k, v in thm_status.items() if k.split(".")[-1] not in answered},
        "gen_digest": digest,
        "evaluations": evals + searched,
        "distinct_nontrivial": len(nontriv),
        "rule": getattr(P, "RULE", ""),
        "samples": samples,
        "distribution": dict(ctx.dist.most_common(60)),
        "model_impl_disagreements": len(corr),
        "known_findings_seen": sorted(seen_k),
        "broken_obligations": [b["what"] for b in broken],
    }
    coverage.update(ctx.extra)
    if "dt_cases" in ctx.extra:
        coverage["distinct_nontrivial"] = ctx.extra["dt_cases"]
        coverage["samples"] = ctx.extra.get("dt_samples", samples)
    core.write_evidence(ctx, "proof", coverage, list(getattr(P, "ASSUMPTIONS", [])), violations)
    if verdict_line:
        print(verdict_line)
        return 1
    ctx.say("OK property=%s tier=%s seed=%d wall=%.1fs" % (P.ID, ctx.tier, ctx.seed, time.time() - ctx.t0))
    return 0


def do_eval(ctx, P, env, cases, with_model=True):
    if hasattr(P, "evaluate"):
        return P.evaluate(ctx, env, cases, with_model)
    return evaluate(ctx, P, env, cases, with_model)


if __name__ == "__main__":
    main()
