import LhasaV.Props.C04
open LhasaV.Props.C04
#print axioms init_history_is_initOrder
