import LhasaV.Props.C04
open LhasaV.Props.C04
#print axioms init_history_is_initOrder
#print axioms tables_match_source
#print axioms history_refines_mtf
#print axioms history_find
#print axioms pm2_schedule
#print axioms pm1_trees_ok
#print axioms pm1_decode_serialise
#print axioms pm2_decode_serialise
#print axioms pm_init_matches_source
