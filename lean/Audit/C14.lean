import LhasaV.Props.C14
open LhasaV.Props.C14
#print axioms wrap_stream
#print axioms wrap_split_invariant
#print axioms wrap_eq_single
#print axioms wrap_exact
#print axioms wrap_le_asked
#print axioms wrap_crc_len
#print axioms wrap_crc_is_arc
#print axioms wrap_progress
#print axioms wrap_progress_late
