import LhasaV.Props.C13
open LhasaV.Props.C13
#print axioms decode_stops
#print axioms extend_cap
#print axioms scan_bounds
#print axioms read_bounds
#print axioms skip_bounds
#print axioms stream_no_fault
#print axioms next_work_linear
#print axioms heap_bounded
#print axioms avail_nonincreasing
#print axioms listing_work_linear
#print axioms run_bounded
#print axioms work_bounded
#print axioms next_work_present
#print axioms decoders_present
#print axioms tool_loops_end_in_fuel
