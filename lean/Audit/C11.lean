import LhasaV.Props.C11
open LhasaV.Props.C11
#print axioms collapse_rel_clean
#print axioms collapse_path_clean
#print axioms header_names_clean
