import LhasaV.Props.C19
open LhasaV.Props.C19
#print axioms no_filter_selects_all
#print axioms listing_shape
#print axioms row_independent
#print axioms totals_exact
#print axioms row_lines
#print axioms timestamp_recent
#print axioms timestamp_old
#print axioms selection_spec
#print axioms listing_of_archive
#print axioms total_line
#print axioms os_names_match_source
