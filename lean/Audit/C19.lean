import LhasaV.Props.C19
open LhasaV.Props.C19
#print axioms no_filter_selects_all
