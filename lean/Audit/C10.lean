import LhasaV.Props.C10
open LhasaV.Props.C10
#print axioms stripSlashes_no_lead
#print axioms full_path_flat
#print axioms full_path_relative
#print axioms full_path_contained
#print axioms dotdot_name_possible
#print axioms guard_resolves_below_cwd
#print axioms deferred_link_contained
#print axioms deferred_link_refused
#print axioms safe_links_resolve_inside
#print axioms run_contained
#print axioms LhasaV.Props.C10.run_contained_messages
#print axioms LhasaV.Props.C10.run_contained_w
#print axioms LhasaV.Props.C10.run_contained_w_cwd
#print axioms LhasaV.Props.C10.test_touches_nothing
#print axioms LhasaV.Props.C10.dry_run_touches_nothing
