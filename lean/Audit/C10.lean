import LhasaV.Props.C10
open LhasaV.Props.C10
#print axioms stripSlashes_no_lead
#print axioms full_path_flat
#print axioms full_path_relative
