import LhasaV.Props.C01
open LhasaV.Props.C01
#print axioms fmt_matches_source
#print axioms params_ok
#print axioms bit_reader_refines
#print axioms tree_decodes_canonical_code
#print axioms tree_build_in_bounds
#print axioms tree_single
#print axioms ring_copy_is_window_copy
#print axioms ring_literal
#print axioms lhark_length_code_roundtrip
#print axioms distance_code_roundtrip
#print axioms block_header_roundtrip
#print axioms lhnew_decode_serialise
#print axioms lh5_decode_serialise
#print axioms lh6_decode_serialise
#print axioms lh7_decode_serialise
#print axioms lhx_decode_serialise
#print axioms lk7_decode_serialise
#print axioms lhnew_init_matches_source
