import LhasaV.Props.C01
open LhasaV.Props.C01
#print axioms bit_reader_refines
