import LhasaV.Props.C17
open LhasaV.Props.C17
#print axioms crc_step_eq
#print axioms crc_buf_eq_ref
#print axioms crc_is_arc
#print axioms crc_append
#print axioms crc_pieces
