import LhasaV.Props.C07
open LhasaV.Props.C07
#print axioms check_iff
#print axioms check_iff_arc
#print axioms extract_iff
#print axioms truncation_bad
#print axioms check_dir
