import LhasaV.Props.C07
open LhasaV.Props.C07
#print axioms check_iff
#print axioms check_iff_arc
#print axioms extract_iff
#print axioms truncation_bad
#print axioms check_dir
#print axioms crc16_burst
#print axioms crc_linear
#print axioms single_bit_detected
#print axioms check_iff_all
#print axioms extract_iff_all
#print axioms truncation_bad_all
#print axioms exit_status_iff
#print axioms handled_members_selected
#print axioms progress_bar_width
#print axioms exit_status_cases
#print axioms test_intact_archive
#print axioms test_detects_damage
#print axioms test_detects_truncation
