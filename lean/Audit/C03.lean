import LhasaV.Props.C03
open LhasaV.Props.C03
#print axioms expand_nil
