import LhasaV.Props.C03
open LhasaV.Props.C03
#print axioms lzs_decode_serialise
#print axioms lz5_decode_serialise
#print axioms null_identity
#print axioms lz5_fill_eq_closed_form
#print axioms ring_copy_refines
#print axioms lz_init_matches_source
