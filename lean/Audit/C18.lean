import LhasaV.Props.C18
open LhasaV.Props.C18
#print axioms safe_output_printable
#print axioms safe_keeps_printable
#print axioms listing_printable
#print axioms print_banners_printable
