import LhasaV.Props.C18
open LhasaV.Props.C18
#print axioms safe_output_printable
#print axioms safe_keeps_printable
#print axioms listing_printable
#print axioms print_banners_printable
#print axioms test_output_printable
#print axioms extract_output_printable
#print axioms stderr_printable
#print axioms safe_class_matches_source
#print axioms os_names_match_source
#print axioms progress_len_matches_source
