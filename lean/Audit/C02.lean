import LhasaV.Props.C02
open LhasaV.Props.C02
#print axioms position_tables_consistent
#print axioms decoder_tree_invariant
