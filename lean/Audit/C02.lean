import LhasaV.Props.C02
open LhasaV.Props.C02
#print axioms position_tables_consistent
#print axioms decoder_tree_invariant
#print axioms mirror_init
#print axioms mirror_step
#print axioms lh1_lockstep
#print axioms rebuild_reached
#print axioms mirror_is_what_the_tie_evaluates
#print axioms lh1_decode_encode
#print axioms lh1_init_matches_source
