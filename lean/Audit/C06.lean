import LhasaV.Props.C06
open LhasaV.Props.C06
#print axioms no_filter_selects_all
#print axioms flatten_ignores_path
#print axioms relocate_prefix
