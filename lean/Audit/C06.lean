import LhasaV.Props.C06
open LhasaV.Props.C06
#print axioms no_filter_selects_all
#print axioms flatten_ignores_path
#print axioms relocate_prefix
#print axioms glob_iff
#print axioms select_spec
#print axioms glob_literal
#print axioms glob_trailing_stars
#print axioms flatten_single_component
#print axioms macbinary_strip
#print axioms macbinary_keep
#print axioms mac_header_spec
#print axioms LhasaV.Props.C06.run_tree_partial
#print axioms LhasaV.Props.C06.dir_meta_final
#print axioms LhasaV.Props.C06.access_regimes
#print axioms LhasaV.Props.C06.sample_tree_extracts
#print axioms LhasaV.Props.C06.dir_entry_for_existing_dir_ignored
#print axioms LhasaV.Props.C06.option_letters_spec
#print axioms LhasaV.Props.C06.command_letter_spec
#print axioms LhasaV.Props.C06.extract_reproduces_tree
#print axioms LhasaV.Props.C06.extract_reproduces_tree_packed
#print axioms LhasaV.Props.C06.archive_denotes_tree
#print axioms LhasaV.Props.C06.sample_tree_with_files_extracts
#print axioms LhasaV.Props.C06.extract_models_agree
