import LhasaV.Props.C20
open LhasaV.Props.C20
#print axioms fresh_ledger_empty
