import LhasaV.Props.C20
import LhasaV.Props.C20Alloc
open LhasaV.Props.C20
#print axioms free_releases_all
#print axioms free_releases_all_prefix
#print axioms legal_iff_segments
#print axioms decoders_exact
open LhasaV.Props.C20Alloc
#print axioms alloc_failure_releases_all
#print axioms alloc_failure_releases_all_prefix
#print axioms alloc_failure_new
#print axioms alloc_failures_release_all
#print axioms alloc_failure_reports
#print axioms alloc_failures_report
#print axioms nextA_never_faults
#print axioms alloc_failure_no_later_fault
#print axioms header_under_failure
#print axioms fired_iff
#print axioms alloc_failure_decoders_exact
#print axioms runA_refines
#print axioms freeA_refines
#print axioms results_refine
#print axioms header_readA_refines
#print axioms header_readA_blocks
