import LhasaV.Props.C20
open LhasaV.Props.C20
#print axioms free_releases_all
#print axioms free_releases_all_prefix
#print axioms legal_iff_segments
#print axioms decoders_exact
