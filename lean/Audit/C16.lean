import LhasaV.Props.C16
open LhasaV.Props.C16
#print axioms scan_finds_first
#print axioms first_signature
#print axioms prefix_transparent
#print axioms prefix_transparent_zero
#print axioms decoy_skipped
#print axioms skip_kinds
#print axioms kinds_agree
#print axioms kinds_agree_n
#print axioms tool_kind_independent
#print axioms tool_prefix_transparent
#print axioms listing_kind_independent
#print axioms tool_shift_transparent
#print axioms tool_decoy_transparent
#print axioms prefix_passed_over_iff
#print axioms sfx_archive_end_to_end
