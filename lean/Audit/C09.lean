import LhasaV.Props.C09
open LhasaV.Props.C09
#print axioms wrap_le_asked
#print axioms lhnew_reach_inv
#print axioms lhnew_no_fault
#print axioms lhnew_params_good
#print axioms lhnew_max_read_ok
#print axioms lzs_no_fault
#print axioms lz5_no_fault
#print axioms null_no_fault
#print axioms pm2_no_fault
#print axioms pm1_no_fault
#print axioms lh1_no_fault
#print axioms all_methods_covered
