import LhasaV.Props.C09
open LhasaV.Props.C09
#print axioms wrap_le_asked
