import LhasaV.Props.C12
open LhasaV.Props.C12
#print axioms short_input_not_ok
#print axioms short_input_rejected
