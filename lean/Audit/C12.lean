import LhasaV.Props.C12
open LhasaV.Props.C12
#print axioms accept_sound
#print axioms bad_header_not_returned
#print axioms accept_has_name
#print axioms read_consumes
#print axioms short_input_rejected
