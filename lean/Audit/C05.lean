import LhasaV.Props.C05
open LhasaV.Props.C05
#print axioms layout_matches_source
