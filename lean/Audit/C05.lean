import LhasaV.Props.C05
open LhasaV.Props.C05
#print axioms layout_matches_source
#print axioms header_roundtrip
#print axioms header_roundtrip_ok
#print axioms level1_compressed_size
#print axioms os9_permissions_match_source
