import LhasaV.Props.C15
open LhasaV.Props.C15
#print axioms end_sticky
#print axioms basic_end_sticky
#print axioms no_dangling_header
#print axioms headers_kind_independent
#print axioms headers_independent
#print axioms bytes_independent
#print axioms decoders_honest
#print axioms fake_once
#print axioms next_never_faults
