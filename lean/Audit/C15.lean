import LhasaV.Props.C15
open LhasaV.Props.C15
#print axioms next_after_eof
