import LhasaV.Props.C08
open LhasaV.Props.C08
#print axioms header_no_fault
#print axioms header_consumes_within
#print axioms leadin_no_fault
#print axioms reader_no_uaf
#print axioms LhasaV.Props.C08.tool_no_fault
#print axioms LhasaV.Props.C08.extract_run_no_fault
#print axioms LhasaV.Props.C08.print_run_no_fault
#print axioms LhasaV.Props.C08.list_headers_no_fault
#print axioms LhasaV.Props.C08.history_no_fault
#print axioms LhasaV.Props.C08.visited_state_ok
#print axioms LhasaV.Props.C08.test_run_no_fault
#print axioms LhasaV.Props.C08.fault_flag_never_set
