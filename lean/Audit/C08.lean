import LhasaV.Props.C08
open LhasaV.Props.C08
#print axioms header_no_fault
#print axioms header_consumes_within
#print axioms leadin_no_fault
#print axioms reader_no_uaf
