import LhasaV.Driver.Hex
import LhasaV.Model.Header
import LhasaV.Spec.Integrity
namespace LhasaV.Driver
open LhasaV LhasaV.Header

def optHex : Option Bytes → String
  | none => "~"
  | some b => toHexL b

def dumpHdr (h : Hdr) : String :=
  s!"ok lvl={h.level} os={hexN 2 h.osType} method={toHexL h.method} clen={h.compressedLength} " ++
  s!"len={h.length} crc={hexN 4 h.crc} ts={h.timestamp} flags={hexN 2 h.extraFlags} " ++
  s!"perms={h.unixPerms} uid={h.unixUid} gid={h.unixGid} os9={h.os9Perms} ccrc={hexN 4 h.commonCrc} " ++
  s!"wc={h.winCreation} wm={h.winModification} wa={h.winAccess} " ++
  s!"path={optHex h.path} name={optHex h.filename} target={optHex h.symlinkTarget} " ++
  s!"user={optHex h.unixUsername} group={optHex h.unixGroup} raw={toHexL h.raw}"

def opHeader : List String → Option String
  | ["hdr", hex] => do
      let bs ← parseHex hex
      match Header.read dosTimeUTC bs.toList with
      | .ok (h, rest) => some (dumpHdr h ++ s!" rest={rest.length}")
      | .fail => some "fail"
      | .fault w => some ("FAULT " ++ w)
  | ["integ", hex] => do
      let bs ← parseHex hex
      some (if Spec.Integrity.ok bs.toList then "1" else "0")
  | ["collapse", hex] => do
      let bs ← parseHex hex
      some (toHexL (PathFix.collapse (cstr bs.toList)))
  | _ => none

end LhasaV.Driver
