import LhasaV.Driver.Hex
import LhasaV.Spec.PmEnc
/-!
Ops of the PMarc stream specifications (`LhasaV.Spec.PmEnc`):

* `pm2ser <first> <rebuilds> <cmds>` → `ok <hex>` | `invalid`
* `pm2exp <first> <rebuilds> <cmds>` → hex of the expansion
* `pm1ser <tree> <cmds>` → `ok <hex>` | `invalid`;  `pm1exp <tree> <cmds>` → hex

-pm2-: `<first>` 0|1; `<rebuilds>`: `/`-separated `<code>;<off>`, code = `-` | `s<numCodes>` | `l<min>.<lengthBits>:<l0>.<l1>…`,
off = `-` | `<l0>.<l1>…`; `<cmds>`: `-` | comma list of `B<hex>` | `C<dist>.<len>` | `A` (256 bytes at distance 0, dedicated code).
-pm1-: `<cmds>`: comma list of `C<dist>.<len>` | `K<hex bytes>:<alts>:<copy>` with alts = `-` | `<k0>.<k1>…` (one per byte) and
copy = `-` | `<dist>.<len>`.
-/
namespace LhasaV.Driver
open LhasaV LhasaV.Spec.PmEnc LhasaV.Spec.Lz77

def dotNats (s : String) : Option (List Nat) :=
  if s == "-" || s == "" then some [] else (s.splitOn ".").mapM (fun t => t.toNat?)

def parseCodeSpec (s : String) : Option (Option CodeSpec) :=
  if s == "-" then some none
  else if s.startsWith "s" then (s.drop 1).toString.toNat?.map (fun n => some (CodeSpec.single n))
  else if s.startsWith "l" then
    match (s.drop 1).toString.splitOn ":" with
    | [hd, ls] =>
      match hd.splitOn "." with
      | [m, lb] => do let m ← m.toNat?; let lb ← lb.toNat?; let ls ← dotNats ls; pure (some (CodeSpec.lens m lb ls))
      | _ => none
    | _ => none
  else none

def parseRebuild (s : String) : Option Rebuild :=
  match s.splitOn ";" with
  | [c, o] => do let c ← parseCodeSpec c; let o ← dotNats o; pure { code := c, off := o }
  | _ => none

def parsePm2Cmd (t : String) : Option Cmd :=
  if t == "A" then some (.copy 0 256 true)
  else if t.startsWith "B" then (parseHexNat (t.drop 1).toString).map (fun v => Cmd.byte (UInt8.ofNat v))
  else if t.startsWith "C" then
    match ((t.drop 1).toString.splitOn ".") with
    | [d, n] => do let d ← d.toNat?; let n ← n.toNat?; pure (Cmd.copy d n false)
    | _ => none
  else none

def parsePm2 (first rebuilds cmds : String) : Option Stream := do
  let f ← first.toNat?
  let rbs ← (if rebuilds == "-" then some [] else (rebuilds.splitOn "/").mapM parseRebuild)
  let cs ← (if cmds == "-" then some [] else (cmds.splitOn ",").mapM parsePm2Cmd)
  pure { first := f != 0, rebuilds := rbs, cmds := cs }

def parsePair (s : String) : Option (Nat × Nat) :=
  match s.splitOn "." with
  | [d, n] => do let d ← d.toNat?; let n ← n.toNat?; pure (d, n)
  | _ => none

def parsePm1Cmd (t : String) : Option Cmd1 :=
  if t.startsWith "C" then (parsePair (t.drop 1).toString).map (fun p => Cmd1.copy p.1 p.2)
  else if t.startsWith "K" then
    match (t.drop 1).toString.splitOn ":" with
    | [hx, alts, cp] => do
      let bs ← parseHex hx
      let al ← dotNats alts
      let cp ← (if cp == "-" then some none else (parsePair cp).map some)
      pure (Cmd1.block (bs.toList.zipIdx.map (fun e => (e.1, al.getD e.2 0))) cp)
    | _ => none
  else none

def parsePm1 (tree cmds : String) : Option Stream1 := do
  let t ← tree.toNat?
  let cs ← (if cmds == "-" then some [] else (cmds.splitOn ",").mapM parsePm1Cmd)
  pure { tree := t, cmds := cs }

def expA (fill : UInt8) (cs : List WCmd) : String := toHex (Spec.Lzhuf.expandWinA fill cs #[])

def opSpecPm : List String → Option String
  | ["pm2ser", f, r, c] => do
      let s ← parsePm2 f r c
      match pm2Serialise s with
      | some bs => some ("ok " ++ toHexL bs)
      | none => some "invalid"
  | ["pm2exp", f, r, c] => do
      let s ← parsePm2 f r c
      some (expA 0x20 (s.cmds.map Cmd.denote))
  | ["pm1ser", t, c] => do
      let s ← parsePm1 t c
      match pm1Serialise s with
      | some bs => some ("ok " ++ toHexL bs)
      | none => some "invalid"
  | ["pm1exp", t, c] => do
      let s ← parsePm1 t c
      some (expA 0 (s.cmds.flatMap Cmd1.denote))
  | _ => none

end LhasaV.Driver
