import LhasaV.Driver.Hex
import LhasaV.Driver.OpsExtract
import LhasaV.Driver.OpsList
import LhasaV.Model.Messages
/-!
op `msgt <opts> <filters> <archive hex>`
   → `rc=<exit status> stdout=<hex> stderr=<hex>` of `lha t<opts> archive <filters…>`
op `msgx <opts> <root 0|1> <answers hex> <pre> <filters> <archive hex>`
   → `rc=<exit status> stdout=<hex> stderr=<hex> agree=<0|1> fs=<listing>` of `lha x<opts> archive <filters…>`
     run in `/root` of the model's world (as `xrun`), `agree`: result flag, abort flag and resulting
     file system equal those of `Extract.run` (always 1 for a dry run, which `Extract.run` does not know;
     2 = they differ and a non-directory member with a full path ending in '/' was handled, where only
     `Messages` applies the POSIX trailing-slash rule)
  opts   : as for `xrun` (`f`, `q`, `q0|q1|q2`, `i`, `v`, `w<hex dir>`), plus `n` (dry run) and `q3`…`q9`
  filters: `-` or comma-separated hex (an empty pattern is written `00`)
  pre    : as for `xrun`
op `msgbar <quiet> <name hex> <total blocks> <last block>` → hex of the progress callback's output
-/
namespace LhasaV.Driver
open LhasaV

def parseMsgOpts (s : String) : Option Extract.Opts :=
  let toks := if s == "-" then [] else s.splitOn ","
  toks.foldlM (fun (o : Extract.Opts) t =>
    if t == "n" then some { o with dryRun := true }
    else
      match t.toList with
      | ['q', d] =>
        if '0' ≤ d ∧ d ≤ '9' then some { o with quiet := d.toNat - '0'.toNat, overwrite := .all } else none
      | _ =>
        -- one token through the `xrun` parser, keeping what was set so far
        (parseOpts t).map (fun p =>
          { o with overwrite := if p.overwrite == .prompt then o.overwrite else p.overwrite,
                   quiet := if t == "q" then p.quiet else o.quiet,
                   usePath := o.usePath && p.usePath,
                   extractPath := if p.extractPath.isSome then p.extractPath else o.extractPath })) {}

def msgWorld (root : Bool) : Fs.St := sandboxFs root []

def opMessages : List String → Option String
  | ["msgt", opts, filters, hex] => do
      let o ← parseMsgOpts opts
      let fl ← parseFilters filters
      let arch ← parseHex hex
      let s := Messages.run .test arch { o with filters := fl } {} []
      some (s!"rc={Messages.exitStatus s} stdout={toHexL s.stdout} stderr={toHexL s.stderr}" ++
            (if s.fault then " FAULT" else ""))
  | ["msgx", opts, root, answers, pre, filters, hex] => do
      let o ← parseMsgOpts opts
      let ans ← parseHex answers
      let fl ← parseFilters filters
      let arch ← parseHex hex
      let o := { o with filters := fl }
      let fs1 ← if pre == "-" then some (msgWorld (root == "1")) else (pre.splitOn ",").foldlM addPre (msgWorld (root == "1"))
      let s := Messages.run .extract arch o fs1 ans.toList
      let agree :=
        if o.dryRun then true else
        let r := Extract.run arch o fs1 ans.toList
        r.result == s.result && r.aborted == s.aborted && listing r.fs == listing s.x.fs
      -- a non-directory member whose full path ends in '/' was handled: `Fs` alone (hence `Extract.run`) has no
      -- trailing-slash rule, the two loops may differ there
      let tsl := s.trace.any (fun e => Messages.endsWithSlash (Extract.fileFullPath e.1 o) && !Extract.isDirEntry e.1)
      some (s!"rc={Messages.exitStatus s} stdout={toHexL s.stdout} stderr={toHexL s.stderr} " ++
            s!"agree={if agree then 1 else if tsl then 2 else 0} fs={listing s.x.fs}" ++ (if s.fault then " FAULT" else ""))
  | ["msgbar", quiet, name, total, last] => do
      let q ← quiet.toNat?
      let nm ← parseHex name
      let t ← total.toNat?
      let l ← last.toNat?
      some (toHexL (Messages.progressOutput q nm.toList (Messages.str "Testing  :") t l))
  | _ => none

end LhasaV.Driver
