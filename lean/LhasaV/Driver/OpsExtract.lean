import LhasaV.Driver.Hex
import LhasaV.Model.Extract
/-!
op `xrun <opts> <root 0|1> <abs prefix hex> <answers hex> <pre> <archive hex>`
  opts: comma list of `f` (overwrite all), `q` (quiet 2 + overwrite all), `q0|q1|q2`, `i` (ignore paths),
        `w<hex dir>` (extract directory), `-` for none
  pre : `-` or comma list of pre-existing objects below the extraction cwd:
        `d:<path hex>:<mode oct>`, `f:<path hex>:<data hex>`, `l:<path hex>:<target hex>`
  result: `res=<0|1> abort=<0|1> out=<tokens> fs=<listing> log=<mutations>`; the model's world is
  `/` = the sandbox, cwd = `/root`, `/outside` exists as a directory (the canary area).
-/
namespace LhasaV.Driver
open LhasaV

def octStr (n : Nat) : String := String.ofList (Nat.toDigits 8 n)

def pathStr (p : Fs.Path) : String :=
  "/" ++ "/".intercalate (p.map (fun c => toHexL c))

def entStr (now : Nat) (e : Fs.Ent) : String :=
  let t := fun (m : Nat) => if m == now then "NOW" else toString m
  match e with
  | .dir m mt => s!"d{octStr m},{t mt}"
  | .file d m mt => s!"f{octStr m},{t mt},{d.length},{hexN 4 (Crc.buf 0 d).toNat}"
  | .link tg => s!"l{toHexL tg}"

def listing (fs : Fs.St) : String :=
  let es := fs.ents.toArray.qsort (fun a b => pathStr a.1 < pathStr b.1)
  ";".intercalate (es.toList.map (fun x => pathStr x.1 ++ "=" ++ entStr fs.now x.2))

def parseOpts (s : String) : Option Extract.Opts :=
  if s == "-" then some {} else
  (s.splitOn ",").foldlM (fun (o : Extract.Opts) t =>
    if t == "f" then some { o with overwrite := .all }
    else if t == "q" then some { o with quiet := 2, overwrite := .all }
    else if t == "q0" then some { o with quiet := 0, overwrite := .all }
    else if t == "q1" then some { o with quiet := 1, overwrite := .all }
    else if t == "q2" then some { o with quiet := 2, overwrite := .all }
    else if t == "i" then some { o with usePath := false }
    else if t == "v" then some o
    else if t.startsWith "w" then (parseHex (t.drop 1).toString).map (fun d => { o with extractPath := some d.toList })
    else none) {}

/-- the world of the sandbox runs: `/root` (cwd), `/outside/canary`, `/outside/sub/` (0700) -/
def sandboxFs (root : Bool) (absp : List UInt8) : Fs.St :=
  { root := root, cwd := ["root".toUTF8.toList], absPrefix := absp,
    ents := [(["root".toUTF8.toList], .dir 0o755 1000), (["outside".toUTF8.toList], .dir 0o755 1000),
             (["outside".toUTF8.toList, "canary".toUTF8.toList], .file "canary".toUTF8.toList 0o644 1000),
             (["outside".toUTF8.toList, "sub".toUTF8.toList], .dir 0o700 1000)] }

def addPre (fs : Fs.St) (t : String) : Option Fs.St :=
  match t.splitOn ":" with
  | ["d", p, m] => do
      let p ← parseHex p
      let m := (m.toList.foldl (fun a c => a * 8 + (c.toNat - 48)) 0)
      let comps := (Fs.splitPath p.toList).filter (· ≠ [])
      some (Fs.setEnt fs (fs.cwd ++ comps) (.dir m 1000))
  | ["f", p, d] => do
      let p ← parseHex p; let d ← parseHex d
      let comps := (Fs.splitPath p.toList).filter (· ≠ [])
      some (Fs.setEnt fs (fs.cwd ++ comps) (.file d.toList 0o644 1000))
  | ["l", p, tg] => do
      let p ← parseHex p; let tg ← parseHex tg
      let comps := (Fs.splitPath p.toList).filter (· ≠ [])
      some (Fs.setEnt fs (fs.cwd ++ comps) (.link tg.toList))
  | _ => none

def opExtract : List String → Option String
  | ["xrun", opts, root, absp, answers, pre, hex] => do
      let o ← parseOpts opts
      let absp ← parseHex absp
      let ans ← parseHex answers
      let arch ← parseHex hex
      let fs0 : Fs.St := sandboxFs (root == "1") absp.toList
      let fs1 ← if pre == "-" then some fs0 else (pre.splitOn ",").foldlM addPre fs0
      let r := Extract.run arch o fs1 ans.toList
      let log := ",".intercalate (r.fs.log.reverse.map (fun m => m.op ++ ":" ++ pathStr m.path))
      some (s!"res={if r.result then 1 else 0} abort={if r.aborted then 1 else 0} " ++
            s!"out={",".intercalate r.out.reverse} fs={listing r.fs} log={log}")
  | ["xrun2", cmd, opts, root, absp, answers, pre, filters, hex] => do
      let o ← parseOpts opts
      let absp ← parseHex absp
      let ans ← parseHex answers
      let arch ← parseHex hex
      let fl ← (if filters == "-" then some [] else (filters.splitOn ",").mapM (fun f => (parseHex f).map (·.toList)))
      let o := { o with filters := fl }
      if cmd == "p" then
        some ("stdout=" ++ toHexL (Extract.print arch o))
      else
      let fs0 : Fs.St := sandboxFs (root == "1") absp.toList
      let fs1 ← if pre == "-" then some fs0 else (pre.splitOn ",").foldlM addPre fs0
      let r := Extract.run arch o fs1 ans.toList
      some (s!"res={if r.result then 1 else 0} abort={if r.aborted then 1 else 0} " ++
            s!"out={",".intercalate r.out.reverse} fs={listing r.fs}")
  | _ => none

end LhasaV.Driver
