import LhasaV.Driver.Hex
import LhasaV.Model.Crc
import LhasaV.Spec.Crc
namespace LhasaV.Driver
open LhasaV

/-- feed `bs` piecewise: piece lengths `ks` (the remainder is the last piece). -/
def piecewise (f : BitVec 16 → List UInt8 → BitVec 16) (c : BitVec 16) (bs : List UInt8)
    (ks : List Nat) : BitVec 16 :=
  match ks with
  | [] => f c bs
  | k :: ks => piecewise f (f c (bs.take k)) (bs.drop k) ks

def opCrc : List String → Option String
  | ["crc", c, hex, ks] => do
      let c ← parseHexNat c; let bs ← parseHex hex; let ks ← parseNats ks
      some (hexN 4 (piecewise Crc.buf (BitVec.ofNat 16 c) bs.toList ks).toNat)
  | ["crcref", c, hex] => do
      let c ← parseHexNat c; let bs ← parseHex hex
      some (hexN 4 (Spec.Crc.refBuf (BitVec.ofNat 16 c) bs.toList).toNat)
  | _ => none

end LhasaV.Driver
