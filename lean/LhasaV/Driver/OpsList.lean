import LhasaV.Driver.Hex
import LhasaV.Model.Reader
import LhasaV.Model.ListOut
import LhasaV.Model.Glob
/-!
`list <mode:l|lv|v|vv> <quiet:0|1|2> <now> <archive mtime> <filters: comma-separated hex or -> <archive hex>`
  → hex of what `lha <mode>q<quiet> <archive> <filters…>` writes to stdout
`glob <pattern hex> <string hex>` → two digits: `matchGlob`, `GlobSpec`
`ratio <row|foot> <compressed> <uncompressed>`, `stamp <now> <timestamp>`, `fullstamp <timestamp>`
  → hex of what the ratio / timestamp column printers write
-/
namespace LhasaV.Driver
open LhasaV LhasaV.Reader

/-- all headers `lha_reader_next_file` returns until it returns NULL -/
def allHeaders : Nat → Reader.St → List Header.Hdr → Except String (List Header.Hdr)
  | 0, _, acc => .ok acc.reverse
  | fuel+1, s, acc =>
    match Reader.next s with
    | .error w => .error w
    | .ok (none, _) => .ok acc.reverse
    | .ok (some o, s') => allHeaders fuel s' (o.h :: acc)

def parseMode : String → Option (Bool × Bool)
  | "l" => some (false, false) | "lv" => some (false, true)
  | "v" => some (true, false) | "vv" => some (true, true)
  | _ => none

def parseFilters (s : String) : Option (List (List UInt8)) :=
  if s == "-" then some [] else
  (s.splitOn ",").mapM (fun t => if t == "" then some [] else (parseHex t).map (fun a => cstr a.toList))

def opList : List String → Option String
  | ["list", mode, quiet, now, mtime, filters, hex] =>
    match parseMode mode, quiet.toNat?, now.toNat?, mtime.toNat?, parseFilters filters, parseHex hex with
    | some (vl, vo), some q, some now, some mt, some fs, some bs =>
      let st : Reader.St :=
        { basic := { stream := { kind := .seekable, data := bs } }, mktime := Header.dosTimeUTC }
      match allHeaders (bs.size + 2) st [] with
      | .error w => some ("FAULT " ++ w)
      | .ok hdrs => some (toHexL (ListOut.render vl vo q now mt (Glob.select fs hdrs)))
    | _, _, _, _, _, _ => none
  | ["glob", pat, s] =>
    match parseHex pat, parseHex s with
    | some p, some t =>
      let p := cstr p.toList
      let t := cstr t.toList
      some ((if Glob.matchGlob p t then "1" else "0") ++ (if Glob.GlobSpec p t then "1" else "0"))
    | _, _ => none
  | ["globm", pat, s] =>
    match parseHex pat, parseHex s with
    | some p, some t => some (if Glob.matchGlob (cstr p.toList) (cstr t.toList) then "1" else "0")
    | _, _ => none
  | ["globs", pat, s] =>
    match parseHex pat, parseHex s with
    | some p, some t => some (if Glob.GlobSpec (cstr p.toList) (cstr t.toList) then "1" else "0")
    | _, _ => none
  -- direct probes of single column printers (for dense numeric sweeps)
  | ["ratio", kind, c, u] =>
    match c.toNat?, u.toNat? with
    | some c, some u =>
      if kind == "row" then some (toHexL (ListOut.percentField c u))
      else if kind == "foot" then some (toHexL (ListOut.ratioFooter c u))
      else none
    | _, _ => none
  | ["stamp", now, ts] =>
    match now.toNat?, ts.toNat? with
    | some now, some ts => some (toHexL (ListOut.outputTimestamp now ts))
    | _, _ => none
  | ["fullstamp", ts] =>
    match ts.toNat? with
    | some ts => some (toHexL (ListOut.outputFullTimestamp ts))
    | none => none
  | _ => none

end LhasaV.Driver
