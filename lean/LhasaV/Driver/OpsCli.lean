import LhasaV.Driver.Hex
import LhasaV.Model.Cli
/-! op `cli <command argument hex>` → `ok mode=<l|v|t|x|p> ow=<0|1> quiet=<n> verbose=<0|1> dry=<0|1> usepath=<0|1> path=<hex|-|none>` | `fail` -/
namespace LhasaV.Driver
open LhasaV

def opCli : List String → Option String
  | ["cli", hex] => do
      let b ← parseHex hex
      let cmd := b.toList.takeWhile (· != 0)
      match Cli.parseCommandLine cmd with
      | none => some "fail"
      | some (m, o) =>
        let ms := match m with
          | .list => "l" | .listVerbose => "v" | .crcCheck => "t" | .extract => "x" | .print => "p"
        let bb := fun (x : Bool) => if x then "1" else "0"
        let path := match o.extractPath with
          | none => "none"
          | some d => if d.isEmpty then "-" else toHexL (d.take 300)
        some s!"ok mode={ms} ow={bb o.overwriteAll} quiet={o.quiet} verbose={bb o.verbose} dry={bb o.dryRun} usepath={bb o.usePath} path={path}"
  | _ => none

end LhasaV.Driver
