import LhasaV.Driver.Hex
import LhasaV.Model.Decoders
namespace LhasaV.Driver
open LhasaV

structure RunOut where
  out : Array UInt8 := #[]
  prog : Array Nat := #[]
  total : Nat := 0

/-- drive a schedule: explicit sizes first, then the last size (4096 if none) until a
non-empty request returns nothing. -/
partial def runSchedule {σ : Type} (rd : σ → List Byte × σ) (monitorAt : Int)
    (sched : List Nat) (lastK : Nat) (idx : Nat) (s : Wrap.St σ) (acc : RunOut) : RunOut × Wrap.St σ :=
  let (pr, s) := if monitorAt = idx then
      let m := Wrap.monitor s
      (m.1, m.2) else ([], s)
  let acc := { acc with prog := acc.prog ++ pr.toArray, total := if monitorAt = idx then s.totalBlocks else acc.total }
  match sched with
  | k :: rest =>
    let r := Wrap.read rd k s
    let acc := { acc with out := acc.out ++ r.1.1.toArray, prog := acc.prog ++ r.1.2.toArray }
    runSchedule rd monitorAt rest lastK (idx + 1) r.2 acc
  | [] =>
    if idx > 400000 then (acc, s) else
    let r := Wrap.read rd lastK s
    let acc := { acc with out := acc.out ++ r.1.1.toArray, prog := acc.prog ++ r.1.2.toArray }
    if r.1.1.isEmpty then (acc, r.2) else runSchedule rd monitorAt [] lastK (idx + 1) r.2 acc

def natsStr (a : Array Nat) : String :=
  if a.isEmpty then "-" else ",".intercalate (a.toList.map toString)

def runDec (d : Dec) (blockSize declen chunk : Nat) (mon : Int) (sched : List Nat) (bs : Array UInt8) : String :=
  let src : Src := { data := bs, chunk := chunk }
  let st : Wrap.St (Except String d.σ) :=
    { inner := .ok (d.init src), length := declen, blockSize := blockSize }
  let lastK := match sched.getLast? with | some k => (if k = 0 then 4096 else k) | none => 4096
  let (r, s) := runSchedule d.total mon sched lastK 0 st {}
  let flt := match s.inner with | .error w => " FAULT " ++ w | .ok _ => ""
  s!"out={toHex r.out} len={s.pos} crc={hexN 4 s.crc.toNat} prog={r.total}:{natsStr r.prog}" ++ flt

def opDecoder : List String → Option String
  | ["dec", meth, declen, chunk, mon, sched, hex] =>
      let name := "-" ++ meth ++ "-"
      match decoderFor name, decoderInfo name, declen.toNat?, chunk.toNat?, mon.toInt?, parseNats sched, parseHex hex with
      | some d, some info, some declen, some chunk, some mon, some sched, some bs =>
        some (runDec d info.2.2 declen chunk mon sched bs)
      | _, _, _, _, _, _, _ => none
  | _ => none

end LhasaV.Driver
