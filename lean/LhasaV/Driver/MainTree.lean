import LhasaV.Driver.OpsTree
/-! `lhvt`: the line-protocol driver for ops that evaluate theorem HYPOTHESES (they import proof files, so they are
kept out of `lhv`, whose import cone is Gen + Model + Spec only). -/
namespace LhasaV.Driver

def runLineT (line : String) : String :=
  let toks := (line.trimAscii.toString.splitOn " ").filter (· ≠ "")
  match opTree toks with
  | some r => r
  | none => match opTree2 toks with
    | some r => r
    | none => match opTree3 toks with
      | some r => r
      | none => match opTree4 toks with
        | some r => r
        | none => "bad-op"

partial def loopT (hin hout : IO.FS.Stream) : IO Unit := do
  let line ← hin.getLine
  if line.isEmpty then return ()
  hout.putStrLn (runLineT line)
  loopT hin hout

end LhasaV.Driver

def main : IO Unit := do
  let hin ← IO.getStdin
  let hout ← IO.getStdout
  LhasaV.Driver.loopT hin hout
