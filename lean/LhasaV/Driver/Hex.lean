/-! Line-protocol helpers: hex payloads, decimal lists. -/
namespace LhasaV.Driver

def hexVal (c : Char) : Option Nat :=
  if '0' ≤ c ∧ c ≤ '9' then some (c.toNat - '0'.toNat)
  else if 'a' ≤ c ∧ c ≤ 'f' then some (c.toNat - 'a'.toNat + 10)
  else if 'A' ≤ c ∧ c ≤ 'F' then some (c.toNat - 'A'.toNat + 10)
  else none

/-- "-" denotes the empty byte string. -/
def parseHex (s : String) : Option (Array UInt8) :=
  if s == "-" then some #[] else
  let rec go (cs : List Char) (acc : Array UInt8) : Option (Array UInt8) :=
    match cs with
    | [] => some acc
    | [_] => none
    | a :: b :: rest =>
      match hexVal a, hexVal b with
      | some x, some y => go rest (acc.push (UInt8.ofNat (x * 16 + y)))
      | _, _ => none
  go s.toList #[]

def hexDigit (n : Nat) : Char :=
  if n < 10 then Char.ofNat (48 + n) else Char.ofNat (87 + n)

def toHex (bs : Array UInt8) : String :=
  if bs.isEmpty then "-" else
  String.ofList (bs.foldr (fun b acc => hexDigit (b.toNat / 16) :: hexDigit (b.toNat % 16) :: acc) [])

def toHexL (bs : List UInt8) : String := toHex bs.toArray

def hexN (digits : Nat) (v : Nat) : String :=
  String.ofList ((List.range digits).reverse.map (fun i => hexDigit ((v / 16 ^ i) % 16)))

def parseHexNat (s : String) : Option Nat :=
  s.toList.foldl (fun acc c => match acc, hexVal c with
    | some a, some v => some (a * 16 + v)
    | _, _ => none) (some 0)

/-- "1,2,3" → [1,2,3]; "-" → []. -/
def parseNats (s : String) : Option (List Nat) :=
  if s == "-" then some [] else
  (s.splitOn ",").mapM (fun t => t.toNat?)

end LhasaV.Driver
