import LhasaV.Driver.Hex
import LhasaV.Spec.LhNewEnc
import LhasaV.Spec.Lzhuf
/-!
Ops of the static-Huffman stream specification (`LhasaV.Spec.LhNewEnc`):

* `lhnser <meth> <blocks>` → `ok <hex of serialise>` | `invalid` (description not well-formed)
* `lhnexp <meth> <blocks>` → hex of `expand` (evaluated by `expandWinA`, proved equal to `expandWin`)

`<blocks>`: blocks separated by `/`; a block is `<temp>;<code>;<off>;<cmds>`

* `<temp>`: `s<c>` | `l<l0>.<l1>…k<skip>`
* `<code>`: `s<c>` | `n<n>:<tok>.<tok>…` with tok = `<l>` (length) | `a` (one zero) | `b<k>` (3..18 zeros) | `c<k>` (20..531 zeros)
* `<off>` : `s<c>` | `l<l0>.<l1>…`
* `<cmds>`: `-` | comma list of `L<hex>` | `C<dist>.<len>` | `A<dist>` (LHark 514-byte copy coded as symbol 288)
-/
namespace LhasaV.Driver
open LhasaV LhasaV.Spec.LhNewEnc LhasaV.Spec.Lz77

def fmtFor : String → Option Fmt
  | "lh4" | "lh5" => some Spec.LhNewEnc.lh5
  | "lh6" => some Spec.LhNewEnc.lh6
  | "lh7" => some Spec.LhNewEnc.lh7
  | "lhx" => some Spec.LhNewEnc.lhx
  | "lk7" => some Spec.LhNewEnc.lk7
  | _ => none

def parseDotNats (s : String) : Option (List Nat) :=
  if s == "" then some [] else (s.splitOn ".").mapM (fun t => t.toNat?)

def parseTable (s : String) : Option Table :=
  if s.startsWith "s" then (s.drop 1).toString.toNat?.map Table.single
  else if s.startsWith "l" then (parseDotNats (s.drop 1).toString).map Table.lens
  else none

def parseTemp (s : String) : Option (Table × Nat) :=
  if s.startsWith "s" then (s.drop 1).toString.toNat?.map (fun c => (Table.single c, 0))
  else if s.startsWith "l" then
    match (s.drop 1).toString.splitOn "k" with
    | [ls, k] => do let ls ← parseDotNats ls; let k ← k.toNat?; pure (Table.lens ls, k)
    | _ => none
  else none

def parseTok (s : String) : Option Tok :=
  if s == "a" then some .z0
  else if s.startsWith "b" then (s.drop 1).toString.toNat?.map Tok.z1
  else if s.startsWith "c" then (s.drop 1).toString.toNat?.map Tok.z2
  else s.toNat?.map Tok.len

def parseCode (s : String) : Option CodeTable :=
  if s.startsWith "s" then (s.drop 1).toString.toNat?.map CodeTable.single
  else if s.startsWith "n" then
    match (s.drop 1).toString.splitOn ":" with
    | [n, ts] => do
      let n ← n.toNat?
      let toks ← (if ts == "" then some [] else (ts.splitOn ".").mapM parseTok)
      pure (CodeTable.coded n toks)
    | _ => none
  else none

def parseCmd (t : String) : Option Cmd :=
  if t.startsWith "L" then (parseHexNat (t.drop 1).toString).map (fun v => Cmd.lit (UInt8.ofNat v))
  else if t.startsWith "C" then
    match ((t.drop 1).toString.splitOn ".") with
    | [d, n] => do let d ← d.toNat?; let n ← n.toNat?; pure (Cmd.copy d n false)
    | _ => none
  else if t.startsWith "A" then (t.drop 1).toString.toNat?.map (fun d => Cmd.copy d 514 true)
  else none

def parseBlock (s : String) : Option Block :=
  match s.splitOn ";" with
  | [t, c, o, cm] => do
    let (temp, skip) ← parseTemp t
    let code ← parseCode c
    let off ← parseTable o
    let cmds ← (if cm == "-" then some [] else (cm.splitOn ",").mapM parseCmd)
    pure { temp := temp, skip := skip, code := code, off := off, cmds := cmds }
  | _ => none

def parseBlocks (s : String) : Option (List Block) := (s.splitOn "/").mapM parseBlock

/-- the code words of a table, computed once -/
def wordTable (t : Table) : Array (List Bool) :=
  match t with
  | .single _ => #[]
  | .lens ls => ((List.range ls.length).map (Table.word t)).toArray

/-- `blockBits` with the code words looked up in `wordTable` (same bits) -/
def blockBitsFast (f : Fmt) (b : Block) : List Bool :=
  let ct := b.code.table
  let cwt := wordTable ct
  let owt := wordTable b.off
  let cw := fun (s : Nat) => match cwt[s]? with | some w => w | none => ct.word s
  let ow := fun (s : Nat) => match owt[s]? with | some w => w | none => b.off.word s
  bitsN 16 b.cmds.length ++ tempBits b.temp b.skip ++ codeBits b.temp b.code ++ offBits f b.off ++
    b.cmds.flatMap (fun c => match c with
      | .lit x => cw x.toNat
      | .copy d n alt =>
        let lc := lenCode f n alt
        let oc := offCode f d
        cw lc.1 ++ lc.2 ++ ow oc.1 ++ oc.2)

def opSpecLhNew : List String → Option String
  | ["lhnser", meth, blocks] => do
      let f ← fmtFor meth
      let bs ← parseBlocks blocks
      if wf f bs then some ("ok " ++ toHexL (packBits (bs.flatMap (blockBitsFast f)))) else some "invalid"
  | ["lhnwf", meth, blocks] => do
      let f ← fmtFor meth
      let bs ← parseBlocks blocks
      some (toString (wf f bs))
  | ["lhnbits", meth, blocks] => do
      let f ← fmtFor meth
      let bs ← parseBlocks blocks
      some (toString ((bs.flatMap (blockBitsFast f)).length))
  | ["lhnexp", _, blocks] => do
      let bs ← parseBlocks blocks
      some (toHex (Spec.Lzhuf.expandWinA 0x20 (denote bs) #[]))
  | _ => none

end LhasaV.Driver
