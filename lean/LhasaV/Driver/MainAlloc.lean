import LhasaV.Driver.OpsReaderAlloc
/-! `lhva`: the line-protocol driver of the allocation-aware reader model (C20, allocation failure).
It answers the same `rdr …` lines as the C harness, honouring the `fail-at` field (which `lhv` ignores). -/
namespace LhasaV.Driver

def runLineA (line : String) : String :=
  let toks := (line.trimAscii.toString.splitOn " ").filter (· ≠ "")
  match opReaderAlloc toks with
  | some r => r
  | none => "bad-op"

partial def loopA (hin hout : IO.FS.Stream) : IO Unit := do
  let line ← hin.getLine
  if line.isEmpty then return ()
  hout.putStrLn (runLineA line)
  loopA hin hout

end LhasaV.Driver

def main : IO Unit := do
  let hin ← IO.getStdin
  let hout ← IO.getStdout
  LhasaV.Driver.loopA hin hout
