import LhasaV.Driver.OpsHeader
import LhasaV.Spec.HeaderEnc
/-!
Ops of the header-format specification (`LhasaV.Spec.HeaderEnc`):

* `hdrenc <fields>`            → `ok <hex of encode>` | `invalid`
* `hdrnorm <fields> <n>`       → the dump line `hdr` prints for `normalise` (with `rest=<n>`), or `fail`

`<fields>`: `;`-separated items `L<level>` `M<method hex>` `c<clen>` `l<length>` `t<time>` `a<attr>` `r<crc>` `o<os>`
`n<name hex>` `p<pad hex>` `A<area>` `X<ext>|<ext>|…` `z<trail hex>` (levels 2/3: bytes after the chain terminator
inside the header); hex `-` = empty.
area: `u<tag>.<ts>.<mid hex>.<perms>.<uid>.<gid>` | `9<hex>` | `r<hex>`.
ext: `C<extra hex>` `N<hex>` `P<hex>` `W<c>.<m>.<a>.<tail>` `U<perm>.<tail>` `I<gid>.<uid>.<tail>` `G<hex>` `S<hex>`
`T<time>.<tail>` `9<hex>` `O<type>.<hex>`.
-/
namespace LhasaV.Driver
open LhasaV LhasaV.Header LhasaV.Spec.HeaderEnc

def hexB (s : String) : Option Bytes := (parseHex s).map (·.toList)

def parseExt (s : String) : Option Ext :=
  let body := (s.drop 1).toString
  let parts := body.splitOn "."
  match s.front, parts with
  | 'C', [x] => (hexB x).map Ext.common
  | 'N', [x] => (hexB x).map Ext.filename
  | 'P', [x] => (hexB x).map Ext.path
  | 'W', [c, m, a, t] => do pure (Ext.winTime (← c.toNat?) (← m.toNat?) (← a.toNat?) (← hexB t))
  | 'U', [p, t] => do pure (Ext.unixPerm (← p.toNat?) (← hexB t))
  | 'I', [g, u, t] => do pure (Ext.uidGid (← g.toNat?) (← u.toNat?) (← hexB t))
  | 'G', [x] => (hexB x).map Ext.group
  | 'S', [x] => (hexB x).map Ext.user
  | 'T', [t, tl] => do pure (Ext.unixTime (← t.toNat?) (← hexB tl))
  | '9', [x] => (hexB x).map Ext.os9
  | 'O', [t, x] => do pure (Ext.other (← t.toNat?) (← hexB x))
  | _, _ => none

def parseArea (s : String) : Option Area :=
  if s == "-" then some .none else
  let body := (s.drop 1).toString
  match s.front, body.splitOn "." with
  | 'u', [tag, ts, mid, p, u, g] => do
      pure (Area.unix (← tag.toNat?) (← ts.toNat?) (← hexB mid) (← p.toNat?) (← u.toNat?) (← g.toNat?))
  | '9', [x] => (hexB x).map Area.os9
  | 'r', [x] => (hexB x).map Area.raw
  | _, _ => none

def parseFields (s : String) : Option Fields :=
  (s.splitOn ";").foldlM (fun (f : Fields) (item : String) =>
    let v := (item.drop 1).toString
    match item.front with
    | 'L' => v.toNat?.map (fun x => { f with level := x })
    | 'M' => (hexB v).map (fun x => { f with method := x })
    | 'c' => v.toNat?.map (fun x => { f with clen := x })
    | 'l' => v.toNat?.map (fun x => { f with length := x })
    | 't' => v.toNat?.map (fun x => { f with time := x })
    | 'a' => v.toNat?.map (fun x => { f with attr := x })
    | 'r' => v.toNat?.map (fun x => { f with crc := x })
    | 'o' => v.toNat?.map (fun x => { f with osType := x })
    | 'n' => (hexB v).map (fun x => { f with name := x })
    | 'p' => (hexB v).map (fun x => { f with pad := x })
    | 'A' => (parseArea v).map (fun x => { f with area := x })
    | 'z' => (hexB v).map (fun x => { f with trail := x })
    | 'X' => (if v == "" then some [] else (v.splitOn "|").mapM parseExt).map (fun x => { f with exts := x })
    | _ => none)
    { level := 0, method := [], clen := 0, length := 0, time := 0, crc := 0 }

def opSpecHeader : List String → Option String
  | ["hdrenc", fs] => do
      let f ← parseFields fs
      if wf f then some ("ok " ++ toHexL (encode f)) else some "invalid"
  | ["hdrnorm", fs, n] => do
      let f ← parseFields fs
      let n ← n.toNat?
      match normalise dosTimeUTC f with
      | .ok h => some (dumpHdr h ++ s!" rest={n}")
      | .fail => some "fail"
      | .fault w => some ("FAULT " ++ w)
  | _ => none

end LhasaV.Driver
