import LhasaV.Driver.OpsReader
import LhasaV.Model.ReaderAlloc
/-!
`rdr <kind> <policy> <fail-at|-1> <ops> <archive hex>`: the line the C harness takes
(`harness/ops_reader.c`, `vlib/archgen.rdr_op(..., fail_at=k)`), run through the allocation-aware
reader model.  Output:

    <per-call results> live=<blocks left after free> allocs=<allocation calls> fired=<0|1> sites=<failed sites|-> call=<i|->

Up to and including `live=` this is the harness line after `vlib/archgen.canon_rdr`; `allocs=` is
the harness's `allocs=` (number of wrapped allocator calls), `fired` says whether the injected
failure happened, `sites` which allocation site(s) it hit, `call` the index (from 0) of the call
during which the first failure happened (`new` = while creating the reader).
-/
namespace LhasaV.Driver
open LhasaV LhasaV.Reader LhasaV.Alloc

/-- run one op token on the allocation-aware model -/
def runOpA (o : Oracle) (a : StA) (tok : String) : Except String (String × StA) :=
  if tok == "n" then
    match Reader.nextA o a with
    | .error w => .error w
    | .ok (none, a) => .ok ("END", a)
    | .ok (some h, a) => .ok (showHdr (a.s.currType == .fakeDir || a.s.currType == .deferred) h, a)
  else if tok.startsWith "r" then
    let k := (tok.drop 1).toString.toNat?.getD 0
    let r := Reader.readA o a k
    .ok (toHexL r.1, r.2)
  else if tok == "c" then
    let r := Reader.checkA o a
    .ok (if r.1.1 then "c1" else "c0", r.2)
  else if tok.startsWith "x" then
    let fsOk := tok != "x0"
    let isFile := match a.s.currType, a.s.curr with
      | .normal, some c => c.h.method != "-lhd-".toUTF8.toList
      | _, _ => false
    let before := a.s.dec.isSome
    let r := Reader.extractA o a fsOk
    let opened := isFile && fsOk && (r.2.s.dec.map (fun d => d.plain.isSome || d.mac.isSome)).getD false && !before
    let out := (if r.1.1 then "x1" else "x0") ++
      (if opened then s!":{r.1.2.length}:{crcHex r.1.2}" else "")
    .ok (out, r.2)
  else .ok ("?", a)

def sitesStr (l : List Site) : String :=
  if l.isEmpty then "-" else ",".intercalate (l.reverse.map Site.name)

def opReaderAlloc : List String → Option String
  | ["rdr", kind, policy, failAt, ops, hex] =>
    match parseKind kind, parsePolicy policy, parseHex hex with
    | some k, some pol, some bs =>
      let o : Oracle := Oracle.ofFailAt (if failAt.startsWith "-" then none else failAt.toNat?)
      match Reader.newA o { kind := k, data := bs } pol Header.dosTimeUTC with
      | (none, hp) =>
        some (s!"new-failed live={hp.live} allocs={hp.n} fired={if hp.failed.isEmpty then 0 else 1} sites={sitesStr hp.failed} call=new")
      | (some a0, _) =>
        let toks := (ops.splitOn ";").filter (· ≠ "")
        let rec go (ts : List String) (a : StA) (acc : List String) (i : Nat) (hit : Option Nat) :
            List String × StA × Option String × Option Nat :=
          match ts with
          | [] => (acc.reverse, a, none, hit)
          | t :: ts =>
            match runOpA o a t with
            | .error w => (acc.reverse, a, some w, hit)
            | .ok (out, a') =>
              let hit' := if hit.isNone && !a'.hp.failed.isEmpty then some i else hit
              go ts a' (out :: acc) (i + 1) hit'
        let (outs, a, flt, hit) := go toks a0 [] 0 none
        let led := (Reader.freeA a).1
        let decFault := match a.s.dec with
          | some d => (match d.innerSt with
              | some w => (match w.inner with | .error e => some e | .ok _ => none)
              | none => none)
          | none => none
        let f := match flt, decFault, led.faults with
          | some w, _, _ => " FAULT " ++ w
          | none, some w, _ => " FAULT " ++ w
          | none, none, w :: _ => " FAULT " ++ w
          | none, none, [] => ""
        some (";".intercalate outs ++ s!" live={Reader.liveAfterFree a}" ++ f ++
              s!" allocs={a.hp.n} fired={if a.hp.failed.isEmpty then 0 else 1} sites={sitesStr a.hp.failed} call={match hit with | some i => toString i | none => "-"}")
    | _, _, _ => none
  | _ => none

end LhasaV.Driver
