import LhasaV.Driver.OpsExtract
import LhasaV.Lemmas.ExtractTree14
/-!
op `xtree <opts> <root 0|1> <abs prefix hex> <entries> <archive hex>`: evaluates the HYPOTHESES of
`Props.C06.run_tree_partial` on a generated archive and prints the tree its CONCLUSION promises.
  entries: comma list, in archive order, of
    `d:<path hex>:<perms dec|->:<mtime>`, `f:<path hex>:<data hex>:<perms dec|->:<mtime>`, `l:<path hex>:<target hex>`
    (path: components separated by '/', no trailing separator)
  result: `opts=<0|1> empty=1 wf=<0|1> fuel=<0|1> den=<0|1> tree=<listing of treeOf at every entry path>`
-/
namespace LhasaV.Driver
open LhasaV LhasaV.ExtractTree

def parseNatOpt (s : String) : Option (Option Nat) :=
  if s == "-" then some none else s.toNat?.map some

def parseEntry (t : String) : Option Entry :=
  match t.splitOn ":" with
  | ["d", p, pm, mt] => do
      let p ← parseHex p; let pm ← parseNatOpt pm; let mt ← mt.toNat?
      some (.dir ((Fs.splitPath p.toList).filter (· ≠ [])) pm mt)
  | ["f", p, d, pm, mt] => do
      let p ← parseHex p; let d ← parseHex d; let pm ← parseNatOpt pm; let mt ← mt.toNat?
      some (.file ((Fs.splitPath p.toList).filter (· ≠ [])) d.toList pm mt)
  | ["l", p, tg] => do
      let p ← parseHex p; let tg ← parseHex tg
      some (.link ((Fs.splitPath p.toList).filter (· ≠ [])) tg.toList)
  | _ => none

def opTree : List String → Option String
  | ["xtree", opts, root, absp, entries, hex] => do
      let o ← parseOpts opts
      let absp ← parseHex absp
      let arch ← parseHex hex
      let es ← (if entries == "-" then some [] else (entries.splitOn ",").mapM parseEntry)
      let fs0 : Fs.St := { root := root == "1", cwd := ["root".toUTF8.toList], absPrefix := absp.toList,
                           ents := [(["root".toUTF8.toList], .dir 0o755 1000), (["outside".toUTF8.toList], .dir 0o755 1000),
                                    (["outside".toUTF8.toList, "canary".toUTF8.toList], .file "canary".toUTF8.toList 0o644 1000)] }
      let b := fun (x : Bool) => if x then "1" else "0"
      let optsOk := o.extractPath.isNone && o.usePath && o.filters.isEmpty
      let wf := decide (WellFormed es)
      let fuel := decide (2 * es.length + 1 ≤ Contain.runFuel arch)
      let den := denotesB (Contain.runFuel arch) (Contain.runInit arch o fs0 []) es
      let paths := (es.map Entry.path).toArray.qsort (fun a b => pathStr (fs0.cwd ++ a) < pathStr (fs0.cwd ++ b))
      let tree := ";".intercalate (paths.toList.map (fun p =>
        pathStr (fs0.cwd ++ p) ++ "=" ++ (match treeOf fs0.now fs0.umask es p with
          | some e => entStr fs0.now e | none => "none")))
      some s!"opts={b optsOk} wf={b wf} fuel={b fuel} den={b den} tree={tree}"
  | _ => none

end LhasaV.Driver
