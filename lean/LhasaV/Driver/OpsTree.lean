import LhasaV.Driver.OpsExtract
import LhasaV.Lemmas.ExtractTree14
import LhasaV.Lemmas.ExtractTreeOpt
import LhasaV.Lemmas.ExtractTreeOw
import LhasaV.Lemmas.ExtractTreeImp
import LhasaV.Lemmas.ExtractTreeAll
/-!
op `xtree <opts> <root 0|1> <abs prefix hex> <entries> <archive hex>`: evaluates the HYPOTHESES of
`Props.C06.run_tree_partial` on a generated archive and prints the tree its CONCLUSION promises.
  entries: comma list, in archive order, of
    `d:<path hex>:<perms dec|->:<mtime>`, `f:<path hex>:<data hex>:<perms dec|->:<mtime>`, `l:<path hex>:<target hex>`
    (path: components separated by '/', no trailing separator)
  result: `opts=<0|1> empty=1 wf=<0|1> fuel=<0|1> den=<0|1> tree=<listing of treeOf at every entry path>`
-/
namespace LhasaV.Driver
open LhasaV LhasaV.ExtractTree

def parseNatOpt (s : String) : Option (Option Nat) :=
  if s == "-" then some none else s.toNat?.map some

def parseEntry (t : String) : Option Entry :=
  match t.splitOn ":" with
  | ["d", p, pm, mt] => do
      let p ← parseHex p; let pm ← parseNatOpt pm; let mt ← mt.toNat?
      some (.dir ((Fs.splitPath p.toList).filter (· ≠ [])) pm mt)
  | ["f", p, d, pm, mt] => do
      let p ← parseHex p; let d ← parseHex d; let pm ← parseNatOpt pm; let mt ← mt.toNat?
      some (.file ((Fs.splitPath p.toList).filter (· ≠ [])) d.toList pm mt)
  | ["l", p, tg] => do
      let p ← parseHex p; let tg ← parseHex tg
      some (.link ((Fs.splitPath p.toList).filter (· ≠ [])) tg.toList)
  | _ => none

def opTree : List String → Option String
  | ["xtree", opts, root, absp, entries, hex] => do
      let o ← parseOpts opts
      let absp ← parseHex absp
      let arch ← parseHex hex
      let es ← (if entries == "-" then some [] else (entries.splitOn ",").mapM parseEntry)
      let fs0 : Fs.St := sandboxFs (root == "1") absp.toList
      let b := fun (x : Bool) => if x then "1" else "0"
      let optsOk := o.extractPath.isNone && o.usePath && o.filters.isEmpty
      let wf := decide (WellFormed es)
      let fuel := decide (2 * es.length + 1 ≤ Contain.runFuel arch)
      let den := denotesB (Contain.runFuel arch) (Contain.runInit arch o fs0 []) es
      let paths := (es.map Entry.path).toArray.qsort (fun a b => pathStr (fs0.cwd ++ a) < pathStr (fs0.cwd ++ b))
      let tree := ";".intercalate (paths.toList.map (fun p =>
        pathStr (fs0.cwd ++ p) ++ "=" ++ (match treeOf fs0.now fs0.umask es p with
          | some e => entStr fs0.now e | none => "none")))
      some s!"opts={b optsOk} wf={b wf} fuel={b fuel} den={b den} tree={tree}"
  | _ => none

/-!
op `xtree2 <opts> <root 0|1> <abs prefix hex> <filters> <entries> <archive hex>`: the OPTION theorems of C06
(`extract_selected`, `extract_relocated`, `extract_flattened`): decidable hypotheses evaluated, promised tree printed.
  kind=sel   (wildcards, paths used, no w=): hyp = WellFormed; tree = impTreeOf (selected entries) at every path and proper prefix
  kind=reloc (w=DIR, no wildcards, paths used): hyp = WellFormed ∧ DIR's components are names ∧ depth; tree below cwd/DIR, and the
             components of DIR as `mkBase` makes them (the last one stamped `now`)
  kind=flat  (option i, no w=): hyp = every entry EntryOk ∧ selected non-directory names pairwise distinct; tree = flatTreeOf
-/
def opTree2 : List String → Option String
  | ["xtree2", opts, root, absp, filters, entries, hex] => do
      let o ← parseOpts opts
      let absp ← parseHex absp
      let _arch ← parseHex hex
      let fl ← (if filters == "-" then some [] else (filters.splitOn ",").mapM (fun f => (parseHex f).map (·.toList)))
      let o := { o with filters := fl }
      let es ← (if entries == "-" then some [] else (entries.splitOn ",").mapM parseEntry)
      let fs0 : Fs.St := sandboxFs (root == "1") absp.toList
      let b := fun (x : Bool) => if x then "1" else "0"
      let sel := es.filter (selected fl)
      let listing := fun (items : List (Fs.Path × Option Fs.Ent)) =>
        let arr := items.toArray.qsort (fun a b => pathStr a.1 < pathStr b.1)
        ";".intercalate (arr.toList.map (fun x => pathStr x.1 ++ "=" ++ (match x.2 with | some e => entStr fs0.now e | none => "none")))
      match o.extractPath, o.usePath with
      | none, true =>
          -- `extract_selected_any`: any pattern list on a directory-first archive; parents whose own entry is not selected are implicit
          let hyp := decide (WellFormed es)
          let prefixes := ((sel.map Entry.path).flatMap (fun p => (List.range p.length).map (fun i => p.take (i + 1)))).eraseDups
          let items := prefixes.map (fun p => (fs0.cwd ++ p, impTreeOf fs0.now fs0.umask sel p))
          some s!"kind=sel hyp={b hyp} tree={listing items}"
      | some d, true =>
          let ds := (Fs.splitPath d).filter (· ≠ [])
          let hyp := decide (WellFormed es) && fl.isEmpty && decide (∀ c ∈ ds, Name c) &&
                     decide (∀ e ∈ es, ds.length + e.path.length < 64) && !ds.isEmpty
          let base := mkBase fs0 ds
          let comps := (List.range ds.length).map (fun i =>
            let q := fs0.cwd ++ ds.take (i + 1)
            (q, if i + 1 == ds.length && !es.isEmpty then (match Fs.lookup base q with
                  | some (.dir m _) => some (.dir m fs0.now) | x => x) else Fs.lookup base q))
          let items := es.map (fun e => (fs0.cwd ++ ds ++ e.path, treeOf fs0.now fs0.umask es e.path))
          some s!"kind=reloc hyp={b hyp} tree={listing (comps ++ items)}"
      | none, false =>
          let names := (es.filter (fun e => selected fl e && !e.isDir)).map Entry.namePart
          let hyp := decide (∀ e ∈ es, EntryOk e) && decide names.Nodup
          let items := (sel.filter (fun e => !e.isDir)).map (fun e =>
            (fs0.cwd ++ [e.namePart], flatTreeOf fs0.now fs0.umask sel [e.namePart]))
          some s!"kind=flat hyp={b hyp} tree={listing items}"
      | some _, false => some "kind=flat-reloc hyp=0 tree="
  | _ => none

/-!
op `xtree3 <opts> <root 0|1> <abs prefix hex> <answers hex> <pre> <entries> <archive hex>`: the overwrite-policy theorem of C06
(`overwrite_policy`): hypotheses `OptsOk`, `WellFormed`, `PreDir` (via the sound `preDirB`), `OwAnswers` evaluated; prints the
specification's verdict `abort=<0|1>` and the promised tree (archived object where the plan says written, else what was there).
-/
def opTree3 : List String → Option String
  | ["xtree3", opts, root, absp, answers, pre, entries, hex] => do
      let o ← parseOpts opts
      let absp ← parseHex absp
      let ans ← parseHex answers
      let _arch ← parseHex hex
      let es ← (if entries == "-" then some [] else (entries.splitOn ",").mapM parseEntry)
      let fs0 : Fs.St := sandboxFs (root == "1") absp.toList
      let fs1 ← if pre == "-" then some fs0 else (pre.splitOn ",").foldlM addPre fs0
      let b := fun (x : Bool) => if x then "1" else "0"
      let optsOk := o.extractPath.isNone && o.usePath && o.filters.isEmpty
      let hyp := optsOk && decide (WellFormed es) && preDirB fs1 es &&
                 (if o.overwrite == .prompt then decide (OwAnswers ans.toList) else true)
      let pl := owPlan fs1 o ans.toList es
      let below := (fs1.ents.filter (fun x => fs1.cwd.isPrefixOf x.1 && x.1 != fs1.cwd)).map (fun x => x.1.drop fs1.cwd.length)
      let paths := (es.map Entry.path ++ below).eraseDups
      let items := paths.filterMap (fun p =>
        (owTree fs1.now fs1.umask (oldAt fs1) pl.1 p).map (fun e => (fs1.cwd ++ p, e)))
      let arr := items.toArray.qsort (fun a b => pathStr a.1 < pathStr b.1)
      let tree := ";".intercalate (arr.toList.map (fun x => pathStr x.1 ++ "=" ++ entStr fs1.now x.2))
      some s!"kind=ow hyp={b hyp} abort={b pl.2} tree={tree}"
  | _ => none

/-!
op `xtree4 <opts> <root 0|1> <abs prefix hex> <entries> <archive hex>`: the implicit-parents / mixed-archive theorem of C06
(`extract_mixed`, `extract_implicit_parents`): hypothesis `WFI [] [] es` (decidable) evaluated; promised tree = `impTreeOf` of the kept
entries at every entry path and every proper prefix of one.
-/
def opTree4 : List String → Option String
  | ["xtree4", opts, root, absp, entries, hex] => do
      let o ← parseOpts opts
      let absp ← parseHex absp
      let _arch ← parseHex hex
      let es ← (if entries == "-" then some [] else (entries.splitOn ",").mapM parseEntry)
      let fs0 : Fs.St := sandboxFs (root == "1") absp.toList
      let b := fun (x : Bool) => if x then "1" else "0"
      let optsOk := o.extractPath.isNone && o.usePath && o.filters.isEmpty
      let hyp := optsOk && decide (WFI [] [] es)
      let kept := keptOf [] es
      let prefixes := (es.map Entry.path).flatMap (fun p => (List.range p.length).map (fun i => p.take (i + 1)))
      let paths := prefixes.eraseDups
      let items := paths.filterMap (fun p => (impTreeOf fs0.now fs0.umask kept p).map (fun e => (fs0.cwd ++ p, e)))
      let arr := items.toArray.qsort (fun a b => pathStr a.1 < pathStr b.1)
      let tree := ";".intercalate (arr.toList.map (fun x => pathStr x.1 ++ "=" ++ entStr fs0.now x.2))
      some s!"kind=imp hyp={b hyp} tree={tree}"
  | _ => none

end LhasaV.Driver
