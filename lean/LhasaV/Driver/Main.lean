import LhasaV.Driver.OpsCrc
import LhasaV.Driver.OpsHeader
import LhasaV.Driver.OpsDecoder
import LhasaV.Driver.OpsReader
import LhasaV.Driver.OpsSpec
import LhasaV.Driver.OpsExtract
import LhasaV.Driver.OpsList
import LhasaV.Driver.OpsSpecLh1
import LhasaV.Driver.OpsSpecLhNew
import LhasaV.Driver.OpsSpecPm
import LhasaV.Driver.OpsSpecHeader
import LhasaV.Driver.OpsCli
import LhasaV.Driver.OpsMessages
/-! `lhv`: one operation per input line, one canonical result line per operation. -/
namespace LhasaV.Driver

def dispatchers : List (List String → Option String) := [opCrc, opHeader, opDecoder, opReader, opSpec, opExtract, opList, opSpecLh1, opSpecLhNew, opSpecPm, opSpecHeader, opCli, opMessages]

def runLine (line : String) : String :=
  let toks := (line.trimAscii.toString.splitOn " ").filter (· ≠ "")
  match dispatchers.findSome? (fun d => d toks) with
  | some r => r
  | none => "bad-op"

partial def loop (hin hout : IO.FS.Stream) : IO Unit := do
  let line ← hin.getLine
  if line.isEmpty then return ()
  hout.putStrLn (runLine line)
  loop hin hout

end LhasaV.Driver

def main : IO Unit := do
  let hin ← IO.getStdin
  let hout ← IO.getStdout
  LhasaV.Driver.loop hin hout
