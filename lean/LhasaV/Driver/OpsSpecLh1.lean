import LhasaV.Driver.Hex
import LhasaV.Spec.Lzhuf
import LhasaV.Model.Lh1
/-!
Ops of the -lh1- specification (`LhasaV.Spec.Lzhuf`):

* `lh1ser  <cmds>`                   → hex of `encode cmds`
* `lh1exp  <cmds>`                   → hex of `expandWin 0x20 cmds` (evaluated by `expandWinA`, proved equal)
* `lh1dec  <declared len> <hex>`     → hex of `decode stream len` (evaluated by `decodeA`, proved equal)
* `lh1info <cmds>`                   → `syms=<n> valid=<0|1> rebuilds=<reconst calls> maxcode=<longest code> outlen=<bytes> bits=<stream bits before padding>`
* `lh1dinfo <declared len> <hex>`    → statistics of `decodeCmds stream len`: `syms= rebuilds= maxcode=`, and whether
                                       `encode` of these commands reproduces the stream (`reencoded=1`: is a prefix of it up to padding) `enclen=`
* `lh1mirror <cmds>`                 → runs the decoder MODEL (`LhasaV.Model.Lh1`) over `encode cmds`, one `read` per command, and
                                       compares its tree after EVERY command with `run` of the symbols so far under the mirror map
                                       `i ↔ 626 − i`: `ok <n>` or `diff after <k> commands at node <i>: …`
* `lh1tree <cmds>`                   → `freq=… prnt=… son=…` of `run (symsOf cmds)` (decimal lists)

`<cmds>`: comma separated items, `-` = empty.

* `L<hex>`                   literal byte
* `C<dist>.<len>`            copy of `len` bytes from `dist + 1` back
* `S<sym>.<pos>`             the command of symbol `sym` (0..313): literal, or copy of length `sym − 253` at `pos`
* `Q<k>.<count>.<start>`     round robin: `count` commands, the `i`-th has symbol `(start + i % k) % 314`;
                             a copy gets the position `(i * 67 + start * 64) % 4096` (walks through all 64 upper classes)
* `R<seed>.<count>.<profile>` `count` pseudo-random commands from a 64-bit LCG
                             (`x ↦ x * 6364136223846793005 + 1442695040888963407`, value = bits 33..63),
                             seeded with `seed`; symbol drawn according to `profile`, copy position uniform
                             in `0..4095` (profile 7: half of them `< 64`):
    0 uniform over the 314 symbols          1 cubic skew (index `314·u³`, permuted `idx*101 + seed`)
    2 uniform over the 256 literals         3 uniform over `2 + seed % 7` symbols (`j*53 + seed`)
    4 geometric, ratio 0.618 (Fibonacci weights: deep trees)   5 geometric, ratio 1/2
    6 uniform over the 58 copy symbols      7 text-like: 3/4 skewed literals out of 16, 1/4 copies of length 3..10
-/
namespace LhasaV.Driver
open LhasaV LhasaV.Spec.Lz77 LhasaV.Spec.Lzhuf

def lcg (x : Nat) : Nat := (x * 6364136223846793005 + 1442695040888963407) % 18446744073709551616

def lcgVal (x : Nat) : Nat := x >>> 33

def symCmd (sym pos : Nat) : WCmd :=
  if sym < 256 then .lit (UInt8.ofNat sym) else .copy (pos % 4096) (sym - 253)

/-- number of successive draws below `num / 1000`, at most `cap` -/
def geomDraw (num : Nat) : Nat → Nat → Nat → Nat × Nat
  | 0, x, t => (t, x)
  | cap+1, x, t =>
    let x := lcg x
    if lcgVal x % 1000 < num then geomDraw num cap x (t + 1) else (t, x)

def drawSym (seed profile x : Nat) : Nat × Nat :=
  let x := lcg x
  let v := lcgVal x
  match profile with
  | 0 => (v % 314, x)
  | 1 => let u := v % 1024; ((u * u * u * 314 / 1073741824 * 101 + seed) % 314, x)
  | 2 => (v % 256, x)
  | 3 => ((v % (2 + seed % 7) * 53 + seed) % 314, x)
  | 4 => let r := geomDraw 618 40 x 0; ((r.1 * 101 + seed) % 314, r.2)
  | 5 => let r := geomDraw 500 40 x 0; ((r.1 * 101 + seed) % 314, r.2)
  | 6 => (256 + v % 58, x)
  | _ =>
    if v % 4 = 0 then (256 + (v / 4) % 8, x)
    else let u := (v / 4) % 64; ((u * u * 16 / 4096 * 7 + 97 + seed) % 256, x)

def genR (seed profile : Nat) : Nat → Nat → Array WCmd → Array WCmd
  | 0, _, acc => acc
  | n+1, x, acc =>
    let r := drawSym seed profile x
    let x := lcg r.2
    let v := lcgVal x
    let pos := if profile = 7 ∧ v % 2 = 0 then (v / 2) % 64 else (v / 2) % 4096
    genR seed profile n x (acc.push (symCmd r.1 pos))

def genQ (k start : Nat) : Nat → Nat → Array WCmd → Array WCmd
  | 0, _, acc => acc
  | n+1, i, acc => genQ k start n (i + 1) (acc.push (symCmd ((start + i % k) % 314) ((i * 67 + start * 64) % 4096)))

def parseItem (t : String) (acc : Array WCmd) : Option (Array WCmd) :=
  let body := (t.drop 1).toString
  let nums := (body.splitOn ".").mapM (fun p => p.toNat?)
  if t.startsWith "L" then (parseHexNat body).map (fun v => acc.push (.lit (UInt8.ofNat v)))
  else if t.startsWith "C" then
    match nums with
    | some [p, n] => some (acc.push (.copy p n))
    | _ => none
  else if t.startsWith "S" then
    match nums with
    | some [s, p] => if s < 314 then some (acc.push (symCmd s p)) else none
    | _ => none
  else if t.startsWith "Q" then
    match nums with
    | some [k, n, st] => if k = 0 then none else some (genQ k st n 0 acc)
    | _ => none
  else if t.startsWith "R" then
    match nums with
    | some [seed, n, prof] => some (genR seed prof n (seed % 18446744073709551616) acc)
    | _ => none
  else none

def parseWCmds (s : String) : Option (List WCmd) :=
  if s == "-" then some [] else
  ((s.splitOn ",").foldlM (fun acc t => parseItem t acc) #[]).map Array.toList

/-- the relation a later proof is expected to establish between the LZHUF arrays and the decoder's
`nodes[]`/`leaf_nodes[]`: `none` = related, `some i` = first ascending index at which it fails -/
def mirrorDiff (t : TreeState) (m : Lh1.St) : Option Nat :=
  (List.range 627).find? (fun i =>
    let nd := m.nodes.getD (626 - i) {}
    let okFreq := nd.freq == t.freq.getD i 0
    let okSon := if nd.leaf then t.son.getD i 0 == nd.child + 627 && t.prnt.getD (nd.child + 627) 0 == i
                    && m.leafNodes.getD nd.child 0 == 626 - i
                 else t.son.getD i 0 + nd.child == 626
    let okPrnt := i == 626 || t.prnt.getD i 0 + nd.parent == 626
    !(okFreq && okSon && okPrnt))

def mirrorRun : List WCmd → Nat → TreeState → Lh1.St → String
  | [], k, _, _ => s!"ok {k}"
  | c :: cs, k, t, m =>
    match Lh1.read m with
    | .ok (_, m) =>
      let t := update t (symOf c)
      match mirrorDiff t m with
      | none => mirrorRun cs (k + 1) t m
      | some i => s!"diff after {k + 1} commands at node {i}: freq={t.freq.getD i 0} son={t.son.getD i 0} prnt={t.prnt.getD i 0} model freq={(m.nodes.getD (626 - i) {}).freq} child={(m.nodes.getD (626 - i) {}).child} leaf={(m.nodes.getD (626 - i) {}).leaf} parent={(m.nodes.getD (626 - i) {}).parent}"
    | .fail => s!"model read failed after {k} commands"
    | .fault w => s!"model fault after {k} commands: {w}"

def opSpecLh1 : List String → Option String
  | ["lh1ser", cmds] => do let cs ← parseWCmds cmds; some (toHexL (encode cs))
  | ["lh1exp", cmds] => do let cs ← parseWCmds cmds; some (toHex (expandWinA 0x20 cs #[]))
  | ["lh1dec", declen, hex] => do
      let n ← declen.toNat?
      let bs ← parseHex hex
      some (toHex (decodeA bs.toList n))
  | ["lh1info", cmds] => do
      let cs ← parseWCmds cmds
      let st := stats (symsOf cs)
      let v := if cs.all valid then 1 else 0
      some s!"syms={cs.length} valid={v} rebuilds={st.1} maxcode={st.2.1} outlen={(expandWinA 0x20 cs #[]).size} bits={(encodeBits cs).length}"
  | ["lh1dinfo", declen, hex] => do
      let n ← declen.toNat?
      let bs ← parseHex hex
      let cs := decodeCmds bs.toList n
      let st := stats (symsOf cs)
      some s!"syms={cs.length} rebuilds={st.1} maxcode={st.2.1} reencoded={if encode cs == bs.toList.take (encode cs).length then 1 else 0} enclen={(encode cs).length}"
  | ["lh1mirror", cmds] => do
      let cs ← parseWCmds cmds
      match Lh1.init { data := (encode cs).toArray } with
      | .ok m =>
        match mirrorDiff startHuff m with
        | none => some (mirrorRun cs 0 startHuff m)
        | some i => some s!"diff after 0 commands at node {i}"
      | _ => some "model init failed"
  | ["lh1tree", cmds] => do
      let cs ← parseWCmds cmds
      let t := run (symsOf cs)
      let f := fun (a : Array Nat) => ",".intercalate (a.toList.map toString)
      some s!"freq={f t.freq} prnt={f t.prnt} son={f t.son}"
  | _ => none

end LhasaV.Driver
