import LhasaV.Driver.Hex
import LhasaV.Spec.Lz77
import LhasaV.Model.Safe
namespace LhasaV.Driver
open LhasaV LhasaV.Spec.Lz77

/-- "L41,C100.5,…" → ring commands -/
def parseRCmds (s : String) : Option (List RCmd) :=
  if s == "-" then some [] else
  (s.splitOn ",").mapM (fun t =>
    if t.startsWith "L" then (parseHexNat (t.drop 1).toString).map (fun v => RCmd.lit (UInt8.ofNat v))
    else if t.startsWith "C" then
      match ((t.drop 1).toString.splitOn ".") with
      | [p, n] => do let p ← p.toNat?; let n ← n.toNat?; pure (RCmd.copy p n)
      | _ => none
    else none)

def opSpec : List String → Option String
  | ["lzser", "lzs", cmds] => do let cs ← parseRCmds cmds; some (toHexL (serialiseLzs cs))
  | ["lzser", "lz5", cmds] => do let cs ← parseRCmds cmds; some (toHexL (serialiseLz5 cs))
  | ["lzexp", "lzs", cmds] => do let cs ← parseRCmds cmds; some (toHexL (expandLzs cs))
  | ["lzexp", "lz5", cmds] => do let cs ← parseRCmds cmds; some (toHexL (expandLz5 cs))
  | ["safe", hex] => do let bs ← parseHex hex; some (toHexL (Safe.safeStr bs.toList))
  | _ => none

end LhasaV.Driver
