import LhasaV.Driver.Hex
import LhasaV.Model.Reader
namespace LhasaV.Driver
open LhasaV LhasaV.Reader

def hexOpt : Option Bytes → String
  | none => "~"
  | some b => toHexL b

def showHdr (fake : Bool) (o : HObj) : String :=
  s!"H{if fake then 1 else 0}:{hexOpt o.h.path}:{hexOpt o.h.filename}:{hexOpt o.h.symlinkTarget}:" ++
  s!"{toHexL o.h.method}:{o.h.length}:{o.h.compressedLength}"

def crcHex (bs : List UInt8) : String := hexN 4 (Crc.buf 0 bs).toNat

/-- run one op token; returns output token and new state, or a fault -/
def runOp (s : Reader.St) (tok : String) : Except String (String × Reader.St) :=
  if tok == "n" then
    match Reader.next s with
    | .error w => .error w
    | .ok (none, s) => .ok ("END", s)
    | .ok (some o, s) => .ok (showHdr (s.currType == .fakeDir || s.currType == .deferred) o, s)
  else if tok.startsWith "r" then
    let k := (tok.drop 1).toString.toNat?.getD 0
    let r := Reader.read s k
    .ok (toHexL r.1, r.2)
  else if tok == "c" then
    let r := Reader.check s
    .ok (if r.1.1 then "c1" else "c0", r.2)
  else if tok.startsWith "x" then
    let fsOk := tok != "x0"
    let isFile := match s.currType, s.curr with
      | .normal, some c => c.h.method != "-lhd-".toUTF8.toList
      | _, _ => false
    let before := s.dec.isSome
    let r := Reader.extract s fsOk
    -- the output file exists (and is reported) only if it was opened
    let opened := isFile && fsOk && (r.2.dec.map (fun o => o.plain.isSome || o.mac.isSome)).getD false && !before
    let out := (if r.1.1 then "x1" else "x0") ++
      (if opened then s!":{r.1.2.length}:{crcHex r.1.2}" else "")
    .ok (out, r.2)
  else .ok ("?", s)

def parseKind : String → Option Stream.Kind
  | "seek" => some .seekable | "pipe" => some .pipe | "cbskip" => some .cbSkip | "cbnoskip" => some .cbNoSkip
  | _ => none

def parsePolicy : String → Option DirPolicy
  | "plain" => some .plain | "eod" => some .endOfDir | "eof" => some .endOfFile | _ => none

def opReader : List String → Option String
  | ["rdr", kind, policy, _failAt, ops, hex] =>
    match parseKind kind, parsePolicy policy, parseHex hex with
    | some k, some pol, some bs =>
      let st : Reader.St :=
        { basic := { stream := { kind := k, data := bs } }, policy := pol, mktime := Header.dosTimeUTC }
      let toks := (ops.splitOn ";").filter (· ≠ "")
      let rec go (ts : List String) (s : Reader.St) (acc : List String) : List String × Reader.St × Option String :=
        match ts with
        | [] => (acc.reverse, s, none)
        | t :: ts =>
          match runOp s t with
          | .error w => (acc.reverse, s, some w)
          | .ok (o, s') => go ts s' (o :: acc)
      let (outs, s, flt) := go toks st []
      let led := Reader.free s
      let decFault := match s.dec with
        | some o => (match o.innerSt with
            | some w => (match w.inner with | .error e => some e | .ok _ => none)
            | none => none)
        | none => none
      let f := match flt, decFault, led.faults with
        | some w, _, _ => " FAULT " ++ w
        | none, some w, _ => " FAULT " ++ w
        | none, none, w :: _ => " FAULT " ++ w
        | none, none, [] => ""
      some (";".intercalate outs ++ s!" live={led.live}" ++ f)
    | _, _, _ => none
  | ["danger", hex] => do
      let t ← parseHex hex
      some (if Reader.isDangerous { symlinkTarget := some (cstr t.toList) } then "1" else "0")
  | _ => none

end LhasaV.Driver
