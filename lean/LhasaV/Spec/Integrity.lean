import LhasaV.Model.Basic
import LhasaV.Spec.Crc
/-!
Specification for C12: the integrity rules of an LHA header, written from the
format description and independently of the parser model (`Model/Header.lean`):
a decidable predicate on the bytes that start at the header.

* level ≤ 3, and the first 22 bytes are present;
* level 0/1: the length byte is at least the level's minimum (22 / 25), the
  header (length + 2 bytes) is present, the byte sum of everything after the
  first two bytes equals the checksum byte, the name fits (`min + name_len ≤
  length`);
* level 1: every extended header in the chain that follows has size ≥ 3, is
  covered by what is left of the compressed-length field and is present;
* level 2: length ≥ 26 and present (+2 bytes for OS-9/68k, which under-reports
  its length); the chain from offset 24 stays inside the header: every size is
  ≥ 3 and fits, and the chain is terminated by a zero size inside the header;
* level 3: word size 4, 32 ≤ length ≤ 1 MiB and present; chain from offset 28
  with 4-byte size fields (every size ≥ 5);
* if the chain contains common-CRC headers (type 0 with ≥ 2 data bytes): the
  CRC-16/ARC of the whole header with every such CRC field zeroed equals the
  value stored in the last of them.
-/
namespace LhasaV.Spec.Integrity
open LhasaV

def byteAt (l : Bytes) (i : Nat) : Option Nat := (l[i]?).map (·.toNat)

def le16 (l : Bytes) (i : Nat) : Option Nat := do
  let a ← byteAt l i; let b ← byteAt l (i + 1)
  pure (a + 256 * b)

def le32 (l : Bytes) (i : Nat) : Option Nat := do
  let a ← le16 l i; let b ← le16 l (i + 2)
  pure (a + 65536 * b)

def leN (fs : Nat) (l : Bytes) (i : Nat) : Option Nat := if fs = 4 then le32 l i else le16 l i

/-- One extended header found in a chain: offset of its type byte, its data length. -/
structure Ext where
  typeOff : Nat
  dataLen : Nat
deriving Repr

/-- Walk a chain inside `hdr` (the complete header bytes): the size field of the
first header is at `off`; `room` bytes are available for extended headers after
that size field.  `none` = the chain breaks a rule. -/
def walk (fs : Nat) (hdr : Bytes) (off room : Nat) (acc : List Ext) : Option (List Ext) :=
  match leN fs hdr off with
  | none => none
  | some size =>
    if size = 0 then some acc.reverse
    else if h : size < fs + 1 ∨ size > room then none
    else walk fs hdr (off + size) (room - size) ({ typeOff := off + fs, dataLen := size - fs - 1 } :: acc)
termination_by room
decreasing_by omega

/-- zero the two CRC bytes of every common header (type 0, ≥ 2 data bytes) -/
def zeroCommon (hdr : Bytes) (exts : List Ext) : Bytes :=
  exts.foldl (fun h e =>
    if byteAt hdr e.typeOff = some 0 ∧ e.dataLen ≥ 2 then
      h.take (e.typeOff + 1) ++ [0, 0] ++ h.drop (e.typeOff + 3)
    else h) hdr

/-- the value stored in the last common header, if any -/
def lastCommon (hdr : Bytes) (exts : List Ext) : Option Nat :=
  exts.foldl (fun acc e =>
    if byteAt hdr e.typeOff = some 0 ∧ e.dataLen ≥ 2 then le16 hdr (e.typeOff + 1) else acc) none

def commonCrcOk (hdr : Bytes) (exts : List Ext) : Bool :=
  match lastCommon hdr exts with
  | none => true
  | some c => (Spec.Crc.crc16arc (zeroCommon hdr exts)).toNat == c

def byteSum (l : Bytes) : Nat := (l.map (·.toNat)).sum

/-- level-1 chain as it lies in the input after the base header: sizes ≥ 3,
each covered by the compressed-length budget and by the input. Returns the
total number of extended-header bytes. -/
def l1Chain (inp : Bytes) (sizeOff budget : Nat) (total : Nat) : Option Nat :=
  match le16 inp sizeOff with
  | none => none
  | some size =>
    if size = 0 then some total
    else if h : size < 3 ∨ size > budget ∨ sizeOff + 2 + size > inp.length then none
    else l1Chain inp (sizeOff + size) (budget - size) (total + size)
termination_by budget
decreasing_by omega

/-- The integrity predicate on the bytes starting at a header. -/
def ok (inp : Bytes) : Bool :=
  if inp.length < 22 then false else
  match byteAt inp 20 with
  | some 0 =>
    (do let l ← byteAt inp 0; let c ← byteAt inp 1; let n ← byteAt inp 21
        pure (decide (22 ≤ l ∧ l + 2 ≤ inp.length ∧ 22 + n ≤ l)
              && byteSum ((inp.drop 2).take l) % 256 == c)).getD false
  | some 1 =>
    (do let l ← byteAt inp 0; let c ← byteAt inp 1; let n ← byteAt inp 21
        let clen ← le32 inp 7
        if ¬ (25 ≤ l ∧ l + 2 ≤ inp.length ∧ 25 + n ≤ l) then pure false
        else if byteSum ((inp.drop 2).take l) % 256 != c then pure false
        else match l1Chain inp l clen 0 with
          | none => pure false
          | some extBytes =>
            let hdr := inp.take (l + 2 + extBytes)
            match walk 2 hdr l extBytes [] with
            | none => pure false
            | some exts => pure (commonCrcOk hdr exts)).getD false
  | some 2 =>
    (do let l ← le16 inp 0; let os ← byteAt inp 23
        let total := if os = 0x4b then l + 2 else l
        if ¬ (26 ≤ l ∧ total ≤ inp.length) then pure false
        else
          let hdr := inp.take total
          match walk 2 hdr 24 (total - 26) [] with
          | none => pure false
          | some exts => pure (commonCrcOk hdr exts)).getD false
  | some 3 =>
    (do let w ← le16 inp 0; let l ← le32 inp 24
        if ¬ (w = 4 ∧ 32 ≤ l ∧ l ≤ 1048576 ∧ l ≤ inp.length) then pure false
        else
          let hdr := inp.take l
          match walk 4 hdr 28 (l - 32) [] with
          | none => pure false
          | some exts => pure (commonCrcOk hdr exts)).getD false
  | _ => false

end LhasaV.Spec.Integrity
