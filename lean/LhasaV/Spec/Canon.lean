/-!
Canonical prefix codes as LHA's `make_table` assigns them (the reference the
decoder's `build_tree` is proved against).

`lens[i]` is the code length of symbol `i` (0 = symbol unused).  Codes of
length `L` are consecutive `L`-bit numbers starting at `2 * S lens (L-1)`,
symbols of equal length in index order.  `S lens L` is the scaled Kraft
prefix sum `Σ_{l ≤ L} count(l) · 2^(L-l)`.
-/
namespace LhasaV.Spec.Canon

def S (lens : List Nat) : Nat → Nat
  | 0 => 0
  | L+1 => 2 * S lens L + lens.count (L+1)

/-- number of symbols with a length in `1..L` -/
def asg (lens : List Nat) : Nat → Nat
  | 0 => 0
  | L+1 => asg lens L + lens.count (L+1)

/-- rank of symbol `i` among the symbols of its own length -/
def rank (lens : List Nat) (i : Nat) : Nat := (lens.take i).count (lens.getD i 0)

/-- canonical code of symbol `i`: start of its length class + rank inside the class -/
def code (lens : List Nat) (i : Nat) : Nat := 2 * S lens (lens.getD i 0 - 1) + rank lens i

/-- `L` bits of `v`, most significant first -/
def bitsOf : Nat → Nat → List Bool
  | 0, _ => []
  | L+1, v => bitsOf L (v / 2) ++ [decide (v % 2 = 1)]

def maxLen (lens : List Nat) : Nat := lens.foldl max 0

/-- the table is a complete prefix code (Kraft sum exactly 1), as `build_tree` needs it -/
def complete (lens : List Nat) : Bool :=
  decide (1 ≤ maxLen lens) && decide (S lens (maxLen lens) = 2 ^ maxLen lens)

/-- code word of symbol `i` -/
def word (lens : List Nat) (i : Nat) : List Bool := bitsOf (lens.getD i 0) (code lens i)

end LhasaV.Spec.Canon
