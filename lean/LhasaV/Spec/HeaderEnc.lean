import LhasaV.Model.Header
/-!
The LHA file-header formats (levels 0–3) as an ENCODER from typed fields to
bytes (`encode`), and the header a caller must receive for those fields
(`normalise`).  The layout constants (field offsets, extended-header type
numbers and minimum sizes, the level-0 Unix / OS-9 areas) are stated here and do
not come from `Gen`.

`typed` is the header the typed fields denote BEFORE the post-processing every
header gets (`Header.postProcess`: Amiga directories, symlink split, all-caps
folding, path collapsing, OS-9 permission mapping, common-CRC check, LHark
renaming); `normalise = postProcess ∘ typed` with the raw bytes attached.  The
round-trip theorem therefore says: the byte-level parser (level decoders, chain
walk with 16/32-bit sizes, checksums, level-1 size arithmetic, the OS-9/68k
quirk) recovers exactly the typed fields, whatever their values and order.

`Fields.trail`: levels 2 and 3 may carry bytes AFTER the chain terminator that the header-length
field still counts (LHA pads a level-2 header by one byte so that the low byte of its length is
never 0; the OS-9 archives of the corpus have such a byte).  The parser reads `header_len` bytes,
walks the chain up to the zero size and never looks at the rest; the bytes stay in `raw` and are
covered by the common-header CRC.  Any content and any length that the length field can express is
accepted, also after an empty chain (the first size is then the terminator).  Levels 0 and 1 have no
such place (level 0: the extended area; level 1: `pad` before the first size, the chain is pulled
from the input header by header), so `wf` requires `trail = []` there.
-/
namespace LhasaV.Spec.HeaderEnc
open LhasaV LhasaV.Header

/-- a typed extended header -/
inductive Ext where
  | common (extra : Bytes)                       -- 0x00: CRC-16 of the whole header (filled in by `encode`), then `extra`
  | filename (s : Bytes)                         -- 0x01
  | path (s : Bytes)                             -- 0x02, stored form (0xFF separates components)
  | winTime (c m a : Nat) (tail : Bytes)         -- 0x41: three 64-bit stamps
  | unixPerm (p : Nat) (tail : Bytes)            -- 0x50
  | uidGid (gid uid : Nat) (tail : Bytes)        -- 0x51
  | group (s : Bytes)                            -- 0x52
  | user (s : Bytes)                             -- 0x53
  | unixTime (t : Nat) (tail : Bytes)            -- 0x54
  | os9 (d : Bytes)                              -- 0xCC: at least 12 bytes, permissions at 7..8
  | other (type : Nat) (d : Bytes)               -- unknown type, or a known type shorter than its minimum (ignored)
deriving Repr

/-- level-0 extended area -/
inductive Area where
  | none
  | unix (tag : Nat) (ts : Nat) (mid : Bytes) (perms uid gid : Nat)   -- 'U' or 'K', 0, time, …, perms, uid, gid
  | os9 (d : Bytes)                                                    -- '9' area, 22+ bytes
  | raw (d : Bytes)                                                    -- anything not recognised (ignored)
deriving Repr

structure Fields where
  level : Nat
  method : Bytes
  clen : Nat            -- size of the member data that follows the header
  length : Nat
  time : Nat            -- levels 0/1: MS-DOS stamp; levels 2/3: Unix time
  attr : Nat := 0x20
  crc : Nat
  osType : Nat := 0     -- levels 1–3
  name : Bytes := []    -- levels 0/1: name as stored in the base header ('\\' separators)
  area : Area := .none  -- level 0
  pad : Bytes := []     -- level 1: bytes between the OS type and the first extended-header size
  exts : List Ext := [] -- levels 1–3
  trail : Bytes := []   -- levels 2/3: bytes after the chain terminator that the header length still counts
deriving Repr

def le16 (v : Nat) : Bytes := [UInt8.ofNat (v % 256), UInt8.ofNat (v / 256 % 256)]
def le32 (v : Nat) : Bytes := le16 (v % 65536) ++ le16 (v / 65536 % 65536)
def le64 (v : Nat) : Bytes := le32 (v % 4294967296) ++ le32 (v / 4294967296 % 4294967296)
def leN (fs v : Nat) : Bytes := if fs = 4 then le32 v else le16 v

/-- type number and data of an extended header; `crc` is the value put into common headers -/
def Ext.body (crc : Nat) : Ext → Nat × Bytes
  | .common extra => (0x00, le16 crc ++ extra)
  | .filename s => (0x01, s)
  | .path s => (0x02, s)
  | .winTime c m a tail => (0x41, le64 c ++ le64 m ++ le64 a ++ tail)
  | .unixPerm p tail => (0x50, le16 p ++ tail)
  | .uidGid g u tail => (0x51, le16 g ++ le16 u ++ tail)
  | .group s => (0x52, s)
  | .user s => (0x53, s)
  | .unixTime t tail => (0x54, le32 t ++ tail)
  | .os9 d => (0xcc, d)
  | .other t d => (t, d)

/-- total size of one extended header in the chain: type byte + data + next-size field -/
def extSize (fs : Nat) (e : Ext) : Nat := (e.body 0).2.length + 1 + fs

/-- the chain after the first size field: each header is type, data, size of the next (0 ends) -/
def chain (fs crc : Nat) : List Ext → Bytes
  | [] => []
  | e :: es =>
    [UInt8.ofNat (e.body crc).1] ++ (e.body crc).2 ++
      leN fs (match es with | [] => 0 | e' :: _ => extSize fs e') ++ chain fs crc es

def firstSize (fs : Nat) : List Ext → Nat
  | [] => 0
  | e :: _ => extSize fs e

def chainLen (fs : Nat) (es : List Ext) : Nat := (es.map (extSize fs)).sum

def Area.bytes : Area → Bytes
  | .none => []
  | .unix tag ts mid p u g => [UInt8.ofNat tag, 0] ++ le32 ts ++ mid ++ le16 p ++ le16 u ++ le16 g
  | .os9 d => d
  | .raw d => d

def sumBytes (l : Bytes) : Nat := l.foldl (fun s b => s + b.toNat) 0

/-- the header bytes with `crc` in the common headers -/
def encodeWith (crc : Nat) (f : Fields) : Bytes :=
  let common := f.method ++ le32 (if f.level = 1 then f.clen + chainLen 2 f.exts else f.clen) ++ le32 f.length ++ le32 f.time
  if f.level = 0 then
    let body := common ++ [UInt8.ofNat f.attr, 0, UInt8.ofNat f.name.length] ++ f.name ++ le16 f.crc ++ f.area.bytes
    [UInt8.ofNat body.length, UInt8.ofNat (sumBytes body % 256)] ++ body
  else if f.level = 1 then
    let body := common ++ [UInt8.ofNat f.attr, 1, UInt8.ofNat f.name.length] ++ f.name ++ le16 f.crc ++
      [UInt8.ofNat f.osType] ++ f.pad ++ le16 (firstSize 2 f.exts)
    [UInt8.ofNat body.length, UInt8.ofNat (sumBytes body % 256)] ++ body ++ chain 2 crc f.exts
  else if f.level = 2 then
    let total := 26 + chainLen 2 f.exts + f.trail.length
    le16 (if f.osType = 0x4b then total - 2 else total) ++ common ++ [UInt8.ofNat f.attr, 2] ++ le16 f.crc ++
      [UInt8.ofNat f.osType] ++ le16 (firstSize 2 f.exts) ++ chain 2 crc f.exts ++ f.trail
  else
    le16 4 ++ common ++ [UInt8.ofNat f.attr, 3] ++ le16 f.crc ++ [UInt8.ofNat f.osType] ++
      le32 (32 + chainLen 4 f.exts + f.trail.length) ++ le32 (firstSize 4 f.exts) ++ chain 4 crc f.exts ++ f.trail

/-- the raw header as the caller sees it: the CRC fields of common headers zeroed -/
def rawOf (f : Fields) : Bytes := encodeWith 0 f

/-- the encoded header: common headers carry the CRC-16 of the header with those fields zero -/
def encode (f : Fields) : Bytes := encodeWith (Crc.buf 0 (rawOf f)).toNat f

/-! ### the typed meaning -/

def slashes (s : Bytes) : Bytes := s.map (fun b => if b = 0x5c then 0x2f else b)

/-- a typed extended header applied to the header under construction -/
def applyExt (crc : Nat) (h : Hdr) : Ext → Hdr
  | .common _ => { h with extraFlags := h.extraFlags ||| 4, commonCrc := crc }
  | .filename s => { h with filename := some ((cstr s).map (fun b => if b = 0x2f then 0x5f else b)) }
  | .path s =>
    let s' := if s.getLast? = some 0xff then s else s ++ [0xff]
    { h with path := some (cstr (s'.map (fun b => if b = 0xff then 0x2f else b))) }
  | .winTime c m a _ => { h with extraFlags := h.extraFlags ||| 8, winCreation := c, winModification := m, winAccess := a }
  | .unixPerm p _ => { h with extraFlags := h.extraFlags ||| 1, unixPerms := p }
  | .uidGid g u _ => { h with extraFlags := h.extraFlags ||| 2, unixGid := g, unixUid := u }
  | .group s => { h with unixGroup := some (cstr s) }
  | .user s => { h with unixUsername := some (cstr s) }
  | .unixTime t _ => { h with timestamp := t }
  | .os9 d => { h with os9Perms := (d.getD 7 0).toNat + 256 * (d.getD 8 0).toNat, extraFlags := h.extraFlags ||| 16 }
  | .other _ _ => h

def applyArea (h : Hdr) : Area → Hdr
  | .none => h
  | .unix tag ts _ p u g =>
    { h with osType := tag, timestamp := ts, unixPerms := p, unixUid := u, unixGid := g, extraFlags := h.extraFlags ||| 3 }
  | .os9 d => { h with osType := 0x39, os9Perms := (d.getD 1 0).toNat + 256 * (d.getD 2 0).toNat,
                       extraFlags := h.extraFlags ||| 16 }
  | .raw _ => h

/-- the header the fields denote, before post-processing; `mk` = `mktime` on the MS-DOS stamp -/
def typed (mk : Nat → Nat) (f : Fields) : Hdr :=
  let crc := (Crc.buf 0 (rawOf f)).toNat
  let h0 : Hdr := { level := f.level, method := f.method, compressedLength := f.clen, length := f.length,
                    crc := f.crc, raw := rawOf f }
  if f.level ≤ 1 then
    let h1 := { h0 with timestamp := mk f.time, osType := if f.level = 1 then f.osType else 0 }
    let h2 := if f.name = [] then h1 else splitFilename { h1 with filename := some (cstr (slashes f.name)) }
    if f.level = 0 then
      (if f.method.take 3 = "-pm".toUTF8.toList then h2 else applyArea h2 f.area)
    else f.exts.foldl (applyExt crc) h2
  else
    f.exts.foldl (applyExt crc) { h0 with timestamp := f.time, osType := f.osType }

/-- what the caller must receive -/
def normalise (mk : Nat → Nat) (f : Fields) : Res Hdr := Header.postProcess (typed mk f)

/-! ### well-formedness (decidable) -/

def knownMin : Nat → Option Nat
  | 0x00 => some 2 | 0x01 => some 1 | 0x02 => some 1 | 0x41 => some 24 | 0x50 => some 2 | 0x51 => some 4
  | 0x52 => some 1 | 0x53 => some 1 | 0x54 => some 4 | 0xcc => some 12 | _ => none

def Ext.wf : Ext → Bool
  | .common _ => true
  | .filename s => decide (1 ≤ s.length)
  | .path s => decide (1 ≤ s.length)
  | .winTime c m a _ => decide (c < 2 ^ 64 ∧ m < 2 ^ 64 ∧ a < 2 ^ 64)
  | .unixPerm p _ => decide (p < 65536)
  | .uidGid g u _ => decide (g < 65536 ∧ u < 65536)
  | .group s => decide (1 ≤ s.length)
  | .user s => decide (1 ≤ s.length)
  | .unixTime t _ => decide (t < 2 ^ 32)
  | .os9 d => decide (12 ≤ d.length)
  | .other t d => decide (t < 256) && (match knownMin t with | none => true | some m => decide (d.length < m))

def Area.wf : Area → Bool
  | .none => true
  | .unix tag ts _ p u g => (tag == 0x55 || tag == 0x4b) && decide (ts < 2 ^ 32 ∧ p < 65536 ∧ u < 65536 ∧ g < 65536)
  | .os9 d => decide (22 ≤ d.length) && d.getD 0 0 == 0x39 && d.getD 9 0 == 0xcc && d.getD 1 0 == d.getD 17 0 &&
              d.getD 2 0 == d.getD 18 0
  | .raw d => decide (1 ≤ d.length) &&
      -- not recognisable as a Unix or OS-9 area
      !(((d.getD 0 0 == 0x55 || d.getD 0 0 == 0x4b) && decide (12 ≤ d.length) && d.getD 1 0 == 0) ||
        (d.getD 0 0 == 0x39 && decide (22 ≤ d.length) && d.getD 9 0 == 0xcc && d.getD 1 0 == d.getD 17 0 &&
         d.getD 2 0 == d.getD 18 0))

def wf (f : Fields) : Bool :=
  decide (f.level ≤ 3) && decide (f.method.length = 5) && decide (f.clen < 2 ^ 32) && decide (f.length < 2 ^ 32) &&
  decide (f.time < 2 ^ 32) && decide (f.attr < 256) && decide (f.crc < 65536) && decide (f.osType < 256) &&
  f.exts.all Ext.wf &&
  (if f.level = 0 then f.area.wf && decide (22 + f.name.length + f.area.bytes.length ≤ 255) && f.exts.isEmpty && f.pad.isEmpty &&
     f.trail.isEmpty
   else if f.level = 1 then
     decide (25 + f.name.length + f.pad.length ≤ 255) && decide (f.clen + chainLen 2 f.exts < 2 ^ 32) &&
     f.exts.all (fun e => decide (extSize 2 e < 65536)) && (match f.area with | .none => true | _ => false) &&
     f.trail.isEmpty
   else if f.level = 2 then
     decide (26 + chainLen 2 f.exts + f.trail.length < 65536) &&
     decide (f.osType = 0x4b → 28 ≤ 26 + chainLen 2 f.exts + f.trail.length) && f.name.isEmpty && f.pad.isEmpty &&
     (match f.area with | .none => true | _ => false)
   else
     decide (32 + chainLen 4 f.exts + f.trail.length ≤ 1048576) && f.name.isEmpty && f.pad.isEmpty &&
     (match f.area with | .none => true | _ => false))

end LhasaV.Spec.HeaderEnc
