import LhasaV.Spec.Canon
import LhasaV.Spec.Lz77
/-!
The stream format of LHA's static-Huffman methods (-lh4- … -lh7-, -lhx-, and
LHark's -lk7-), written as an ENCODER from a structured description of the
stream (blocks; per block three code-length tables in their transmitted form
and a list of commands) to bytes, together with the denotation of the commands
(sliding window pre-filled with spaces).

Every choice an encoder has is a field of the description: which zero-run form
transmits each run of unused symbols, the value of the 2-bit skip field of the
temp table, the `n = 0` single-code form of each table, trailing unused
entries, the two LHark codes for a 514-byte copy, the block partition.
-/
namespace LhasaV.Spec.LhNewEnc
open LhasaV.Spec.Canon LhasaV.Spec.Lz77

structure Fmt where
  offsetBits : Nat
  numCodes : Nat
  maxTempCodes : Nat
  maxOffsetCodes : Nat
  ringSize : Nat
  lhark : Bool
deriving Repr, DecidableEq

/-! the formats (constants of the methods, stated independently of the C source; the theorem
`Props.C01.fmt_matches_source` compares them with what the compiled source says) -/
def lh5 : Fmt := ⟨4, 510, 31, 15, 16384, false⟩     -- also -lh4-
def lh6 : Fmt := ⟨5, 510, 31, 31, 65536, false⟩
def lh7 : Fmt := ⟨5, 510, 31, 31, 131072, false⟩
def lhx : Fmt := ⟨5, 510, 31, 31, 1048576, false⟩
def lk7 : Fmt := ⟨6, 289, 31, 63, 65536, true⟩

/-- a code-length value: 3 bits, 7 extended by a unary run of ones closed by a zero -/
def lenVal (l : Nat) : List Bool :=
  if l < 7 then bitsN 3 l else bitsN 3 7 ++ List.replicate (l - 7) true ++ [false]

/-- a prefix-code table as the decoder ends up holding it -/
inductive Table where
  | single (code : Nat)        -- the `n = 0` form: every (empty) code word decodes to `code`
  | lens (ls : List Nat)
deriving Repr

def Table.word : Table → Nat → List Bool
  | .single _, _ => []
  | .lens ls, s => Canon.word ls s

def Table.has : Table → Nat → Bool
  | .single c, s => s == c
  | .lens ls, s => decide (1 ≤ ls.getD s 0)

/-- one step of the transmission of the code table -/
inductive Tok where
  | len (l : Nat)      -- a used symbol with code length `l` (temp symbol `l + 2`)
  | z0                 -- one unused symbol (temp symbol 0)
  | z1 (k : Nat)       -- 3..18 unused symbols (temp symbol 1, 4-bit count)
  | z2 (k : Nat)       -- 20..531 unused symbols (temp symbol 2, 9-bit count)
deriving Repr

def Tok.sym : Tok → Nat
  | .len l => l + 2 | .z0 => 0 | .z1 _ => 1 | .z2 _ => 2
def Tok.lens : Tok → List Nat
  | .len l => [l] | .z0 => [0] | .z1 k => List.replicate k 0 | .z2 k => List.replicate k 0
def Tok.extra : Tok → List Bool
  | .z1 k => bitsN 4 (k - 3) | .z2 k => bitsN 9 (k - 20) | _ => []
def Tok.valid : Tok → Bool
  | .len l => decide (1 ≤ l)
  | .z0 => true
  | .z1 k => decide (3 ≤ k ∧ k ≤ 18)
  | .z2 k => decide (20 ≤ k ∧ k ≤ 531)

inductive CodeTable where
  | single (code : Nat)
  | coded (n : Nat) (toks : List Tok)   -- `n` = transmitted count; a final run may overshoot it
deriving Repr

def toksLens (toks : List Tok) : List Nat := toks.flatMap Tok.lens

def CodeTable.table : CodeTable → Table
  | .single c => .single c
  | .coded n toks => .lens ((toksLens toks).take n)

/-- LHA command with the one encoder choice it carries (LHark: 514 = code 288 or code 287+63) -/
inductive Cmd where
  | lit (b : UInt8)
  | copy (dist len : Nat) (alt : Bool)
deriving Repr

structure Block where
  temp : Table
  skip : Nat          -- value of the 2-bit field after the third temp length
  code : CodeTable
  off : Table
  cmds : List Cmd
deriving Repr

/-! ### symbol assignment of copy lengths and distances -/

/-- code-tree symbol and extra bits of a copy length -/
def lenCode (f : Fmt) (n : Nat) (alt : Bool) : Nat × List Bool :=
  if !f.lhark then (256 + (n - 3), [])
  else if n < 11 then (256 + (n - 3), [])
  else if alt then (288, [])
  else
    let v := n - 3
    let k := Nat.log2 v - 2
    (260 + 4 * k + (v / 2 ^ k - 4), bitsN k (v % 2 ^ k))

/-- offset-tree symbol and extra bits of a distance -/
def offCode (f : Fmt) (d : Nat) : Nat × List Bool :=
  if !f.lhark then
    if d < 2 then (d, [])
    else (Nat.log2 d + 1, bitsN (Nat.log2 d) (d - 2 ^ Nat.log2 d))
  else
    if d < 4 then (d, [])
    else
      let k := Nat.log2 d - 1
      (2 + 2 * k + (d / 2 ^ k - 2), bitsN k (d % 2 ^ k))

/-! ### bit layout -/

def tempBits (t : Table) (skip : Nat) : List Bool :=
  match t with
  | .single c => bitsN 5 0 ++ bitsN 5 c
  | .lens ls =>
    bitsN 5 ls.length ++
      (if ls.length < 3 then ls.flatMap lenVal
       else (ls.take 3).flatMap lenVal ++ bitsN 2 skip ++ ((ls.drop 3).drop skip).flatMap lenVal)

def codeBits (temp : Table) : CodeTable → List Bool
  | .single c => bitsN 9 0 ++ bitsN 9 c
  | .coded n toks => bitsN 9 n ++ toks.flatMap (fun t => temp.word t.sym ++ t.extra)

def offBits (f : Fmt) : Table → List Bool
  | .single c => bitsN f.offsetBits 0 ++ bitsN f.offsetBits c
  | .lens ls => bitsN f.offsetBits ls.length ++ ls.flatMap lenVal

def cmdBits (f : Fmt) (ct ot : Table) : Cmd → List Bool
  | .lit b => ct.word b.toNat
  | .copy d n alt =>
    let lc := lenCode f n alt
    let oc := offCode f d
    ct.word lc.1 ++ lc.2 ++ ot.word oc.1 ++ oc.2

def blockBits (f : Fmt) (b : Block) : List Bool :=
  bitsN 16 b.cmds.length ++ tempBits b.temp b.skip ++ codeBits b.temp b.code ++ offBits f b.off ++
    b.cmds.flatMap (cmdBits f b.code.table b.off)

def streamBits (f : Fmt) (bs : List Block) : List Bool := bs.flatMap (blockBits f)

/-- the compressed stream: bits MSB-first, zero padded to a byte -/
def serialise (f : Fmt) (bs : List Block) : List UInt8 := packBits (streamBits f bs)

/-! ### denotation -/

def Cmd.denote : Cmd → WCmd
  | .lit b => .lit b
  | .copy d n _ => .copy d n

def denote (bs : List Block) : List WCmd := bs.flatMap (fun b => b.cmds.map Cmd.denote)

def expand (bs : List Block) : List UInt8 := expandWin 0x20 (denote bs)

/-! ### well-formedness (decidable) -/

def Table.wf (maxN fieldBits : Nat) : Table → Bool
  | .single c => decide (c < 2 ^ fieldBits)
  | .lens ls => decide (1 ≤ ls.length ∧ ls.length ≤ maxN) && complete ls && ls.all (fun l => decide (l < 256))

def tempWf (f : Fmt) (t : Table) (skip : Nat) : Bool :=
  t.wf f.maxTempCodes 5 && decide (skip ≤ 3) &&
  (match t with
   | .single _ => true
   | .lens ls => ((ls.drop 3).take skip).all (· == 0) && decide (ls.length < 3 ∨ 3 + skip ≤ ls.length))

/-- every token starts below `n`; all but a final zero run end at or below `n` -/
def toksFit (n : Nat) : List Tok → Nat → Bool
  | [], i => decide (i = n)
  | [t], i => decide (i < n) && decide (n ≤ i + t.lens.length) &&
      (match t with | .len _ => decide (i + 1 = n) | _ => true)
  | t :: ts, i => decide (i + t.lens.length < n) && toksFit n ts (i + t.lens.length)

def codeWf (f : Fmt) (temp : Table) : CodeTable → Bool
  | .single c => decide (c < 512)
  | .coded n toks =>
    decide (1 ≤ n ∧ n ≤ f.numCodes) && toks.all Tok.valid && toks.all (fun t => temp.has t.sym) &&
    toksFit n toks 0 && complete ((toksLens toks).take n) &&
    (toksLens toks).all (fun l => decide (l < 256))

def cmdWf (f : Fmt) (ct ot : Table) : Cmd → Bool
  | .lit b => ct.has b.toNat
  | .copy d n alt =>
    decide (3 ≤ n) && decide (n ≤ (if f.lhark then 514 else 256)) && (!alt || (f.lhark && n == 514)) &&
    decide (d < f.ringSize) && ct.has (lenCode f n alt).1 && ot.has (offCode f d).1 &&
    decide ((offCode f d).1 < 2 ^ f.offsetBits)

def blockWf (f : Fmt) (b : Block) : Bool :=
  decide (b.cmds.length < 65536) && tempWf f b.temp b.skip && codeWf f b.temp b.code &&
  b.off.wf f.maxOffsetCodes f.offsetBits && b.cmds.all (cmdWf f b.code.table b.off)

def wf (f : Fmt) (bs : List Block) : Bool := bs.all (blockWf f)

end LhasaV.Spec.LhNewEnc
