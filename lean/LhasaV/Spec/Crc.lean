/-!
Specification: CRC-16/ARC, bit by bit.  Reflected polynomial 0xA001, zero
initial value, no final inversion.  Independent of the table.
-/
namespace LhasaV.Spec.Crc

def bitStep (c : BitVec 16) : BitVec 16 :=
  if c.getLsbD 0 then (c >>> 1) ^^^ 0xA001#16 else c >>> 1

def bit8 (c : BitVec 16) : BitVec 16 :=
  bitStep (bitStep (bitStep (bitStep (bitStep (bitStep (bitStep (bitStep c)))))))

def refStep (c : BitVec 16) (b : BitVec 8) : BitVec 16 := bit8 (c ^^^ b.zeroExtend 16)

def refBuf (c : BitVec 16) (bs : List UInt8) : BitVec 16 :=
  bs.foldl (fun c b => refStep c b.toBitVec) c

/-- CRC-16/ARC of a byte string. -/
def crc16arc (bs : List UInt8) : BitVec 16 := refBuf 0 bs

end LhasaV.Spec.Crc
