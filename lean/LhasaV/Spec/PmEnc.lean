import LhasaV.Spec.LhNewEnc
import LhasaV.Spec.Lzhuf
/-!
The stream formats of PMarc's -pm1- and -pm2-, written as ENCODERS from a
structured description (commands; for -pm2- the code tables transmitted at each
rebuild point) to bits, with the denotation of the commands.  All format
constants are stated here, independently of the C source (`Gen` is not imported):
the move-to-front byte order, the variable-length classes, the -pm1- position
thresholds and its 32 byte-class trees, the -pm2- rebuild schedule.

Both formats code a literal byte as its position in a move-to-front list of all
256 byte values (every output byte, copied ones included, moves to the front).
-/
namespace LhasaV.Spec.PmEnc
open LhasaV.Spec.Canon LhasaV.Spec.Lz77 LhasaV.Spec.LhNewEnc

/-! ### move-to-front list -/

/-- initial order: printable ASCII, control characters, then the upper half in three groups -/
def initOrder : List UInt8 :=
  ((List.range 96).map (fun i => UInt8.ofNat (0x20 + i))) ++
  ((List.range 32).map (fun i => UInt8.ofNat i)) ++
  ((List.range 64).map (fun i => UInt8.ofNat (0xa0 + i))) ++
  ((List.range 32).map (fun i => UInt8.ofNat (0x80 + i))) ++
  ((List.range 32).map (fun i => UInt8.ofNat (0xe0 + i)))

def mtfMove (l : List UInt8) (b : UInt8) : List UInt8 := b :: l.erase b

def mtfMoves (l : List UInt8) (bs : List UInt8) : List UInt8 := bs.foldl mtfMove l

/-- class index and (offset, width) of a value in a table of consecutive ranges -/
def classOf (table : List (Nat × Nat)) (v : Nat) : Option (Nat × Nat × Nat) :=
  (table.zipIdx.find? (fun e => decide (e.1.1 ≤ v ∧ v < e.1.1 + 2 ^ e.1.2))).map
    (fun e => (e.2, e.1.1, e.1.2))

/-- the bytes a copy of `n` bytes from `d + 1` back appends to the output `out` (window before the
output filled with `fill`); computed on arrays, equal to `(copyWin fill n d out).drop out.length` -/
def newBytes (fill : UInt8) (n d : Nat) (out : Array UInt8) : List UInt8 :=
  ((Spec.Lzhuf.copyWinA fill n d out).extract out.size (out.size + n)).toList

/-! ## -pm2- -/

/-- byte classes: (first position, extra bits) -/
def pm2ByteClasses : List (Nat × Nat) :=
  [(0, 3), (8, 3), (16, 4), (32, 5), (64, 5), (96, 5), (128, 6), (192, 6)]

/-- copy symbol (0..20) and extra bits of a copy length 2..256 -/
def pm2LenCode (n : Nat) (alt : Bool) : Option (Nat × List Bool) :=
  if alt then (if n = 256 then some (20, []) else none)
  else if n < 2 then none
  else if n ≤ 16 then some (n - 2, [])
  else if n ≤ 24 then some (15, bitsN 3 (n - 17))
  else if n ≤ 32 then some (16, bitsN 3 (n - 25))
  else if n ≤ 64 then some (17, bitsN 5 (n - 33))
  else if n ≤ 128 then some (18, bitsN 6 (n - 65))
  else if n ≤ 256 then some (19, bitsN 7 (n - 129))
  else none

/-- offset-tree symbol and extra bits of a distance below 8192 -/
def pm2OffCode (d : Nat) : Nat × List Bool :=
  if d < 64 then (0, bitsN 6 d) else (Nat.log2 d - 5, bitsN (Nat.log2 d) (d - 2 ^ Nat.log2 d))

inductive Cmd where
  | byte (b : UInt8)
  | copy (dist len : Nat) (alt : Bool)     -- alt: the dedicated code for "256 bytes at distance 0"
deriving Repr

/-- a code table as transmitted -/
inductive CodeSpec where
  | single (numCodes : Nat)                          -- min length 0: the one symbol `numCodes − 1`
  | lens (minLen lengthBits : Nat) (ls : List Nat)   -- `ls.length` codes
deriving Repr

/-- what is transmitted at one rebuild point -/
structure Rebuild where
  code : Option CodeSpec     -- `none`: flag bit 0 (only possible from 4096 bytes on)
  off : List Nat             -- offset code lengths (5, 6, 7 or 8 entries), sent only when needed
deriving Repr

structure Stream where
  first : Bool               -- the ignored leading bit
  rebuilds : List Rebuild    -- consumed in order: at 0, 1024, 2048, 4096, 8192, 12288, …
  cmds : List Cmd
deriving Repr

def codeSpecBits : CodeSpec → List Bool
  | .single n => bitsN 5 n ++ bitsN 3 0
  | .lens m lb ls => bitsN 5 ls.length ++ bitsN 3 m ++ bitsN 3 lb ++
      ls.flatMap (fun l => bitsN lb (if l = 0 then 0 else l - m + 1))

def codeSpecTable : CodeSpec → Table
  | .single n => .single (n - 1)
  | .lens _ _ ls => .lens ls

def codeSpecNeed : CodeSpec → Bool
  | .single n => decide (10 ≤ n) && !(n == 29)
  | .lens _ _ ls => decide (10 ≤ ls.length)

def codeSpecWf : CodeSpec → Bool
  | .single n => decide (1 ≤ n ∧ n ≤ 29)
  | .lens m lb ls => decide (1 ≤ m ∧ m ≤ 7 ∧ lb ≤ 7 ∧ 1 ≤ ls.length ∧ ls.length ≤ 31) && complete ls &&
      ls.all (fun l => decide (l = 0 ∨ (m ≤ l ∧ l - m + 1 < 2 ^ lb)))

/-- the offset table a list of transmitted lengths denotes (`none`: unusable) -/
def offTable (ls : List Nat) : Option Table :=
  match (ls.zipIdx.filter (fun e => e.1 ≠ 0)) with
  | [e] => some (.single e.2)
  | _ => if complete ls then some (.lens ls) else none

structure EncSt where
  out : Array UInt8 := #[]
  mtf : List UInt8 := initOrder
  code : Table := .single 0
  off : Option Table := none
  need : Bool := false
  phase : Nat := 0           -- number of rebuild points passed
  nextAt : Nat := 0          -- output count of the next rebuild point
  rebuilds : List Rebuild := []

/-- number of offset lengths sent at rebuild point `phase` -/
def numOffsets (phase : Nat) : Nat := if phase = 0 then 5 else if phase = 1 then 6 else if phase = 2 then 7 else 8

/-- distance to the following rebuild point -/
def phaseGap (phase : Nat) : Nat := if phase ≤ 1 then 1024 else if phase = 2 then 2048 else 4096

/-- the bits of rebuild point `st.phase` and the state after it -/
def rebuildBits (st : EncSt) : Option (List Bool × EncSt) :=
  match st.rebuilds with
  | [] => none
  | rb :: rest =>
    let ph := st.phase
    -- flag bit (from 4096 on) and code table
    let flag : Option (List Bool) :=
      if ph < 3 then (if ph = 0 then (if rb.code.isSome then some [] else none) else (if rb.code.isNone then some [] else none))
      else some [rb.code.isSome]
    match flag with
    | none => none
    | some fb =>
      if !(match rb.code with | some cs => codeSpecWf cs | none => true) then none else
      let cbits := match rb.code with | some cs => codeSpecBits cs | none => []
      let code' := match rb.code with | some cs => codeSpecTable cs | none => st.code
      let need' := match rb.code with | some cs => codeSpecNeed cs | none => st.need
      -- offset table: at points 0..3 whenever needed; later only together with a new code table
      let sendOff := need' && (decide (ph ≤ 3) || rb.code.isSome)
      if sendOff && rb.off.length != numOffsets ph then none
      else if sendOff && !(rb.off.all (fun l => decide (l < 8))) then none
      else
        let obits := if sendOff then rb.off.flatMap (bitsN 3) else []
        let off' := if sendOff then offTable rb.off else st.off
        some (fb ++ cbits ++ obits,
              { st with code := code', need := need', off := off', phase := ph + 1,
                        nextAt := st.nextAt + phaseGap ph, rebuilds := rest })

/-- bits of one command in state `st` (before any rebuild it triggers) and the bytes it produces -/
def cmdBits2 (st : EncSt) : Cmd → Option (List Bool × List UInt8)
  | .byte b =>
    let k := st.mtf.idxOf b
    match classOf pm2ByteClasses k with
    | none => none
    | some (c, lo, w) =>
      if st.code.has c then some (st.code.word c ++ bitsN w (k - lo), [b]) else none
  | .copy d n alt =>
    match pm2LenCode n alt with
    | none => none
    | some (c, ex) =>
      if !(st.code.has (8 + c)) || decide (8192 ≤ d) then none else
      let new := newBytes 0x20 n d st.out
      if c = 20 then (if d = 0 then some (st.code.word 28 ++ ex, new) else none)
      else if c = 0 then (if d < 64 then some (st.code.word 8 ++ bitsN 6 d, new) else none)
      else
        match st.off with
        | none => none
        | some ot =>
          let oc := pm2OffCode d
          if ot.has oc.1 then some (st.code.word (8 + c) ++ ex ++ ot.word oc.1 ++ oc.2, new) else none

def encLoop2 : List Cmd → EncSt → Option (List Bool)
  | [], _ => some []
  | c :: cs, st =>
    match cmdBits2 st c with
    | none => none
    | some (bits, new) =>
      let st1 := { st with out := st.out ++ new.toArray, mtf := mtfMoves st.mtf new }
      if st1.out.size ≥ st.nextAt then
        match rebuildBits st1 with
        | none => none
        | some (rb, st2) => (encLoop2 cs st2).map (fun t => bits ++ rb ++ t)
      else (encLoop2 cs st1).map (fun t => bits ++ t)

/-- the -pm2- bit stream of a description; `none`: not well-formed -/
def pm2Bits (s : Stream) : Option (List Bool) :=
  match rebuildBits { rebuilds := s.rebuilds } with
  | none => none
  | some (rb, st) => (encLoop2 s.cmds st).map (fun t => s.first :: rb ++ t)

def pm2Serialise (s : Stream) : Option (List UInt8) := (pm2Bits s).map packBits

def Cmd.denote : Cmd → WCmd
  | .byte b => .lit b
  | .copy d n _ => .copy d n

def pm2Expand (s : Stream) : List UInt8 := expandWin 0x20 (s.cmds.map Cmd.denote)

/-! ## -pm1- -/

/-- shape of a byte-class tree: leaves are the classes a..f = 0..5 -/
inductive T where
  | leaf (i : Nat)
  | node (l r : T)
deriving Repr

/-- every path (0 = left, 1 = right) ending in class `i` -/
def T.paths : T → Nat → List (List Bool)
  | .leaf j, i => if i = j then [[]] else []
  | .node l r, i => (l.paths i).map (false :: ·) ++ (r.paths i).map (true :: ·)

namespace TreeLit
abbrev a : T := .leaf 0
abbrev b : T := .leaf 1
abbrev c : T := .leaf 2
abbrev d : T := .leaf 3
abbrev e : T := .leaf 4
abbrev f : T := .leaf 5
abbrev n (l r : T) : T := .node l r
end TreeLit

open TreeLit in
/-- the 32 byte-class trees selectable by the 5-bit start header; `none` = index 31: class 0, no bits -/
def pm1Trees : List (Option T) := [
  some (n (n (n (n a b) c) d) (n e f)),
  some (n (n (n a b) (n c f)) (n d e)),
  some (n (n (n a b) c) (n d (n e f))),
  some (n (n a (n b c)) (n d (n e f))),
  some (n (n a (n b d)) (n c (n e f))),
  some (n (n a (n b (n e f))) (n c d)),
  some (n (n a b) (n (n c d) (n e f))),
  some (n (n a b) (n (n c (n e f)) d)),
  some (n (n a b) (n c (n d (n e f)))),
  some (n a (n (n (n b f) c) (n d e))),
  some (n a (n (n (n b (n e f)) c) d)),
  some (n a (n (n (n b c) d) (n e f))),
  some (n a (n (n b (n c f)) (n d e))),
  some (n a (n (n b c) (n d (n e f)))),
  some (n a (n (n b (n d (n e f))) c)),
  some (n a (n b (n (n c d) (n e f)))),
  some (n a (n b (n c (n d (n e f))))),
  some (n (n (n d e) c) (n d e)),          -- as PMarc has it ("broken": a, b unreachable)
  some (n (n a (n b e)) (n c d)),
  some (n (n a b) (n c (n d e))),
  some (n a (n (n (n b e) c) d)),
  some (n a (n (n b c) (n d e))),
  some (n a (n (n b (n d e)) c)),
  some (n a (n b (n c (n d e)))),
  some (n (n (n a b) c) d),
  some (n (n a (n b d)) c),
  some (n (n a b) (n c d)),
  some (n a (n (n b d) c)),
  some (n a (n b (n c d))),
  some (n a (n b c)),
  some (n a b),
  none ]

/-- byte classes of -pm1-: (first position, extra bits) -/
def pm1ByteClasses : List (Nat × Nat) := [(0, 4), (16, 4), (32, 5), (64, 6), (128, 6), (192, 6)]

/-- length of a byte block, 1..216 -/
def pm1BlockCount (n : Nat) : Option (List Bool) :=
  if n < 1 then none
  else if n ≤ 3 then some (bitsN 2 (n - 1))
  else if n ≤ 10 then some (bitsN 2 3 ++ bitsN 3 (n - 4))
  else if n ≤ 24 then some (bitsN 2 3 ++ bitsN 3 7 ++ bitsN 4 (n - 11))
  else if n ≤ 88 then some (bitsN 2 3 ++ bitsN 3 7 ++ bitsN 4 14 ++ bitsN 6 (n - 25))
  else if n ≤ 216 then some (bitsN 2 3 ++ bitsN 3 7 ++ bitsN 4 15 ++ bitsN 7 (n - 89))
  else none

/-- length of a copy of 3..244 bytes -/
def pm1CopyCount (n : Nat) : Option (List Bool) :=
  if n < 3 then none
  else if n ≤ 5 then some (bitsN 2 (n - 3))
  else if n ≤ 10 then some (bitsN 2 3 ++ bitsN 3 (n - 6))
  else if n ≤ 14 then some (bitsN 2 3 ++ bitsN 3 5 ++ bitsN 2 (n - 11))
  else if n ≤ 22 then some (bitsN 2 3 ++ bitsN 3 6 ++ bitsN 3 (n - 15))
  else if n ≤ 84 then some (bitsN 2 3 ++ bitsN 3 7 ++ bitsN 6 (n - 23))
  else if n ≤ 116 then some (bitsN 2 3 ++ bitsN 3 7 ++ bitsN 6 62 ++ bitsN 5 (n - 85))
  else if n ≤ 244 then some (bitsN 2 3 ++ bitsN 3 7 ++ bitsN 6 63 ++ bitsN 7 (n - 117))
  else none

/-- a copy of `len` bytes from `dist + 1` back, `pos` bytes having been produced: the type/range
prefix (its bits exist only from certain output positions on), the length, the distance in a field
whose width grows with the output position -/
def pm1CopyBits (pos dist len : Nat) : Option (List Bool) :=
  if pos ≤ dist then none
  else if len = 2 then
    if dist < 64 then
      some ([false] ++ (if 576 ≤ pos then [false] else []) ++ (if 64 ≤ pos then [false] else []) ++ bitsN 6 dist)
    else if dist < 320 then
      some ([false] ++ (if 576 ≤ pos then [false] else []) ++ [true] ++ bitsN 8 (dist - 64))
    else none
  else
    match pm1CopyCount len with
    | none => none
    | some cnt =>
      if dist < 64 then
        some ([true] ++ (if 64 ≤ pos then [true] else []) ++ (if 2624 ≤ pos then [true] else []) ++ cnt ++ bitsN 6 dist)
      else if dist < 576 then
        some ([true, false] ++ cnt ++ bitsN (if pos < 320 then 8 else 9) (dist - 64))
      else if dist < 2624 then
        some ([false, true] ++ cnt ++
          bitsN (if pos < 832 then 8 else if pos < 1088 then 9 else if pos < 1600 then 10 else 11) (dist - 576))
      else if dist < 10816 then
        some ([true, true, false] ++ cnt ++
          bitsN (if pos < 2880 then 8 else if pos < 3136 then 9 else if pos < 3648 then 10
                 else if pos < 4672 then 11 else if pos < 6720 then 12 else 13) (dist - 2624))
      else none

inductive Cmd1 where
  | copy (dist len : Nat)
  /-- 1..216 literal bytes (each with the choice of path where a tree offers several), followed by
  a copy unless the block has the maximal length 216 -/
  | block (bytes : List (UInt8 × Nat)) (copy : Option (Nat × Nat))
deriving Repr

structure Stream1 where
  tree : Nat                 -- 0..31
  cmds : List Cmd1
deriving Repr

/-- code of a byte at move-to-front position `k` under tree `t` -/
def pm1ByteBits (t : Option T) (k alt : Nat) : Option (List Bool) :=
  match classOf pm1ByteClasses k with
  | none => none
  | some (c, lo, w) =>
    match t with
    | none => if c = 0 then some (bitsN w (k - lo)) else none
    | some t =>
      match (t.paths c)[alt]? with
      | none => none
      | some p => some (p ++ bitsN w (k - lo))

def pm1Bytes (t : Option T) : List (UInt8 × Nat) → List UInt8 → Option (List Bool × List UInt8)
  | [], mtf => some ([], mtf)
  | (b, alt) :: rest, mtf =>
    match pm1ByteBits t (mtf.idxOf b) alt with
    | none => none
    | some bits => (pm1Bytes t rest (mtfMove mtf b)).map (fun r => (bits ++ r.1, r.2))

def pm1CopyStep (out : Array UInt8) (mtf : List UInt8) (dist len : Nat) :
    Option (List Bool × Array UInt8 × List UInt8) :=
  match pm1CopyBits out.size dist len with
  | none => none
  | some bits =>
    let new := newBytes 0 len dist out
    some (bits, out ++ new.toArray, mtfMoves mtf new)

def encLoop1 (t : Option T) : List Cmd1 → Array UInt8 → List UInt8 → Option (List Bool)
  | [], _, _ => some []
  | .copy dist len :: cs, out, mtf =>
    match pm1CopyStep out mtf dist len with
    | none => none
    | some (bits, out', mtf') => (encLoop1 t cs out' mtf').map (fun r => false :: bits ++ r)
  | .block bytes cp :: cs, out, mtf =>
    match pm1BlockCount bytes.length, pm1Bytes t bytes mtf with
    | some cnt, some (bb, mtf1) =>
      let out1 := out ++ (bytes.map (·.1)).toArray
      if bytes.length = 216 then
        (if cp.isSome then none else (encLoop1 t cs out1 mtf1).map (fun r => true :: cnt ++ bb ++ r))
      else
        match cp with
        | none => none
        | some (dist, len) =>
          match pm1CopyStep out1 mtf1 dist len with
          | none => none
          | some (bits, out2, mtf2) => (encLoop1 t cs out2 mtf2).map (fun r => true :: cnt ++ bb ++ bits ++ r)
    | _, _ => none

def pm1Bits (s : Stream1) : Option (List Bool) :=
  match pm1Trees[s.tree]? with
  | none => none
  | some t => (encLoop1 t s.cmds #[] initOrder).map (fun r => bitsN 5 s.tree ++ r)

def pm1Serialise (s : Stream1) : Option (List UInt8) := (pm1Bits s).map packBits

def Cmd1.denote : Cmd1 → List WCmd
  | .copy dd nn => [.copy dd nn]
  | .block bytes cp => bytes.map (fun x => WCmd.lit x.1) ++ (match cp with | some (dd, nn) => [.copy dd nn] | none => [])

def pm1Expand (s : Stream1) : List UInt8 := expandWin 0 (s.cmds.flatMap Cmd1.denote)

end LhasaV.Spec.PmEnc
