import LhasaV.Spec.Lz77
/-!
# LZHUF (Yoshizaki / Okumura 1988): the adaptive Huffman scheme of LHarc's -lh1-

A literal transcription of the Huffman half of the classic `LZHUF.C`, used as the
*specification* of the -lh1- compressed format (property C02).  The C decoder under
verification (`lib/lh1_decoder.c`) keeps the same tree in a different data structure
(descending order, explicit frequency groups); the expected relation between the two is
the mirror map `i ↔ R − i = 626 − i` on node indices (`son[i]` here is
`626 − child_index` there, `freq` is `freq`, leaf `c` is `son = c + T` here and
`leaf = 1, child_index = c` there).  Nothing in this file is derived from the decoder.

What is transcribed and how:

* `freq[T+1]`, `prnt[T+N_CHAR]`, `son[T]` are `Array Nat` of exactly these sizes; the
  C variables are 16-bit `unsigned`/`int`.  No arithmetic can wrap: a frequency never exceeds
  `MAX_FREQ = 0x8000` (the root is the largest and `update` rebuilds the tree when the root
  reaches `MAX_FREQ`, before incrementing), the sentinel is `0xffff`, indices are `< 941`.
  Reads are `getD · 0`, writes `setIfInBounds`; all indices are in range in every reachable
  state (not needed for totality).
* Loops: `for` loops with a constant trip count are structural recursions on the number of
  rounds left.  The data dependent loops carry explicit fuel; the bound is justified at each
  definition.
* Bit I/O.  `Putcode`/`EncodeEnd` (16-bit `putbuf`, `putlen`) write bits MSB first and pad
  the last byte with zeros: modelled as a `List Bool` packed by `pack`.  `GetBit`/`GetByte`
  (16-bit `getbuf`, `getlen`) read bits MSB first and deliver **zero bits after the end of
  the input** (`if ((i = getc(infile)) < 0) i = 0;`): modelled by `bitAt`.
* `EncodeChar` accumulates the code in a 16-bit word (`i >>= 1; if (k & 1) i += 0x8000;`)
  and hands it to `Putcode(j, i)`.  For `j ≤ 16` the bits written are exactly the list
  `codeBits` (root-to-leaf order, bit = `node & 1`).  For `j > 16` — possible: a Huffman
  tree of total weight `0x8000` can be 20 levels deep, `tools/difftest_lh1.py` produces
  such trees — the original silently loses the leaf-end bits; the specification is the
  intended code, the whole root-to-leaf path.

## The -lh1- stream

LHarc's -lh1- is the LZHUF stream without the 4-byte `textsize` prefix (the length is in
the archive header): symbols `0..255` are literals, `256..313` a copy of length
`sym − 253` (`3..60`) followed by `EncodePosition` of the distance (`0..4095`, the copy
starts `distance + 1` bytes back; the window initially holds spaces).

### Padding
`EncodeEnd` writes the pending bits padded with zeros to a byte, nothing more.  That is
enough for lhasa's decoder as well: `read_offset` does `peek_bits(8)`, which fails only when
fewer than 8 bits are left *in total* (`peek_bits` accepts a short answer from the
callback as long as it is not empty), and a position code is `p_len + 6 ≥ 9` bits long, so
a complete position always leaves `≥ 8` bits to peek at.  No extra zero byte is needed and
`encode` does not add one (checked by `tools/difftest_lh1.py`: streams ending in a copy
with a 3-bit position code that ends exactly on a byte boundary).  Trailing zero bytes are
harmless for a reader that stops at the declared length.
-/
namespace LhasaV.Spec.Lzhuf
open LhasaV.Spec.Lz77

/-! ### constants -/

/-- `#define N 4096` buffer size -/
abbrev N : Nat := 4096
/-- `#define F 60` lookahead buffer size = longest match -/
abbrev F : Nat := 60
abbrev THRESHOLD : Nat := 2
/-- kinds of characters (character code = `0..N_CHAR-1`): 314 -/
abbrev N_CHAR : Nat := 256 - THRESHOLD + F
/-- size of table: 627 -/
abbrev T : Nat := N_CHAR * 2 - 1
/-- position of root: 626 -/
abbrev R : Nat := T - 1
/-- the tree is rebuilt when the root frequency comes to this value -/
abbrev MAX_FREQ : Nat := 0x8000

/-! ### tables for the upper 6 bits of a position -/

/-- for encoding: code lengths -/
def p_len : Array Nat := #[
    0x03, 0x04, 0x04, 0x04, 0x05, 0x05, 0x05, 0x05,
    0x05, 0x05, 0x05, 0x05, 0x06, 0x06, 0x06, 0x06,
    0x06, 0x06, 0x06, 0x06, 0x06, 0x06, 0x06, 0x06,
    0x07, 0x07, 0x07, 0x07, 0x07, 0x07, 0x07, 0x07,
    0x07, 0x07, 0x07, 0x07, 0x07, 0x07, 0x07, 0x07,
    0x07, 0x07, 0x07, 0x07, 0x07, 0x07, 0x07, 0x07,
    0x08, 0x08, 0x08, 0x08, 0x08, 0x08, 0x08, 0x08,
    0x08, 0x08, 0x08, 0x08, 0x08, 0x08, 0x08, 0x08]

/-- for encoding: codes, left aligned in a byte -/
def p_code : Array Nat := #[
    0x00, 0x20, 0x30, 0x40, 0x50, 0x58, 0x60, 0x68,
    0x70, 0x78, 0x80, 0x88, 0x90, 0x94, 0x98, 0x9C,
    0xA0, 0xA4, 0xA8, 0xAC, 0xB0, 0xB4, 0xB8, 0xBC,
    0xC0, 0xC2, 0xC4, 0xC6, 0xC8, 0xCA, 0xCC, 0xCE,
    0xD0, 0xD2, 0xD4, 0xD6, 0xD8, 0xDA, 0xDC, 0xDE,
    0xE0, 0xE2, 0xE4, 0xE6, 0xE8, 0xEA, 0xEC, 0xEE,
    0xF0, 0xF1, 0xF2, 0xF3, 0xF4, 0xF5, 0xF6, 0xF7,
    0xF8, 0xF9, 0xFA, 0xFB, 0xFC, 0xFD, 0xFE, 0xFF]

/-- for decoding: next 8 bits ↦ upper 6 bits of the position -/
def d_code : Array Nat := #[
    0x00, 0x00, 0x00, 0x00, 0x00, 0x00, 0x00, 0x00, 0x00, 0x00, 0x00, 0x00, 0x00, 0x00, 0x00, 0x00,
    0x00, 0x00, 0x00, 0x00, 0x00, 0x00, 0x00, 0x00, 0x00, 0x00, 0x00, 0x00, 0x00, 0x00, 0x00, 0x00,
    0x01, 0x01, 0x01, 0x01, 0x01, 0x01, 0x01, 0x01, 0x01, 0x01, 0x01, 0x01, 0x01, 0x01, 0x01, 0x01,
    0x02, 0x02, 0x02, 0x02, 0x02, 0x02, 0x02, 0x02, 0x02, 0x02, 0x02, 0x02, 0x02, 0x02, 0x02, 0x02,
    0x03, 0x03, 0x03, 0x03, 0x03, 0x03, 0x03, 0x03, 0x03, 0x03, 0x03, 0x03, 0x03, 0x03, 0x03, 0x03,
    0x04, 0x04, 0x04, 0x04, 0x04, 0x04, 0x04, 0x04, 0x05, 0x05, 0x05, 0x05, 0x05, 0x05, 0x05, 0x05,
    0x06, 0x06, 0x06, 0x06, 0x06, 0x06, 0x06, 0x06, 0x07, 0x07, 0x07, 0x07, 0x07, 0x07, 0x07, 0x07,
    0x08, 0x08, 0x08, 0x08, 0x08, 0x08, 0x08, 0x08, 0x09, 0x09, 0x09, 0x09, 0x09, 0x09, 0x09, 0x09,
    0x0A, 0x0A, 0x0A, 0x0A, 0x0A, 0x0A, 0x0A, 0x0A, 0x0B, 0x0B, 0x0B, 0x0B, 0x0B, 0x0B, 0x0B, 0x0B,
    0x0C, 0x0C, 0x0C, 0x0C, 0x0D, 0x0D, 0x0D, 0x0D, 0x0E, 0x0E, 0x0E, 0x0E, 0x0F, 0x0F, 0x0F, 0x0F,
    0x10, 0x10, 0x10, 0x10, 0x11, 0x11, 0x11, 0x11, 0x12, 0x12, 0x12, 0x12, 0x13, 0x13, 0x13, 0x13,
    0x14, 0x14, 0x14, 0x14, 0x15, 0x15, 0x15, 0x15, 0x16, 0x16, 0x16, 0x16, 0x17, 0x17, 0x17, 0x17,
    0x18, 0x18, 0x19, 0x19, 0x1A, 0x1A, 0x1B, 0x1B, 0x1C, 0x1C, 0x1D, 0x1D, 0x1E, 0x1E, 0x1F, 0x1F,
    0x20, 0x20, 0x21, 0x21, 0x22, 0x22, 0x23, 0x23, 0x24, 0x24, 0x25, 0x25, 0x26, 0x26, 0x27, 0x27,
    0x28, 0x28, 0x29, 0x29, 0x2A, 0x2A, 0x2B, 0x2B, 0x2C, 0x2C, 0x2D, 0x2D, 0x2E, 0x2E, 0x2F, 0x2F,
    0x30, 0x31, 0x32, 0x33, 0x34, 0x35, 0x36, 0x37, 0x38, 0x39, 0x3A, 0x3B, 0x3C, 0x3D, 0x3E, 0x3F]

/-- for decoding: next 8 bits ↦ length of the code of the upper 6 bits -/
def d_len : Array Nat := #[
    0x03, 0x03, 0x03, 0x03, 0x03, 0x03, 0x03, 0x03, 0x03, 0x03, 0x03, 0x03, 0x03, 0x03, 0x03, 0x03,
    0x03, 0x03, 0x03, 0x03, 0x03, 0x03, 0x03, 0x03, 0x03, 0x03, 0x03, 0x03, 0x03, 0x03, 0x03, 0x03,
    0x04, 0x04, 0x04, 0x04, 0x04, 0x04, 0x04, 0x04, 0x04, 0x04, 0x04, 0x04, 0x04, 0x04, 0x04, 0x04,
    0x04, 0x04, 0x04, 0x04, 0x04, 0x04, 0x04, 0x04, 0x04, 0x04, 0x04, 0x04, 0x04, 0x04, 0x04, 0x04,
    0x04, 0x04, 0x04, 0x04, 0x04, 0x04, 0x04, 0x04, 0x04, 0x04, 0x04, 0x04, 0x04, 0x04, 0x04, 0x04,
    0x05, 0x05, 0x05, 0x05, 0x05, 0x05, 0x05, 0x05, 0x05, 0x05, 0x05, 0x05, 0x05, 0x05, 0x05, 0x05,
    0x05, 0x05, 0x05, 0x05, 0x05, 0x05, 0x05, 0x05, 0x05, 0x05, 0x05, 0x05, 0x05, 0x05, 0x05, 0x05,
    0x05, 0x05, 0x05, 0x05, 0x05, 0x05, 0x05, 0x05, 0x05, 0x05, 0x05, 0x05, 0x05, 0x05, 0x05, 0x05,
    0x05, 0x05, 0x05, 0x05, 0x05, 0x05, 0x05, 0x05, 0x05, 0x05, 0x05, 0x05, 0x05, 0x05, 0x05, 0x05,
    0x06, 0x06, 0x06, 0x06, 0x06, 0x06, 0x06, 0x06, 0x06, 0x06, 0x06, 0x06, 0x06, 0x06, 0x06, 0x06,
    0x06, 0x06, 0x06, 0x06, 0x06, 0x06, 0x06, 0x06, 0x06, 0x06, 0x06, 0x06, 0x06, 0x06, 0x06, 0x06,
    0x06, 0x06, 0x06, 0x06, 0x06, 0x06, 0x06, 0x06, 0x06, 0x06, 0x06, 0x06, 0x06, 0x06, 0x06, 0x06,
    0x07, 0x07, 0x07, 0x07, 0x07, 0x07, 0x07, 0x07, 0x07, 0x07, 0x07, 0x07, 0x07, 0x07, 0x07, 0x07,
    0x07, 0x07, 0x07, 0x07, 0x07, 0x07, 0x07, 0x07, 0x07, 0x07, 0x07, 0x07, 0x07, 0x07, 0x07, 0x07,
    0x07, 0x07, 0x07, 0x07, 0x07, 0x07, 0x07, 0x07, 0x07, 0x07, 0x07, 0x07, 0x07, 0x07, 0x07, 0x07,
    0x08, 0x08, 0x08, 0x08, 0x08, 0x08, 0x08, 0x08, 0x08, 0x08, 0x08, 0x08, 0x08, 0x08, 0x08, 0x08]

/-- the decoding tables are the inverse of the encoding tables: every byte `v` starts with the
`p_len[d_code[v]]`-bit code of `d_code[v]`, and `d_len` is that length -/
def tablesConsistent : Bool :=
  p_len.size == 64 && p_code.size == 64 && d_code.size == 256 && d_len.size == 256 &&
  (List.range 256).all (fun v =>
    let u := d_code.getD v 99
    let l := p_len.getD u 0
    d_len.getD v 0 == l && 3 ≤ l && l ≤ 8 && v / 2 ^ (8 - l) == p_code.getD u 0 / 2 ^ (8 - l))

theorem tablesConsistent_true : tablesConsistent = true := by decide +kernel

/-! ### the tree -/

/-- `freq` : frequency table, `T + 1` entries (ascending; `freq[T]` is a sentinel);
`prnt` : pointers to parent nodes, except for the elements `[T..T + N_CHAR - 1]` which are
used to get the positions of leaves corresponding to the codes; `son` : pointers to child
nodes (`son[]`, `son[] + 1`), a value `≥ T` marks a leaf of character `son − T`. -/
structure TreeState where
  freq : Array Nat
  prnt : Array Nat
  son : Array Nat
deriving Repr, BEq, Inhabited

/-- `for (i = 0; i < N_CHAR; i++) { freq[i] = 1; son[i] = i + T; prnt[i + T] = i; }`;
first argument: rounds left -/
def startLeaves : Nat → Nat → Array Nat → Array Nat → Array Nat → TreeState
  | 0, _, freq, prnt, son => ⟨freq, prnt, son⟩
  | n+1, i, freq, prnt, son =>
    startLeaves n (i + 1) (freq.setIfInBounds i 1) (prnt.setIfInBounds (i + T) i) (son.setIfInBounds i (i + T))

/-- `i = 0; j = N_CHAR; while (j <= R) { freq[j] = freq[i] + freq[i + 1]; son[j] = i;
prnt[i] = prnt[i + 1] = j; i += 2; j++; }`; first argument: rounds left (`R + 1 − j`) -/
def startInner : Nat → Nat → Nat → Array Nat → Array Nat → Array Nat → TreeState
  | 0, _, _, freq, prnt, son => ⟨freq, prnt, son⟩
  | n+1, i, j, freq, prnt, son =>
    let f := freq.getD i 0 + freq.getD (i + 1) 0
    startInner n (i + 2) (j + 1) (freq.setIfInBounds j f)
      ((prnt.setIfInBounds (i + 1) j).setIfInBounds i j) (son.setIfInBounds j i)

/-- `StartHuff`: initialization of tree -/
def startHuff : TreeState :=
  let s := startLeaves N_CHAR 0 (Array.replicate (T + 1) 0) (Array.replicate (T + N_CHAR) 0) (Array.replicate T 0)
  let s := startInner (R + 1 - N_CHAR) 0 N_CHAR s.freq s.prnt s.son
  { freq := s.freq.setIfInBounds T 0xffff, prnt := s.prnt.setIfInBounds R 0, son := s.son }

/-! ### `reconst` -/

/-- collect leaf nodes in the first half of the table and replace the freq by `(freq + 1) / 2`:
`j = 0; for (i = 0; i < T; i++) if (son[i] >= T) { freq[j] = (freq[i] + 1) / 2; son[j] = son[i]; j++; }`;
first argument: rounds left -/
def collectLeaves : Nat → Nat → Nat → Array Nat → Array Nat → Array Nat × Array Nat
  | 0, _, _, freq, son => (freq, son)
  | n+1, i, j, freq, son =>
    if son.getD i 0 ≥ T then
      let f := (freq.getD i 0 + 1) / 2
      let c := son.getD i 0
      collectLeaves n (i + 1) (j + 1) (freq.setIfInBounds j f) (son.setIfInBounds j c)
    else collectLeaves n (i + 1) j freq son

/-- `for (k = j - 1; f < freq[k]; k--);` called with `j − 1`; the result is the final `k`.
Structural in `k`: the case `k = 0` returns `0` without looking at `freq[0]`; the C would stop
there too, because in `reconst` `f = freq[i] + freq[i+1]` and the table is ascending below
`j`, hence `f ≥ freq[i+1] ≥ freq[0]`: the scan never runs below `i + 1`. -/
def scanDown (freq : Array Nat) (f : Nat) : Nat → Nat
  | 0 => 0
  | k+1 => if f < freq.getD (k + 1) 0 then scanDown freq f k else k + 1

/-- `memmove(&a[k + 1], &a[k], n * sizeof a[0])` (`l = (j - k) * 2` bytes of 2-byte elements,
`n = j − k`): overlapping move one slot up, `a[m] = a[m-1]` for `m = k+n, …, k+1` -/
def shiftUp (k : Nat) : Nat → Array Nat → Array Nat
  | 0, a => a
  | n+1, a => shiftUp k n (a.setIfInBounds (k + n + 1) (a.getD (k + n) 0))

/-- begin constructing tree by connecting sons:
```
for (i = 0, j = N_CHAR; j < T; i += 2, j++) {
    k = i + 1;
    f = freq[j] = freq[i] + freq[k];
    for (k = j - 1; f < freq[k]; k--);
    k++;
    l = (j - k) * 2;
    memmove(&freq[k + 1], &freq[k], l);  freq[k] = f;
    memmove(&son[k + 1], &son[k], l);    son[k] = i;
}
```
first argument: rounds left (`T − j`) -/
def buildInner : Nat → Nat → Nat → Array Nat → Array Nat → Array Nat × Array Nat
  | 0, _, _, freq, son => (freq, son)
  | n+1, i, j, freq, son =>
    let f := freq.getD i 0 + freq.getD (i + 1) 0
    let freq := freq.setIfInBounds j f
    let k := scanDown freq f (j - 1) + 1
    let freq := (shiftUp k (j - k) freq).setIfInBounds k f
    let son := (shiftUp k (j - k) son).setIfInBounds k i
    buildInner n (i + 2) (j + 1) freq son

/-- connect prnt:
`for (i = 0; i < T; i++) if ((k = son[i]) >= T) prnt[k] = i; else prnt[k] = prnt[k + 1] = i;`;
first argument: rounds left -/
def connectPrnt : Nat → Nat → Array Nat → Array Nat → Array Nat
  | 0, _, _, prnt => prnt
  | n+1, i, son, prnt =>
    let k := son.getD i 0
    if k ≥ T then connectPrnt n (i + 1) son (prnt.setIfInBounds k i)
    else connectPrnt n (i + 1) son ((prnt.setIfInBounds (k + 1) i).setIfInBounds k i)

/-- `reconst`: reconstruction of tree -/
def reconst (s : TreeState) : TreeState :=
  match s with
  | ⟨freq, prnt, son⟩ =>
    let (freq, son) := collectLeaves T 0 0 freq son
    let (freq, son) := buildInner (T - N_CHAR) 0 N_CHAR freq son
    let prnt := connectPrnt T 0 son prnt
    ⟨freq, prnt, son⟩

/-! ### `update` -/

/-- `while (k > freq[++l]);` started at `l`; the result is the final `l` (the first index above
the start whose frequency is `≥ k`).  Fuel: `l` only grows and the scan stops at the sentinel
`freq[T] = 0xffff ≥ k` at the latest, so `T` rounds suffice. -/
def scanUp (freq : Array Nat) (k : Nat) : Nat → Nat → Nat
  | 0, l => l + 1
  | fuel+1, l => if k > freq.getD (l + 1) 0 then scanUp freq k fuel (l + 1) else l + 1

/-- the exchange of nodes `c` and `l` in `update` (`k` = the new frequency of `c`):
```
freq[c] = freq[l]; freq[l] = k;
i = son[c]; prnt[i] = l; if (i < T) prnt[i + 1] = l;
j = son[l]; son[l] = i;
prnt[j] = c; if (j < T) prnt[j + 1] = c;
son[c] = j;
```
-/
def exchange (c l k : Nat) (freq prnt son : Array Nat) : TreeState :=
  let fl := freq.getD l 0
  let freq := freq.setIfInBounds c fl
  let freq := freq.setIfInBounds l k
  let i := son.getD c 0
  let prnt := prnt.setIfInBounds i l
  let prnt := if i < T then prnt.setIfInBounds (i + 1) l else prnt
  let j := son.getD l 0
  let son := son.setIfInBounds l i
  let prnt := prnt.setIfInBounds j c
  let prnt := if j < T then prnt.setIfInBounds (j + 1) c else prnt
  let son := son.setIfInBounds c j
  ⟨freq, prnt, son⟩

/-- the `do { … } while ((c = prnt[c]) != 0);` loop of `update` (repeat up to root):
```
k = ++freq[c];
/* if the order is disturbed, exchange nodes */
if (k > freq[l = c + 1]) {
    while (k > freq[++l]);
    l--;
    … exchange c and l …
    c = l;
}
```
Fuel: a parent has a larger index than its sons (`son[p] < p` in ascending order) and
`l > c`, so `c` strictly grows from round to round and is `≤ R`: at most `T` rounds. -/
def updateLoop : Nat → Nat → Array Nat → Array Nat → Array Nat → TreeState
  | 0, _, freq, prnt, son => ⟨freq, prnt, son⟩
  | fuel+1, c, freq, prnt, son =>
    let k := freq.getD c 0 + 1
    let freq := freq.setIfInBounds c k
    if k > freq.getD (c + 1) 0 then
      let l := scanUp freq k T (c + 1) - 1
      match exchange c l k freq prnt son with
      | ⟨freq, prnt, son⟩ =>
        let c := prnt.getD l 0
        if c ≠ 0 then updateLoop fuel c freq prnt son else ⟨freq, prnt, son⟩
    else
      let c := prnt.getD c 0
      if c ≠ 0 then updateLoop fuel c freq prnt son else ⟨freq, prnt, son⟩

/-- `update(c)`: increment frequency of given code by one, and update tree -/
def update (s : TreeState) (c : Nat) : TreeState :=
  let s := if s.freq.getD R 0 = MAX_FREQ then reconst s else s
  match s with
  | ⟨freq, prnt, son⟩ => updateLoop T (prnt.getD (c + T) 0) freq prnt son

/-- spec-side tree evolution: the tree after the symbols `syms` (each `< N_CHAR`) -/
def run (syms : List Nat) : TreeState := syms.foldl update startHuff

/-! ### encoder -/

/-- `Putcode(l, c)`: output the upper `l` bits of the 16-bit word `c`, MSB first -/
def putcode (l c : Nat) : List Bool :=
  (List.range l).map (fun t => (c >>> (15 - t)) % 2 == 1)

/-- the code of the leaf `k = prnt[c + T]`, travelling from leaf to root:
`do { i >>= 1; if (k & 1) i += 0x8000; j++; } while ((k = prnt[k]) != R);`
("if node's address is odd-numbered, choose bigger brother node").  Shifting `i` right before
adding the new top bit puts later (closer to the root) bits in front: `Putcode(j, i)` emits
the path in root-to-leaf order, which is what prepending to `acc` produces.
Fuel: `k` strictly grows towards `R`, at most `T` rounds. -/
def codeLoop (prnt : Array Nat) : Nat → Nat → List Bool → List Bool
  | 0, _, acc => acc
  | fuel+1, k, acc =>
    let acc := (k % 2 == 1) :: acc
    let k := prnt.getD k 0
    if k ≠ R then codeLoop prnt fuel k acc else acc

/-- the bits `EncodeChar(c)` writes in the tree state `s` -/
def codeBits (s : TreeState) (c : Nat) : List Bool :=
  codeLoop s.prnt T (s.prnt.getD (c + T) 0) []

/-- `EncodeChar(c)`: bits written and the updated tree -/
def encodeChar (s : TreeState) (c : Nat) : List Bool × TreeState :=
  (codeBits s c, update s c)

/-- `EncodePosition(c)`: output upper 6 bits by table lookup
(`i = c >> 6; Putcode(p_len[i], (unsigned) p_code[i] << 8);`), then output lower 6 bits
verbatim (`Putcode(6, (c & 0x3f) << 10);`) -/
def encodePosition (c : Nat) : List Bool :=
  let i := c >>> 6
  putcode (p_len.getD i 0) (p_code.getD i 0 <<< 8) ++ putcode 6 ((c &&& 0x3f) <<< 10)

/-- length 3..60, distance 0..4095 -/
def valid : WCmd → Bool
  | .lit _ => true
  | .copy dist len => 3 ≤ len && len ≤ F && dist < N

/-- the character code of a command: `text_buf[r]` for a literal, `255 - THRESHOLD + match_length` for a match -/
def symOf : WCmd → Nat
  | .lit b => b.toNat
  | .copy _ len => 255 - THRESHOLD + len

/-- the symbols of a command list (what `run` consumes) -/
def symsOf (cmds : List WCmd) : List Nat := cmds.map symOf

/-- bits of one command in tree state `s`, appended to `acc` -/
def encodeCmd (s : TreeState) (c : WCmd) (acc : Array Bool) : Array Bool × TreeState :=
  let acc := acc ++ codeBits s (symOf c)
  let s := update s (symOf c)
  match c with
  | .lit _ => (acc, s)
  | .copy dist _ => (acc ++ encodePosition dist, s)

/-- main loop of `Encode` (the match finder replaced by the given commands), accumulating -/
def encodeGo : List WCmd → TreeState → Array Bool → Array Bool
  | [], _, acc => acc
  | c :: cs, s, acc =>
    let r := encodeCmd s c acc
    encodeGo cs r.2 r.1

/-- all the bits of the stream, before padding -/
def encodeBits (cmds : List WCmd) : List Bool := (encodeGo cmds startHuff #[]).toList

/-- `Putcode`'s byte assembly and `EncodeEnd`: MSB first, the last byte padded with zero bits.
`cur` = value of the `cnt < 8` pending bits -/
def packGo : List Bool → Nat → Nat → Array UInt8 → Array UInt8
  | [], cur, cnt, out => if cnt = 0 then out else out.push (UInt8.ofNat (cur * 2 ^ (8 - cnt)))
  | b :: bs, cur, cnt, out =>
    let cur := 2 * cur + (if b then 1 else 0)
    if cnt + 1 = 8 then packGo bs 0 0 (out.push (UInt8.ofNat cur)) else packGo bs cur (cnt + 1) out

def pack (bs : List Bool) : List UInt8 := (packGo bs 0 0 #[]).toList

/-- the -lh1- stream of a command list (meaningful when all commands are `valid`) -/
def encode (cmds : List WCmd) : List UInt8 := pack (encodeBits cmds)

/-! ### decoder -/

/-- bit number `p` of the input, MSB of byte 0 first; zero after the end of the input, as
`GetBit`/`GetByte` deliver (`if ((i = getc(infile)) < 0) i = 0;`) -/
def bitAt (inp : Array UInt8) (p : Nat) : Nat :=
  ((inp.getD (p / 8) 0).toNat >>> (7 - p % 8)) % 2

/-- `n` calls of `GetBit` accumulated as `v = (v << 1) + GetBit()`; returns `(v, new position)` -/
def getBits (inp : Array UInt8) : Nat → Nat → Nat → Nat × Nat
  | 0, v, p => (v, p)
  | n+1, v, p => getBits inp n ((v <<< 1) + bitAt inp p) (p + 1)

/-- the walk of `DecodeChar`: `c = son[R]; while (c < T) { c += GetBit(); c = son[c]; }`
(travel from root to leaf, choosing the smaller child node (`son[]`) if the read bit is 0, the
bigger (`son[] + 1`) if 1).  Fuel: `son[c] < c` for inner nodes, at most `T` rounds. -/
def decodeCharLoop (inp : Array UInt8) (son : Array Nat) : Nat → Nat → Nat → Nat × Nat
  | 0, c, p => (c, p)
  | fuel+1, c, p =>
    if c < T then decodeCharLoop inp son fuel (son.getD (c + bitAt inp p) 0) (p + 1) else (c, p)

/-- `DecodeChar`: `(character, new bit position, updated tree)` -/
def decodeChar (inp : Array UInt8) (s : TreeState) (p : Nat) : Nat × Nat × TreeState :=
  let r := decodeCharLoop inp s.son T (s.son.getD R 0) p
  let c := r.1 - T
  (c, r.2, update s c)

/-- `DecodePosition`: recover upper 6 bits from table
(`i = GetByte(); c = (unsigned) d_code[i] << 6; j = d_len[i];`), read lower 6 bits verbatim
(`j -= 2; while (j--) i = (i << 1) + GetBit(); return c | (i & 0x3f);`) -/
def decodePosition (inp : Array UInt8) (p : Nat) : Nat × Nat :=
  let b := getBits inp 8 0 p
  let i := b.1
  let c := d_code.getD i 0 <<< 6
  let j := d_len.getD i 0
  let r := getBits inp (j - 2) i b.2
  (c ||| (r.1 &&& 0x3f), r.2)

/-- main loop of `Decode`, producing commands instead of bytes:
```
for (count = 0; count < textsize; ) {
    c = DecodeChar();
    if (c < 256) { … count++; }
    else { i = (r - DecodePosition() - 1) & (N - 1); j = c - 255 + THRESHOLD; … count += j; }
}
```
Fuel: every round adds at least 1 to `count`, so `textsize` rounds suffice. -/
def decodeGo (inp : Array UInt8) (textsize : Nat) : Nat → Nat → Nat → TreeState → Array WCmd → Array WCmd
  | 0, _, _, _, acc => acc
  | fuel+1, count, p, s, acc =>
    if count < textsize then
      match decodeChar inp s p with
      | (c, p, s) =>
        if c < 256 then decodeGo inp textsize fuel (count + 1) p s (acc.push (.lit (UInt8.ofNat c)))
        else
          let d := decodePosition inp p
          let j := c - 255 + THRESHOLD
          decodeGo inp textsize fuel (count + j) d.2 s (acc.push (.copy d.1 j))
    else acc

/-- the commands `Decode` executes to produce `n` bytes -/
def decodeCmds (stream : List UInt8) (n : Nat) : List WCmd :=
  (decodeGo stream.toArray n n 0 0 startHuff #[]).toList

/-- the first `n` bytes `Decode` writes for the input `stream` and `textsize = n` (`Decode` itself
completes the last match, which may run past `textsize`; LHarc cuts at the recorded length) -/
def decode (stream : List UInt8) (n : Nat) : List UInt8 :=
  (expandWin 0x20 (decodeCmds stream n)).take n

/-! ### linear-time evaluation of `expandWin` (for the driver; proved equal) -/

def copyWinA (fill : UInt8) : Nat → Nat → Array UInt8 → Array UInt8
  | 0, _, out => out
  | n+1, dist, out =>
    copyWinA fill n dist (out.push (if dist < out.size then out.getD (out.size - 1 - dist) fill else fill))

def expandWinA (fill : UInt8) : List WCmd → Array UInt8 → Array UInt8
  | [], out => out
  | .lit b :: cs, out => expandWinA fill cs (out.push b)
  | .copy d n :: cs, out => expandWinA fill cs (copyWinA fill n d out)

theorem copyWinA_toList (fill : UInt8) (n dist : Nat) (out : Array UInt8) :
    (copyWinA fill n dist out).toList = copyWin fill n dist out.toList := by
  induction n generalizing out with
  | zero => simp [copyWinA, copyWin]
  | succ n ih =>
    simp only [copyWinA, copyWin, ih, Array.toList_push, winByte, Array.length_toList]
    congr 2
    by_cases h : dist < out.size
    · simp [h, Array.getD, List.getD]
      by_cases h2 : out.size - 1 - dist < out.size
      · simp [h2]
      · omega
    · simp [h]

theorem expandWinA_toList (fill : UInt8) (cs : List WCmd) (out : Array UInt8) :
    (expandWinA fill cs out).toList = expandWinFrom fill cs out.toList := by
  induction cs generalizing out with
  | nil => simp [expandWinA, expandWinFrom]
  | cons c cs ih =>
    cases c with
    | lit b => simp [expandWinA, expandWinFrom, ih]
    | copy d n => simp [expandWinA, expandWinFrom, ih, copyWinA_toList]

theorem expandWinA_eq (fill : UInt8) (cs : List WCmd) :
    (expandWinA fill cs #[]).toList = expandWin fill cs := by
  simp [expandWin, expandWinA_toList]

/-- `decode`, evaluated in linear time -/
def decodeA (stream : List UInt8) (n : Nat) : Array UInt8 :=
  (expandWinA 0x20 (decodeCmds stream n) #[]).extract 0 n

theorem decodeA_toList (stream : List UInt8) (n : Nat) :
    (decodeA stream n).toList = decode stream n := by
  simp [decodeA, decode, expandWinA_eq]

/-! ### instrumentation used by the differential test (not part of the format) -/

/-- number of `reconst` calls while processing `syms`, and the longest code written -/
def stats (syms : List Nat) : Nat × Nat × TreeState :=
  syms.foldl (fun (acc : Nat × Nat × TreeState) c =>
    match acc with
    | (rb, mx, s) =>
      let len := (codeBits s c).length
      let rb := if s.freq.getD R 0 = MAX_FREQ then rb + 1 else rb
      (rb, max mx len, update s c)) (0, 0, startHuff)

end LhasaV.Spec.Lzhuf
