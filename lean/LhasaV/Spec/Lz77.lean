import LhasaV.Model.Basic
/-!
Specifications of the LZ77-family semantics used by C01–C04.

* `expandRing`: LArc style (-lzs-, -lz5-): copies address ABSOLUTE ring positions; the ring has
  an initial content and a write position; copies may overlap the bytes being written and may
  read cells that were never written.
* `expandWin`: LHA style (-lh1-, -lh4..7-, -lhx-, -lk7-, -pm1-, -pm2-): copies address a DISTANCE
  back from the write position in a sliding window that starts filled with `fill`.
-/
namespace LhasaV.Spec.Lz77

/-- LArc command: a literal byte or a copy of `len` bytes from absolute ring position `pos` -/
inductive RCmd where
  | lit (b : UInt8)
  | copy (pos len : Nat)
deriving Repr, DecidableEq

/-- the abstract ring: a total function from positions to bytes -/
abbrev Ring := Nat → UInt8

def Ring.set (r : Ring) (i : Nat) (b : UInt8) : Ring := fun j => if j = i then b else r j

/-- copy `n` bytes starting at ring position `p` to the write position `w`, one byte at a time -/
def copyRing (size : Nat) : Nat → Nat → Nat → Ring → List UInt8 × Ring × Nat
  | 0, _, w, r => ([], r, w)
  | n+1, p, w, r =>
    let b := r (p % size)
    let rest := copyRing size n (p + 1) ((w + 1) % size) (r.set w b)
    (b :: rest.1, rest.2.1, rest.2.2)

/-- denotation of a command list over a ring of `size` cells with write position `w` -/
def expandRing (size : Nat) : List RCmd → Ring → Nat → List UInt8
  | [], _, _ => []
  | .lit b :: cs, r, w => b :: expandRing size cs (r.set w b) ((w + 1) % size)
  | .copy p n :: cs, r, w =>
    let c := copyRing size n p w r
    c.1 ++ expandRing size cs c.2.1 c.2.2

/-- the fixed LArc fill pattern of the 4 KiB -lz5- ring, in closed form -/
def lz5Init (i : Nat) : UInt8 :=
  if i < 3328 then UInt8.ofNat (i / 13)                 -- 256 runs of 13 equal bytes
  else if i < 3584 then UInt8.ofNat (i - 3328)          -- 0,1,…,255
  else if i < 3840 then UInt8.ofNat (255 - (i - 3584))  -- 255,254,…,0
  else if i < 3968 then 0                               -- 128 zeros
  else if i < 4078 then 0x20                            -- 110 spaces
  else 0                                                -- 18 zeros

def lzsInit (_ : Nat) : UInt8 := 0x20

/-- -lzs-: 2 KiB ring of spaces, write position 2048 − 17 -/
def expandLzs (cs : List RCmd) : List UInt8 := expandRing 2048 cs lzsInit (2048 - 17)
/-- -lz5-: 4 KiB ring with the LArc pattern, write position 4096 − 18 -/
def expandLz5 (cs : List RCmd) : List UInt8 := expandRing 4096 cs lz5Init (4096 - 18)

def validLzs : RCmd → Bool
  | .lit _ => true
  | .copy p n => decide (p < 2048 ∧ 2 ≤ n ∧ n ≤ 17)
def validLz5 : RCmd → Bool
  | .lit _ => true
  | .copy p n => decide (p < 4096 ∧ 3 ≤ n ∧ n ≤ 18)

/-! ### serialisers (the stream formats) -/

/-- `n`-bit big-endian field -/
def bitsN (n v : Nat) : List Bool := (List.range n).map (fun i => (v / 2 ^ (n - 1 - i)) % 2 = 1)

/-- pack bits MSB-first into bytes, zero padded -/
def packBits (bs : List Bool) : List UInt8 :=
  if h : bs = [] then [] else
  UInt8.ofNat (((bs.take 8) ++ List.replicate (8 - (bs.take 8).length) false).foldl
            (fun v b => 2 * v + (if b then 1 else 0)) 0) :: packBits (bs.drop 8)
termination_by bs.length
decreasing_by
  have : 0 < bs.length := List.length_pos_iff.mpr h
  simp; omega

/-- -lzs- bit stream: flag 1 + 8-bit literal | flag 0 + 11-bit position + 4-bit (length − 2) -/
def lzsBits : List RCmd → List Bool
  | [] => []
  | .lit b :: cs => true :: bitsN 8 b.toNat ++ lzsBits cs
  | .copy p n :: cs => false :: bitsN 11 p ++ bitsN 4 (n - 2) ++ lzsBits cs

def serialiseLzs (cs : List RCmd) : List UInt8 := packBits (lzsBits cs)

/-- body bytes of one -lz5- command -/
def lz5Body : RCmd → List UInt8
  | .lit b => [b]
  | .copy p n => [UInt8.ofNat (p % 256), UInt8.ofNat ((p / 256) * 16 + (n - 3))]

/-- flag byte of up to 8 commands: bit `j` set iff command `j` is a literal -/
def lz5Flag (g : List RCmd) : UInt8 :=
  UInt8.ofNat (((List.range g.length).zip g).foldl
    (fun v p => match p.2 with | .lit _ => v + 2 ^ p.1 | .copy _ _ => v) 0)

/-- -lz5- byte stream: groups of 8 commands, each preceded by its flag byte -/
def serialiseLz5 (cs : List RCmd) : List UInt8 :=
  if h : cs = [] then [] else
  lz5Flag (cs.take 8) :: ((cs.take 8).flatMap lz5Body) ++ serialiseLz5 (cs.drop 8)
termination_by cs.length
decreasing_by
  have : 0 < cs.length := List.length_pos_iff.mpr h
  simp; omega

/-! ### sliding-window (LHA / PMarc) semantics -/

/-- LHA command: literal or copy of `len` bytes from `dist + 1` bytes back -/
inductive WCmd where
  | lit (b : UInt8)
  | copy (dist len : Nat)
deriving Repr, DecidableEq

/-- byte at `dist + 1` positions before the end of `out`, the window before the output being `fill` -/
def winByte (fill : UInt8) (out : List UInt8) (dist : Nat) : UInt8 :=
  if dist < out.length then out.getD (out.length - 1 - dist) fill else fill

def copyWin (fill : UInt8) : Nat → Nat → List UInt8 → List UInt8
  | 0, _, out => out
  | n+1, dist, out => copyWin fill n dist (out ++ [winByte fill out dist])

/-- output so far ↦ output after the commands; distances must stay below the window size
for the ring implementation to agree (side condition of the theorems) -/
def expandWinFrom (fill : UInt8) : List WCmd → List UInt8 → List UInt8
  | [], out => out
  | .lit b :: cs, out => expandWinFrom fill cs (out ++ [b])
  | .copy d n :: cs, out => expandWinFrom fill cs (copyWin fill n d out)

def expandWin (fill : UInt8) (cs : List WCmd) : List UInt8 := expandWinFrom fill cs []

end LhasaV.Spec.Lz77
