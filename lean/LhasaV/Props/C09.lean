import LhasaV.Lemmas.Wrap
import LhasaV.Lemmas.LhNewSafe
import LhasaV.Lemmas.SmallSafe
import LhasaV.Lemmas.PmSafe
import LhasaV.Lemmas.Lh1Safe
import LhasaV.Model.Decoders
/-!
# C09 — no compressed data can make any decompressor touch invalid memory

`Dec.Reach D src n s`: `s` is the decoder state after `n` successful inner reads starting from
`D.init src`, for an ARBITRARY callback source `src` (any bytes, any chunking). In the models every
C array access (ring, code trees, `code_lengths[]`, static tables, history list) is a checked
access against the capacity taken from the compiled source (`Gen.Decoders`), and the tree builder
carries a ghost flag for writes outside the table; `fault` is what C would call undefined behaviour.
-/
namespace LhasaV.Props.C09
open LhasaV

/-- No read returns more bytes than were asked for — for EVERY inner decoder (all 14 methods and
any other), every state, every request size. -/
theorem wrap_le_asked {σ : Type} (rd : σ → List Byte × σ) (k : Nat) (s : Wrap.St σ) :
    (Wrap.read rd k s).1.1.length ≤ k := by
  have h2 : (if s.pos + k > s.length then s.length - s.pos else k) ≤ k := by split <;> omega
  have h1 := Wrap.fill_len rd (if s.pos + k > s.length then s.length - s.pos else k) s
  have h3 : (Wrap.read rd k s).1.1 = (Wrap.fill rd (if s.pos + k > s.length then s.length - s.pos else k) s).1 := by
    unfold Wrap.read
    simp only
    split <;> (split <;> rfl)
  rw [h3]; omega

/-! ### static-Huffman family: -lh4- -lh5- -lh6- -lh7- -lhx- -lk7- -/

/-- reachable states of the lh_new decoders satisfy the safety invariant -/
theorem lhnew_reach_inv (p : LhNew.Params) (hp : LhNew.GoodParams p) (src : Src) (n : Nat)
    (s : LhNew.St) (hs : Dec.Reach (LhNew.dec p) src n s) : LhNew.Inv p s :=
  Dec.reach_inv (LhNew.dec p) (LhNew.Inv p) (LhNew.init_inv p hp)
    (fun s h out s' hr => LhNew.read_inv p hp s h out s' hr) src n s hs

/-- for ANY input bytes, chunking and number of reads: the next inner read is not a fault
(no tree, ring, `code_lengths[]` index out of range, no tree write outside its table) and
produces at most 514 ≤ max_read bytes -/
theorem lhnew_no_fault (p : LhNew.Params) (hp : LhNew.GoodParams p) (src : Src) (n : Nat)
    (s : LhNew.St) (hs : Dec.Reach (LhNew.dec p) src n s) :
    (∀ w, LhNew.read p s ≠ .fault w) ∧
    (∀ out s', LhNew.read p s = .ok (out, s') → out.length ≤ 514) :=
  ⟨LhNew.read_no_fault p hp s (lhnew_reach_inv p hp src n s hs),
   fun out s' hr => LhNew.read_len p hp s (lhnew_reach_inv p hp src n s hs) out s' hr⟩

/-- the five parameter sets extracted from the source satisfy the side conditions
(capacities vs. table sizes vs. leaf bit): a shrunk array or changed macro breaks these -/
theorem lhnew_params_good : LhNew.GoodParams LhNew.lh5 ∧ LhNew.GoodParams LhNew.lh6 ∧
    LhNew.GoodParams LhNew.lh7 ∧ LhNew.GoodParams LhNew.lhx ∧ LhNew.GoodParams LhNew.lk7 :=
  ⟨LhNew.goodParams_lh5, LhNew.goodParams_lh6, LhNew.goodParams_lh7, LhNew.goodParams_lhx, LhNew.goodParams_lk7⟩

/-- 514 fits the output buffer of every lh_new instantiation (max_read from the compiled table) -/
theorem lhnew_max_read_ok : 514 ≤ Gen.lh5MaxRead ∧ 514 ≤ Gen.lh52MaxRead ∧ 514 ≤ Gen.lh6MaxRead ∧
    514 ≤ Gen.lh7MaxRead ∧ 514 ≤ Gen.lhxMaxRead ∧ 514 ≤ Gen.lk7MaxRead := by decide

/-! ### -lzs-, -lz5-, stored (-lh0- -lz4- -pm0-), -pm1-, -pm2- -/

theorem lzs_no_fault (src : Src) (n : Nat) (s : Lzs.St) (hs : Dec.Reach Lzs.dec src n s) :
    (∀ w, Lzs.read s ≠ .fault w) ∧ (∀ out s', Lzs.read s = .ok (out, s') → out.length ≤ Gen.lzsMaxRead) :=
  have hi := Dec.reach_inv Lzs.dec Lzs.Inv Lzs.init_inv (fun s h o s' hr => Lzs.read_inv s h o s' hr) src n s hs
  ⟨Lzs.read_no_fault s hi, fun out s' hr => Lzs.read_len s hi out s' hr⟩

theorem lz5_no_fault (src : Src) (n : Nat) (s : Lz5.St) (hs : Dec.Reach Lz5.dec src n s) :
    (∀ w, Lz5.read s ≠ .fault w) ∧ (∀ out s', Lz5.read s = .ok (out, s') → out.length ≤ Gen.lz5MaxRead) :=
  have hi := Dec.reach_inv Lz5.dec Lz5.Inv Lz5.init_inv (fun s h o s' hr => Lz5.read_inv s h o s' hr) src n s hs
  ⟨Lz5.read_no_fault s hi, fun out s' hr => Lz5.read_len s hi out s' hr⟩

theorem null_no_fault (src : Src) (n : Nat) (s : Src) (hs : Dec.Reach Null.dec src n s) :
    (∀ w, Null.read s ≠ .fault w) ∧ (∀ out s', Null.read s = .ok (out, s') → out.length ≤ Gen.nullMaxRead) :=
  have hi := Dec.reach_inv Null.dec Null.Inv Null.init_inv (fun s h o s' hr => Null.read_inv s h o s' hr) src n s hs
  ⟨Null.read_no_fault s hi, fun out s' hr => Null.read_len s hi out s' hr⟩

theorem pm2_no_fault (src : Src) (n : Nat) (s : Pm2.St) (hs : Dec.Reach Pm2.dec src n s) :
    (∀ w, Pm2.read s ≠ .fault w) ∧ (∀ out s', Pm2.read s = .ok (out, s') → out.length ≤ Gen.pm2MaxRead) :=
  have hi := Dec.reach_inv Pm2.dec Pm2.Inv Pm2.init_inv (fun s h o s' hr => Pm2.read_inv s h o s' hr) src n s hs
  ⟨Pm2.read_no_fault s hi, fun out s' hr => Pm2.read_len s hi out s' hr⟩

theorem pm1_no_fault (src : Src) (n : Nat) (s : Pm1.St) (hs : Dec.Reach Pm1.dec src n s) :
    (∀ w, Pm1.read s ≠ .fault w) ∧ (∀ out s', Pm1.read s = .ok (out, s') → out.length ≤ Gen.pm1MaxRead) :=
  have hi := Dec.reach_inv Pm1.dec Pm1.Inv Pm1.init_inv (fun s h o s' hr => Pm1.read_inv s h o s' hr) src n s hs
  ⟨Pm1.read_no_fault s hi, fun out s' hr => Pm1.read_len s hi out s' hr⟩

/-! ### -lh1- (adaptive Huffman, frequency groups, periodic rebuild) -/

/-- For ANY input bytes: the tree walk, `nodes[node_index - 1]`, the group free-list
(`alloc_group` / `free_group`), the parent chain to the root, the whole `reconstruct_tree` and the
offset lookup stay in bounds; at most 60 bytes per inner read. The invariant behind it
(`Lh1.Inv`): tree shape, frequencies sorted and equal to the sum of the children, groups = maximal
runs of equal frequency with their leaders, free list a permutation of the unused group ids. -/
theorem lh1_no_fault (src : Src) (n : Nat) (s : Res Lh1.St) (hs : Dec.Reach Lh1.dec src n s) :
    (∀ w, Lh1.dec.read s ≠ .fault w) ∧
    (∀ out s', Lh1.dec.read s = .ok (out, s') → out.length ≤ Gen.lh1MaxRead) :=
  ⟨Lh1.run_no_fault src n s hs, fun out s' hr => Lh1.read_len src n s hs out s' hr⟩

/-- every method name of `decoders[]` is served by one of the models above -/
theorem all_methods_covered :
    (Gen.decoderTable.map (·.1)) = ["-lz4-", "-lz5-", "-lzs-", "-lh0-", "-lh1-", "-lh4-", "-lh5-", "-lh6-",
      "-lh7-", "-lhx-", "-lk7-", "-pm0-", "-pm1-", "-pm2-"] ∧
    ∀ name ∈ Gen.decoderTable.map (·.1), (decoderFor name).isSome = true := by decide

/-- Non-vacuity of the reachability hypothesis: the initial state of every decoder is reachable. -/
example (src : Src) : Dec.Reach Pm2.dec src 0 (Pm2.dec.init src) ∧ Dec.Reach (LhNew.dec LhNew.lh5) src 0 (LhNew.init LhNew.lh5 src) :=
  ⟨rfl, rfl⟩

end LhasaV.Props.C09
