import LhasaV.Lemmas.Wrap
import LhasaV.Model.Decoders
/-!
# C09 — no compressed data can make any decompressor touch invalid memory
-/
namespace LhasaV.Props.C09
open LhasaV

/-- No read returns more bytes than were asked for — for EVERY inner decoder (all 14 methods and
any other), every state, every request size. -/
theorem wrap_le_asked {σ : Type} (rd : σ → List Byte × σ) (k : Nat) (s : Wrap.St σ) :
    (Wrap.read rd k s).1.1.length ≤ k := by
  have h2 : (if s.pos + k > s.length then s.length - s.pos else k) ≤ k := by split <;> omega
  have h1 := Wrap.fill_len rd (if s.pos + k > s.length then s.length - s.pos else k) s
  have h3 : (Wrap.read rd k s).1.1 = (Wrap.fill rd (if s.pos + k > s.length then s.length - s.pos else k) s).1 := by
    unfold Wrap.read
    simp only
    split <;> (split <;> rfl)
  rw [h3]; omega

end LhasaV.Props.C09
