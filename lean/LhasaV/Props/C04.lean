import LhasaV.Spec.PmEnc
import LhasaV.Model.Pm
/-!
# C04 — PMarc pm1 and pm2 decode every valid stream exactly
-/
namespace LhasaV.Props.C04
open LhasaV LhasaV.Spec.PmEnc

/-- The initial history list of `pma_common.c` (extracted from the compiled `init_history_list`)
is the move-to-front order of the format: walking `prev` from the head visits `initOrder`. -/
theorem init_history_is_initOrder :
    (List.range 256).map (fun k => Pma.find Pma.initHist k) = initOrder.map (fun b => Res.ok b.toNat) := by
  decide +kernel

end LhasaV.Props.C04
