import LhasaV.Lemmas.PmRT
import LhasaV.Lemmas.GenInit
/-!
# C04 — PMarc pm1 and pm2 decode every valid stream exactly

`Spec.PmEnc` states both stream formats as encoders of a structured description (`pm1Bits`,
`pm2Bits`: `none` = the description is not well-formed) with the denotation of the commands
(`pm1Expand`, `pm2Expand`); `Pm1`, `Pm2`, `Pma` are the decoder models of `pm1_decoder.c`,
`pm2_decoder.c`, `pma_common.c` over tables regenerated from the compiled source.
-/
namespace LhasaV.Props.C04
open LhasaV LhasaV.Spec.PmEnc LhasaV.Spec.Lz77

/-- The history linked list extracted from the compiled `init_history_list` is the move-to-front
order of the format. -/
theorem init_history_is_initOrder :
    (List.range 256).map (fun k => Pma.find Pma.initHist k) = initOrder.map (fun b => Res.ok b.toNat) := by
  decide +kernel

/-- the format constants of the spec are the tables of the compiled source -/
theorem tables_match_source :
    Gen.pm2HistoryDecode = pm2ByteClasses ∧ Gen.pm1ByteRanges = pm1ByteClasses ∧
    Gen.pm1CopyRanges = [(0, 6), (64, 8), (0, 6), (64, 9), (576, 11), (2624, 13), (64, 8), (576, 8), (576, 9),
      (576, 10), (2624, 8), (2624, 9), (2624, 10), (2624, 11), (2624, 12)] :=
  ⟨PmRT.pm2_classes_match, PmRT.pm1_classes_match, PmRT.pm1_copy_ranges_match⟩

/-- **The history list refines move-to-front**: for EVERY sequence of output bytes the doubly linked
list of `pma_common.c` is the move-to-front list of the format … -/
theorem history_refines_mtf (bs : List UInt8) :
    ∃ h', PmRT.updates Pma.initHist bs = .ok h' ∧ PmRT.HistRel h' (mtfMoves initOrder bs) :=
  PmRT.updates_init bs

/-- … and `find_in_history_list(count)` returns the byte at position `count` of it, in both walking
directions (forward for `count < 128`, backward otherwise). -/
theorem history_find (h : Pma.Hist) (l : List UInt8) (hr : PmRT.HistRel h l) (k : Nat) (hk : k < 256) :
    Pma.find h k = .ok (l.getD k 0).toNat := PmRT.find_spec h l hr k hk

/-- **The -pm2- rebuild schedule**: the tables are (re)read exactly when the output count reaches
1024, 2048, 4096, 8192 and every further 4096 — whatever command produces that byte, also in the
middle of a copy (`outputByte` is the per-byte step shared by literals and copies). -/
theorem pm2_schedule (s : Pm2.St) (b : UInt8) (p : Nat) (hs : PmRT.Sched s p)
    (hu : s.treeState ≠ .unbuilt) (s' : Pm2.St) (h : Pm2.outputByte s b = .ok s') :
    PmRT.Sched s' (p + 1) ∧ (s.rebuildRemaining - 1 = 0 ↔ PmRT.RebuildPoint (p + 1)) :=
  PmRT.outputByte_Sched s b p hs hu s' h

/-- all 32 byte-class trees of -pm1- (rows of `byte_decode_trees`, from the compiled source) decode
every path of the corresponding tree of the format to its class -/
theorem pm1_trees_ok : ∀ t, t < 32 → PmRT.treeOk t = true := PmRT.trees_ok

/-- **C04 for -pm1-, full statement.** For EVERY well-formed -pm1- description (any of the 32 start
headers, byte blocks and copies of every count and range class at every output position, both
paths of tree 17), any callback chunking, block size, read schedule and declared length up to the
length of the expansion: reading through the decoder API yields exactly the expansion. (Beyond its
input -pm1- decodes zero bits for ever by design, hence the bound on the declared length; the
decoder's 32-bit output counter bounds the expansion by 4 GiB.) -/
theorem pm1_decode_serialise (st : Stream1) (bits : List Bool) (h : pm1Bits st = some bits)
    (hlt : (pm1Expand st).length < 4294967296) (c n b : Nat) (ks : List Nat)
    (hn : n ≤ (pm1Expand st).length) :
    (Wrap.reads (Dec.total Pm1.dec) ks
        { inner := .ok (Pm1.init { data := (packBits bits).toArray, chunk := c }),
          length := n, blockSize := b }).1.1
      = (pm1Expand st).take (min ks.sum n) :=
  PmRT.pm1_reads st bits h hlt c n b ks hn

/-- **C04 for -pm2-, full statement.** For EVERY well-formed -pm2- description (commands of every
class, code and offset tables in every transmitted form at every rebuild point, rebuilds falling
inside copies), any chunking, block size, schedule and declared length up to the length of the
expansion: exactly the expansion. (-pm2- has no end marker, so the declared length delimits the
member: past it the zero padding would decode further.) -/
theorem pm2_decode_serialise (st : Stream) (bits : List Bool) (h : pm2Bits st = some bits) (c n b : Nat)
    (ks : List Nat) (hn : n ≤ (pm2Expand st).length) :
    (Wrap.reads (Dec.total Pm2.dec) ks
        { inner := .ok (Pm2.init { data := (packBits bits).toArray, chunk := c }),
          length := n, blockSize := b }).1.1
      = (pm2Expand st).take (min ks.sum n) :=
  PmRT.pm2_reads st bits h c n b ks hn

/-- **Translator tie for the initial state**: `lha_pm1_init` / `lha_pm2_decoder_init` of the working tree are RUN and what they built
is dumped into `Gen/Decoders.lean` on every run: pm1 clears its own state (ring of ZEROS, positions 0), pm2 starts with a ring of
spaces, position 0, nothing to rebuild, both trees bare leaves – the states the models' `init` build (the history list is
`init_history_list`'s, `Gen.pmaInitHistory`, which the model uses directly). -/
theorem pm_init_matches_source (src : Src) :
    ((Pm1.init src).ring = Array.replicate Gen.pm1RingCap 0 ∧ (Pm1.init src).pos = Gen.pm1InitRingPos ∧ (Pm1.init src).outPos = Gen.pm1InitOutputPos
      ∧ Gen.pm1InitRingAllZero = 1 ∧ Gen.pm1InitOk = 1)
    ∧ ((Pm2.init src).ring = Array.replicate Gen.pm2RingCap 0x20 ∧ (Pm2.init src).pos = Gen.pm2InitRingPos
      ∧ (Pm2.init src).rebuildRemaining = Gen.pm2InitRebuildRemaining
      ∧ (Pm2.init src).codeTree = Array.replicate Gen.pm2CodeTreeCap Gen.pm2LeafBit
      ∧ (Pm2.init src).offsetTree = Array.replicate Gen.pm2OffsetTreeCap Gen.pm2LeafBit
      ∧ Gen.pm2InitRingAllSpaces = 1 ∧ Gen.pm2InitTreesAllLeaf = 1 ∧ Gen.pm2InitOk = 1) :=
  GenInit.pm_init_matches_source src

end LhasaV.Props.C04
