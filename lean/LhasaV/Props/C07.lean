import LhasaV.Lemmas.ReaderLedger
import LhasaV.Props.C17
/-!
# C07 — a member is reported good only if its bytes match the recorded length and CRC-16
-/
namespace LhasaV.Props.C07
open LhasaV LhasaV.Reader

/-- `lha_reader_check` on a member of a supported method: the verdict is good IFF the bytes the
decoder handed out have the recorded length and their CRC equals the recorded CRC. -/
theorem check_iff {s : St} {c : HObj} {d : Dec} {info : Nat × Nat × Nat}
    (ht : s.currType = .normal) (hc : s.curr = some c) (hos : c.h.osType ≠ 0x6d)
    (hm : c.h.method ≠ "-lhd-".toUTF8.toList)
    (hd : decoderFor (methodName c.h) = some d) (hi : decoderInfo (methodName c.h) = some info) :
    (check s).1.1 = true ↔
      ((check s).1.2.length = c.h.length ∧ (Crc.buf 0 (check s).1.2).toNat = c.h.crc) :=
  Reader.check_iff ht hc hos hm hd hi

/-- … and that CRC is CRC-16/ARC (C17). -/
theorem check_iff_arc {s : St} {c : HObj} {d : Dec} {info : Nat × Nat × Nat}
    (ht : s.currType = .normal) (hc : s.curr = some c) (hos : c.h.osType ≠ 0x6d)
    (hm : c.h.method ≠ "-lhd-".toUTF8.toList)
    (hd : decoderFor (methodName c.h) = some d) (hi : decoderInfo (methodName c.h) = some info) :
    (check s).1.1 = true ↔
      ((check s).1.2.length = c.h.length ∧ (Spec.Crc.crc16arc (check s).1.2).toNat = c.h.crc) := by
  rw [← Props.C17.crc_is_arc]; exact Reader.check_iff ht hc hos hm hd hi

/-- the same for extraction when the output file could be opened -/
theorem extract_iff {s : St} {c : HObj} {d : Dec} {info : Nat × Nat × Nat}
    (ht : s.currType = .normal) (hc : s.curr = some c) (hos : c.h.osType ≠ 0x6d)
    (hm : c.h.method ≠ "-lhd-".toUTF8.toList)
    (hd : decoderFor (methodName c.h) = some d) (hi : decoderInfo (methodName c.h) = some info) :
    (extract s true).1.1 = true ↔
      ((extract s true).1.2.length = c.h.length ∧ (Crc.buf 0 (extract s true).1.2).toNat = c.h.crc) :=
  Reader.extract_file_iff ht hc hos hm hd hi

/-- any truncation (fewer bytes decoded than recorded) is reported as a failure -/
theorem truncation_bad {s : St} {c : HObj} {d : Dec} {info : Nat × Nat × Nat}
    (ht : s.currType = .normal) (hc : s.curr = some c) (hos : c.h.osType ≠ 0x6d)
    (hm : c.h.method ≠ "-lhd-".toUTF8.toList)
    (hd : decoderFor (methodName c.h) = some d) (hi : decoderInfo (methodName c.h) = some info)
    (hlt : (check s).1.2.length < c.h.length) : (check s).1.1 = false :=
  Reader.check_truncated ht hc hos hm hd hi hlt

/-- directories report good without decoding; nothing but an entry read from the stream is checked -/
theorem check_dir {s : St} {c : HObj} (ht : s.currType = .normal) (hc : s.curr = some c)
    (hm : c.h.method = "-lhd-".toUTF8.toList) : check s = ((true, []), s) :=
  Reader.check_dir ht hc hm

end LhasaV.Props.C07
