import LhasaV.Lemmas.ReaderLedger
import LhasaV.Props.C17
import LhasaV.Lemmas.CrcBurst
import LhasaV.Lemmas.MacProps
import LhasaV.Lemmas.MessagesProps
import LhasaV.Lemmas.ToolNoFaultT
import LhasaV.Lemmas.TestBytes
/-!
# C07 — a member is reported good only if its bytes match the recorded length and CRC-16
-/
namespace LhasaV.Props.C07
open LhasaV LhasaV.Reader

/-- `lha_reader_check` on a member of a supported method: the verdict is good IFF the bytes the
decoder handed out have the recorded length and their CRC equals the recorded CRC. -/
theorem check_iff {s : St} {c : HObj} {d : Dec} {info : Nat × Nat × Nat}
    (ht : s.currType = .normal) (hc : s.curr = some c) (hos : c.h.osType ≠ 0x6d)
    (hm : c.h.method ≠ "-lhd-".toUTF8.toList)
    (hd : decoderFor (methodName c.h) = some d) (hi : decoderInfo (methodName c.h) = some info) :
    (check s).1.1 = true ↔
      ((check s).1.2.length = c.h.length ∧ (Crc.buf 0 (check s).1.2).toNat = c.h.crc) :=
  Reader.check_iff ht hc hos hm hd hi

/-- … and that CRC is CRC-16/ARC (C17). -/
theorem check_iff_arc {s : St} {c : HObj} {d : Dec} {info : Nat × Nat × Nat}
    (ht : s.currType = .normal) (hc : s.curr = some c) (hos : c.h.osType ≠ 0x6d)
    (hm : c.h.method ≠ "-lhd-".toUTF8.toList)
    (hd : decoderFor (methodName c.h) = some d) (hi : decoderInfo (methodName c.h) = some info) :
    (check s).1.1 = true ↔
      ((check s).1.2.length = c.h.length ∧ (Spec.Crc.crc16arc (check s).1.2).toNat = c.h.crc) := by
  rw [← Props.C17.crc_is_arc]; exact Reader.check_iff ht hc hos hm hd hi

/-- the same for extraction when the output file could be opened -/
theorem extract_iff {s : St} {c : HObj} {d : Dec} {info : Nat × Nat × Nat}
    (ht : s.currType = .normal) (hc : s.curr = some c) (hos : c.h.osType ≠ 0x6d)
    (hm : c.h.method ≠ "-lhd-".toUTF8.toList)
    (hd : decoderFor (methodName c.h) = some d) (hi : decoderInfo (methodName c.h) = some info) :
    (extract s true).1.1 = true ↔
      ((extract s true).1.2.length = c.h.length ∧ (Crc.buf 0 (extract s true).1.2).toNat = c.h.crc) :=
  Reader.extract_file_iff ht hc hos hm hd hi

/-- any truncation (fewer bytes decoded than recorded) is reported as a failure -/
theorem truncation_bad {s : St} {c : HObj} {d : Dec} {info : Nat × Nat × Nat}
    (ht : s.currType = .normal) (hc : s.curr = some c) (hos : c.h.osType ≠ 0x6d)
    (hm : c.h.method ≠ "-lhd-".toUTF8.toList)
    (hd : decoderFor (methodName c.h) = some d) (hi : decoderInfo (methodName c.h) = some info)
    (hlt : (check s).1.2.length < c.h.length) : (check s).1.1 = false :=
  Reader.check_truncated ht hc hos hm hd hi hlt

/-- directories report good without decoding; nothing but an entry read from the stream is checked -/
theorem check_dir {s : St} {c : HObj} (ht : s.currType = .normal) (hc : s.curr = some c)
    (hm : c.h.method = "-lhd-".toUTF8.toList) : check s = ((true, []), s) :=
  Reader.check_dir ht hc hm

/-- **Every member, MacBinary pass-through included** (no hypothesis on the OS type): the verdict of
`lha_reader_check` is good IFF the complete output of the member's decoder (for a MacLHA member:
the whole stored container — header, forks, padding — which the pass-through decodes to its end
before the verdict) has the recorded length and CRC-16. -/
theorem check_iff_all {s : St} {c : HObj} {d : Dec} {info : Nat × Nat × Nat}
    (ht : s.currType = .normal) (hc : s.curr = some c)
    (hm : c.h.method ≠ "-lhd-".toUTF8.toList)
    (hd : decoderFor (methodName c.h) = some d) (hi : decoderInfo (methodName c.h) = some info) :
    (check s).1.1 = true ↔
      ((MacProps.innerBytes s c d).length = c.h.length ∧
       (Crc.buf 0 (MacProps.innerBytes s c d)).toNat = c.h.crc) :=
  MacProps.check_iff_inner ht hc hm hd hi

/-- the same for extraction when the output file could be opened -/
theorem extract_iff_all {s : St} {c : HObj} {d : Dec} {info : Nat × Nat × Nat}
    (ht : s.currType = .normal) (hc : s.curr = some c)
    (hm : c.h.method ≠ "-lhd-".toUTF8.toList)
    (hd : decoderFor (methodName c.h) = some d) (hi : decoderInfo (methodName c.h) = some info) :
    (extract s true).1.1 = true ↔
      ((MacProps.innerBytes s c d).length = c.h.length ∧
       (Crc.buf 0 (MacProps.innerBytes s c d)).toNat = c.h.crc) :=
  MacProps.extract_iff_inner ht hc hm hd hi

/-- any truncation is reported as a failure, Mac member or not -/
theorem truncation_bad_all {s : St} {c : HObj} {d : Dec} {info : Nat × Nat × Nat}
    (ht : s.currType = .normal) (hc : s.curr = some c)
    (hm : c.h.method ≠ "-lhd-".toUTF8.toList)
    (hd : decoderFor (methodName c.h) = some d) (hi : decoderInfo (methodName c.h) = some info)
    (hlt : (MacProps.innerBytes s c d).length < c.h.length) : (check s).1.1 = false :=
  MacProps.truncation_bad_inner ht hc hm hd hi hlt

/-- **Burst errors.** For EVERY start value, every byte string and every non-zero error pattern of the
same length whose set bits span at most 16 consecutive bit positions (in the order the CRC consumes
them), the checksum of the damaged data differs from the checksum of the original: stored data
damaged by such a burst can never be reported good. (16 is optimal: the 17-bit pattern 03 40 01
spells the generator polynomial.) -/
theorem crc16_burst (c : BitVec 16) (data e : List UInt8) (hlen : e.length = data.length)
    (hb : CrcBurst.IsBurst16 e) : Crc.buf c (CrcBurst.xorBytes data e) ≠ Crc.buf c data :=
  CrcBurst.crc16_burst c data e hlen hb

/-- the checksum is GF(2)-linear in the data: the effect of an error pattern does not depend on the data -/
theorem crc_linear (c : BitVec 16) (a e : List UInt8) (hlen : e.length = a.length) :
    Crc.buf c (CrcBurst.xorBytes a e) = Crc.buf c a ^^^ Crc.buf 0 e :=
  CrcBurst.crc_buf_xor c a e hlen

/-- a single flipped bit is always detected -/
theorem single_bit_detected (c : BitVec 16) (data e : List UInt8) (hlen : e.length = data.length) (p : Nat)
    (hp : CrcBurst.bitAt e p = true) (honly : ∀ i, CrcBurst.bitAt e i = true → i = p) :
    Crc.buf c (CrcBurst.xorBytes data e) ≠ Crc.buf c data :=
  CrcBurst.single_bit_detected c data e hlen p hp honly

/-! ## the tool: exit status of `lha t` / `lha x` (`Model/Messages.lean`) -/

/-- **Exit status.** For every archive, options, file-system state and answers: the tool exits 0
exactly when the run did not end in `exit(-1)`, nothing faulted, and EVERY member it handled had a
good verdict (`trace` = the (header, verdict) pairs in order) — one bad member anywhere makes the
status non-zero, not only the last. -/
theorem exit_status_iff (cmd : Messages.Cmd) (archive : Array UInt8) (o : Extract.Opts) (fs : Fs.St)
    (answers : Bytes) :
    Messages.exitStatus (Messages.run cmd archive o fs answers) = 0 ↔
      (Messages.run cmd archive o fs answers).aborted = false ∧
      (Messages.run cmd archive o fs answers).fault = false ∧
      ∀ e ∈ (Messages.run cmd archive o fs answers).trace, e.2 = true :=
  MessagesProps.exit_status_iff cmd archive o fs answers

/-- the members handled are exactly those the wildcard arguments select -/
theorem handled_members_selected (cmd : Messages.Cmd) (archive : Array UInt8) (o : Extract.Opts)
    (fs : Fs.St) (answers : Bytes) :
    ∀ e ∈ (Messages.run cmd archive o fs answers).trace, Glob.matchesFilter o.filters e.1 = true :=
  MessagesProps.trace_selected cmd archive o fs answers

/-- the progress bar is never wider than 58 marks, whatever the member's size -/
theorem progress_bar_width (n : Nat) :
    (n + (1 + n / Messages.maxProgressLen) - 1) / (1 + n / Messages.maxProgressLen) ≤ Messages.maxProgressLen :=
  MessagesProps.bar_width_le n

/-- **Exit status, closed form** (no fault can occur: C08): 255 after `exit(-1)`, else 0 if every
handled member was good, else 1 -/
theorem exit_status_cases (cmd : Messages.Cmd) (archive : Array UInt8) (o : Extract.Opts) (fs : Fs.St)
    (answers : Bytes) :
    Messages.exitStatus (Messages.run cmd archive o fs answers) =
      if (Messages.run cmd archive o fs answers).aborted then 255
      else if (Messages.run cmd archive o fs answers).trace.all (·.2) then 0 else 1 :=
  ToolNoFault.exit_status_cases cmd archive o fs answers

/-! ## end to end, on archive bytes

`archiveWith pk es`: the bytes an archiver writes for the entry list `es` (headers by the C05
encoder, data by the method's packer). `goodLine o pk e`: what `lha t` prints for an intact member
(progress bar + `name - Tested`; `VERIFY name` in a dry run; nothing at quiet ≥ 2). `badLine`: the
complete bar followed by `name - CRC error`. `damage es i pat`: the same archive with member `i`'s
DATA bytes XORed with `pat` (same size, headers and every other member unchanged: `damage_bytes`,
`damage_eq_xor`). `IsBurst16 pat`: the set bits of `pat` span at most 16 consecutive bit positions in
CRC bit order. `truncated pre e k`: the archive cut after `k` bytes of the data of its last member `e`. -/

open Header Extract GlobFs Contain ExtractTree ExtractTree.Sample Spec.HeaderEnc Reader ReaderIndep ArchiveOf PrintList MacProps Messages CrcBurst TestBytes in
/-- **`lha t` on an intact archive**, every option set, any entry order, every packer with a decoder
round trip: one (header, good) trace entry per selected entry in order, stdout exactly the good
lines, stderr empty, file system untouched, exit status 0. -/
theorem test_intact_archive (pk : Packer) (es : List ExtractTree.Entry) (hok : ∀ e ∈ es, EntryOk e)
    (henc : Encodable es) (hpk : Packs pk es) (o : Opts) (fs : Fs.St) (answers : Bytes) :
    (Messages.run .test (archiveWith pk es) o fs answers).trace.reverse =
      (es.filter (selected o.filters)).map (fun e => (hdrOf pk e, true)) ∧
    (Messages.run .test (archiveWith pk es) o fs answers).stdout =
      (es.filter (selected o.filters)).flatMap (goodLine o pk) ∧
    (Messages.run .test (archiveWith pk es) o fs answers).stderr = [] ∧
    (Messages.run .test (archiveWith pk es) o fs answers).aborted = false ∧
    (Messages.run .test (archiveWith pk es) o fs answers).fault = false ∧
    (Messages.run .test (archiveWith pk es) o fs answers).x.fs = fs ∧
    Messages.exitStatus (Messages.run .test (archiveWith pk es) o fs answers) = 0 :=
  TestBytes.test_intact_archive pk es hok henc hpk o fs answers

open Header Extract GlobFs Contain ExtractTree ExtractTree.Sample Spec.HeaderEnc Reader ReaderIndep ArchiveOf PrintList MacProps Messages CrcBurst TestBytes in
/-- **A burst of ≤ 16 bits in a stored member's data is always reported.** `lha t` on the damaged
archive: that member's verdict is bad (`name - CRC error` after its bar), EVERY OTHER member is still
reported good, exit status 1 (0 only if the wildcards do not select the damaged member). -/
theorem test_detects_damage (pre post : List ExtractTree.Entry) (p : Fs.Path) (data : Bytes)
    (perms : Option Nat) (t : Nat) (pat : Bytes)
    (hok : ∀ e ∈ pre ++ .file p data perms t :: post, EntryOk e)
    (henc : Encodable (pre ++ .file p data perms t :: post))
    (hlen : pat.length = data.length) (hb : IsBurst16 pat)
    (o : Opts) (hdry : o.dryRun = false) (fs : Fs.St) (answers : Bytes) :
    (Messages.run .test (damage (pre ++ .file p data perms t :: post) pre.length pat) o fs answers).trace.reverse =
      (pre.filter (selected o.filters)).map (fun e => (hdrOf stored e, true)) ++
      ((if selected o.filters (.file p data perms t) then [(hdrOf stored (.file p data perms t), false)] else []) ++
       (post.filter (selected o.filters)).map (fun e => (hdrOf stored e, true))) ∧
    (Messages.run .test (damage (pre ++ .file p data perms t :: post) pre.length pat) o fs answers).stdout =
      (pre.filter (selected o.filters)).flatMap (goodLine o stored) ++
      ((if selected o.filters (.file p data perms t) then badLine o stored data.length (.file p data perms t) else []) ++
       (post.filter (selected o.filters)).flatMap (goodLine o stored)) ∧
    (Messages.run .test (damage (pre ++ .file p data perms t :: post) pre.length pat) o fs answers).stderr = [] ∧
    (Messages.run .test (damage (pre ++ .file p data perms t :: post) pre.length pat) o fs answers).aborted = false ∧
    (Messages.run .test (damage (pre ++ .file p data perms t :: post) pre.length pat) o fs answers).fault = false ∧
    (Messages.run .test (damage (pre ++ .file p data perms t :: post) pre.length pat) o fs answers).x.fs = fs ∧
    Messages.exitStatus (Messages.run .test (damage (pre ++ .file p data perms t :: post) pre.length pat) o fs answers) =
      if selected o.filters (.file p data perms t) then 1 else 0 :=
  TestBytes.test_detects_damage pre post p data perms t pat hok henc hlen hb o hdry fs answers

open Header Extract GlobFs Contain ExtractTree ExtractTree.Sample Spec.HeaderEnc Reader ReaderIndep ArchiveOf PrintList MacProps Messages CrcBurst TestBytes in
/-- **Any truncation is reported as a failure**: the archive cut anywhere inside the data of a
stored member (everything after it lost): the members before it good, it bad, exit status 1. -/
theorem test_detects_truncation (pre : List ExtractTree.Entry) (p : Fs.Path) (data : Bytes)
    (perms : Option Nat) (t : Nat) (k : Nat)
    (hok : ∀ e ∈ pre ++ [.file p data perms t], EntryOk e)
    (henc : Encodable (pre ++ [.file p data perms t]))
    (hk : k < data.length)
    (o : Opts) (hdry : o.dryRun = false) (fs : Fs.St) (answers : Bytes) :
    (Messages.run .test (truncated pre (.file p data perms t) k) o fs answers).trace.reverse =
      (pre.filter (selected o.filters)).map (fun e => (hdrOf stored e, true)) ++
      (if selected o.filters (.file p data perms t) then [(hdrOf stored (.file p data perms t), false)] else []) ∧
    (Messages.run .test (truncated pre (.file p data perms t) k) o fs answers).stdout =
      (pre.filter (selected o.filters)).flatMap (goodLine o stored) ++
      (if selected o.filters (.file p data perms t) then
        badLine o stored (decodedOf stored data (data.take k)).length (.file p data perms t) else []) ∧
    (decodedOf stored data (data.take k)).length ≤ k ∧
    (Messages.run .test (truncated pre (.file p data perms t) k) o fs answers).stderr = [] ∧
    (Messages.run .test (truncated pre (.file p data perms t) k) o fs answers).aborted = false ∧
    (Messages.run .test (truncated pre (.file p data perms t) k) o fs answers).fault = false ∧
    (Messages.run .test (truncated pre (.file p data perms t) k) o fs answers).x.fs = fs ∧
    Messages.exitStatus (Messages.run .test (truncated pre (.file p data perms t) k) o fs answers) =
      if selected o.filters (.file p data perms t) then 1 else 0 :=
  TestBytes.test_detects_truncation pre p data perms t k hok henc hk o hdry fs answers

end LhasaV.Props.C07
