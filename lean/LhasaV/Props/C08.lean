import LhasaV.Lemmas.HeaderSound
import LhasaV.Lemmas.StreamProps
import LhasaV.Lemmas.ReaderLedger
import LhasaV.Lemmas.ToolNoFault
import LhasaV.Lemmas.ToolNoFaultT
/-!
# C08 — no archive bytes can make the library or tool touch invalid memory or abort
-/
namespace LhasaV.Props.C08
open LhasaV

/-- The header parser: for EVERY input byte string (any level, lengths, extended-header chain,
truncation) no raw-data index, extended-header data index, available-length subtraction or
`new_path[data_len - 1]` access is out of range. -/
theorem header_no_fault (mk : Nat → Nat) (inp : Bytes) : ∀ w, Header.read mk inp ≠ .fault w :=
  Header.read_no_fault mk inp

/-- The parser either fails or returns a header and consumed exactly `raw.length ≤ |input|`
bytes (never reads past what the stream delivered). -/
theorem header_consumes_within (mk : Nat → Nat) (inp : Bytes) (h : Header.Hdr) (rest : Bytes)
    (hr : Header.read mk inp = .ok (h, rest)) : h.raw.length ≤ inp.length ∧ rest = inp.drop h.raw.length := by
  obtain ⟨⟨k, hk, hrest, hle⟩, _⟩ := Header.read_consumes mk inp h rest hr
  subst hk; exact ⟨hle, hrest⟩

/-- The self-extractor scan and every stream read: all lead-in buffer accesses (the 12-byte marker
compare, the signature bytes) are in range and the buffer never holds more than its 24 bytes. -/
theorem leadin_no_fault (s : Stream.St) (n : Nat) (h : s.leadin.length ≤ 24) :
    Res.NoFault (Stream.start s) ∧ Res.NoFault (Stream.read s n) :=
  ⟨Stream.start_noFault s h, Stream.read_noFault s n h⟩

/-- Header ownership in the reader, for EVERY call history (legal or not): the ledger never records
a double free or a reference to a freed header, and the reference count of every header equals
the number of its owners — so the header handed to the caller is alive while it is current. -/
theorem reader_no_uaf (st : Stream.St) (pol : Reader.DirPolicy) (mk : Nat → Nat) (ops : List Reader.Op) :
    Reader.Inv (Reader.run (Reader.fresh st pol mk) ops) :=
  Reader.run_inv (Reader.inv_fresh st pol mk) ops

/-! ## The tool

`ToolNoFault.NoFault archive o fs answers cmd` (by command letter): for `x`/`e` no `Reader.next` of
the extraction loop returns an error and every reader state the loop visits — before and after every
`next`, after every `extract_archived_file` — is `Ok`: it is the state after a LEGAL history of the
tool's reader, `next` on it does not fault, header ownership holds (`Reader.Inv`) and the open
decoder, if any, is one of the table whose state is reachable from its initial state (so the C09
no-fault theorems apply to its next read) and bears no mark of a faulted read; for `p` the same
along `print_archive`/`print_archived_file` (before and after every 512-byte read); for `l`/`v`
obtaining the header list never faults (the rendering is a total function of that list). -/

/-- **C08, the tool.** For every command letter the model has (x, e, p, l, v), EVERY archive (any
bytes), all options, any file-system state and any prompt answers: the run does not fault. -/
theorem tool_no_fault (cmd : ToolNoFault.Cmd) (archive : Array UInt8) (o : Extract.Opts) (fs : Fs.St)
    (answers : Bytes) : ToolNoFault.NoFault archive o fs answers cmd :=
  ToolNoFault.tool_no_fault cmd archive o fs answers

/-- `lha x`: the extraction loop never sees a faulting `next` -/
theorem extract_run_no_fault (archive : Array UInt8) (o : Extract.Opts) (fs : Fs.St) (answers : Bytes) :
    "fault" ∉ (Extract.run archive o fs answers).out :=
  ToolNoFault.extract_run_no_fault archive o fs answers

/-- `lha p`: the fault-propagating copy of the print loop returns exactly the printed bytes -/
theorem print_run_no_fault (archive : Array UInt8) (o : Extract.Opts) :
    ToolNoFault.printE archive o = .ok (Extract.print archive o) :=
  ToolNoFault.print_run_no_fault archive o

/-- `lha l/v`: walking the headers never faults -/
theorem list_headers_no_fault (archive : Array UInt8) (fuel : Nat) :
    ∃ hdrs, Driver.allHeaders fuel (ToolNoFault.toolReader archive) [] = .ok hdrs :=
  ToolNoFault.list_headers_no_fault archive fuel

/-- the library on EVERY call history (legal or not; this is also `lha t`, whose loop is
next/check): `next` does not fault, ownership holds, no decoder state carries a fault mark -/
theorem history_no_fault (st : Stream.St) (pol : Reader.DirPolicy) (mk : Nat → Nat)
    (hl : st.leadin.length ≤ 24) (ops : List Reader.Op) :
    (∃ r, Reader.next (Reader.run (Reader.fresh st pol mk) ops) = .ok r) ∧
    Reader.Inv (Reader.run (Reader.fresh st pol mk) ops) ∧
    Reader.DecClean (Reader.run (Reader.fresh st pol mk) ops) :=
  Reader.history_no_fault st pol mk hl ops

/-- what `Ok` gives at every visited state, spelled out -/
theorem visited_state_ok {A : Array UInt8} {rd : Reader.St} (h : ToolNoFault.Ok A rd) :
    (∃ ops, Reader.Legal ops ∧ rd = Reader.run (Reader.fresh { kind := .seekable, data := A } .endOfDir Header.dosTimeUTC) ops) ∧
    (∃ r, Reader.next rd = .ok r) ∧ Reader.Inv rd ∧
    (∀ o, rd.dec = some o → ∃ mr, Dec.SafeM o.d mr ∧
      ∀ ist, o.innerSt = some ist → Dec.Clean o.d ist.inner ∧ ist.pending.length ≤ mr) :=
  ToolNoFault.ok_spelled h

/-- `lha t` (and the message-bearing loop of `lha x`): the fault flag is never set, for every
archive, options, file system and answers; every reader state the loop visits is `Ok` -/
theorem test_run_no_fault (archive : Array UInt8) (o : Extract.Opts) (fs : Fs.St) (answers : Bytes) :
    (Messages.run .test archive o fs answers).fault = false ∧
    ToolNoFault.MVisits (ToolNoFault.Ok archive) .test (Contain.runFuel archive)
      (ToolNoFault.mrunInit archive o fs answers) :=
  ToolNoFault.test_run_no_fault archive o fs answers

theorem fault_flag_never_set (cmd : Messages.Cmd) (archive : Array UInt8) (o : Extract.Opts) (fs : Fs.St)
    (answers : Bytes) : (Messages.run cmd archive o fs answers).fault = false :=
  ToolNoFault.fault_flag_never_set cmd archive o fs answers

end LhasaV.Props.C08
