import LhasaV.Lemmas.HeaderSound
/-!
# C08 — no archive bytes can make the library or tool touch invalid memory or abort
-/
namespace LhasaV.Props.C08
open LhasaV

/-- The header parser: for EVERY input byte string (any level, lengths, extended-header chain,
truncation) no raw-data index, extended-header data index, available-length subtraction or
`new_path[data_len - 1]` access is out of range. -/
theorem header_no_fault (mk : Nat → Nat) (inp : Bytes) : ∀ w, Header.read mk inp ≠ .fault w :=
  Header.read_no_fault mk inp

/-- The parser either fails or returns a header and consumed exactly `raw.length ≤ |input|`
bytes (never reads past what the stream delivered). -/
theorem header_consumes_within (mk : Nat → Nat) (inp : Bytes) (h : Header.Hdr) (rest : Bytes)
    (hr : Header.read mk inp = .ok (h, rest)) : h.raw.length ≤ inp.length ∧ rest = inp.drop h.raw.length := by
  obtain ⟨⟨k, hk, hrest, hle⟩, _⟩ := Header.read_consumes mk inp h rest hr
  subst hk; exact ⟨hle, hrest⟩

end LhasaV.Props.C08
