import LhasaV.Lemmas.HeaderSound
import LhasaV.Lemmas.StreamProps
import LhasaV.Lemmas.ReaderLedger
/-!
# C08 — no archive bytes can make the library or tool touch invalid memory or abort
-/
namespace LhasaV.Props.C08
open LhasaV

/-- The header parser: for EVERY input byte string (any level, lengths, extended-header chain,
truncation) no raw-data index, extended-header data index, available-length subtraction or
`new_path[data_len - 1]` access is out of range. -/
theorem header_no_fault (mk : Nat → Nat) (inp : Bytes) : ∀ w, Header.read mk inp ≠ .fault w :=
  Header.read_no_fault mk inp

/-- The parser either fails or returns a header and consumed exactly `raw.length ≤ |input|`
bytes (never reads past what the stream delivered). -/
theorem header_consumes_within (mk : Nat → Nat) (inp : Bytes) (h : Header.Hdr) (rest : Bytes)
    (hr : Header.read mk inp = .ok (h, rest)) : h.raw.length ≤ inp.length ∧ rest = inp.drop h.raw.length := by
  obtain ⟨⟨k, hk, hrest, hle⟩, _⟩ := Header.read_consumes mk inp h rest hr
  subst hk; exact ⟨hle, hrest⟩

/-- The self-extractor scan and every stream read: all lead-in buffer accesses (the 12-byte marker
compare, the signature bytes) are in range and the buffer never holds more than its 24 bytes. -/
theorem leadin_no_fault (s : Stream.St) (n : Nat) (h : s.leadin.length ≤ 24) :
    Res.NoFault (Stream.start s) ∧ Res.NoFault (Stream.read s n) :=
  ⟨Stream.start_noFault s h, Stream.read_noFault s n h⟩

/-- Header ownership in the reader, for EVERY call history (legal or not): the ledger never records
a double free or a reference to a freed header, and the reference count of every header equals
the number of its owners — so the header handed to the caller is alive while it is current. -/
theorem reader_no_uaf (st : Stream.St) (pol : Reader.DirPolicy) (mk : Nat → Nat) (ops : List Reader.Op) :
    Reader.Inv (Reader.run (Reader.fresh st pol mk) ops) :=
  Reader.run_inv (Reader.inv_fresh st pol mk) ops

end LhasaV.Props.C08
