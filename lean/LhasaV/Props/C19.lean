import LhasaV.Model.ListOut
import LhasaV.Model.Glob
import LhasaV.Lemmas.ListProps
import LhasaV.Lemmas.GlobFs
import LhasaV.Lemmas.PrintList
import LhasaV.Lemmas.GenTool
/-!
# C19 — list output renders every member's header fields faithfully in Unix-LHA layout
(structure theorems are being proved in Lemmas/ListProps.lean; this file re-exports what is done)
-/
namespace LhasaV.Props.C19
open LhasaV

/-- with no wildcard arguments every member is selected -/
theorem no_filter_selects_all (h : Header.Hdr) : Glob.matchesFilter [] h = true := by
  simp [Glob.matchesFilter]

open ListOut ListProps in
/-- **Shape of every listing.** `head ++ rows ++ tail`: `head` (headings, dashes) depends on the
options only; the rows are the members' rows in archive order, each computed from that member's
header and the clock alone; `tail` (dashes, totals line) depends on the members only through the
accumulated totals. -/
theorem listing_shape (verboseList verboseOpt : Bool) (quiet now archiveMtime : Nat) (hdrs : List Header.Hdr) :
    render verboseList verboseOpt quiet now archiveMtime hdrs =
      listHead verboseList verboseOpt quiet ++
      hdrs.flatMap (printColumns (columnsFor verboseList verboseOpt) now) ++
      listTail verboseList verboseOpt quiet now (hdrs.foldl accumulate (initStats archiveMtime)) :=
  ListProps.render_rows verboseList verboseOpt quiet now archiveMtime hdrs

open ListOut ListProps in
/-- a member's row does not depend on the members before or after it -/
theorem row_independent (vl vo : Bool) (now : Nat) (hs1 hs2 : List Header.Hdr) (h : Header.Hdr) :
    listRows vl vo now (hs1 ++ h :: hs2) =
      listRows vl vo now hs1 ++ printColumns (columnsFor vl vo) now h ++ listRows vl vo now hs2 :=
  ListProps.listRows_member vl vo now hs1 hs2 h

open ListOut ListProps in
/-- the totals line: count and sizes are the true sums (as long as they stay below 2^32; beyond,
they are those sums modulo 2^32 — `ListProps.stats_sums_mod`) -/
theorem totals_exact (archiveMtime : Nat) (hdrs : List Header.Hdr)
    (hn : hdrs.length < two32) (hl : sumLength hdrs < two32) (hc : sumCompressed hdrs < two32) :
    (hdrs.foldl accumulate (initStats archiveMtime)).numFiles = hdrs.length ∧
    (hdrs.foldl accumulate (initStats archiveMtime)).length = sumLength hdrs ∧
    (hdrs.foldl accumulate (initStats archiveMtime)).compressedLength = sumCompressed hdrs :=
  ListProps.render_totals_exact archiveMtime hdrs hn hl hc

open ListOut ListProps in
/-- one line per member (two in the verbose layouts: the name line and the field line) -/
theorem row_lines (vl vo : Bool) (now : Nat) (h : Header.Hdr) :
    List.count (0x0a : UInt8) (printColumns (columnsFor vl vo) now h) = if vo then 2 else 1 :=
  ListProps.row_newlines vl vo now h

open ListOut ListProps in
/-- the recent/old switch of the time column, at the exact boundary: a stamp newer than
`now − 15 552 000 s` shows `HH:MM`, one exactly that old or older shows the year -/
theorem timestamp_recent {now t : Nat} (h0 : t ≠ 0) (h : now < t + 15552000) :
    outputTimestamp now t = recentForm t := ListProps.outputTimestamp_recent h0 h

open ListOut ListProps in
theorem timestamp_old {now t : Nat} (h0 : t ≠ 0) (h : t + 15552000 ≤ now) :
    outputTimestamp now t = oldForm t := ListProps.outputTimestamp_old h0 h

/-- wildcard arguments select exactly the members whose stored path matches -/
theorem selection_spec (fs : List (List UInt8)) (hdrs : List Header.Hdr) :
    Glob.select fs hdrs = hdrs.filter (fun h => fs.isEmpty || fs.any (fun f => Glob.GlobSpec f (Glob.fullName h))) :=
  GlobFs.select_spec fs hdrs

open Header Extract ExtractTree ArchiveOf Reader ListProps ListOut ToolNoFault PrintList in
/-- **The listing of an archive, on bytes.** For every encodable entry list, packer with a decoder
round trip, listing mode (l / lv / v / vv), quiet level, clock and wildcard list: walking
`archiveWith pk es` yields exactly the headers of `es` in order (each denoting its entry), and the
listing is head ++ one row group per SELECTED entry ++ tail with the totals of the selected entries
(count, Σ data lengths, Σ packed lengths). -/
theorem listing_of_archive (pk : Packer) (es : List Entry) (hok : ∀ e ∈ es, EntryOk e)
    (henc : Encodable es) (hpk : Packs pk es) (fuel : Nat) (hf : es.length < fuel)
    (vl vo : Bool) (quiet now archiveMtime : Nat) (fl : List Bytes) :
    ∃ hs, Driver.allHeaders fuel (toolReader (archiveWith pk es)) [] = .ok hs ∧
      hs = es.map (hdrOf pk) ∧ (∀ e ∈ es, HdrOf e (hdrOf pk e)) ∧
      render vl vo quiet now archiveMtime (Glob.select fl hs) =
        listHead vl vo quiet ++
        (es.filter (selected fl)).flatMap (fun e => printColumns (columnsFor vl vo) now (hdrOf pk e)) ++
        listTail vl vo quiet now (totalsOf pk archiveMtime (es.filter (selected fl))) :=
  PrintList.listing_archiveWith pk es hok henc hpk fuel hf vl vo quiet now archiveMtime fl

open Header Extract ExtractTree ArchiveOf Reader ListProps ListOut ToolNoFault PrintList in
/-- `lha l` ends with ` Total <N> files <Σ sizes> <ratio> <archive time>`, N = number of selected
entries (≠ 1), the sums those of the selected entries (below the 2³² wrap) -/
theorem total_line (pk : Packer) (es : List Entry) (hok : ∀ e ∈ es, EntryOk e)
    (henc : Encodable es) (hpk : Packs pk es) (fuel : Nat) (hf : es.length < fuel)
    (quiet now archiveMtime : Nat) (fl : List Bytes) (hq : quiet < 2)
    (hn : (es.filter (selected fl)).length < 2147483648) (hn1 : (es.filter (selected fl)).length ≠ 1)
    (hl : ((es.filter (selected fl)).map dataLen).sum < two32)
    (hc : ((es.filter (selected fl)).map (packedLen pk)).sum < two32) :
    ∃ hs, Driver.allHeaders fuel (toolReader (archiveWith pk es)) [] = .ok hs ∧
      render false false quiet now archiveMtime (Glob.select fl hs) =
        listHead false false quiet ++
        (es.filter (selected fl)).flatMap (fun e => printColumns (columnsFor false false) now (hdrOf pk e)) ++
        (printListSeparators (columnsFor false false) ++
         (str " Total    " ++ str " " ++
          (padLeft 5 (dec (es.filter (selected fl)).length) ++ str " files") ++ str " " ++
          sizeField ((es.filter (selected fl)).map dataLen).sum ++ str " " ++
          ratioFooter ((es.filter (selected fl)).map (packedLen pk)).sum
            ((es.filter (selected fl)).map dataLen).sum ++ str " " ++
          outputTimestamp now (archiveMtime % two32) ++ str "\n")) :=
  PrintList.total_line_l pk es hok henc hpk fuel hf quiet now archiveMtime fl hq hn hn1 hl hc

/-- **Translator tie**: the OS-name column of the listing model is `os_type_to_string` of src/list.c, evaluated from the
working tree for all 256 identifier bytes on every run (`Gen/Tool.lean`). -/
theorem os_names_match_source :
    ∀ b : Fin 256, (ListOut.str (ListOut.osTypeToString b.val)).map (·.toNat) = Gen.osTypeStrings.getD b.val [] :=
  GenTool.os_names_match_source

end LhasaV.Props.C19
