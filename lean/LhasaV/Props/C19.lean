import LhasaV.Model.ListOut
import LhasaV.Model.Glob
/-!
# C19 — list output renders every member's header fields faithfully in Unix-LHA layout
(structure theorems are being proved in Lemmas/ListProps.lean; this file re-exports what is done)
-/
namespace LhasaV.Props.C19
open LhasaV

/-- with no wildcard arguments every member is selected -/
theorem no_filter_selects_all (h : Header.Hdr) : Glob.matchesFilter [] h = true := by
  simp [Glob.matchesFilter]

end LhasaV.Props.C19
