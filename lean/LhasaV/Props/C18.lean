import LhasaV.Model.Safe
import LhasaV.Lemmas.ListProps
import LhasaV.Lemmas.MessagesProps
import LhasaV.Lemmas.GenTool
/-!
# C18 — archive-derived text printed by the tool is printable ASCII only
-/
namespace LhasaV.Props.C18
open LhasaV LhasaV.Safe

/-- whatever bytes a header field contains, what `safe_printf("%s", field)` writes is printable ASCII -/
theorem safe_output_printable (s : Bytes) : ∀ b ∈ safeStr s, 0x20 ≤ b ∧ b ≤ 0x7e := by
  intro b hb
  exact safeOutput_printable (cstr s) b hb

/-- printable bytes pass unchanged (names are not mangled more than necessary) -/
theorem safe_keeps_printable (b : UInt8) (h : 0x20 ≤ b ∧ b ≤ 0x7e) : safeByte b = b := by
  have : ∀ n, n < 256 → (0x20 ≤ UInt8.ofNat n ∧ UInt8.ofNat n ≤ 0x7e) → safeByte (UInt8.ofNat n) = UInt8.ofNat n := by
    decide +kernel
  have h2 := this b.toNat (UInt8.toNat_lt b)
  simpa using h2 (by simpa using h)

/-- **Every byte of every listing is printable ASCII or a newline** — `lha l`, `lha lv`, `lha v`,
`lha vv`, every quiet level, every clock value, for ARBITRARY headers: arbitrary bytes in every
string field (path, file name, link target, method, user and group names), arbitrary numbers. -/
theorem listing_printable (verboseList verboseOpt : Bool) (quiet now archiveMtime : Nat)
    (hdrs : List Header.Hdr) :
    ∀ b ∈ ListOut.render verboseList verboseOpt quiet now archiveMtime hdrs,
      (0x20 ≤ b ∧ b ≤ 0x7e) ∨ b = 0x0a :=
  ListProps.render_printable verboseList verboseOpt quiet now archiveMtime hdrs

/-- `lha p`: the output is a sequence of (banner, contents) segments; the contents are the members'
own decoded bytes, every banner byte is printable ASCII or a newline, whatever the archive holds. -/
theorem print_banners_printable (archive : Array UInt8) (o : Extract.Opts) :
    ∃ segs : List (Bytes × Bytes),
      Extract.print archive o = segs.flatMap (fun p => p.1 ++ p.2) ∧
      ListProps.SegmentsOk o segs ∧
      ∀ p ∈ segs, ∀ b ∈ p.1, (0x20 ≤ b ∧ b ≤ 0x7e) ∨ b = 0x0a :=
  ListProps.print_banners_printable archive o

/-! ## test and extract modes (`Model/Messages.lean`: every `printf` of `src/extract.c` and of the progress bar) -/

/-- **`lha t`**: every byte of the standard output of `lha t[options] archive [patterns]` — progress
bars, `Tested` / `CRC error` lines, `VERIFY name` — is printable ASCII or `\n`, `\r`, `\t`,
whatever bytes the archive's names contain, for EVERY archive. -/
theorem test_output_printable (archive : Array UInt8) (o : Extract.Opts) :
    ∀ b ∈ (Messages.runTest archive o).1, Safe.printable b ∨ b = 0x0a ∨ b = 0x0d ∨ b = 0x09 :=
  MessagesProps.test_output_printable archive o

/-- **`lha x` / `lha e`** (and the dry run `xn`), for every archive, options, initial file system
and prompt answers: `Melted` / `Failure` / `Skipped` lines, `Symbolic Link a -> b`, bars. -/
theorem extract_output_printable (archive : Array UInt8) (o : Extract.Opts) (fs : Fs.St) (answers : Bytes) :
    ∀ b ∈ (Messages.runExtract archive o fs answers).1, Safe.printable b ∨ b = 0x0a ∨ b = 0x0d ∨ b = 0x09 :=
  MessagesProps.extract_output_printable archive o fs answers

/-- standard error of both modes (overwrite prompts, parent-directory and file-type messages) -/
theorem stderr_printable (cmd : Messages.Cmd) (archive : Array UInt8) (o : Extract.Opts) (fs : Fs.St)
    (answers : Bytes) :
    ∀ b ∈ (Messages.run cmd archive o fs answers).stderr, Safe.printable b ∨ b = 0x0a ∨ b = 0x0d ∨ b = 0x09 :=
  MessagesProps.stderr_printable cmd archive o fs answers

/-- **Translator tie**: what `safe_output` of src/safe.c writes for each byte (evaluated from the working tree on every run,
`Gen/Tool.lean`) is what the model's `safeOutput` writes; `safeOutput` is byte-wise, so this fixes it on every string. -/
theorem safe_class_matches_source :
    (∀ b : Fin 256, b.val ≠ 0 → (Safe.safeOutput [UInt8.ofNat b.val]).map (·.toNat) = Gen.safeOutputTable.getD b.val [])
    ∧ ∀ s : Bytes, Safe.safeOutput s = s.flatMap (fun c => Safe.safeOutput [c]) :=
  ⟨GenTool.safe_class_matches_source, GenTool.safeOutput_bytewise⟩

/-- **Translator tie**: `os_type_to_string` of src/list.c (the one archive-derived field printed without `safe_printf`),
evaluated from the working tree for all 256 identifier bytes, is the model's `osTypeToString` – so every name it can
print is one of the model's printable literals. -/
theorem os_names_match_source :
    ∀ b : Fin 256, (ListOut.str (ListOut.osTypeToString b.val)).map (·.toNat) = Gen.osTypeStrings.getD b.val [] :=
  GenTool.os_names_match_source

/-- `MAX_PROGRESS_LEN` of src/extract.c as regenerated = the width the progress-bar model uses -/
theorem progress_len_matches_source : Messages.maxProgressLen = Gen.maxProgressLen :=
  GenTool.progress_len_matches_source

end LhasaV.Props.C18
