import LhasaV.Model.Safe
/-!
# C18 — archive-derived text printed by the tool is printable ASCII only
-/
namespace LhasaV.Props.C18
open LhasaV LhasaV.Safe

/-- whatever bytes a header field contains, what `safe_printf("%s", field)` writes is printable ASCII -/
theorem safe_output_printable (s : Bytes) : ∀ b ∈ safeStr s, 0x20 ≤ b ∧ b ≤ 0x7e := by
  intro b hb
  exact safeOutput_printable (cstr s) b hb

/-- printable bytes pass unchanged (names are not mangled more than necessary) -/
theorem safe_keeps_printable (b : UInt8) (h : 0x20 ≤ b ∧ b ≤ 0x7e) : safeByte b = b := by
  have : ∀ n, n < 256 → (0x20 ≤ UInt8.ofNat n ∧ UInt8.ofNat n ≤ 0x7e) → safeByte (UInt8.ofNat n) = UInt8.ofNat n := by
    decide +kernel
  have h2 := this b.toNat (UInt8.toNat_lt b)
  simpa using h2 (by simpa using h)

end LhasaV.Props.C18
