import LhasaV.Model.Safe
import LhasaV.Lemmas.ListProps
/-!
# C18 — archive-derived text printed by the tool is printable ASCII only
-/
namespace LhasaV.Props.C18
open LhasaV LhasaV.Safe

/-- whatever bytes a header field contains, what `safe_printf("%s", field)` writes is printable ASCII -/
theorem safe_output_printable (s : Bytes) : ∀ b ∈ safeStr s, 0x20 ≤ b ∧ b ≤ 0x7e := by
  intro b hb
  exact safeOutput_printable (cstr s) b hb

/-- printable bytes pass unchanged (names are not mangled more than necessary) -/
theorem safe_keeps_printable (b : UInt8) (h : 0x20 ≤ b ∧ b ≤ 0x7e) : safeByte b = b := by
  have : ∀ n, n < 256 → (0x20 ≤ UInt8.ofNat n ∧ UInt8.ofNat n ≤ 0x7e) → safeByte (UInt8.ofNat n) = UInt8.ofNat n := by
    decide +kernel
  have h2 := this b.toNat (UInt8.toNat_lt b)
  simpa using h2 (by simpa using h)

/-- **Every byte of every listing is printable ASCII or a newline** — `lha l`, `lha lv`, `lha v`,
`lha vv`, every quiet level, every clock value, for ARBITRARY headers: arbitrary bytes in every
string field (path, file name, link target, method, user and group names), arbitrary numbers. -/
theorem listing_printable (verboseList verboseOpt : Bool) (quiet now archiveMtime : Nat)
    (hdrs : List Header.Hdr) :
    ∀ b ∈ ListOut.render verboseList verboseOpt quiet now archiveMtime hdrs,
      (0x20 ≤ b ∧ b ≤ 0x7e) ∨ b = 0x0a :=
  ListProps.render_printable verboseList verboseOpt quiet now archiveMtime hdrs

/-- `lha p`: the output is a sequence of (banner, contents) segments; the contents are the members'
own decoded bytes, every banner byte is printable ASCII or a newline, whatever the archive holds. -/
theorem print_banners_printable (archive : Array UInt8) (o : Extract.Opts) :
    ∃ segs : List (Bytes × Bytes),
      Extract.print archive o = segs.flatMap (fun p => p.1 ++ p.2) ∧
      ListProps.SegmentsOk o segs ∧
      ∀ p ∈ segs, ∀ b ∈ p.1, (0x20 ≤ b ∧ b ≤ 0x7e) ∨ b = 0x0a :=
  ListProps.print_banners_printable archive o

end LhasaV.Props.C18
