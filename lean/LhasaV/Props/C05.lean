import LhasaV.Lemmas.HeaderRT
import LhasaV.Lemmas.GenHeader
/-!
# C05 — every well-formed level 0–3 header is returned with exactly its encoded fields

`Spec.HeaderEnc.encode` lays typed fields out as a level 0, 1, 2 or 3 header; `typed` is the header
those fields denote and `normalise = Header.postProcess ∘ typed` what the caller must receive
(separator normalisation, all-caps folding, symlink split, OS-9 permission mapping, LHark renaming,
common-CRC verification). `Header.read` is the model of `lha_file_header_read`.
-/
namespace LhasaV.Props.C05
open LhasaV LhasaV.Header LhasaV.Spec.HeaderEnc

/-- The layout constants stated in the spec are the ones of the compiled source (`Gen.Header` is
regenerated from `/repo` on every run): the extended-header type table with its minimum lengths,
the flag bits, the level header sizes. -/
theorem layout_matches_source :
    (∀ t, t < 256 → knownMin t = lookupExt t) ∧
    Gen.flagUnixPerms = 1 ∧ Gen.flagUnixUidGid = 2 ∧ Gen.flagCommonCrc = 4 ∧ Gen.flagWindowsTimestamps = 8 ∧
    Gen.flagOs9Perms = 16 ∧ Gen.commonHeaderLen = 22 ∧ Gen.level0MinHeaderLen = 22 ∧ Gen.level1MinHeaderLen = 25 ∧
    Gen.level2HeaderLen = 26 ∧ Gen.level3HeaderLen = 32 ∧ Gen.level3MaxHeaderLen = 1048576 ∧
    Gen.level0UnixExtendedLen = 12 ∧ Gen.level0Os9ExtendedLen = 22 :=
  HeaderLayout.layout_matches_source

/-- **C05, full statement.** For EVERY well-formed typed field assignment of level 0, 1, 2 or 3 —
any values, any list of typed extended headers in any order with duplicates, unknown and too-short
ones, common-CRC headers anywhere, level-0 Unix/OS-9/unrecognised areas, level-1 padding — any
`mktime`, and any following member data: the parser returns exactly the header the fields denote
(every field, the raw bytes with the CRC fields zeroed, the level-1 compressed size with the chain
subtracted) and leaves exactly the member data; where the normalisation stage rejects the fields
(a file without a name, a directory without a path) so does the parser. -/
theorem header_roundtrip (mk : Nat → Nat) (f : Fields) (hwf : wf f = true) (data : Bytes) :
    Header.read mk (encode f ++ data) = (normalise mk f).bind (fun h => .ok (h, data)) :=
  HeaderRT.header_roundtrip mk f hwf data

/-- accepted fields: the header comes back and the member data is found right after it -/
theorem header_roundtrip_ok (mk : Nat → Nat) (f : Fields) (hwf : wf f = true) (data : Bytes) (h : Hdr)
    (hn : normalise mk f = .ok h) : Header.read mk (encode f ++ data) = .ok (h, data) := by
  rw [header_roundtrip mk f hwf data, hn]; rfl

theorem splitFilename_clen (h : Hdr) : (splitFilename h).compressedLength = h.compressedLength := by
  unfold splitFilename
  split
  · rfl
  · split <;> rfl

theorem applyArea_clen (h : Hdr) (a : Area) : (applyArea h a).compressedLength = h.compressedLength := by
  cases a <;> rfl

theorem applyExt_clen (c : Nat) (h : Hdr) (e : Ext) : (applyExt c h e).compressedLength = h.compressedLength := by
  cases e <;> rfl

theorem foldl_applyExt_clen (c : Nat) (es : List Ext) (h : Hdr) :
    (es.foldl (applyExt c) h).compressedLength = h.compressedLength := by
  induction es generalizing h with
  | nil => rfl
  | cons e es ih => simp only [List.foldl_cons]; rw [ih, applyExt_clen]

/-- the level-1 clause: the compressed size handed to the caller is the member's own size, the
extended-header bytes that the length field also counts having been subtracted (for every level,
whatever the extended headers are) -/
theorem level1_compressed_size (mk : Nat → Nat) (f : Fields) : (typed mk f).compressedLength = f.clen := by
  unfold typed
  simp only []
  split
  · split
    · split
      · split
        · rfl
        · rw [splitFilename_clen]
      · rw [applyArea_clen]; split
        · rfl
        · rw [splitFilename_clen]
    · rw [foldl_applyExt_clen]; split
      · rfl
      · rw [splitFilename_clen]
  · rw [foldl_applyExt_clen]

/-- **Translator tie**: `os9_to_unix_permissions` of lib/lha_file_header.c is evaluated for all 65 536 OS-9 permission words of the
working tree on every run (`Gen/Header.lean`: the table over the low byte, and that the high byte is ignored); for EVERY header the
Unix permission word the model derives is the table's entry. -/
theorem os9_permissions_match_source (h : Header.Hdr) :
    (Header.os9ToUnix h).unixPerms = Gen.os9ToUnixTable.getD (h.os9Perms % 256) 0 ∧ Gen.os9HighByteIgnored = 1
    ∧ Gen.os9SetsUnixPermsFlagOnly = 1 :=
  GenHeader.os9_matches_source h

end LhasaV.Props.C05
