import LhasaV.Lemmas.ReaderLedger
import LhasaV.Lemmas.StreamProps
import LhasaV.Lemmas.ReaderIndep
/-!
# C15 — members are independent of how other members were skipped, read or checked
-/
namespace LhasaV.Props.C15
open LhasaV LhasaV.Reader

/-- After the end has been reported every further request reports the end, whatever calls
(reads, checks, extracts) are made in between. -/
theorem end_sticky {s s' : St} (h : Reader.next s = .ok (none, s')) (ops : List Op) :
    ∃ s'', Reader.next (run s' ops) = .ok (none, s'') ∧ s''.currType = .eof :=
  Reader.end_sticky h ops

/-- the basic reader: once `eof` is set no header is returned any more -/
theorem basic_end_sticky (mk : Nat → Nat) (b : Basic) (led : Ledger) (h : b.eof = true) :
    ∃ b' led', basicNext mk b led = .ok (b', led') ∧ b'.curr = none ∧ b'.eof = true :=
  Reader.basicNext_eof mk b led h

/-- Every history keeps the ownership invariant: a header handed to the caller (`curr`) is live
as long as it is current — no use after free, no double free — for legal and illegal histories. -/
theorem no_dangling_header (st : Stream.St) (pol : DirPolicy) (mk : Nat → Nat) (ops : List Op) :
    Inv (run (fresh st pol mk) ops) :=
  Reader.run_inv (Reader.inv_fresh st pol mk) ops

/-- The sequence of headers the basic reader returns does not depend on the stream kind nor on the
step counters: observationally equal states stay observationally equal and return the same header. -/
theorem headers_kind_independent (mk : Nat → Nat) (a b : Basic) (led : Ledger)
    (h : Stream.ObsEq a b) (wf : Stream.WF a) :
    Stream.ResRel (fun r r' => Stream.ObsEq r.1 r'.1 ∧ r.2 = r'.2) (basicNext mk a led) (basicNext mk b led) :=
  Stream.basicNext_kind_indep mk a b led h wf

open ReaderIndep in
/-- **Headers are independent of how members were handled.** `skeleton` erases the reads and checks
of a history (what remains: the `next` and `extract` operations with their outcomes). For ANY
archive bytes, stream kind, directory policy and ANY two histories — legal or not — with the same
skeleton, the sequences of results of their `next` operations are equal: same headers in the same
order, same re-presented directories and deferred symbolic links. -/
theorem headers_independent (st : Stream.St) (pol : DirPolicy) (mk : Nat → Nat)
    (hl : st.leadin.length ≤ 24) (ops₁ ops₂ : List Op) (hsk : skeleton ops₁ = skeleton ops₂) :
    nextResults (fresh st pol mk) ops₁ = nextResults (fresh st pol mk) ops₂ :=
  ReaderIndep.headers_indep st pol mk hl ops₁ ops₂ hsk

open ReaderIndep in
/-- **Bytes are independent of how OTHER members were handled.** After two histories with the same
skeleton, the member presented by the next `next` yields the same result under `check`, the same
under `extract`, the same bytes under a sequential read with any piece size — whatever was read,
partially read, checked or skipped before. (Uses `decoders_honest`: no decoder of the table can
make the member source claim more than it had.) -/
theorem bytes_independent (st : Stream.St) (pol : DirPolicy) (mk : Nat → Nat)
    (hl : st.leadin.length ≤ 24) (ops₁ ops₂ : List Op) (hsk : skeleton ops₁ = skeleton ops₂) :
    (check (run (fresh st pol mk) (ops₁ ++ [.next]))).1 =
      (check (run (fresh st pol mk) (ops₂ ++ [.next]))).1 ∧
    (∀ b, (extract (run (fresh st pol mk) (ops₁ ++ [.next])) b).1 =
      (extract (run (fresh st pol mk) (ops₂ ++ [.next])) b).1) ∧
    (∀ fuel, (decodeLoop fuel (run (fresh st pol mk) (ops₁ ++ [.next])) []).1 =
      (decodeLoop fuel (run (fresh st pol mk) (ops₂ ++ [.next])) []).1) ∧
    (∀ k, (read (run (fresh st pol mk) (ops₁ ++ [.next])) k).1 =
      (read (run (fresh st pol mk) (ops₂ ++ [.next])) k).1) :=
  ReaderIndep.bytes_indep st pol mk hl ops₁ ops₂ hsk

/-- every decoder of the method table is "honest": it cannot make its source dead or over-long unless
it already was (the one channel through which decoding could affect later members) -/
theorem decoders_honest : ReaderIndep.HonestAll := ReaderIndep.honestAll

open ReaderIndep in
/-- **Re-presented directories appear exactly once.** Along every history: directories re-presented
so far + directories still on the stack = directories pushed by successful extracts; once the end
has been reported each pushed directory has been re-presented exactly once; under the PLAIN policy
nothing is ever pushed or re-presented. -/
theorem fake_once (st : Stream.St) (pol : DirPolicy) (mk : Nat → Nat) (ops : List Op) :
    (∀ id, cnt (fakedAll (fresh st pol mk) ops) id + cnt (run (fresh st pol mk) ops).dirStack id =
      cnt (pushedAll (fresh st pol mk) ops) id) ∧
    ((run (fresh st pol mk) ops).currType = .eof →
      ∀ id, cnt (fakedAll (fresh st pol mk) ops) id = cnt (pushedAll (fresh st pol mk) ops) id) ∧
    (pol = .plain → pushedAll (fresh st pol mk) ops = [] ∧ fakedAll (fresh st pol mk) ops = []) :=
  ReaderIndep.fake_once st pol mk ops

/-- `next` never faults along any history from a fresh reader -/
theorem next_never_faults (st : Stream.St) (pol : DirPolicy) (mk : Nat → Nat)
    (hl : st.leadin.length ≤ 24) (ops : List Op) :
    ∃ r, next (run (fresh st pol mk) ops) = .ok r := ReaderIndep.next_never_faults st pol mk hl ops

end LhasaV.Props.C15
