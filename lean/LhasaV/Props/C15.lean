import LhasaV.Lemmas.ReaderLedger
import LhasaV.Lemmas.StreamProps
/-!
# C15 — members are independent of how other members were skipped, read or checked
-/
namespace LhasaV.Props.C15
open LhasaV LhasaV.Reader

/-- After the end has been reported every further request reports the end, whatever calls
(reads, checks, extracts) are made in between. -/
theorem end_sticky {s s' : St} (h : Reader.next s = .ok (none, s')) (ops : List Op) :
    ∃ s'', Reader.next (run s' ops) = .ok (none, s'') ∧ s''.currType = .eof :=
  Reader.end_sticky h ops

/-- the basic reader: once `eof` is set no header is returned any more -/
theorem basic_end_sticky (mk : Nat → Nat) (b : Basic) (led : Ledger) (h : b.eof = true) :
    ∃ b' led', basicNext mk b led = .ok (b', led') ∧ b'.curr = none ∧ b'.eof = true :=
  Reader.basicNext_eof mk b led h

/-- Every history keeps the ownership invariant: a header handed to the caller (`curr`) is live
as long as it is current — no use after free, no double free — for legal and illegal histories. -/
theorem no_dangling_header (st : Stream.St) (pol : DirPolicy) (mk : Nat → Nat) (ops : List Op) :
    Inv (run (fresh st pol mk) ops) :=
  Reader.run_inv (Reader.inv_fresh st pol mk) ops

/-- The sequence of headers the basic reader returns does not depend on the stream kind nor on the
step counters: observationally equal states stay observationally equal and return the same header. -/
theorem headers_kind_independent (mk : Nat → Nat) (a b : Basic) (led : Ledger)
    (h : Stream.ObsEq a b) (wf : Stream.WF a) :
    Stream.ResRel (fun r r' => Stream.ObsEq r.1 r'.1 ∧ r.2 = r'.2) (basicNext mk a led) (basicNext mk b led) :=
  Stream.basicNext_kind_indep mk a b led h wf

end LhasaV.Props.C15
