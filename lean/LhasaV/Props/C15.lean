import LhasaV.Model.Reader
/-!
# C15 — members are independent of how other members were skipped, read or checked
-/
namespace LhasaV.Props.C15
open LhasaV LhasaV.Reader

theorem closeDecoder_currType (s : St) : (closeDecoder s).currType = s.currType := by
  unfold closeDecoder
  split <;> rfl

/-- once the end has been reported, every further `next` reports the end again -/
theorem next_after_eof (s : St) (h : s.currType = .eof) :
    ∃ s', Reader.next s = .ok (none, s') ∧ s'.currType = .eof := by
  refine ⟨closeDecoder s, ?_, by rw [closeDecoder_currType, h]⟩
  have hc : ((closeDecoder s).currType == CurrType.eof) = true := by
    rw [closeDecoder_currType, h]; rfl
  unfold Reader.next
  simp only [hc, if_true]

end LhasaV.Props.C15
