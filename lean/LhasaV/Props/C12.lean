import LhasaV.Model.Header
import LhasaV.Spec.Integrity
/-!
# C12 — headers failing their own checksum, CRC or length rules are never returned
-/
namespace LhasaV.Props.C12
open LhasaV

/-- Input shorter than the common 22-byte prefix never satisfies the integrity predicate … -/
theorem short_input_not_ok (inp : Bytes) (h : inp.length < 22) : Spec.Integrity.ok inp = false := by
  simp [Spec.Integrity.ok, h]

/-- … and is never accepted by the parser. -/
theorem short_input_rejected (mk : Nat → Nat) (inp : Bytes) (h : inp.length < 22) :
    Header.read mk inp = .fail := by
  have : Header.extend {} inp Gen.commonHeaderLen = .fail := by
    simp [Header.extend, Gen.commonHeaderLen, Gen.level3MaxHeaderLen, h]
  simp [Header.read, this]

end LhasaV.Props.C12
