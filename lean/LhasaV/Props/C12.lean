import LhasaV.Lemmas.HeaderSound
/-!
# C12 — headers failing their own checksum, CRC or length rules are never returned

`Spec.Integrity.ok` is the independently written integrity predicate (level ≤ 3, level
minimum lengths, byte-sum checksum, extended-header chain rules, common CRC). The theorems
are about `Header.read`, the model of `lha_file_header_read`, for EVERY input byte string.
-/
namespace LhasaV.Props.C12
open LhasaV

/-- Acceptance soundness: whatever the parser returns satisfies the integrity rules. -/
theorem accept_sound (mk : Nat → Nat) (inp : Bytes) (h : Header.Hdr) (rest : Bytes)
    (hr : Header.read mk inp = .ok (h, rest)) : Spec.Integrity.ok inp = true :=
  Header.accept_sound mk inp h rest hr

/-- Contrapositive, as the property states it: a header that fails its own rules is not returned. -/
theorem bad_header_not_returned (mk : Nat → Nat) (inp : Bytes) (hbad : Spec.Integrity.ok inp = false) :
    ∀ h rest, Header.read mk inp ≠ .ok (h, rest) := by
  intro h rest hr
  have := Header.accept_sound mk inp h rest hr
  simp [hbad] at this

/-- A file entry has a name, a directory entry a path (or is a symlink with target and name);
the level is at most 3. -/
theorem accept_has_name (mk : Nat → Nat) (inp : Bytes) (h : Header.Hdr) (rest : Bytes)
    (hr : Header.read mk inp = .ok (h, rest)) :
    (h.method ≠ "-lhd-".toUTF8.toList → h.filename ≠ none) ∧
    (h.method = "-lhd-".toUTF8.toList →
      h.path ≠ none ∨ (h.symlinkTarget ≠ none ∧ h.filename ≠ none)) ∧
    h.level ≤ 3 :=
  Header.accept_has_name mk inp h rest hr

/-- The member's data is found immediately after the header: exactly `raw.length` bytes are consumed. -/
theorem read_consumes (mk : Nat → Nat) (inp : Bytes) (h : Header.Hdr) (rest : Bytes)
    (hr : Header.read mk inp = .ok (h, rest)) :
    (∃ k, k = h.raw.length ∧ rest = inp.drop k ∧ k ≤ inp.length) ∧ h.raw.length ≥ 22 :=
  Header.read_consumes mk inp h rest hr

/-- Input shorter than the common 22-byte prefix is never accepted. -/
theorem short_input_rejected (mk : Nat → Nat) (inp : Bytes) (h : inp.length < 22) :
    Header.read mk inp = .fail := by
  have : Header.extend {} inp Gen.commonHeaderLen = .fail := by
    simp [Header.extend, Gen.commonHeaderLen, Gen.level3MaxHeaderLen, h]
  simp [Header.read, this]

end LhasaV.Props.C12
