import LhasaV.Model.Extract
/-!
# C06 — extraction reproduces the archived tree: contents, names, times, modes, links
-/
namespace LhasaV.Props.C06
open LhasaV LhasaV.Extract

/-- with no wildcard arguments every member is selected -/
theorem no_filter_selects_all (h : Header.Hdr) : Glob.matchesFilter [] h = true := by
  simp [Glob.matchesFilter]

/-- option `i` flattens: the constructed path is the file name alone, whatever the stored path -/
theorem flatten_ignores_path (h : Header.Hdr) (o : Opts) (hi : o.usePath = false) (hw : o.extractPath = none) :
    fileFullPath h o = stripSlashes (h.filename.getD []) := by
  simp [fileFullPath, hi, hw]

/-- `w=DIR` relocates: every constructed path starts with `DIR/` -/
theorem relocate_prefix (h : Header.Hdr) (o : Opts) (d : Bytes) (hw : o.extractPath = some d) :
    ∃ rest, fileFullPath h o = d ++ [0x2f] ++ rest := by
  unfold fileFullPath
  simp only [hw]
  exact ⟨(if o.usePath then stripSlashes (h.path.getD []) else []) ++ stripSlashes (h.filename.getD []),
    by simp [List.append_assoc]⟩

end LhasaV.Props.C06
