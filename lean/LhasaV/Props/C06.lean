import LhasaV.Model.Extract
import LhasaV.Lemmas.GlobFs
import LhasaV.Lemmas.MacProps
/-!
# C06 — extraction reproduces the archived tree: contents, names, times, modes, links
-/
namespace LhasaV.Props.C06
open LhasaV LhasaV.Extract

/-- with no wildcard arguments every member is selected -/
theorem no_filter_selects_all (h : Header.Hdr) : Glob.matchesFilter [] h = true := by
  simp [Glob.matchesFilter]

/-- option `i` flattens: the constructed path is the file name alone, whatever the stored path -/
theorem flatten_ignores_path (h : Header.Hdr) (o : Opts) (hi : o.usePath = false) (hw : o.extractPath = none) :
    fileFullPath h o = stripSlashes (h.filename.getD []) := by
  simp [fileFullPath, hi, hw]

/-- `w=DIR` relocates: every constructed path starts with `DIR/` -/
theorem relocate_prefix (h : Header.Hdr) (o : Opts) (d : Bytes) (hw : o.extractPath = some d) :
    ∃ rest, fileFullPath h o = d ++ [0x2f] ++ rest := by
  unfold fileFullPath
  simp only [hw]
  exact ⟨(if o.usePath then stripSlashes (h.path.getD []) else []) ++ stripSlashes (h.filename.getD []),
    by simp [List.append_assoc]⟩

/-- **Wildcards.** `match_glob` (model of the C recursion) decides exactly the wildcard semantics —
`*` any run of bytes, `?` exactly one byte, every other byte itself (case-sensitive) — for EVERY
pattern and EVERY string. -/
theorem glob_iff (g s : List UInt8) : Glob.matchGlob g s = Glob.GlobSpec g s := GlobFs.glob_iff g s

/-- the members handed to extraction/print/list are exactly those whose stored path matches some argument -/
theorem select_spec (fs : List (List UInt8)) (hdrs : List Header.Hdr) :
    Glob.select fs hdrs = hdrs.filter (fun h => fs.isEmpty || fs.any (fun f => Glob.GlobSpec f (Glob.fullName h))) :=
  GlobFs.select_spec fs hdrs

/-- a pattern without wildcards selects exactly the member with that stored path -/
theorem glob_literal (g s : List UInt8) (hg : ∀ b ∈ g, b ≠ Glob.star ∧ b ≠ Glob.quest) :
    Glob.matchGlob g s = true ↔ s = g := GlobFs.glob_literal g s hg

/-- any number of trailing stars is one trailing star -/
theorem glob_trailing_stars (g s : List UInt8) (k : Nat) :
    Glob.matchGlob (g ++ List.replicate (k + 1) Glob.star) s = Glob.matchGlob (g ++ [Glob.star]) s :=
  GlobFs.glob_trailing_stars g s k

/-- with `i` the constructed path is the single component `filename` -/
theorem flatten_single_component (h : Header.Hdr) (o : Opts) (hf : Header.FnOk h)
    (hi : o.usePath = false) (hw : o.extractPath = none) :
    Fs.splitPath (fileFullPath h o) = [h.filename.getD []] := GlobFs.full_path_flat_single h o hf hi hw

open Reader in
/-- **MacBinary envelope stripped.** A member written by MacLHA (OS type 'm') whose decoded content
is a recognised 128-byte MacBinary header followed by the data fork, the resource fork and
padding: checking or extracting it hands out exactly the data fork — or the resource fork when the
data fork is empty. -/
theorem macbinary_strip {s : Reader.St} {c : HObj} {d : Dec} {info : Nat × Nat × Nat}
    (ht : s.currType = CurrType.normal) (hc : s.curr = some c) (hos : c.h.osType = 0x6d)
    (hm : c.h.method ≠ "-lhd-".toUTF8.toList)
    (hd : decoderFor (methodName c.h) = some d) (hi : decoderInfo (methodName c.h) = some info)
    (hdr data res pad : List UInt8)
    (hfull : MacProps.innerBytes s c d = hdr ++ data ++ res ++ pad) (hl : hdr.length = 128)
    (hmac : isMacBinaryHeader hdr c.h = true)
    (hdl : data.length = be32 hdr 0x53) (hrl : res.length = be32 hdr 0x57) :
    (check s).1.2 = (if 0 < be32 hdr 0x53 then data else res) ∧
    (extract s true).1.2 = (if 0 < be32 hdr 0x53 then data else res) :=
  MacProps.macbinary_strip ht hc hos hm hd hi hdr data res pad hfull hl hmac hdl hrl

open Reader in
/-- **… and otherwise left alone**: a member of a Mac archive shorter than 128 bytes, or whose first
128 bytes are not a MacBinary header for this member (name, lengths, time stamp, zero fields —
`mac_header_spec`), is handed out unchanged. -/
theorem macbinary_keep {s : Reader.St} {c : HObj} {d : Dec} {info : Nat × Nat × Nat}
    (ht : s.currType = CurrType.normal) (hc : s.curr = some c) (hos : c.h.osType = 0x6d)
    (hm : c.h.method ≠ "-lhd-".toUTF8.toList)
    (hd : decoderFor (methodName c.h) = some d) (hi : decoderInfo (methodName c.h) = some info)
    (hno : c.h.length < 128 ∨ (128 ≤ (MacProps.innerBytes s c d).length ∧
            isMacBinaryHeader ((MacProps.innerBytes s c d).take 128) c.h = false)) :
    (check s).1.2 = MacProps.innerBytes s c d ∧ (extract s true).1.2 = MacProps.innerBytes s c d :=
  MacProps.macbinary_keep ht hc hos hm hd hi hno

/-- what "recognised" means, field by field (the policy table of macbinary.c) -/
theorem mac_header_spec (d : List UInt8) (h : Header.Hdr) :
    Reader.isMacBinaryHeader d h = true ↔ MacProps.MacHeaderOK d h := MacProps.isMacBinaryHeader_spec d h

end LhasaV.Props.C06
