import LhasaV.Model.Extract
import LhasaV.Lemmas.GlobFs
import LhasaV.Lemmas.MacProps
import LhasaV.Lemmas.ExtractTree
import LhasaV.Lemmas.CliProps
import LhasaV.Lemmas.ArchiveOf
import LhasaV.Lemmas.MessagesAgree
import LhasaV.Lemmas.ArchivePack
import LhasaV.Lemmas.ExtractTreeOpt
import LhasaV.Lemmas.PrintList
import LhasaV.Lemmas.ExtractTreeOw
import LhasaV.Lemmas.ExtractTreeImp
import LhasaV.Lemmas.ArchiveOs
import LhasaV.Lemmas.ExtractTreeAll
import LhasaV.Lemmas.ExtractTreeFlatAll
import LhasaV.Lemmas.GenTool
/-!
# C06 — extraction reproduces the archived tree: contents, names, times, modes, links
-/
namespace LhasaV.Props.C06
open LhasaV LhasaV.Extract

/-- with no wildcard arguments every member is selected -/
theorem no_filter_selects_all (h : Header.Hdr) : Glob.matchesFilter [] h = true := by
  simp [Glob.matchesFilter]

/-- option `i` flattens: the constructed path is the file name alone, whatever the stored path -/
theorem flatten_ignores_path (h : Header.Hdr) (o : Opts) (hi : o.usePath = false) (hw : o.extractPath = none) :
    fileFullPath h o = stripSlashes (h.filename.getD []) := by
  simp [fileFullPath, hi, hw]

/-- `w=DIR` relocates: every constructed path starts with `DIR/` -/
theorem relocate_prefix (h : Header.Hdr) (o : Opts) (d : Bytes) (hw : o.extractPath = some d) :
    ∃ rest, fileFullPath h o = d ++ [0x2f] ++ rest := by
  unfold fileFullPath
  simp only [hw]
  exact ⟨(if o.usePath then stripSlashes (h.path.getD []) else []) ++ stripSlashes (h.filename.getD []),
    by simp [List.append_assoc]⟩

/-- **Wildcards.** `match_glob` (model of the C recursion) decides exactly the wildcard semantics —
`*` any run of bytes, `?` exactly one byte, every other byte itself (case-sensitive) — for EVERY
pattern and EVERY string. -/
theorem glob_iff (g s : List UInt8) : Glob.matchGlob g s = Glob.GlobSpec g s := GlobFs.glob_iff g s

/-- the members handed to extraction/print/list are exactly those whose stored path matches some argument -/
theorem select_spec (fs : List (List UInt8)) (hdrs : List Header.Hdr) :
    Glob.select fs hdrs = hdrs.filter (fun h => fs.isEmpty || fs.any (fun f => Glob.GlobSpec f (Glob.fullName h))) :=
  GlobFs.select_spec fs hdrs

/-- a pattern without wildcards selects exactly the member with that stored path -/
theorem glob_literal (g s : List UInt8) (hg : ∀ b ∈ g, b ≠ Glob.star ∧ b ≠ Glob.quest) :
    Glob.matchGlob g s = true ↔ s = g := GlobFs.glob_literal g s hg

/-- any number of trailing stars is one trailing star -/
theorem glob_trailing_stars (g s : List UInt8) (k : Nat) :
    Glob.matchGlob (g ++ List.replicate (k + 1) Glob.star) s = Glob.matchGlob (g ++ [Glob.star]) s :=
  GlobFs.glob_trailing_stars g s k

/-- with `i` the constructed path is the single component `filename` -/
theorem flatten_single_component (h : Header.Hdr) (o : Opts) (hf : Header.FnOk h)
    (hi : o.usePath = false) (hw : o.extractPath = none) :
    Fs.splitPath (fileFullPath h o) = [h.filename.getD []] := GlobFs.full_path_flat_single h o hf hi hw

open Reader in
/-- **MacBinary envelope stripped.** A member written by MacLHA (OS type 'm') whose decoded content
is a recognised 128-byte MacBinary header followed by the data fork, the resource fork and
padding: checking or extracting it hands out exactly the data fork — or the resource fork when the
data fork is empty. -/
theorem macbinary_strip {s : Reader.St} {c : HObj} {d : Dec} {info : Nat × Nat × Nat}
    (ht : s.currType = CurrType.normal) (hc : s.curr = some c) (hos : c.h.osType = 0x6d)
    (hm : c.h.method ≠ "-lhd-".toUTF8.toList)
    (hd : decoderFor (methodName c.h) = some d) (hi : decoderInfo (methodName c.h) = some info)
    (hdr data res pad : List UInt8)
    (hfull : MacProps.innerBytes s c d = hdr ++ data ++ res ++ pad) (hl : hdr.length = 128)
    (hmac : isMacBinaryHeader hdr c.h = true)
    (hdl : data.length = be32 hdr 0x53) (hrl : res.length = be32 hdr 0x57) :
    (check s).1.2 = (if 0 < be32 hdr 0x53 then data else res) ∧
    (extract s true).1.2 = (if 0 < be32 hdr 0x53 then data else res) :=
  MacProps.macbinary_strip ht hc hos hm hd hi hdr data res pad hfull hl hmac hdl hrl

open Reader in
/-- **… and otherwise left alone**: a member of a Mac archive shorter than 128 bytes, or whose first
128 bytes are not a MacBinary header for this member (name, lengths, time stamp, zero fields —
`mac_header_spec`), is handed out unchanged. -/
theorem macbinary_keep {s : Reader.St} {c : HObj} {d : Dec} {info : Nat × Nat × Nat}
    (ht : s.currType = CurrType.normal) (hc : s.curr = some c) (hos : c.h.osType = 0x6d)
    (hm : c.h.method ≠ "-lhd-".toUTF8.toList)
    (hd : decoderFor (methodName c.h) = some d) (hi : decoderInfo (methodName c.h) = some info)
    (hno : c.h.length < 128 ∨ (128 ≤ (MacProps.innerBytes s c d).length ∧
            isMacBinaryHeader ((MacProps.innerBytes s c d).take 128) c.h = false)) :
    (check s).1.2 = MacProps.innerBytes s c d ∧ (extract s true).1.2 = MacProps.innerBytes s c d :=
  MacProps.macbinary_keep ht hc hos hm hd hi hno

/-- what "recognised" means, field by field (the policy table of macbinary.c) -/
theorem mac_header_spec (d : List UInt8) (h : Header.Hdr) :
    Reader.isMacBinaryHeader d h = true ↔ MacProps.MacHeaderOK d h := MacProps.isMacBinaryHeader_spec d h

/-! ## The tree

`ExtractTree.Entry` = dir path perms? mtime | file path data perms? mtime | link path target (paths as
component lists). `WellFormed es`: directory-first stack discipline (each entry's parent is the
root or the innermost still-open directory entry), unique clean paths, depth < 64, safe link
targets — decidable. `Denotes fuel s es`: along the run the reader presents headers denoting
exactly `es`, and a presented file decodes to its data with a good verdict (executable:
`ExtractTree.denotesB_sound`). `treeOf now umask es p` = the final object of the entry at `p`. -/

open ExtractTree Contain in
/-- **Extraction reproduces the archived tree** (`lha x`, no `w=`/`i`/wildcards, into an empty
directory, as root or as an ordinary user whose umask keeps the owner bits): for every well-formed
entry list the archive denotes, the run succeeds and the object at EVERY path below the extraction
directory is exactly the archived one — file contents, mode (recorded bits or 0666 under the
umask), recorded time; safe link targets; directories with their RECORDED permissions and time,
although their children were written after they were created 0700 and even when those
permissions forbid writing — the extraction directory is stamped `now`, and nothing outside it
changes. PARTIAL in that `WellFormed` wants an explicit directory entry for every parent and
excludes dangerous links (those are C10's `run_contained`). -/
theorem run_tree_partial (archive : Array UInt8) (o : Opts) (fs : Fs.St) (answers : Bytes) (es : List Entry)
    (ho : OptsOk o) (hfs : EmptyDir fs) (ha : Access fs) (hwf : WellFormed es)
    (hfuel : 2 * es.length + 1 ≤ runFuel archive)
    (hden : Denotes (runFuel archive) (runInit archive o fs answers) es) :
    (run archive o fs answers).result = true ∧
    (∀ p, p ≠ [] → Fs.lookup (run archive o fs answers).fs (fs.cwd ++ p) = treeOf fs.now fs.umask es p) ∧
    (es ≠ [] → fs.cwd ≠ [] → ∃ m, Fs.lookup (run archive o fs answers).fs fs.cwd = some (.dir m fs.now)) ∧
    (∀ x, ¬ fs.cwd <+: x → Fs.lookup (run archive o fs answers).fs x = Fs.lookup fs x) :=
  ExtractTree.run_tree archive o fs answers es ho hfs ha hwf hfuel hden

open ExtractTree in
/-- **Two-stage directories.** Every directory entry with recorded permissions and time ends with
exactly those, whatever was extracted into it in between (the 0700 → recorded-mode switch happens
when the directory's contents are done; `ExtractTree.wf_contiguous`: in a well-formed archive the
contents follow the directory contiguously). -/
theorem dir_meta_final (fuel : Nat) (s : Extract.St) (es : List Entry)
    (hs : Start s) (hfs : EmptyDir s.fs) (ha : Access s.fs) (hwf : WellFormed es)
    (hfuel : 2 * es.length + 1 ≤ fuel) (hden : Denotes fuel s es)
    (path : Fs.Path) (perms mtime : Nat) (hD : Entry.dir path (some perms) mtime ∈ es)
    (hm : mtime ≠ 0) :
    Fs.lookup (extractLoop fuel s).fs (s.fs.cwd ++ path) = some (.dir (perms % 4096) mtime) :=
  ExtractTree.dir_meta_final fuel s es hs hfs ha hwf hfuel hden path perms mtime hD hm

open ExtractTree in
/-- both access regimes of the tie meet the `Access` hypothesis: root, and an ordinary user with umask 022 -/
theorem access_regimes (fs : Fs.St) : (fs.root = true → Access fs) ∧ (fs.umask = 0o022 → Access fs) :=
  ⟨access_root fs, access_user_022 fs⟩

open ExtractTree ExtractTree.Sample in
/-- non-vacuity on REAL BYTES: a level-2 archive (built by `Spec.HeaderEnc.encode`) with `a/` 0555,
`a/b/` 0500, the link `a/b/l → y` and `c/`, extracted by an ordinary user: every hypothesis of
`run_tree_partial` is discharged by kernel evaluation of parser and reader over the bytes; `a/b`
ends 0500 with its time although the link was created inside it, `a` ends 0555. -/
theorem sample_tree_extracts :
    (run dirArchive {} sampleFs []).result = true ∧
    Fs.lookup (run dirArchive {} sampleFs []).fs [[0x72], [0x61], [0x62]] = some (.dir 0o500 222) ∧
    Fs.lookup (run dirArchive {} sampleFs []).fs [[0x72], [0x61]] = some (.dir 0o555 111) ∧
    Fs.lookup (run dirArchive {} sampleFs []).fs [[0x72], [0x61], [0x62], [0x6c]] = some (.link [0x79]) :=
  ⟨dirTree_extracts.1, dirTree_ab.1, dirTree_ab.2.1, dirTree_ab.2.2.1⟩

/-- outside the property's domain, recorded as a fact about the code: a directory entry arriving
when the directory already exists (contents BEFORE the directory entry) is accepted and its
recorded metadata is never applied -/
theorem dir_entry_for_existing_dir_ignored (rd : Reader.St) (fs : Fs.St) (fn : Bytes) (cs : List Bytes)
    (c : Reader.HObj) (ht : rd.currType = .normal) (hc : rd.curr = some c)
    (hm : c.h.method = ExtractTree.lhd) (hs : c.h.symlinkTarget = none)
    (hT : ExtractTree.Target fs fn cs) (m t : Nat) (hl : Fs.lookup fs (fs.cwd ++ cs) = some (.dir m t)) :
    readerExtract rd fs fn = (true, rd, fs) :=
  ExtractTree.extract_dir_existing rd fs fn cs c ht hc hm hs hT m t hl

/-! ## The command argument (`src/main.c`) -/

/-- **Option letters.** For every option string the tool accepts: files are overwritten without
asking exactly when an `f` or a `q` (any level) is among the letters; paths are ignored exactly
when an `i` is; dry run / verbose exactly with `n` / `v`; the extraction directory is what follows
the first `w` (one optional `=` dropped). (`flags` = the letters before the first `w`.) -/
theorem option_letters_spec (s : Bytes) (o : Cli.Options) (h : Cli.parseOptions s {} = some o) :
    o.overwriteAll = ((Cli.flags s).contains 0x66 || (Cli.flags s).contains 0x71) ∧
    o.usePath = !(Cli.flags s).contains 0x69 ∧
    o.dryRun = (Cli.flags s).contains 0x6e ∧
    o.verbose = (Cli.flags s).contains 0x76 ∧
    o.extractPath = Cli.wdir s := by
  have := Cli.parseOptions_spec s {} o h
  refine ⟨by simpa using this.1, by simpa using this.2.1, by simpa using this.2.2.1, by simpa using this.2.2.2.1, ?_⟩
  rw [this.2.2.2.2]; cases Cli.wdir s <;> rfl

/-- **Command letter.** An accepted command argument is an optional `-`, one of `l v t x e p`
(`x` and `e` both mean extract), then an accepted option string. -/
theorem command_letter_spec (cmd : Bytes) (m : Cli.Mode) (o : Cli.Options)
    (h : Cli.parseCommandLine cmd = some (m, o)) :
    ∃ c rest, (cmd = c :: rest ∨ cmd = 0x2d :: c :: rest) ∧ Cli.modeForChar c = some m ∧
      Cli.parseOptions rest {} = some o ∧ (m = .extract ↔ (c = 0x78 ∨ c = 0x65)) := by
  obtain ⟨c, rest, hc, hm, ho⟩ := Cli.parseCommand_spec _ m o h
  refine ⟨c, rest, ?_, hm, ho, ?_⟩
  · rcases Cli.stripDash_spec cmd with h1 | h1
    · left; rw [← h1]; exact hc
    · right; rw [h1, hc]
  · rw [← Cli.modeForChar_extract, hm]; constructor
    · rintro rfl; rfl
    · intro h; injection h

/-- plain `x`: prompt before overwriting, paths used, no directory; `xq1`: quiet level 1 implies
overwrite; `-xfiw=out`: force, flat, into `out` -/
example : Cli.parseCommandLine [0x78] = some (.extract, {}) := by
  simp [Cli.parseCommandLine, Cli.stripDash, Cli.parseCommand, Cli.modeForChar, Cli.parseOptions]
example : Cli.parseCommandLine [0x78, 0x71, 0x31] = some (.extract, { quiet := 1, overwriteAll := true }) := by
  simp [Cli.parseCommandLine, Cli.stripDash, Cli.parseCommand, Cli.modeForChar, Cli.parseOptions]
example : Cli.parseCommandLine [0x2d, 0x78, 0x66, 0x69, 0x77, 0x3d, 0x6f, 0x75, 0x74] =
    some (.extract, { overwriteAll := true, usePath := false, extractPath := some [0x6f, 0x75, 0x74] }) := by
  simp [Cli.parseCommandLine, Cli.stripDash, Cli.parseCommand, Cli.modeForChar, Cli.parseOptions]

/-! ## End to end, on bytes

`ArchiveOf.archiveWith pk es` is the archive an archiver writes for the tree `es`: one level-2 (or
level-1) header per entry, built by the C05 header ENCODER `Spec.HeaderEnc.encode`, followed by the
member's data packed by `pk` (`archiveOf` = stored `-lh0-` members). `Encodable es` (decidable): names
without the bytes 0, 0xff, `|`; sizes, times and permission words within their fields; link targets
without `/` (the file-name header cannot carry one). NO hypothesis about the reader remains. -/

open ExtractTree ExtractTree.Sample ArchiveOf Contain in
/-- **Extraction reproduces the archived tree — closed form.** For EVERY well-formed, encodable
tree: `lha x` on the bytes that encode it, into an empty directory (root or ordinary user), succeeds
and leaves exactly that tree: every file with its contents, mode and time, every link with its
target, every directory with its recorded permissions and time although it was written into
after its creation; nothing outside changes. Chains C05 `header_roundtrip`, C16 `scan_finds_first`,
C03 `null_round_trip`, C15's reader independence and the tree theorem. -/
theorem extract_reproduces_tree (es : List Entry) (hwf : WellFormed es) (henc : Encodable es)
    (o : Opts) (fs : Fs.St) (answers : Bytes) (ho : OptsOk o) (hfs : EmptyDir fs) (ha : Access fs) :
    (run (archiveOf es) o fs answers).result = true ∧
    (∀ p, p ≠ [] → Fs.lookup (run (archiveOf es) o fs answers).fs (fs.cwd ++ p) =
      treeOf fs.now fs.umask es p) ∧
    (es ≠ [] → fs.cwd ≠ [] →
      ∃ m, Fs.lookup (run (archiveOf es) o fs answers).fs fs.cwd = some (.dir m fs.now)) ∧
    (∀ x, ¬ fs.cwd <+: x → Fs.lookup (run (archiveOf es) o fs answers).fs x = Fs.lookup fs x) :=
  ArchiveOf.extract_archiveOf es hwf henc o fs answers ho hfs ha

open ExtractTree ExtractTree.Sample ArchiveOf Contain in
/-- … for any member packer with a decoder round trip (`Packs`): stored at level 1 or 2, `-lzs-` and
`-lz5-` literal runs are instantiated (`packOk_stored`, `packOk_storedL1`, `packOk_lzsLit`,
`packOk_lz5Lit`); `packOk_of_roundtrip` is the adapter for the C01/C02/C04 round trips. -/
theorem extract_reproduces_tree_packed (pk : Packer) (es : List Entry) (hwf : WellFormed es)
    (henc : Encodable es) (hpk : Packs pk es) (o : Opts) (fs : Fs.St) (answers : Bytes) (ho : OptsOk o)
    (hfs : EmptyDir fs) (ha : Access fs) :
    (run (archiveWith pk es) o fs answers).result = true ∧
    (∀ p, p ≠ [] → Fs.lookup (run (archiveWith pk es) o fs answers).fs (fs.cwd ++ p) =
      treeOf fs.now fs.umask es p) ∧
    (es ≠ [] → fs.cwd ≠ [] →
      ∃ m, Fs.lookup (run (archiveWith pk es) o fs answers).fs fs.cwd = some (.dir m fs.now)) ∧
    (∀ x, ¬ fs.cwd <+: x → Fs.lookup (run (archiveWith pk es) o fs answers).fs x = Fs.lookup fs x) :=
  ArchiveOf.extract_archiveWith pk es hwf henc hpk o fs answers ho hfs ha

open ExtractTree ExtractTree.Sample ArchiveOf Contain in
/-- the hypothesis `Denotes` of `run_tree_partial` IS a theorem for such archives (any options, file
system and answers) -/
theorem archive_denotes_tree (es : List Entry) (hwf : WellFormed es) (henc : Encodable es)
    (o : Opts) (fs : Fs.St) (answers : Bytes) :
    Denotes (runFuel (archiveOf es)) (runInit (archiveOf es) o fs answers) es :=
  ArchiveOf.archiveOf_denotes es hwf henc o fs answers

open ExtractTree ExtractTree.Sample ArchiveOf in
/-- non-vacuity: `a/` 0555, `a/x`, `a/b/` 0555, `a/b/y`, `a/b/l → y`, `z` — files included -/
theorem sample_tree_with_files_extracts :
    SampleOutcome (run (archiveOf sampleTree) {} sampleFs []) :=
  ArchiveOf.sampleTree_extracts

open MessagesAgree in
/-- **The two models of the extraction loop agree** (`Extract.run`, over which the tree and
containment theorems are proved, and `Messages.run .extract`, which also carries every message and
the exit status and is compared with the real tool byte for byte): same file system incl. mutation
log, reader state, result and abort flags — when the prompt answers are NUL-free, newline-terminated
lines (at most 64) or nothing is asked, and no handled non-directory member has a path ending
in '/'. Both side conditions are necessary (`#guard`ed counterexamples in Lemmas/MessagesAgree). -/
theorem extract_models_agree (archive : Array UInt8) (o : Opts) (fs : Fs.St) (answers : Bytes)
    (hd : o.dryRun = false) (hp : PromptOk o.overwrite answers) (hs : TraceNoTrail archive o fs answers) :
    (Extract.run archive o fs answers).fs = (Messages.run .extract archive o fs answers).x.fs ∧
    (Extract.run archive o fs answers).rd = (Messages.run .extract archive o fs answers).x.rd ∧
    (Extract.run archive o fs answers).result = (Messages.run .extract archive o fs answers).result ∧
    (Extract.run archive o fs answers).aborted = (Messages.run .extract archive o fs answers).aborted ∧
    ((Messages.run .extract archive o fs answers).aborted = false →
      (Extract.run archive o fs answers).opts = (Messages.run .extract archive o fs answers).x.opts ∧
      (Extract.run archive o fs answers).answers = (Messages.run .extract archive o fs answers).x.answers) :=
  MessagesAgree.run_agree archive o fs answers hd hp hs

/-! ## every method; and the options `i`, `w=DIR`, wildcards -/

open ExtractTree ExtractTree.Sample ArchiveOf ArchivePack Contain in
/-- **Every method with a decoder round trip.** For each of stored, `-lzs-`, `-lz5-`, `-lh1-`,
`-lh4-` … `-lh7-`, `-lhx-`, `-pm1-`, `-pm2-`, header level 1 or 2, and EVERY well-formed encodable
tree whose files meet the method's size condition: `lha x` of the bytes (headers by the C05
encoder, member data by the METHOD'S SPECIFICATION ENCODER — C01/C02/C03/C04 round trips) reproduces
exactly the tree. (`-lk7-` cannot be written by this builder: LHark stores `-lh7-` under OS type ' '.) -/
theorem extract_reproduces_tree_all_methods :
    ∀ m ∈ Method.all, ∀ (l1 : Bool) (es : List Entry), WellFormed es → Encodable es → FilesSat m.fits es →
      ∀ (o : Opts) (fs : Fs.St) (answers : Bytes), OptsOk o → EmptyDir fs → Access fs →
        Reproduces (archiveWith (m.packer l1) es) es o fs answers :=
  ArchivePack.extract_archive_all_methods

open ExtractTree ExtractTree.Sample ArchiveOf Contain in
/-- **Wildcard arguments select exactly the matching members**: with patterns `o.filters`, the
extracted tree is the tree of the SELECTED entries (`selected` = `*` any run, `?` one byte on the
stored path, `glob_iff`), provided the selection is closed under parents (implicitly created
parents are outside this theorem; the tie covers them). On bytes, no reader hypothesis. -/
theorem extract_selected (es : List Entry) (o : Opts) (fs : Fs.St) (answers : Bytes)
    (hwf : WellFormed es) (hcl : ParentClosed (selected o.filters) es) (henc : Encodable es)
    (hx : o.extractPath = none) (hu : o.usePath = true) (hfs : EmptyDir fs) (ha : Access fs) :
    (run (archiveOf es) o fs answers).result = true ∧
    (∀ p, p ≠ [] → Fs.lookup (run (archiveOf es) o fs answers).fs (fs.cwd ++ p) =
      treeOf fs.now fs.umask (es.filter (selected o.filters)) p) ∧
    (∀ x, ¬ fs.cwd <+: x → Fs.lookup (run (archiveOf es) o fs answers).fs x = Fs.lookup fs x) :=
  ArchiveOf.extract_archiveOf_closed es o fs answers hwf hcl henc hx hu hfs ha

open ExtractTree ExtractTree.Sample ArchiveOf Contain in
/-- **`w=DIR` relocates the tree, creating DIR**: the tree appears below `cwd/DIR`; the missing
components of DIR are created (0755 under the umask, `MadeFrom`), an existing DIR keeps its mode;
nothing else changes. DIR = clean relative components; nothing below its place beforehand. -/
theorem extract_relocated (es : List Entry) (o : Opts) (fs : Fs.St) (answers : Bytes)
    (ds : List Bytes) (k : Nat) (hwf : WellFormed es) (henc : Encodable es)
    (hne : ds ≠ []) (hx : o.extractPath = some (joinPath ds)) (hu : o.usePath = true) (hnf : o.filters = [])
    (hb : BaseOk fs ds k) (ha : AccessW fs) (hdepth : ∀ e ∈ es, ds.length + e.path.length < 64) :
    (run (archiveOf es) o fs answers).result = true ∧
    (∀ p, p ≠ [] → Fs.lookup (run (archiveOf es) o fs answers).fs (fs.cwd ++ ds ++ p) =
      treeOf fs.now fs.umask es p) ∧
    (es ≠ [] → ∃ m t0, Fs.lookup (mkBase fs ds) (fs.cwd ++ ds) = some (.dir m t0) ∧
      Fs.lookup (run (archiveOf es) o fs answers).fs (fs.cwd ++ ds) = some (.dir m fs.now)) ∧
    (es ≠ [] → ∀ x, ¬ (fs.cwd ++ ds) <+: x →
      Fs.lookup (run (archiveOf es) o fs answers).fs x = Fs.lookup (mkBase fs ds) x) ∧
    MadeFrom fs (mkBase fs ds) (ds.take k) (ds.drop k) :=
  ArchiveOf.extract_archiveOf_reloc es o fs answers ds k hwf henc hne hx hu hnf hb ha hdepth

open ExtractTree ExtractTree.Sample ArchiveOf Contain in
/-- **Option `i` flattens**: directory entries are ignored and every selected file / link lands
directly in the extraction directory under its own name (pairwise distinct names; any order of the
entries; wildcards allowed). -/
theorem extract_flattened (es : List Entry) (o : Opts) (fs : Fs.St) (answers : Bytes)
    (hok : ∀ e ∈ es, EntryOk e) (henc : Encodable es)
    (hnames : ((es.filter (fun e => selected o.filters e && !e.isDir)).map Entry.namePart).Nodup)
    (hx : o.extractPath = none) (hu : o.usePath = false) (hfs : EmptyDir fs) (ha : Access fs) :
    (run (archiveOf es) o fs answers).result = true ∧
    (∀ p, p ≠ [] → Fs.lookup (run (archiveOf es) o fs answers).fs (fs.cwd ++ p) =
      flatTreeOf fs.now fs.umask (es.filter (selected o.filters)) p) ∧
    (∀ x, ¬ fs.cwd <+: x → Fs.lookup (run (archiveOf es) o fs answers).fs x = Fs.lookup fs x) :=
  ArchiveOf.extract_archiveOf_flat es o fs answers hok henc hnames hx hu hfs ha

open ExtractTree ExtractTree.Sample ArchiveOf PrintList in
/-- **The `p` command writes exactly each selected file's contents after its name banner** — on
bytes, for every encodable entry list (no order condition), every packer with a decoder round trip,
and EVERY option set (quiet level, `i`, `w=`, wildcards): standard output is the concatenation, over
the selected entries in archive order, of `printSeg`: for a file `::::::::\n<name>\n::::::::\n`
(omitted at quiet 2) followed by EXACTLY its data; for a link the line `Symbolic Link <name> ->
<target>\n`; for a directory nothing (names sanitised by `safe_output`). -/
theorem print_writes_selected (pk : Packer) (es : List Entry) (hok : ∀ e ∈ es, EntryOk e)
    (henc : Encodable es) (hpk : Packs pk es) (o : Opts) :
    Extract.print (archiveWith pk es) o = (es.filter (selected o.filters)).flatMap (printSeg o) :=
  PrintList.print_archiveWith pk es hok henc hpk o

/-! ## the overwrite policy

`plan ex pol lines es` is the INDEPENDENT specification of the policy (it calls neither
`confirmOverwrite` nor `readAnswer`): walk the entries in order; a file entry whose place is taken
(`ex`) is written under policy `all` (options f, q*), kept under `skip`, and under `prompt` the
answers are read line by line — y/Y write this one, n/N or an empty line keep it, a/A write this
and all later ones, s/S keep this and all later ones, anything else ask again, end of input abort
(`exit(-1)`: nothing from that entry on is extracted). Result: the entries written, and whether the
run aborted. `owTree … old written p` = the archived object where `written` has one at `p`, else
what was there before. `PreDir fs es`: the extraction directory holds only top-level regular files,
none at the place of a directory or link member (other names are allowed and must stay). -/

open ExtractTree ExtractTree.Sample ArchiveOf Contain in
/-- **An archived file replaces an existing one only under the overwrite policy in force.** On
bytes, for every well-formed encodable tree, extraction directory with pre-existing top-level files,
policy and answer stream: the run aborts exactly when the specification does, and afterwards every
path holds the archived object if the specification says "written", and EXACTLY what was there
before (content, mode, time) otherwise; directories carry their recorded metadata; files at
names not in the archive and everything outside are untouched. -/
theorem overwrite_policy (es : List Entry) (hwf : WellFormed es) (henc : Encodable es)
    (o : Opts) (fs : Fs.St) (answers : Bytes) (ho : OptsOk o) (hfs : PreDir fs es)
    (ha : Access fs) (hans : o.overwrite = .prompt → OwAnswers answers) :
    OwOutcome (run (archiveOf es) o fs answers) fs (owPlan fs o answers es) :=
  ExtractTree.extract_archiveOf_ow es hwf henc o fs answers ho hfs ha hans

open ExtractTree in
/-- what `OwOutcome` says, spelled out -/
theorem overwrite_outcome_spelled (r : Extract.St) (fs : Fs.St) (pl : List Entry × Bool) :
    OwOutcome r fs pl ↔
      (r.aborted = pl.2 ∧ r.result = !pl.2 ∧
       (∀ p, p ≠ [] → Fs.lookup r.fs (fs.cwd ++ p) = owTree fs.now fs.umask (oldAt fs) pl.1 p) ∧
       (∃ m t0 t, Fs.lookup fs fs.cwd = some (.dir m t0) ∧ Fs.lookup r.fs fs.cwd = some (.dir m t) ∧
         (pl.1 ≠ [] → fs.cwd ≠ [] → t = fs.now) ∧ (pl.1 = [] → t = t0)) ∧
       (∀ x, ¬ fs.cwd <+: x → Fs.lookup r.fs x = Fs.lookup fs x)) := Iff.rfl

open ExtractTree in
/-- the model's prompt loop follows the specification -/
theorem prompt_follows_spec (pol : Overwrite) (a : Bytes) (ls : List Bytes) (h : AnsInv pol a ls) :
    (askOne pol ls = none → confirmOverwrite 64 pol a = none) ∧
    (∀ w pol' ls', askOne pol ls = some (w, pol', ls') →
      ∃ a', confirmOverwrite 64 pol a = some (w, pol', a') ∧ AnsInv pol' a' ls') :=
  ExtractTree.confirm_follows_spec pol a ls h

/-! ## archives without directory entries (LHA for DOS, LHarc), and mixed ones -/

open ExtractTree ExtractTree.Sample ArchiveOf Contain in
/-- **Implicit parents.** An archive of files and safe links only (`ImplicitOk`: clean unique
paths, no path a proper prefix of another, ANY order): extraction succeeds and leaves every entry
as archived PLUS every proper prefix of an entry path as a directory 0755 under the umask with time
`now` (`impTreeOf`; `implicit_tree_spelled`), nothing else; on bytes, no reader hypothesis. -/
theorem extract_implicit_parents (es : List Entry) (hes : ImplicitOk es) (henc : Encodable es)
    (o : Opts) (fs : Fs.St) (answers : Bytes) (ho : OptsOk o) (hfs : EmptyDir fs) (ha : Access fs) :
    (run (archiveOf es) o fs answers).result = true ∧
    (∀ p, p ≠ [] → Fs.lookup (run (archiveOf es) o fs answers).fs (fs.cwd ++ p) =
      impTreeOf fs.now fs.umask es p) ∧
    (∃ m t0 t, Fs.lookup fs fs.cwd = some (.dir m t0) ∧
      Fs.lookup (run (archiveOf es) o fs answers).fs fs.cwd = some (.dir m t) ∧
      (es ≠ [] → fs.cwd ≠ [] → t = fs.now)) ∧
    (∀ x, ¬ fs.cwd <+: x → Fs.lookup (run (archiveOf es) o fs answers).fs x = Fs.lookup fs x) :=
  ArchiveOf.extract_archiveOf_implicit es hes henc o fs answers ho hfs ha

open ExtractTree in
theorem implicit_tree_spelled (now umask : Nat) (es : List Entry) (h : ImplicitOk es) :
    (∀ e ∈ es, impTreeOf now umask es e.path = some (e.final now umask) ∧ treeOf now umask es e.path = some (e.final now umask)) ∧
    (∀ p e, e ∈ es → p ≠ [] → p <+: e.path → p ≠ e.path →
      impTreeOf now umask es p = some (.dir (0o755 - (0o755 &&& umask)) now)) ∧
    (∀ p, (∀ e ∈ es, ¬ p <+: e.path) → impTreeOf now umask es p = none) :=
  ExtractTree.impTree_spelled now umask es h

open ExtractTree ExtractTree.Sample ArchiveOf Contain in
/-- **Mixed archives** (`WFI`: explicit directory entries with their contents contiguous, implicit
parents anywhere, and LATE directory entries — arriving after something below them): a late
directory entry is ignored (its recorded metadata is never applied: `keptOf` drops it), everything
else as above. Generalises `extract_reproduces_tree` (`ExtractTree.wfi_of_wf`). -/
theorem extract_mixed (es : List Entry) (hwf : WFI [] [] es) (henc : Encodable es)
    (o : Opts) (fs : Fs.St) (answers : Bytes) (ho : OptsOk o) (hfs : EmptyDir fs) (ha : Access fs) :
    (run (archiveOf es) o fs answers).result = true ∧
    (∀ p, p ≠ [] → Fs.lookup (run (archiveOf es) o fs answers).fs (fs.cwd ++ p) =
      impTreeOf fs.now fs.umask (keptOf [] es) p) ∧
    (∃ m t0 t, Fs.lookup fs fs.cwd = some (.dir m t0) ∧
      Fs.lookup (run (archiveOf es) o fs answers).fs fs.cwd = some (.dir m t) ∧
      (es ≠ [] → fs.cwd ≠ [] → t = fs.now)) ∧
    (∀ x, ¬ fs.cwd <+: x → Fs.lookup (run (archiveOf es) o fs answers).fs x = Fs.lookup fs x) :=
  ArchiveOf.extract_archiveOf_mixed es hwf henc o fs answers ho hfs ha

/-! ## other header shapes: LHark (`-lk7-`), any OS type, level-0 headers -/

open ExtractTree ExtractTree.Sample ArchiveOf ArchivePack ArchiveOs Contain in
/-- **LHark members.** What LHark writes — `-lh7-` in a level-1 header with OS type ' ', data in
LHark's own length/distance code — is presented by the reader as `-lk7-` and extracted exactly
(names `CaseStable`: for this DOS-like OS type a path WITHOUT any lower-case letter is folded to
lower case by the parser, shown necessary by a `#guard` in Lemmas/ArchiveOs). With this the closed
theorem covers all twelve decodable methods. -/
theorem extract_reproduces_tree_lk7 (es : List Entry) (hwf : WellFormed es) (henc : Encodable es)
    (hcase : ∀ e ∈ es, CaseStable e) (hfit : FilesSat (fun d => d.length < 4294000000) es)
    (o : Opts) (fs : Fs.St) (answers : Bytes) (ho : OptsOk o) (hfs : EmptyDir fs) (ha : Access fs) :
    Reproduces (archiveWithOs 0x20 lk7Lit es) es o fs answers :=
  ArchiveOs.extract_archive_lk7 es hwf henc hcase hfit o fs answers ho hfs ha

open ExtractTree ExtractTree.Sample ArchiveOf ArchivePack ArchiveOs Contain in
/-- **Level-0 headers** (LHarc / LArc style: path and name in the base header, DOS time stamp):
plain level 0 for all eleven methods — times are even seconds from 1980 (`dosTime_inverse`: the DOS
stamp round-trips), no permissions or links (the format has none) — and level 0 with the Unix area
(`extract_level0_unix`: exact time, permissions, links as `name|target`). -/
theorem extract_level0_dos (m : Method) (es : List Entry) (hwf : WellFormed es) (henc : Encodable es)
    (h0 : Encodable0Dos es) (hfit : FilesSat m.fits es)
    (o : Opts) (fs : Fs.St) (answers : Bytes) (ho : OptsOk o) (hfs : EmptyDir fs) (ha : Access fs) :
    Reproduces (archive0Dos (m.packer false) es) es o fs answers :=
  ArchiveOs.extract_archive_level0_dos_method m es hwf henc h0 hfit o fs answers ho hfs ha

open ExtractTree ExtractTree.Sample ArchiveOf ArchivePack ArchiveOs Contain in
theorem extract_level0_unix (m : Method) (hm : m ≠ .pm1 ∧ m ≠ .pm2) (es : List Entry) (hwf : WellFormed es)
    (henc : Encodable es) (h0 : Encodable0 es) (hfit : FilesSat m.fits es)
    (o : Opts) (fs : Fs.St) (answers : Bytes) (ho : OptsOk o) (hfs : EmptyDir fs) (ha : Access fs) :
    Reproduces (archive0 (m.packer false) es) es o fs answers :=
  ArchiveOs.extract_archive_level0_method m hm es hwf henc h0 hfit o fs answers ho hfs ha

/-- the DOS time stamp of every even second from 1980-01-01 below 2³² converts back exactly -/
theorem dos_time_roundtrip (t : Nat) (h1 : 315532800 ≤ t) (h2 : t < 4294967296) (h3 : t % 2 = 0) :
    Header.dosTimeUTC (ArchiveOs.unixToDos t) = t :=
  ArchiveOs.dosTime_inverse t h1 h2 h3

/-! ## one theorem for the combinations

`WFU sel`: the mixed discipline `WFI` for the SELECTED entries (an unselected entry only closes the
directories it lies outside of); `BaseU fs ds k`: the place of the tree — cwd, or `cwd/DIR` for
`w=DIR` = `ds` — may hold top-level regular files if it exists; `PreAtU`: the place of each selected
entry is free, or it is a top-level file member with a regular file in its place; `Asked`: some
selected file member's place is taken (only then are answers read). `uniPlan` = the independent
overwrite specification `plan` applied to the kept selected entries; `uniTree` = implicit-parent
tree of what the plan writes, else what was there. -/

open ExtractTree ExtractTree.Sample ArchiveOf Contain in
/-- **Wildcards ∘ `w=DIR` ∘ implicit parents ∘ late directory entries ∘ overwrite policy, at once.**
On bytes, for every encodable entry list: the run aborts exactly when the policy specification does;
below the base every path holds the archived object if the plan writes it, a 0755-umask/now
directory if it is a missing parent of something written, and otherwise EXACTLY what was there;
DIR's missing components are made as `MadeFrom` says; nothing else changes; with nothing selected
the file system is untouched. The earlier tree theorems are instances (re-derived with their
original statements in Lemmas/ExtractTreeAll10). Option `i` stays with `extract_flattened`. -/
theorem extract_unified (es : List Entry) (o : Opts) (fs : Fs.St)
    (answers : Bytes) (ds : List Bytes) (k : Nat)
    (hwf : WFU (selected o.filters) [] [] es) (henc : Encodable es)
    (ho : OptsRel o ds) (hb : BaseU fs ds k) (ha : AccessW fs)
    (hpre : ∀ e ∈ es, selected o.filters e = true → PreAtU fs ds e)
    (hdepth : ∀ e ∈ es, ds.length + e.path.length < 64)
    (hans : Asked fs ds (selected o.filters) es → o.overwrite = .prompt → OwAnswers answers) :
    UniOutcome (run (archiveOf es) o fs answers) fs ds (uniPlan fs ds o answers es) ∧
    MadeFrom fs (mkBase fs ds) (ds.take k) (ds.drop k) :=
  ArchiveOf.extract_archiveOf_unified es o fs answers ds k hwf henc ho hb ha hpre hdepth hans

open ExtractTree ExtractTree.Sample ArchiveOf Contain in
/-- **Wildcards on a directory-first archive, ANY pattern list** (no closure condition any more):
the tree of the selected entries, with 0755-umask/now directories for parents whose own entry was
not selected. -/
theorem extract_selected_any (es : List Entry) (o : Opts) (fs : Fs.St) (answers : Bytes)
    (hwf : WellFormed es) (henc : Encodable es)
    (hx : o.extractPath = none) (hu : o.usePath = true) (hfs : EmptyDir fs) (ha : Access fs) :
    (run (archiveOf es) o fs answers).result = true ∧
    (∀ p, p ≠ [] → Fs.lookup (run (archiveOf es) o fs answers).fs (fs.cwd ++ p) =
      impTreeOf fs.now fs.umask (es.filter (selected o.filters)) p) ∧
    (∀ x, ¬ fs.cwd <+: x → Fs.lookup (run (archiveOf es) o fs answers).fs x = Fs.lookup fs x) :=
  ArchiveOf.extract_archiveOf_selected_any es o fs answers hwf henc hx hu hfs ha

open ExtractTree ExtractTree.Sample ArchiveOf Contain in
/-- **Option `i` with everything else** (the combination `extract_unified` leaves out): wildcards,
`w=DIR`, pre-existing regular files at flattened names and the overwrite policy. Any entry order;
selected non-directory names pairwise distinct. The run aborts exactly when the policy
specification does; each flattened name holds the archived object if the plan writes it and EXACTLY
what was there otherwise; directory entries are ignored entirely (`flat_no_directories`); DIR's
missing components are made; nothing selected ⇒ untouched. -/
theorem extract_flat_unified (es : List Entry) (o : Opts) (fs : Fs.St)
    (answers : Bytes) (ds : List Bytes) (k : Nat)
    (hok : ∀ e ∈ es, EntryOk e) (henc : Encodable es)
    (ho : OptsFlat o ds) (hb : BaseU fs ds k) (ha : AccessW fs)
    (hnames : ((es.filter (fun e => selected o.filters e && !e.isDir)).map Entry.namePart).Nodup)
    (hpre : ∀ e ∈ es, selected o.filters e = true → e.isDir = false → PreAtF fs ds e)
    (hans : AskedF fs ds (selected o.filters) es → o.overwrite = .prompt → OwAnswers answers) :
    FlatOutcome (run (archiveOf es) o fs answers) fs ds (flatPlan fs ds o answers es) ∧
    MadeFrom fs (mkBase fs ds) (ds.take k) (ds.drop k) :=
  ArchiveOf.extract_archiveOf_flat_unified es o fs answers ds k hok henc ho hb ha hnames hpre hans

open ExtractTree in
/-- under `i` no directory appears below the base, whatever the archive's directory entries say -/
theorem flat_no_directories {r : Extract.St} {fs : Fs.St} {ds : List Bytes} {pl : List Entry × Bool} {k : Nat}
    (h : FlatOutcome r fs ds pl) (hb : BaseU fs ds k)
    (hnd : ∀ e ∈ pl.1, e.isDir = false) (p : Fs.Path) (hp : p ≠ []) (m t : Nat) :
    Fs.lookup r.fs (fs.cwd ++ ds ++ p) ≠ some (.dir m t) :=
  ExtractTree.flatOutcome_no_dir h hb hnd p hp m t

/-- **Translator tie**: the MacBinary header test of the model is the test of lib/macbinary.c over the layout macros as
regenerated from the working tree (`Gen/Tool.lean`); the sizes used elsewhere in the pass-through model agree too. -/
theorem macbinary_layout_matches_source :
    (∀ d h, Reader.isMacBinaryHeader d h = GenTool.isMacBinaryHeaderG d h)
    ∧ Gen.mbhdrSize = 128 ∧ Gen.mbhdrOffDataForkLen = 0x53 ∧ Gen.mbhdrOffResForkLen = 0x57 ∧ Gen.macOutputBufferSize = 4096
    ∧ Gen.mbhdrOffMacbinary2Data + Gen.mbhdrLenMacbinary2Data = Gen.mbhdrSize :=
  ⟨GenTool.mac_header_layout_matches_source, GenTool.mac_sizes_match_source⟩

end LhasaV.Props.C06
