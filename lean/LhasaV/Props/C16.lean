import LhasaV.Lemmas.StreamProps
/-!
# C16 — same members from file, pipe or callbacks, and after any self-extractor prefix

`Stream.firstHeader bs` is the declarative meaning of the self-extractor scan on the byte list `bs`:
offsets are examined in order, `sigAt` is the method-signature test, `markAt` the two SFX marker
strings, one decoy signature is skipped per marker; an offset `i` is examined iff
`i + 12 < |bs|` and `i < 256 KiB + 8`.
-/
namespace LhasaV.Props.C16
open LhasaV LhasaV.Stream
open LhasaV.Reader (Basic Ledger basicNext)

/-- The scan (24-byte window, lead-in bookkeeping) finds exactly the specified header: afterwards
the stream delivers the bytes from that offset on; each offset is examined exactly once. -/
theorem scan_finds_first (s : Stream.St) (hp : s.phase = .init) (hl : s.leadin = [])
    (bs : List UInt8) (hbs : bs = (s.data.extract s.pos s.data.size).toList) :
    ∃ s', start s = .ok s' ∧ s'.data = s.data ∧ s'.kind = s.kind ∧ s'.leadin.length ≤ 24 ∧
      match firstHeader bs with
      | some i => s'.phase = .reading ∧ rest s' = bs.drop i
      | none => s'.phase = .fail :=
  Stream.scan_finds_first s hp hl bs hbs

/-- without markers the scan finds the least examined offset carrying a signature -/
theorem first_signature (bs : List UInt8) (hm : ∀ j, ¬ markAt bs j) (i : Nat) :
    firstHeader bs = some i ↔
      (i + 12 < bs.length ∧ i < Gen.maxSfxHeaderLen + 8 ∧ sigAt bs i ∧ ∀ j, j < i → ¬ sigAt bs j) :=
  Stream.firstHeader_no_marker bs hm i

/-- Prefix transparency: a prefix `P` without signature or marker at any of its offsets (judged on
`P ++ A`, since a match can straddle the boundary) shifts the result by `|P|`. -/
theorem prefix_transparent (P A : List UInt8)
    (hclean : ∀ j, j < P.length → ¬ sigAt (P ++ A) j ∧ ¬ markAt (P ++ A) j) :
    firstHeader (P ++ A) = (firstHeaderLim (scanLimit - P.length) A).map (· + P.length) :=
  Stream.firstHeader_prefix P A hclean

/-- … in particular an archive starting with a header is found right after any such prefix shorter
than 256 KiB + 8. -/
theorem prefix_transparent_zero (P A : List UInt8)
    (hclean : ∀ j, j < P.length → ¬ sigAt (P ++ A) j ∧ ¬ markAt (P ++ A) j)
    (hsig : sigAt A 0) (hlen : 12 < A.length) (hlim : P.length < Gen.maxSfxHeaderLen + 8) :
    firstHeader (P ++ A) = some P.length :=
  Stream.firstHeader_prefix_zero P A hclean hsig hlen hlim

/-- Stub + marker + one decoy header + stub: the decoy is skipped. -/
theorem decoy_skipped (P A : List UInt8) (m d : Nat) (hmd : m < d) (hd : d < P.length)
    (hmark : markAt (P ++ A) m) (hsig : sigAt (P ++ A) d)
    (hnosig : ∀ j, j < P.length → j ≠ d → ¬ sigAt (P ++ A) j)
    (hnomark : ∀ j, m < j → j < P.length → ¬ markAt (P ++ A) j) :
    firstHeader (P ++ A) = (firstHeaderLim (scanLimit - P.length) A).map (· + P.length) :=
  Stream.firstHeader_decoy P A m d hmd hd hmark hsig hnosig hnomark

/-- The four kinds of source: skipping `n` bytes lands at `pos + n` whenever it succeeds; a seekable
file always succeeds (even past the end), the other three succeed iff the bytes are there. -/
theorem skip_kinds (s : Stream.St) (n : Nat) :
    ((skip s n).1 = true → (skip s n).2.pos = s.pos + n) ∧
    (s.kind = .seekable → (skip s n).1 = true) ∧
    (s.kind ≠ .seekable → ((skip s n).1 = true ↔ n ≤ s.data.size - s.pos)) :=
  ⟨Stream.skip_pos s n, Stream.skip_seekable s n, Stream.skip_other s n⟩

/-- Kinds agree: basic-reader states that differ only in the kind of their source (and in step
counters) return the same header or both report the end, and stay in that relation — including
the case where a skip runs past the end of the data (seekable: the seek succeeds and the next
header cannot be read; others: the skip fails). -/
theorem kinds_agree (mk : Nat → Nat) (a b : Basic) (led : Ledger) (h : ObsEq a b) (wf : WF a) :
    ResRel (fun r r' => ObsEq r.1 r'.1 ∧ r.2 = r'.2) (basicNext mk a led) (basicNext mk b led) :=
  Stream.basicNext_kind_indep mk a b led h wf

/-- … for any number of `next` calls -/
theorem kinds_agree_n (mk : Nat → Nat) (n : Nat) (a b : Basic) (led : Ledger) (h : ObsEq a b) (wf : WF a) :
    ResRel (fun r r' => ObsEq r.1 r'.1 ∧ r.2 = r'.2) (nextN mk n (a, led)) (nextN mk n (b, led)) :=
  Stream.nextN_kind_indep mk n a b led h wf

end LhasaV.Props.C16
