import LhasaV.Lemmas.StreamProps
import LhasaV.Lemmas.ToolKinds
import LhasaV.Lemmas.ToolKindsMore
/-!
# C16 — same members from file, pipe or callbacks, and after any self-extractor prefix

`Stream.firstHeader bs` is the declarative meaning of the self-extractor scan on the byte list `bs`:
offsets are examined in order, `sigAt` is the method-signature test, `markAt` the two SFX marker
strings, one decoy signature is skipped per marker; an offset `i` is examined iff
`i + 12 < |bs|` and `i < 256 KiB + 8`.
-/
namespace LhasaV.Props.C16
open LhasaV LhasaV.Stream
open LhasaV.Reader (Basic Ledger basicNext)

/-- The scan (24-byte window, lead-in bookkeeping) finds exactly the specified header: afterwards
the stream delivers the bytes from that offset on; each offset is examined exactly once. -/
theorem scan_finds_first (s : Stream.St) (hp : s.phase = .init) (hl : s.leadin = [])
    (bs : List UInt8) (hbs : bs = (s.data.extract s.pos s.data.size).toList) :
    ∃ s', start s = .ok s' ∧ s'.data = s.data ∧ s'.kind = s.kind ∧ s'.leadin.length ≤ 24 ∧
      match firstHeader bs with
      | some i => s'.phase = .reading ∧ rest s' = bs.drop i
      | none => s'.phase = .fail :=
  Stream.scan_finds_first s hp hl bs hbs

/-- without markers the scan finds the least examined offset carrying a signature -/
theorem first_signature (bs : List UInt8) (hm : ∀ j, ¬ markAt bs j) (i : Nat) :
    firstHeader bs = some i ↔
      (i + 12 < bs.length ∧ i < Gen.maxSfxHeaderLen + 8 ∧ sigAt bs i ∧ ∀ j, j < i → ¬ sigAt bs j) :=
  Stream.firstHeader_no_marker bs hm i

/-- Prefix transparency: a prefix `P` without signature or marker at any of its offsets (judged on
`P ++ A`, since a match can straddle the boundary) shifts the result by `|P|`. -/
theorem prefix_transparent (P A : List UInt8)
    (hclean : ∀ j, j < P.length → ¬ sigAt (P ++ A) j ∧ ¬ markAt (P ++ A) j) :
    firstHeader (P ++ A) = (firstHeaderLim (scanLimit - P.length) A).map (· + P.length) :=
  Stream.firstHeader_prefix P A hclean

/-- … in particular an archive starting with a header is found right after any such prefix shorter
than 256 KiB + 8. -/
theorem prefix_transparent_zero (P A : List UInt8)
    (hclean : ∀ j, j < P.length → ¬ sigAt (P ++ A) j ∧ ¬ markAt (P ++ A) j)
    (hsig : sigAt A 0) (hlen : 12 < A.length) (hlim : P.length < Gen.maxSfxHeaderLen + 8) :
    firstHeader (P ++ A) = some P.length :=
  Stream.firstHeader_prefix_zero P A hclean hsig hlen hlim

/-- Stub + marker + one decoy header + stub: the decoy is skipped. -/
theorem decoy_skipped (P A : List UInt8) (m d : Nat) (hmd : m < d) (hd : d < P.length)
    (hmark : markAt (P ++ A) m) (hsig : sigAt (P ++ A) d)
    (hnosig : ∀ j, j < P.length → j ≠ d → ¬ sigAt (P ++ A) j)
    (hnomark : ∀ j, m < j → j < P.length → ¬ markAt (P ++ A) j) :
    firstHeader (P ++ A) = (firstHeaderLim (scanLimit - P.length) A).map (· + P.length) :=
  Stream.firstHeader_decoy P A m d hmd hd hmark hsig hnosig hnomark

/-- The four kinds of source: skipping `n` bytes lands at `pos + n` whenever it succeeds; a seekable
file always succeeds (even past the end), the other three succeed iff the bytes are there. -/
theorem skip_kinds (s : Stream.St) (n : Nat) :
    ((skip s n).1 = true → (skip s n).2.pos = s.pos + n) ∧
    (s.kind = .seekable → (skip s n).1 = true) ∧
    (s.kind ≠ .seekable → ((skip s n).1 = true ↔ n ≤ s.data.size - s.pos)) :=
  ⟨Stream.skip_pos s n, Stream.skip_seekable s n, Stream.skip_other s n⟩

/-- Kinds agree: basic-reader states that differ only in the kind of their source (and in step
counters) return the same header or both report the end, and stay in that relation — including
the case where a skip runs past the end of the data (seekable: the seek succeeds and the next
header cannot be read; others: the skip fails). -/
theorem kinds_agree (mk : Nat → Nat) (a b : Basic) (led : Ledger) (h : ObsEq a b) (wf : WF a) :
    ResRel (fun r r' => ObsEq r.1 r'.1 ∧ r.2 = r'.2) (basicNext mk a led) (basicNext mk b led) :=
  Stream.basicNext_kind_indep mk a b led h wf

/-- … for any number of `next` calls -/
theorem kinds_agree_n (mk : Nat → Nat) (n : Nat) (a b : Basic) (led : Ledger) (h : ObsEq a b) (wf : WF a) :
    ResRel (fun r r' => ObsEq r.1 r'.1 ∧ r.2 = r'.2) (nextN mk n (a, led)) (nextN mk n (b, led)) :=
  Stream.nextN_kind_indep mk n a b led h wf

/-! ## the tool

`ToolKinds.runK k`, `printK k`, `mrunK cmd k`, `headersK k` are the tool models started on a source
of kind `k` (`.seekable` = `lha … archive.lzh`, by `rfl` the existing `Extract.run`, `Extract.print`,
`Messages.run`; a pipe = `lha … -`). `XAgree`: same result flag, abort flag, outcome tokens and the
WHOLE file system (entries, clock, mutation log); `MAgree`: same stdout, stderr, exit status,
verdict trace, file system. -/

open ToolKinds Extract Messages in
/-- **The same members from a file, a pipe or callbacks — for the whole tool.** Every archive,
options, file system, answers, every kind of source: `lha x/e` end with the same flags and the same
file system, `lha p` writes the same bytes, `lha t/x/e` write the same stdout and stderr and exit
with the same status, the listing commands see the same headers. -/
theorem tool_kind_independent (k : Stream.Kind) (archive : Array UInt8) (o : Opts) (fs : Fs.St)
    (answers : Bytes) (cmd : Messages.Cmd) :
    XAgree (runK k archive o fs answers) (Extract.run archive o fs answers) ∧
    printK k archive o = Extract.print archive o ∧
    MAgree (mrunK cmd k archive o fs answers) (Messages.run cmd archive o fs answers) ∧
    headersK k archive = headersK .seekable archive :=
  ToolKinds.tool_kind_independent k archive o fs answers cmd

open ToolKinds Extract Messages in
/-- **… and after a self-extractor prefix**: a prefix `P` without a signature or SFX marker
(`prefix_transparent`'s hypothesis) that leaves the first header within the scan limit: every
command on `P ++ A` from any kind of source behaves as on `A` from any other. -/
theorem tool_prefix_transparent (k k' : Stream.Kind) (P A : Array UInt8)
    (hclean : ∀ j, j < P.toList.length → ¬ sigAt (P.toList ++ A.toList) j ∧ ¬ markAt (P.toList ++ A.toList) j)
    (hreach : FirstInReach P.toList A.toList)
    (o : Opts) (fs : Fs.St) (answers : Bytes) (cmd : Messages.Cmd) :
    XAgree (runK k (P ++ A) o fs answers) (runK k' A o fs answers) ∧
    printK k (P ++ A) o = printK k' A o ∧
    MAgree (mrunK cmd k (P ++ A) o fs answers) (mrunK cmd k' A o fs answers) ∧
    headersK k (P ++ A) = headersK k' A :=
  ToolKinds.tool_prefix_transparent_kinds k k' P A hclean hreach o fs answers cmd

open ToolKinds in
/-- every listing is the same, byte for byte -/
theorem listing_kind_independent (k : Stream.Kind) (vl vo : Bool) (quiet now mtime : Nat) (filters : List Bytes)
    (archive : Array UInt8) :
    listingK k vl vo quiet now mtime filters archive = listingK .seekable vl vo quiet now mtime filters archive :=
  ToolKinds.listing_kind_independent k vl vo quiet now mtime filters archive

open ToolKinds Extract Messages in
/-- **Any prefix the scan passes over** (`PrefixShifts P A`: the scan of `P ++ A` finds the header the
scan of `A` finds, `|P|` later — clean stubs, stub + SFX marker + decoy, …): every command on `P ++ A`
from any kind of source behaves as on `A` from any other. `tool_prefix_transparent` and
`tool_decoy_transparent` are instances. -/
theorem tool_shift_transparent (k k' : Stream.Kind) (P A : Array UInt8) (h : PrefixShifts P.toList A.toList)
    (o : Opts) (fs : Fs.St) (answers : Bytes) (cmd : Messages.Cmd) :
    XAgree (runK k (P ++ A) o fs answers) (runK k' A o fs answers) ∧
    printK k (P ++ A) o = printK k' A o ∧
    MAgree (mrunK cmd k (P ++ A) o fs answers) (mrunK cmd k' A o fs answers) ∧
    headersK k (P ++ A) = headersK k' A :=
  ToolKinds.tool_shift_transparent k k' P A h o fs answers cmd

open ToolKinds Extract Messages in
/-- the `decoy_skipped` prefix (stub, SFX marker, the decoy signature it announces) at tool level -/
theorem tool_decoy_transparent (k k' : Stream.Kind) (P A : Array UInt8) (m d : Nat)
    (hmd : m < d) (hd : d < P.toList.length)
    (hmark : markAt (P.toList ++ A.toList) m) (hsig : sigAt (P.toList ++ A.toList) d)
    (hnosig : ∀ j, j < P.toList.length → j ≠ d → ¬ sigAt (P.toList ++ A.toList) j)
    (hnomark : ∀ j, m < j → j < P.toList.length → ¬ markAt (P.toList ++ A.toList) j)
    (hreach : FirstInReach P.toList A.toList)
    (o : Opts) (fs : Fs.St) (answers : Bytes) (cmd : Messages.Cmd) :
    XAgree (runK k (P ++ A) o fs answers) (runK k' A o fs answers) ∧
    printK k (P ++ A) o = printK k' A o ∧
    MAgree (mrunK cmd k (P ++ A) o fs answers) (mrunK cmd k' A o fs answers) ∧
    headersK k (P ++ A) = headersK k' A :=
  ToolKinds.tool_decoy_transparent k k' P A m d hmd hd hmark hsig hnosig hnomark hreach o fs answers cmd

open ToolKinds in
/-- **which prefixes are passed over**, for an archive that starts with a header: exactly those in
which the scan of `P` ALONE finds nothing and leaves no decoy pending (given that the last 12
offsets of `P` start no signature or marker and `P` is shorter than the scan limit) -/
theorem prefix_passed_over_iff {P A : List UInt8}
    (htail : ∀ j, P.length - 12 ≤ j → j < P.length → ¬ sigAt (P ++ A) j ∧ ¬ markAt (P ++ A) j)
    (hsig : sigAt A 0) (hA : 12 < A.length) (hlen : P.length < scanLimit) :
    PrefixShifts P A ↔ (firstHeader P = none ∧ pendingDecoy P = 0) :=
  ToolKinds.shifts_iff_scan htail hsig hA hlen

open ToolKinds ExtractTree ArchiveOf PrintList Extract ListOut ListProps in
/-- **A self-extracting archive read from standard input extracts to exactly the tree it encodes**
(C16 ∘ C06 ∘ C19): for a passed-over prefix `P` and the bytes `archiveWith pk es` of a well-formed
encodable tree, from ANY kind of source: `lha x` leaves exactly `treeOf es`, `lha p` prints exactly
the selected files after their banners, every listing is head ++ rows of the selected entries ++
their totals. -/
theorem sfx_archive_end_to_end (k : Stream.Kind) (P : Array UInt8) (pk : Packer) (es : List Entry)
    (hwf : WellFormed es) (henc : Encodable es) (hpk : Packs pk es)
    (hP : PrefixShifts P.toList (archiveWith pk es).toList)
    (o : Opts) (fs : Fs.St) (answers : Bytes) (ho : OptsOk o) (hfs : EmptyDir fs) (ha : Access fs)
    (vl vo : Bool) (quiet now archiveMtime : Nat) (fl : List Bytes) :
    ((runK k (P ++ archiveWith pk es) o fs answers).result = true ∧
     ∀ p, p ≠ [] → Fs.lookup (runK k (P ++ archiveWith pk es) o fs answers).fs (fs.cwd ++ p) =
       treeOf fs.now fs.umask es p) ∧
    printK k (P ++ archiveWith pk es) o = (es.filter (selected o.filters)).flatMap (printSeg o) ∧
    listingK k vl vo quiet now archiveMtime fl (P ++ archiveWith pk es) = .ok
      (listHead vl vo quiet ++
       (es.filter (selected fl)).flatMap (fun e => printColumns (columnsFor vl vo) now (hdrOf pk e)) ++
       listTail vl vo quiet now (totalsOf pk archiveMtime (es.filter (selected fl)))) :=
  ToolKinds.sfx_archive_end_to_end k P pk es hwf henc hpk hP o fs answers ho hfs ha vl vo quiet now archiveMtime fl

end LhasaV.Props.C16
