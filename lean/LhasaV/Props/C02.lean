import LhasaV.Spec.Lzhuf
import LhasaV.Lemmas.Lh1Safe
import LhasaV.Model.Wrap
/-!
# C02 — the lh1 adaptive-Huffman decoder stays in lock-step with the LZHUF model

What is proved: the decoder model keeps its tree invariant for every input (`Lh1.Inv`: frequencies
sorted and equal to the sum of the children, groups = maximal runs of equal frequency with their
leaders, rebuild re-establishes it), so its tree never degenerates; the fixed position code of
LZHUF (`p_len`/`p_code`) and its decoding tables (`d_code`/`d_len`) are mutually inverse.
What is NOT proved (checked by correspondence after every command): that the decoder's tree is
the mirror image of `Spec.Lzhuf.run` and the round-trip theorem; kept visible below.
-/
namespace LhasaV.Props.C02
open LhasaV

/-- the 64 position codes of LZHUF and the 256-entry decoding tables are consistent -/
theorem position_tables_consistent : Spec.Lzhuf.tablesConsistent = true :=
  Spec.Lzhuf.tablesConsistent_true

/-- every reachable state of the decoder satisfies the adaptive-tree invariant, for any input -/
theorem decoder_tree_invariant (src : Src) (n : Nat) (rs : Res Lh1.St)
    (hs : Dec.Reach Lh1.dec src n rs) : Lh1.InvR rs :=
  Lh1.reach_inv src n rs hs

/-- the full statement (not proved): decoding what LZHUF encodes yields the denoted bytes -/
def RoundTripStatement : Prop :=
  ∀ (cmds : List Spec.Lz77.WCmd), (∀ c ∈ cmds, Spec.Lzhuf.valid c = true) →
    ∀ (n b : Nat) (ks : List Nat),
      (Wrap.reads (Dec.total Lh1.dec) ks
        { inner := .ok (Lh1.dec.init { data := (Spec.Lzhuf.encode cmds).toArray }), length := n, blockSize := b }).1.1
      = (Spec.Lz77.expandWin 0x20 cmds).take (min ks.sum n)

end LhasaV.Props.C02
