import LhasaV.Spec.Lzhuf
import LhasaV.Lemmas.Lh1Safe
import LhasaV.Lemmas.Lh1Mirror
import LhasaV.Model.Wrap
import LhasaV.Lemmas.GenInit
/-!
# C02 — the lh1 adaptive-Huffman decoder stays in lock-step with the LZHUF model

`Spec.Lzhuf` is a literal transcription of the adaptive-Huffman half of LZHUF.C (ascending arrays
`freq`/`prnt`/`son`, `update` with the linear exchange, `reconst` at `MAX_FREQ`) — the specification
of the -lh1- format; `Lh1` is the model of `lh1_decoder.c` (descending order, explicit frequency
groups). `Lh1Mirror.Mirror d z` is the mirror map between the two trees: node `i` ↔ `626 − i`,
equal frequencies, `child_index`/`leaf` ↔ `son`, `parent`/`leaf_nodes` ↔ `prnt`.
-/
namespace LhasaV.Props.C02
open LhasaV LhasaV.Spec.Lzhuf LhasaV.Spec.Lz77

/-- the 64 position codes of LZHUF and the 256-entry decoding tables are consistent -/
theorem position_tables_consistent : Spec.Lzhuf.tablesConsistent = true :=
  Spec.Lzhuf.tablesConsistent_true

/-- every reachable state of the decoder satisfies the adaptive-tree invariant, for any input -/
theorem decoder_tree_invariant (src : Src) (n : Nat) (rs : Res Lh1.St)
    (hs : Dec.Reach Lh1.dec src n rs) : Lh1.InvR rs :=
  Lh1.reach_inv src n rs hs

/-- the freshly initialised decoder tree is the mirror image of `StartHuff` -/
theorem mirror_init (src : Src) :
    ∃ s, Lh1.init src = .ok s ∧ Lh1.Inv s ∧ Lh1Mirror.Mirror s startHuff := Lh1Mirror.mirror_init src

/-- one symbol, with or without a rebuild: the decoder's update (`increment_for_code`, including
`reconstruct_tree` when the root frequency has reached 0x8000) mirrors LZHUF's `update`
(including `reconst`), and keeps the decoder invariant -/
theorem mirror_step (d : Lh1.St) (z : TreeState) (c : Nat) (hm : Lh1Mirror.Mirror d z) (hi : Lh1.Inv d)
    (hc : c < 314) :
    ∃ d', Lh1.incrementForCode d c = .ok d' ∧ Lh1.Inv d' ∧ Lh1Mirror.Mirror d' (update z c) :=
  Lh1Mirror.mirror_update d z c hm hi hc

/-- **Lock-step.** For EVERY sequence of symbols — any length, any number of tree rebuilds, any tie
pattern among equal frequencies — the decoder's tree after the sequence is the mirror image of
LZHUF's tree after the same sequence (and no array access of the decoder ever faults). -/
theorem lh1_lockstep (src : Src) (syms : List Nat) (h : ∀ c ∈ syms, c < 314) :
    ∃ d, Lh1Mirror.decTree src syms = .ok d ∧ Lh1.Inv d ∧ Lh1Mirror.Mirror d (run syms) :=
  Lh1Mirror.lh1_lockstep src syms h

/-- the rebuild branch is not vacuous: after 32 454 symbols the root frequency is exactly `MAX_FREQ` -/
theorem rebuild_reached (syms : List Nat) (h : ∀ c ∈ syms, c < 314) (hl : syms.length = 32454) :
    (run syms).freq.getD R 0 = MAX_FREQ := Lh1Mirror.run_reaches_limit syms h hl

/-- the relation proved is the one the driver evaluates after every command in the correspondence
runs (`lh1mirror`): `Mirror` implies that `mirrorDiff` finds no difference -/
theorem mirror_is_what_the_tie_evaluates (d : Lh1.St) (z : TreeState) (hi : Lh1.Inv d)
    (hm : Lh1Mirror.Mirror d z) : Driver.mirrorDiff z d = none := Lh1Mirror.mirror_driver d z hi hm

/-- **Round trip.** Decoding what LZHUF encodes yields the denoted bytes: every valid command list
(literals, copies of length 3..60 at distance 0..4095, window pre-filled with spaces), any callback
chunking, block size, read schedule, and declared length up to the length of the expansion.
(The side condition is necessary: `EncodeEnd` pads with zero bits and a short all-zero code word
would decode them as further symbols — 185 × 'A' with declared length 205 yields 192 bytes; LZHUF's
own decoder stops at `textsize` in the same way. The design's unrestricted statement was false.) -/
theorem lh1_decode_encode (cmds : List WCmd) (hv : ∀ c ∈ cmds, valid c = true) (c n b : Nat) (ks : List Nat)
    (hn : n ≤ (expandWin 0x20 cmds).length) :
    (Wrap.reads (Dec.total Lh1.dec) ks
        { inner := .ok (Lh1.dec.init { data := (encode cmds).toArray, chunk := c }),
          length := n, blockSize := b }).1.1
      = (expandWin 0x20 cmds).take (min ks.sum n) :=
  Lh1Mirror.lh1_reads cmds hv c n b ks hn

/-- **Translator tie for the initial state**: what `lha_lh1_init` of the working tree builds on zeroed memory (dumped into
`Gen/Decoders.lean` on every run) – the 256-entry offset lookup, the 64 offset lengths, the code→leaf map, the ring of spaces, the
write position – is what the model's `init` builds, for every source; the offset tables are LZHUF's published `d_code` / `p_len`. -/
theorem lh1_init_matches_source (src : Src) :
    ∃ s, Lh1.init src = .ok s ∧ s.offsetLookup.toList = Gen.lh1InitOffsetLookup ∧ s.offsetLengths.toList = Gen.lh1InitOffsetLengths
      ∧ (∀ c, c < 314 → s.leafNodes.getD c 0 = Gen.lh1InitLeafNodes.getD c 0)
      ∧ s.ring = Array.replicate Gen.lh1RingCap 0x20 ∧ s.pos = Gen.lh1InitRingPos :=
  GenInit.lh1_init_matches_source src

end LhasaV.Props.C02
