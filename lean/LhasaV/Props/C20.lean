import LhasaV.Lemmas.ReaderLedger
/-!
# C20 — freeing a reader releases everything, on any call history or allocation failure

`Reader.run (fresh st pol mk) ops` is the reader state after a history of API calls on an
arbitrary stream; `Reader.free` is what is still allocated after `lha_reader_free` +
`lha_input_stream_free` according to the ghost ledger (header objects with reference counts,
their string blocks, decoder objects); `faults` records double frees / references to freed headers.
-/
namespace LhasaV.Props.C20
open LhasaV LhasaV.Reader

/-- For every archive (any bytes, any stream kind), directory policy and every legal history —
at most one decode operation per member and one extract per entry — nothing is left allocated
and nothing was freed twice. -/
theorem free_releases_all (st : Stream.St) (pol : DirPolicy) (mk : Nat → Nat) (ops : List Op)
    (hl : Legal ops) :
    (free (run (fresh st pol mk) ops)).live = 0 ∧ (free (run (fresh st pol mk) ops)).faults = [] :=
  Reader.free_releases_all st pol mk ops hl

/-- … also when the caller abandons the archive at any point of such a history (while a
re-presented directory or deferred symlink is current, with a decoder open, …). -/
theorem free_releases_all_prefix (st : Stream.St) (pol : DirPolicy) (mk : Nat → Nat)
    (ops a : List Op) (hl : Legal ops) (hp : a <+: ops) :
    (free (run (fresh st pol mk) a)).live = 0 ∧ (free (run (fresh st pol mk) a)).faults = [] :=
  Reader.free_releases_all_prefix st pol mk ops a hl hp

/-- `Legal` is the property's quantifier: cut the history at its `next`s; every piece is empty,
only reads, one check, or one extract. -/
theorem legal_iff_segments (ops : List Op) :
    Legal ops ↔ (segOk (segments ops).1 = true ∧ ∀ seg ∈ (segments ops).2, segOk seg = true) :=
  Reader.legal_iff_segments ops

/-- On legal histories the ledger's decoder count is exactly the number of decoder objects behind
the open decoder (1 plain, 2 with the MacBinary pass-through): no decoder is ever overwritten. -/
theorem decoders_exact (st : Stream.St) (pol : DirPolicy) (mk : Nat → Nat) (ops : List Op)
    (hl : Legal ops) : InvD (run (fresh st pol mk) ops) :=
  Reader.run_invD_legal st pol mk ops hl

/-- non-vacuity: a history that extracts, reads in pieces and checks is legal -/
example : Legal [.next, .extract true, .next, .read 7, .read 100, .next, .check, .next] := by decide

end LhasaV.Props.C20
