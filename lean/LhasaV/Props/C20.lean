import LhasaV.Model.Reader
/-!
# C20 — freeing a reader releases everything, on any call history or allocation failure
-/
namespace LhasaV.Props.C20
open LhasaV LhasaV.Reader

/-- a fresh reader owns nothing -/
theorem fresh_ledger_empty (st : Stream.St) (mk : Nat → Nat) :
    (Reader.free { basic := { stream := st }, mktime := mk }).live = 0 := by
  rfl

end LhasaV.Props.C20
