import LhasaV.Lemmas.Bits
import LhasaV.Spec.LhNewEnc
import LhasaV.Model.LhNew
/-!
# C01 — LHA static-Huffman methods decode every valid stream exactly
-/
namespace LhasaV.Props.C01
open LhasaV

/-- Layer (i): the 32-bit buffer of `bit_stream_reader.c` refines the abstract bit list: for every
reader state, callback chunking and field width `n ≤ 25`, `read_bits` returns the next `n` bits of
the stream (MSB first) and leaves the rest. -/
theorem bit_reader_refines (r : Bits) (n : Nat) (hi : Bits.Inv r) (hn : n ≤ 25)
    (h : n ≤ (Bits.stream r).length) :
    (r.readBits n).1 = some (Bits.valOf ((Bits.stream r).take n)) ∧ Bits.Inv (r.readBits n).2 ∧
    Bits.stream (r.readBits n).2 = (Bits.stream r).drop n :=
  Bits.readBits_some r n hi hn h

end LhasaV.Props.C01
