import LhasaV.Lemmas.Bits
import LhasaV.Lemmas.TreeCanon
import LhasaV.Lemmas.LhNewCmd
import LhasaV.Lemmas.LhNewFmt
import LhasaV.Lemmas.LhNewRT
import LhasaV.Model.Decoders
import LhasaV.Lemmas.GenInit
/-!
# C01 — LHA static-Huffman methods (lh4 lh5 lh6 lh7 lhx lk7) decode every valid stream exactly

`Spec.LhNewEnc` states the stream format as an encoder (`serialise`) of a structured description and
`expand` its denotation; `LhNew` is the decoder model of `lh_new_decoder.c`, `Tree` of `tree_decode.c`,
`Bits` of `bit_stream_reader.c`.  The layers of the round trip:
(i) bit reader, (ii) canonical-code tree, (iii) table transmission, (iv) ring = window, (v) composition.
-/
namespace LhasaV.Props.C01
open LhasaV LhasaV.Spec LhasaV.Spec.LhNewEnc

/-- The format constants stated in the spec are the ones the compiled source uses (parameters
regenerated from `/repo` on every run): a changed `OFFSET_BITS`, `NUM_CODES`, ring size or `LHARK`
flag breaks this. -/
theorem fmt_matches_source :
    LhNewRT.fmtOf LhNew.lh5 = lh5 ∧ LhNewRT.fmtOf LhNew.lh6 = lh6 ∧ LhNewRT.fmtOf LhNew.lh7 = lh7 ∧
    LhNewRT.fmtOf LhNew.lhx = lhx ∧ LhNewRT.fmtOf LhNew.lk7 = lk7 := by decide

/-- … and the five parameter sets satisfy the side conditions of the round-trip lemmas (table
capacities, 5-bit temp count, ring size a power of two ≤ 2^20, copy threshold 3). -/
theorem params_ok : LhNewRT.RTParams LhNew.lh5 ∧ LhNewRT.RTParams LhNew.lh6 ∧ LhNewRT.RTParams LhNew.lh7 ∧
    LhNewRT.RTParams LhNew.lhx ∧ LhNewRT.RTParams LhNew.lk7 :=
  ⟨LhNewRT.rtParams_lh5, LhNewRT.rtParams_lh6, LhNewRT.rtParams_lh7, LhNewRT.rtParams_lhx, LhNewRT.rtParams_lk7⟩

/-- Layer (i): the 32-bit buffer of `bit_stream_reader.c` refines the abstract bit list: for every
reader state, callback chunking and field width `n ≤ 25`, `read_bits` returns the next `n` bits of
the stream (MSB first) and leaves the rest. -/
theorem bit_reader_refines (r : Bits) (n : Nat) (hi : Bits.Inv r) (hn : n ≤ 25)
    (h : n ≤ (Bits.stream r).length) :
    (r.readBits n).1 = some (Bits.valOf ((Bits.stream r).take n)) ∧ Bits.Inv (r.readBits n).2 ∧
    Bits.stream (r.readBits n).2 = (Bits.stream r).drop n :=
  Bits.readBits_some r n hi hn h

/-- Layer (ii): for EVERY complete code-length table (Kraft sum 1), over ANY previous contents of
the table (the C reuses it between blocks), `build_tree` produces the canonical code of LHA's
`make_table`: reading the code word of symbol `i` through `read_from_tree` returns `i` and consumes
exactly that word. -/
theorem tree_decodes_canonical_code (lb : Nat) (t : Array Nat) (treeLen : Nat) (lens : List Nat)
    (hlb : 2 * lens.length ≤ lb) (hcomplete : Canon.complete lens = true)
    (hbyte : ∀ l ∈ lens, l < 256)
    (hlen : 2 * lens.length ≤ treeLen) (hsize : treeLen ≤ t.size)
    (i : Nat) (hi : i < lens.length) (hli : 1 ≤ lens.getD i 0)
    (r : Bits) (hinv : Bits.Inv r) (rest : List Bool)
    (hs : Bits.stream r = Canon.word lens i ++ rest) :
    ∃ r', Tree.readFromTree lb (Tree.buildTree lb t treeLen lens).1 r = .ok (some i, r') ∧
      Bits.Inv r' ∧ Bits.stream r' = rest :=
  Tree.readFromTree_canonical lb t treeLen lens hlb hcomplete hbyte hlen hsize i hi hli r hinv rest hs

/-- the builder never writes outside the table for a complete code -/
theorem tree_build_in_bounds (lb : Nat) (t : Array Nat) (treeLen : Nat) (lens : List Nat)
    (hlb : 2 * lens.length ≤ lb) (hcomplete : Canon.complete lens = true) (hbyte : ∀ l ∈ lens, l < 256)
    (hlen : 2 * lens.length ≤ treeLen) (hsize : treeLen ≤ t.size) :
    (Tree.buildTree lb t treeLen lens).2 = false ∧ (Tree.buildTree lb t treeLen lens).1.size = t.size :=
  Tree.buildTree_complete_no_oob lb t treeLen lens hlb hcomplete hbyte hlen hsize

/-- the `n = 0` single-code form: every read returns the code and consumes nothing -/
theorem tree_single (lb : Nat) (t : Array Nat) (c : Nat) (hc : c < lb) (ht : 0 < t.size) (r : Bits) :
    Tree.readFromTree lb (Tree.setSingle lb t (c : Int)) r = .ok (some c, r) :=
  Tree.readFromTree_single lb t c hc ht r

/-- Layer (iv): the ring buffer with modulo indexing is the sliding window: a copy of `count` bytes
from distance `d < N` (start index computed as the C does, in 32-bit unsigned arithmetic) produces
exactly the bytes `copyWin` appends — self-overlap and copies reaching into the pre-filled window
included — and keeps the ring/window relation. -/
theorem ring_copy_is_window_copy (N : Nat) (fill : UInt8) (count d : Nat) (hd : d < N) (hdvd : N ∣ 4294967296)
    (ring : Array UInt8) (pos : Nat) (out acc : List UInt8) (h : LhNewCmd.WinRel N fill ring pos out) :
    ∃ ring' pos' new, Ring.copyLoop N count ((pos + N + 4294967296 - d - 1) % N) ring pos acc
        = .ok (ring', pos', new.reverse ++ acc) ∧
      new.length = count ∧ Lz77.copyWin fill count d out = out ++ new ∧ LhNewCmd.WinRel N fill ring' pos' (out ++ new) :=
  LhNewCmd.copyLoop_win_start N fill count d hd hdvd ring pos out acc h

theorem ring_literal (N : Nat) (fill : UInt8) (ring : Array UInt8) (pos : Nat) (out : List UInt8) (b : UInt8)
    (h : LhNewCmd.WinRel N fill ring pos out) :
    LhNewCmd.WinRel N fill (ring.setIfInBounds pos b) ((pos + 1) % N) (out ++ [b]) :=
  LhNewCmd.winRel_lit N fill ring pos out b h

/-- copy lengths: the LHark length code of the spec is inverted by `lhark_decode_copy_count` (all
3 ≤ n ≤ 514, both codes for 514) -/
theorem lhark_length_code_roundtrip (p : LhNew.Params) (f : Fmt) (hf : f.lhark = true) (hthr : p.copyThreshold = 3)
    (n : Nat) (alt : Bool) (hn3 : 3 ≤ n) (hn : n ≤ 514) (halt : alt = true → n = 514)
    (r : Bits) (hi : Bits.Inv r) (rest : List Bool) (hs : Bits.stream r = (lenCode f n alt).2 ++ rest) :
    ∃ r', LhNew.lharkCopyCount p r (lenCode f n alt).1 = (some n, r') ∧ Bits.Inv r' ∧ Bits.stream r' = rest :=
  LhNewCmd.lharkCopyCount_lenCode p f hf hthr n alt hn3 hn halt r hi rest hs

/-- distances: the offset code of the spec (plain and LHark) is inverted by `read_offset_code` after
the tree symbol, for every distance below 2^20 -/
theorem distance_code_roundtrip (p : LhNew.Params) (f : Fmt) (hfl : f.lhark = p.lhark) (d : Nat) (hd : d < 2 ^ 20)
    (r : Bits) (hi : Bits.Inv r) (rest : List Bool) (hs : Bits.stream r = (offCode f d).2 ++ rest) :
    ∃ r', LhNewCmd.offTail p (offCode f d).1 r = .ok (some (d : Int), r') ∧ Bits.Inv r' ∧ Bits.stream r' = rest :=
  LhNewCmd.offTail_offCode p f hfl d hd r hi rest hs

/-- Layer (iii): table transmission. After `start_new_block` has read the header of a well-formed
block, the decoder's code and offset trees decode exactly the canonical codes of the transmitted
tables (every zero-run form, skip field, single-code form), the block counter holds the number of
commands and the reader stands at the first command. -/
theorem block_header_roundtrip (p : LhNew.Params) (hp : LhNewRT.RTParams p) (s : LhNew.St) (b : Block)
    (out : List UInt8) (rest : List Bool) (hB : LhNewRT.Base p s out)
    (hwf : blockWf (LhNewRT.fmtOf p) b = true)
    (hs : Bits.stream s.bits = blockBits (LhNewRT.fmtOf p) b ++ rest) :
    ∃ s', LhNew.startNewBlock p s = .ok (true, s') ∧ LhNewRT.BlkInv p s' b.code.table b.off out ∧
      s'.blockRemaining = b.cmds.length ∧
      Bits.stream s'.bits = b.cmds.flatMap (cmdBits (LhNewRT.fmtOf p) b.code.table b.off) ++ rest :=
  LhNewRT.startNewBlock_spec p hp s b out rest hB hwf hs

/-- **C01, full statement.** For each parameter set satisfying `RTParams` (all five do, `params_ok`),
EVERY well-formed stream description `bs` (any number of blocks incl. empty ones, any complete or
single-code tables in any transmitted form, any valid commands), any callback chunking `c`,
declared length `n`, block size `b` and read schedule `ks`: reading the serialised stream through
the public decoder API returns exactly the first `min (Σ ks) n` bytes of the expansion. -/
theorem lhnew_decode_serialise (p : LhNew.Params) (hp : LhNewRT.RTParams p) (bs : List Block)
    (hw : wf (LhNewRT.fmtOf p) bs = true) (c n b : Nat) (ks : List Nat) :
    (Wrap.reads (Dec.total (LhNew.dec p)) ks
        { inner := .ok (LhNew.init p { data := (serialise (LhNewRT.fmtOf p) bs).toArray, chunk := c }),
          length := n, blockSize := b }).1.1
      = (expand bs).take (min ks.sum n) :=
  LhNewRT.lhnew_reads p hp bs hw c n b ks

/-- the statement for the six method names, with the format constants of the spec -/
theorem lh5_decode_serialise (bs : List Block) (hw : wf lh5 bs = true) (c n b : Nat) (ks : List Nat) :
    (Wrap.reads (Dec.total (LhNew.dec LhNew.lh5)) ks
        { inner := .ok (LhNew.init LhNew.lh5 { data := (serialise lh5 bs).toArray, chunk := c }),
          length := n, blockSize := b }).1.1 = (expand bs).take (min ks.sum n) := by
  have := lhnew_decode_serialise LhNew.lh5 LhNewRT.rtParams_lh5 bs (by rw [fmt_matches_source.1]; exact hw) c n b ks
  rw [fmt_matches_source.1] at this; exact this

theorem lh6_decode_serialise (bs : List Block) (hw : wf lh6 bs = true) (c n b : Nat) (ks : List Nat) :
    (Wrap.reads (Dec.total (LhNew.dec LhNew.lh6)) ks
        { inner := .ok (LhNew.init LhNew.lh6 { data := (serialise lh6 bs).toArray, chunk := c }),
          length := n, blockSize := b }).1.1 = (expand bs).take (min ks.sum n) := by
  have := lhnew_decode_serialise LhNew.lh6 LhNewRT.rtParams_lh6 bs (by rw [fmt_matches_source.2.1]; exact hw) c n b ks
  rw [fmt_matches_source.2.1] at this; exact this

theorem lh7_decode_serialise (bs : List Block) (hw : wf lh7 bs = true) (c n b : Nat) (ks : List Nat) :
    (Wrap.reads (Dec.total (LhNew.dec LhNew.lh7)) ks
        { inner := .ok (LhNew.init LhNew.lh7 { data := (serialise lh7 bs).toArray, chunk := c }),
          length := n, blockSize := b }).1.1 = (expand bs).take (min ks.sum n) := by
  have := lhnew_decode_serialise LhNew.lh7 LhNewRT.rtParams_lh7 bs (by rw [fmt_matches_source.2.2.1]; exact hw) c n b ks
  rw [fmt_matches_source.2.2.1] at this; exact this

theorem lhx_decode_serialise (bs : List Block) (hw : wf lhx bs = true) (c n b : Nat) (ks : List Nat) :
    (Wrap.reads (Dec.total (LhNew.dec LhNew.lhx)) ks
        { inner := .ok (LhNew.init LhNew.lhx { data := (serialise lhx bs).toArray, chunk := c }),
          length := n, blockSize := b }).1.1 = (expand bs).take (min ks.sum n) := by
  have := lhnew_decode_serialise LhNew.lhx LhNewRT.rtParams_lhx bs (by rw [fmt_matches_source.2.2.2.1]; exact hw) c n b ks
  rw [fmt_matches_source.2.2.2.1] at this; exact this

theorem lk7_decode_serialise (bs : List Block) (hw : wf lk7 bs = true) (c n b : Nat) (ks : List Nat) :
    (Wrap.reads (Dec.total (LhNew.dec LhNew.lk7)) ks
        { inner := .ok (LhNew.init LhNew.lk7 { data := (serialise lk7 bs).toArray, chunk := c }),
          length := n, blockSize := b }).1.1 = (expand bs).take (min ks.sum n) := by
  have := lhnew_decode_serialise LhNew.lk7 LhNewRT.rtParams_lk7 bs (by rw [fmt_matches_source.2.2.2.2]; exact hw) c n b ks
  rw [fmt_matches_source.2.2.2.2] at this; exact this

/-- the method names -lh4- and -lh5- are served by the same decoder, the others by theirs -/
theorem method_names : (decoderFor "-lh4-").map (·.σ) = (decoderFor "-lh5-").map (·.σ) := rfl

/-- non-vacuity: a well-formed multi-block description (empty block, skip field, all zero-run forms,
overlapping copies, trailing empty blocks) and its decoding through the API -/
example : (Wrap.reads (Dec.total (LhNew.dec LhNew.lh5)) [3, 0, 100]
      { inner := .ok (LhNew.init LhNew.lh5 { data := (serialise (LhNewRT.fmtOf LhNew.lh5) LhNewRT.exLh5).toArray, chunk := 1 }),
        length := 8, blockSize := 4096 }).1.1 = (expand LhNewRT.exLh5).take (min ([3, 0, 100] : List Nat).sum 8) :=
  lhnew_decode_serialise LhNew.lh5 LhNewRT.rtParams_lh5 LhNewRT.exLh5 LhNewRT.exLh5_wf 1 8 4096 [3, 0, 100]

/-- **Translator tie for the initial state**: `lha_lh_new_init` of the working tree is RUN for each of the five parameter sets on
zeroed memory and what it built is dumped into `Gen/Decoders.lean` on every run: a ring of spaces, write position 0, no block open,
every tree element a bare leaf – the state the model's `init` builds, for every source. -/
theorem lhnew_init_matches_source (src : Src) :
    (∀ p ∈ [LhNew.lh5, LhNew.lh6, LhNew.lh7, LhNew.lhx, LhNew.lk7],
      (LhNew.init p src).ring = Array.replicate p.ringCap 0x20 ∧ (LhNew.init p src).pos = 0 ∧ (LhNew.init p src).blockRemaining = 0
      ∧ (LhNew.init p src).codeTree = Array.replicate p.codeTreeCap p.leafBit
      ∧ (LhNew.init p src).offsetTree = Array.replicate p.offsetTreeCap p.leafBit
      ∧ (LhNew.init p src).tempTree = Array.replicate p.tempTreeCap p.leafBit)
    ∧ [Gen.lh5InitOk, Gen.lh6InitOk, Gen.lh7InitOk, Gen.lhxInitOk, Gen.lk7InitOk] = [1, 1, 1, 1, 1]
    ∧ [Gen.lh5InitRingAllSpaces, Gen.lh6InitRingAllSpaces, Gen.lh7InitRingAllSpaces, Gen.lhxInitRingAllSpaces, Gen.lk7InitRingAllSpaces] = [1, 1, 1, 1, 1]
    ∧ [Gen.lh5InitRingPos, Gen.lh6InitRingPos, Gen.lh7InitRingPos, Gen.lhxInitRingPos, Gen.lk7InitRingPos] = [0, 0, 0, 0, 0]
    ∧ [Gen.lh5InitBlockRemaining, Gen.lh6InitBlockRemaining, Gen.lh7InitBlockRemaining, Gen.lhxInitBlockRemaining, Gen.lk7InitBlockRemaining] = [0, 0, 0, 0, 0]
    ∧ [Gen.lh5InitTreesAllLeaf, Gen.lh6InitTreesAllLeaf, Gen.lh7InitTreesAllLeaf, Gen.lhxInitTreesAllLeaf, Gen.lk7InitTreesAllLeaf] = [1, 1, 1, 1, 1] :=
  GenInit.lhnew_init_matches_source src

end LhasaV.Props.C01
