import LhasaV.Lemmas.WrapProps
import LhasaV.Props.C17
/-!
# C14 — decoder reads: split-invariant, exact declared length, faithful CRC/length

All statements are for EVERY inner decoder step `rd` (all 14 methods, valid and invalid
streams alike), every declared length and every schedule of read sizes (zeros allowed).
`Wrap.rest rd m s` is the list of the first `m` bytes deliverable from state `s`
(the concatenation of the inner reads up to the first empty one, preceded by what is
still buffered).
-/
namespace LhasaV.Props.C14
open LhasaV LhasaV.Wrap

variable {σ : Type} (rd : σ → List Byte × σ)

/-- the state `lha_decoder_new` creates satisfies the precondition `pos ≤ length` -/
theorem init_ok (i : σ) (n b : Nat) : ({ inner := i, length := n, blockSize := b } : St σ).pos ≤
    ({ inner := i, length := n, blockSize := b } : St σ).length := Nat.zero_le _

/-- Whatever the schedule, the bytes returned are the first `min (Σ ks) (length − pos)`
deliverable bytes. -/
theorem wrap_stream (ks : List Nat) (s : St σ) (h : s.pos ≤ s.length) :
    (reads rd ks s).1.1 = rest rd (min ks.sum (s.length - s.pos)) s :=
  reads_stream rd ks s h

/-- Split invariance. -/
theorem wrap_split_invariant (ks ks' : List Nat) (s : St σ) (h : s.pos ≤ s.length)
    (hs : ks.sum = ks'.sum) : (reads rd ks s).1.1 = (reads rd ks' s).1.1 :=
  split_invariant rd ks ks' s h hs

/-- Any schedule asking for at least the remaining declared length agrees with one maximal read. -/
theorem wrap_eq_single (ks : List Nat) (s : St σ) (h : s.pos ≤ s.length)
    (hk : s.length - s.pos ≤ ks.sum) :
    (reads rd ks s).1.1 = (read rd (s.length - s.pos) s).1.1 :=
  reads_eq_single rd ks s h hk

/-- Never more than the declared length, never more than asked. -/
theorem wrap_exact (ks : List Nat) (s : St σ) (h : s.pos ≤ s.length) :
    ((reads rd ks s).1.1).length ≤ s.length - s.pos ∧ ((reads rd ks s).1.1).length ≤ ks.sum :=
  ⟨reads_exact rd ks s h, reads_le_sum rd ks s h⟩

theorem wrap_le_asked (k : Nat) (s : St σ) : (read rd k s).1.1.length ≤ k := read_le_asked rd k s

/-- Reported length = number of bytes returned; reported CRC = table CRC of exactly those bytes. -/
theorem wrap_crc_len (ks : List Nat) (s : St σ) :
    (reads rd ks s).2.crc = Crc.buf s.crc (reads rd ks s).1.1 ∧
    (reads rd ks s).2.pos = s.pos + (reads rd ks s).1.1.length :=
  reads_crc_len rd ks s

/-- … and from a fresh decoder that CRC is CRC-16/ARC of the returned bytes (uses C17). -/
theorem wrap_crc_is_arc (ks : List Nat) (i : σ) (n b : Nat) :
    (reads rd ks ({ inner := i, length := n, blockSize := b } : St σ)).2.crc
      = Spec.Crc.crc16arc (reads rd ks ({ inner := i, length := n, blockSize := b } : St σ)).1.1 := by
  rw [(reads_crc_len rd ks _).1]
  exact Props.C17.crc_is_arc _

/-- Progress monitor attached before any read: the calls are 0, 1, …, ⌈pos/bs⌉ in order, the
announced total is ⌈length/bs⌉, the last block never exceeds it and equals it when the stream
decodes completely. -/
theorem wrap_progress (ks : List Nat) (s0 : St σ) (hn : s0.nextBlock = 0)
    (hp : s0.pos ≤ s0.length) (hb : 0 < s0.blockSize) :
    (monitor s0).1 ++ (reads rd ks (monitor s0).2).1.2 =
      List.range' 0 (ceilDiv (reads rd ks (monitor s0).2).2.pos s0.blockSize + 1) ∧
    (monitor s0).2.totalBlocks = ceilDiv s0.length s0.blockSize ∧
    ceilDiv (reads rd ks (monitor s0).2).2.pos s0.blockSize ≤ (monitor s0).2.totalBlocks ∧
    ((reads rd ks (monitor s0).2).2.pos = s0.length →
      ceilDiv (reads rd ks (monitor s0).2).2.pos s0.blockSize = (monitor s0).2.totalBlocks) := by
  have h := monitor_reads rd ks s0 hn hp hb
  exact ⟨h.1, h.2.1, h.2.2.2.2.1, h.2.2.2.2.2.1⟩

/-- The same when the monitor is attached after a prefix of reads. -/
theorem wrap_progress_late (ks1 ks2 : List Nat) (s0 : St σ) (hn : s0.nextBlock = 0)
    (hm : s0.monitored = false) :
    (reads rd ks1 s0).1.2 = [] ∧
    (reads rd ks1 s0).1.2 ++ (monitor (reads rd ks1 s0).2).1 ++
        (reads rd ks2 (monitor (reads rd ks1 s0).2).2).1.2 =
      List.range' 0 (ceilDiv (reads rd ks2 (monitor (reads rd ks1 s0).2).2).2.pos s0.blockSize + 1) :=
  prefix_monitor_reads_calls rd ks1 ks2 s0 hn hm

end LhasaV.Props.C14
