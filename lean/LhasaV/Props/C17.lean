import LhasaV.Lemmas.Crc
/-!
# C17 — the checksum routine is CRC-16/ARC for every buffer and every split of it
-/
namespace LhasaV.Props.C17
open LhasaV LhasaV.Spec.Crc

/-- Every one of the 2^24 (state, byte) pairs: the table step is the bitwise definition. -/
theorem crc_step_eq (c : BitVec 16) (b : BitVec 8) : Crc.step c b = refStep c b :=
  Crc.step_eq_ref c b

/-- For every start value and every buffer the routine computes the bitwise reference. -/
theorem crc_buf_eq_ref (c : BitVec 16) (bs : List UInt8) : Crc.buf c bs = refBuf c bs := by
  unfold Crc.buf refBuf
  induction bs generalizing c with
  | nil => rfl
  | cons b bs ih => simp [List.foldl, Crc.step_eq_ref, ih]

/-- From the zero start value: CRC-16/ARC. -/
theorem crc_is_arc (bs : List UInt8) : Crc.buf 0 bs = crc16arc bs := crc_buf_eq_ref 0 bs

/-- Feeding a sequence in pieces gives the same value as feeding it whole (any split). -/
theorem crc_append (c : BitVec 16) (a b : List UInt8) :
    Crc.buf (Crc.buf c a) b = Crc.buf c (a ++ b) := by
  simp [Crc.buf, List.foldl_append]

/-- Any number of pieces. -/
theorem crc_pieces (c : BitVec 16) (ps : List (List UInt8)) :
    ps.foldl Crc.buf c = Crc.buf c ps.flatten := by
  induction ps generalizing c with
  | nil => rfl
  | cons p ps ih => simp [List.foldl, ih, crc_append]

/-- Non-vacuity / known answer: CRC-16/ARC("123456789") = 0xBB3D. -/
example : Crc.buf 0 [0x31,0x32,0x33,0x34,0x35,0x36,0x37,0x38,0x39] = 0xBB3D#16 := by decide

end LhasaV.Props.C17
