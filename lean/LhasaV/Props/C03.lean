import LhasaV.Lemmas.LzRoundTrip
import LhasaV.Lemmas.GenInit
/-!
# C03 — LArc lzs / lz5 and the stored methods decode every valid stream exactly

`expandLzs` / `expandLz5` (Spec/Lz77.lean) are the denotations of a command list over an abstract
ring (absolute positions, overlap, never-written cells); `serialiseLzs` / `serialiseLz5` are the
stream formats. `Wrap.reads` is the public read API (`lha_decoder_read`) driven by a schedule.
-/
namespace LhasaV.Props.C03
open LhasaV LhasaV.Spec.Lz77

/-- -lzs-: for EVERY valid command list, declared length `n`, read schedule `ks` and callback
chunking `c`, the bytes returned are the first `min (Σ ks) n` bytes of the denotation. -/
theorem lzs_decode_serialise (cs : List RCmd) (hv : ∀ c ∈ cs, validLzs c = true) (c n b : Nat)
    (ks : List Nat) :
    (Wrap.reads (Dec.total Lzs.dec) ks
        { inner := .ok (Lzs.init { data := (serialiseLzs cs).toArray, chunk := c }),
          length := n, blockSize := b }).1.1 = (expandLzs cs).take (min ks.sum n) :=
  LzRoundTrip.lzs_reads cs hv c n b ks

/-- -lz5- (the decoder requires full answers from its callback: chunk = 0). -/
theorem lz5_decode_serialise (cs : List RCmd) (hv : ∀ c ∈ cs, validLz5 c = true) (n b : Nat)
    (ks : List Nat) :
    (Wrap.reads (Dec.total Lz5.dec) ks
        { inner := .ok (Lz5.init { data := (serialiseLz5 cs).toArray }),
          length := n, blockSize := b }).1.1 = (expandLz5 cs).take (min ks.sum n) :=
  LzRoundTrip.lz5_reads cs hv n b ks

/-- stored methods (-lh0-, -lz4-, -pm0-): the compressed bytes unchanged up to the declared length,
for every callback chunking. -/
theorem null_identity (d : List UInt8) (c n b : Nat) (ks : List Nat) :
    (Wrap.reads (Dec.total Null.dec) ks
        { inner := .ok (Null.dec.init { data := d.toArray, chunk := c }),
          length := n, blockSize := b }).1.1 = d.take (min ks.sum n) :=
  LzRoundTrip.null_reads d c n b ks

/-- `fill_initial` of lz5_decoder.c is the fixed LArc pattern, cell by cell. -/
theorem lz5_fill_eq_closed_form (i : Nat) (hi : i < 4096) :
    Lz5.fillInitial[i]? = some (lz5Init i) := LzRoundTrip.lz5_fill_eq_closed_form i hi

/-- The ring buffer with modulo indexing refines the abstract ring (self-overlap and never-written
cells included): the copy loop shared by all LZ decoders. -/
theorem ring_copy_refines (N : Nat) (hN : 0 < N) (n p : Nat) (a : Array UInt8) (w : Nat)
    (acc : List UInt8) (r : Ring) (hrel : LzRoundTrip.RingRel N a r) (hw : w < N) :
    ∃ a', LhasaV.Ring.copyLoop N n p a w acc
        = .ok (a', (copyRing N n p w r).2.2, (copyRing N n p w r).1.reverse ++ acc) ∧
      LzRoundTrip.RingRel N a' (copyRing N n p w r).2.1 ∧ (copyRing N n p w r).2.2 < N :=
  LzRoundTrip.copyLoop_spec N hN n p a w acc r hrel hw

/-- **Translator tie for the initial state**: the ring `lha_lz5_init` of the working tree builds (dumped into `Gen/Decoders.lean`
on every run) is the ring the model starts from, cell by cell, with the same write position; `lha_lzs_init`: a ring of spaces and
the write position `RING_BUFFER_SIZE − START_OFFSET`. -/
theorem lz_init_matches_source (src : Src) :
    ((∀ i, i < 4096 → (Lz5.init src).ring[i]?.map (·.toNat) = Gen.lz5InitRing[i]?) ∧ (Lz5.init src).pos = Gen.lz5InitRingPos
      ∧ Gen.lz5InitOk = 1)
    ∧ ((Lzs.init src).ring = Array.replicate Gen.lzsRingCap 0x20 ∧ Gen.lzsInitRingAllSpaces = 1 ∧ (Lzs.init src).pos = Gen.lzsInitRingPos
      ∧ Gen.lzsInitOk = 1) :=
  ⟨GenInit.lz5_init_matches_source src, GenInit.lzs_init_matches_source src⟩

end LhasaV.Props.C03
