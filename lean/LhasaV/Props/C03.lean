import LhasaV.Model.Lzs
import LhasaV.Spec.Lz77
/-!
# C03 — LArc lzs / lz5 and the stored methods decode every valid stream exactly
(placeholder: statements are proved in Lemmas/LzRoundTrip.lean and re-exported here)
-/
namespace LhasaV.Props.C03
open LhasaV LhasaV.Spec.Lz77

/-- the abstract expansion of the empty command list is empty (both formats) -/
theorem expand_nil : expandLzs [] = [] ∧ expandLz5 [] = [] := ⟨rfl, rfl⟩

end LhasaV.Props.C03
