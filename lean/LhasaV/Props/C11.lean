import LhasaV.Lemmas.PathFix
import LhasaV.Lemmas.HeaderName
/-!
# C11 — returned paths never contain '.', '..' or empty components; names contain no '/'
-/
namespace LhasaV.Props.C11
open LhasaV LhasaV.PathFix

/-- `collapse_path`, relative part: for EVERY byte string, every '/'-terminated component of
the result is a real name (non-empty, not ".", not ".."). -/
theorem collapse_rel_clean (s : Bytes) : Clean (collapseRel s) := collapseRel_clean s

/-- `collapse_path`: the same after one optional leading '/'. -/
theorem collapse_path_clean (s : Bytes) : CleanPath (collapse s) := collapse_clean s

/-- The whole parser: whatever the input bytes (any level, any extended headers, any OS type,
symlink forms) and whatever `mktime` returns, a returned header has a '/'-free file name and a
clean path. -/
theorem header_names_clean (mk : Nat → Nat) (inp : Bytes) (h : Header.Hdr) (rest : Bytes)
    (hr : Header.read mk inp = .ok (h, rest)) : Header.FnOk h ∧ Header.PathOk h :=
  Header.read_names_ok mk inp h rest hr

/-- Non-vacuity: "a/../../b/./c//d/" collapses to "b/c/d/", which satisfies the invariant
(and a concrete header is accepted: see the correspondence run). -/
example : collapse [0x61,0x2f,0x2e,0x2e,0x2f,0x2e,0x2e,0x2f,0x62,0x2f,0x2e,0x2f,0x63,0x2f,0x2f,0x64,0x2f]
    = [0x62,0x2f,0x63,0x2f,0x64,0x2f] := by decide

end LhasaV.Props.C11
