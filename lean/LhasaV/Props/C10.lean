import LhasaV.Model.Extract
import LhasaV.Lemmas.HeaderName
import LhasaV.Lemmas.GlobFs
import LhasaV.Lemmas.Contain
import LhasaV.Lemmas.MessagesAgree
import LhasaV.Lemmas.ContainW
/-!
# C10 — extraction never touches anything outside the extraction directory
-/
namespace LhasaV.Props.C10
open LhasaV LhasaV.Extract

/-- stripping leading separators leaves a string that does not start with one -/
theorem stripSlashes_no_lead (s : Bytes) : (stripSlashes s).head? ≠ some 0x2f := by
  unfold stripSlashes
  induction s with
  | nil => simp
  | cons b bs ih =>
    simp only [List.dropWhile_cons]
    split
    · exact ih
    · rename_i h; simp at h; simpa using h

/-- with option `i` the constructed path is the stripped file name alone (and a file name has no
'/', by C11): a single component below the extraction directory -/
theorem full_path_flat (h : Header.Hdr) (o : Opts) (hi : o.usePath = false) (hw : o.extractPath = none) :
    fileFullPath h o = stripSlashes (h.filename.getD []) := by
  simp [fileFullPath, hi, hw]

/-- without `w=` the constructed path is relative: it never starts with a separator, whatever the
header contains -/
theorem full_path_relative (h : Header.Hdr) (o : Opts) (hw : o.extractPath = none) :
    (fileFullPath h o).head? ≠ some 0x2f := by
  unfold fileFullPath
  simp only [hw, List.nil_append]
  by_cases hu : o.usePath = true
  · simp only [hu, if_true]
    cases hp : stripSlashes (h.path.getD []) with
    | nil => simpa using stripSlashes_no_lead (h.filename.getD [])
    | cons b bs =>
      have := stripSlashes_no_lead (h.path.getD [])
      rw [hp] at this
      simpa using this
  · simp only [hu, Bool.false_eq_true, if_false, List.nil_append]
    exact stripSlashes_no_lead (h.filename.getD [])

/-- Lexical containment of the constructed path: for a header satisfying the C11 invariant (file
name without '/', clean path) whose stored path is directory-shaped and whose name is not "..",
the path the tool builds has no ".." component and is relative. (The side condition on the name is
necessary — `dotdot_name_possible` — a member may be NAMED "..": then `open(O_EXCL)`, `mkdir` and
`symlink` fail on it, which is checked by correspondence.) -/
theorem full_path_contained (h : Header.Hdr) (o : Opts) (hf : Header.FnOk h) (hp : Header.PathOk h)
    (hw : o.extractPath = none)
    (hdir : h.path.getD [] = [] ∨ ∃ d, h.path.getD [] = d ++ [0x2f])
    (hname : h.filename.getD [] ≠ [0x2e, 0x2e]) :
    GlobFs.NoDotDot (fileFullPath h o) ∧ (fileFullPath h o).head? ≠ some 0x2f :=
  GlobFs.full_path_contained h o hf hp hw hdir hname

theorem dotdot_name_possible :
    ∃ h : Header.Hdr, Header.FnOk h ∧ Header.PathOk h ∧ ¬ GlobFs.NoDotDot (fileFullPath h {}) :=
  GlobFs.dotdot_name_possible

/-- **The deferred-symlink guard** (`path_passes_through_symlink`, added by the repair of the chained
symlink defect): in ANY file-system state, for a relative path without ".." components, if no
directory prefix of the path is a symbolic link then the path resolves lexically below the current
directory, and every directory prefix is a real directory. -/
theorem guard_resolves_below_cwd (fs : Fs.St) (p : Bytes) (q : Fs.Path)
    (hrel : p.head? ≠ some 0x2f) (hnd : GlobFs.NoDotDot p)
    (hg : passesThroughSymlink fs p = false)
    (hr : Fs.resolvePath fs false p = some q) :
    q = fs.cwd ++ GlobFs.comps p ∧
      ∀ pre, GlobFs.ProperPre pre (GlobFs.comps p) → ∃ m t, Fs.lookup fs (fs.cwd ++ pre) = some (.dir m t) :=
  GlobFs.guard_resolve fs p q hrel hnd hg hr

/-- creating a deferred (dangerous) link: whatever the file system contains — links put in place of
directories, chains of links — every mutation of `lha_reader_extract` on a deferred link happens at
`cwd ++ components(filename)`, i.e. inside the extraction directory; when the guard answers "yes"
nothing is touched and the call fails. -/
theorem deferred_link_contained (rd : Reader.St) (fs : Fs.St) (filename : Bytes) (c : Reader.HObj)
    (ht : rd.currType = .deferred) (hc : rd.curr = some c)
    (hrel : filename.head? ≠ some 0x2f) (hnd : GlobFs.NoDotDot filename) :
    ∃ new, (readerExtract rd fs filename).2.2.log = new ++ fs.log ∧
      ∀ m ∈ new, m.path = fs.cwd ++ GlobFs.comps filename :=
  GlobFs.deferred_contained rd fs filename c ht hc hrel hnd

theorem deferred_link_refused (rd : Reader.St) (fs : Fs.St) (filename : Bytes) (c : Reader.HObj)
    (ht : rd.currType = .deferred) (hc : rd.curr = some c)
    (hg : passesThroughSymlink fs filename = true) :
    (readerExtract rd fs filename).1 = false ∧ (readerExtract rd fs filename).2.2 = fs :=
  GlobFs.deferred_refused rd fs filename c ht hc hg

/-- following links whose targets are relative and free of ".." never leaves the directory they
live in: in a state where every link below the extraction directory is safe, every relative
".."-free path resolves below the extraction directory (last component followed or not) -/
theorem safe_links_resolve_inside (fs : Fs.St) (p : Bytes) (q : Fs.Path) (followLast : Bool)
    (hs : Contain.SafeLinks fs) (hrel : p.head? ≠ some 0x2f) (hnd : GlobFs.NoDotDot p)
    (hr : Fs.resolvePath fs followLast p = some q) : fs.cwd <+: q :=
  Contain.safe_resolve_below_cwd fs hs followLast p q hrel hnd hr

/-- **C10, the whole run.** Extraction (`lha x`/`e` with any of f, q, i; no `w=`) started in a
directory that is a directory, whose parent is a directory, and below which every symbolic link is
safe (e.g. there are none): for ANY archive bytes and ANY answers at the overwrite prompt the
current directory stays what it was and EVERY mutation the run performs — parent directories,
files, directories, safe links, placeholders, metadata of re-presented directories, removal of what
was in the way, the deferred dangerous links — acts on a path below the extraction directory.
(Proved for the model of the REPAIRED tool; the attempt to prove it for the pinned tree produced
the two defects recorded in known_findings.json. Members named "..", NUL-cut paths, chains of
links, links replaced by other links are all covered: nothing is assumed about the archive.) -/
theorem run_contained (archive : Array UInt8) (o : Opts) (fs₀ : Fs.St) (answers : Bytes)
    (hw : o.extractPath = none) (hs : Contain.SafeLinks fs₀) (hd : Contain.DirsOk fs₀) :
    (run archive o fs₀ answers).fs.cwd = fs₀.cwd ∧
    ∃ new, (run archive o fs₀ answers).fs.log = new ++ fs₀.log ∧ ∀ m ∈ new, fs₀.cwd <+: m.path :=
  Contain.run_contained_all archive o fs₀ answers hw hs hd

open MessagesAgree in
/-- `run_contained` for the message-bearing model of the loop (the one compared byte for byte with
the real tool's output): every mutation acts below the extraction directory -/
theorem run_contained_messages (archive : Array UInt8) (o : Opts) (fs₀ : Fs.St) (answers : Bytes)
    (hw : o.extractPath = none) (hsl : Contain.SafeLinks fs₀) (hdo : Contain.DirsOk fs₀)
    (hd : o.dryRun = false) (hp : PromptOk o.overwrite answers) (hs : TraceNoTrail archive o fs₀ answers) :
    (Messages.runExtract archive o fs₀ answers).2.2.cwd = fs₀.cwd ∧
    ∃ new, (Messages.runExtract archive o fs₀ answers).2.2.log = new ++ fs₀.log ∧
      ∀ m ∈ new, fs₀.cwd <+: m.path :=
  MessagesAgree.mrun_contained archive o fs₀ answers hw hsl hdo hd hp hs

/-! ## `w=DIR`, and the commands that must not touch the file system -/

open GlobFs Contain ContainW in
/-- **Containment with `w=DIR`, the whole run** (the message-bearing model, tied byte for byte to
the tool): `lha x`/`e` with `w=d` and any of f, q, i, n, wildcards; `d` relative, non-empty, without
a `..` component (`.` components and doubled or trailing slashes allowed); whatever exists at a
component prefix of DIR is a directory (missing is allowed); every link visible below `cwd/DIR` is
safe — links elsewhere may be dangerous. For ANY archive and answers: cwd is unchanged and every
mutation acts below `cwd/DIR`, except the `mkdir`s of DIR's own components that were missing. -/
theorem run_contained_w (archive : Array UInt8) (o : Opts) (fs₀ : Fs.St) (answers : Bytes)
    (d : Bytes) (hx : o.extractPath = some d) (hne : d ≠ []) (hrel : d.head? ≠ some 0x2f)
    (hnd : NoDotDot d) (hd : DirsOk fs₀)
    (hchain : ∀ pre, pre <+: comps d → pre ≠ [] → NoFL fs₀ (fs₀.cwd ++ pre))
    (hs : SafeAt (fs₀.cwd ++ comps d) fs₀) :
    (Messages.runExtract archive o fs₀ answers).2.2.cwd = fs₀.cwd ∧
    ∃ new, (Messages.runExtract archive o fs₀ answers).2.2.log = new ++ fs₀.log ∧
      ∀ m ∈ new, (fs₀.cwd ++ comps d) <+: m.path ∨
        (m.op = "mkdir" ∧ Fs.lookup fs₀ m.path = none ∧
          ∃ pre, pre <+: comps d ∧ pre ≠ [] ∧ m.path = fs₀.cwd ++ pre) :=
  ContainW.mrun_contained_w archive o fs₀ answers d hx hne hrel hnd hd hchain hs

open GlobFs Contain ContainW in
/-- … and whatever DIR is (missing, a directory, a file, a safe link), with every link below cwd
safe: every mutation is below the current directory. Same for the older model `Extract.run`. -/
theorem run_contained_w_cwd (archive : Array UInt8) (o : Opts) (fs₀ : Fs.St) (answers : Bytes)
    (d : Bytes) (hx : o.extractPath = some d) (hne : d ≠ []) (hrel : d.head? ≠ some 0x2f)
    (hnd : NoDotDot d) (hs : SafeLinks fs₀) (hd : DirsOk fs₀) :
    ((Messages.runExtract archive o fs₀ answers).2.2.cwd = fs₀.cwd ∧
      ∃ new, (Messages.runExtract archive o fs₀ answers).2.2.log = new ++ fs₀.log ∧
        ∀ m ∈ new, fs₀.cwd <+: m.path) ∧
    ((run archive o fs₀ answers).fs.cwd = fs₀.cwd ∧
      ∃ new, (run archive o fs₀ answers).fs.log = new ++ fs₀.log ∧ ∀ m ∈ new, fs₀.cwd <+: m.path) :=
  ⟨ContainW.mrun_contained_w_cwd archive o fs₀ answers d hx hne hrel hnd hs hd,
   ContainW.run_contained_w_cwd archive o fs₀ answers d hx hne hrel hnd hs hd⟩

/-- **`lha t` creates or modifies no file-system object at all**: for every archive, options,
file-system state and answers the run ends with exactly the file system it started with (mutation
log included). -/
theorem test_touches_nothing (archive : Array UInt8) (o : Opts) (fs : Fs.St) (answers : Bytes) :
    (Messages.run .test archive o fs answers).x.fs = fs :=
  ContainW.test_touches_nothing archive o fs answers

/-- **the dry run (`xn`, `en`) touches nothing** and consumes no answer, whatever the other options -/
theorem dry_run_touches_nothing (archive : Array UInt8) (o : Opts) (fs : Fs.St) (answers : Bytes)
    (hd : o.dryRun = true) :
    (Messages.run .extract archive o fs answers).x.fs = fs ∧
    (Messages.run .extract archive o fs answers).x.answers = answers :=
  ContainW.dry_run_touches_nothing archive o fs answers hd

end LhasaV.Props.C10
