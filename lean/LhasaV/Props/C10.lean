import LhasaV.Model.Extract
import LhasaV.Lemmas.HeaderName
/-!
# C10 — extraction never touches anything outside the extraction directory
-/
namespace LhasaV.Props.C10
open LhasaV LhasaV.Extract

/-- stripping leading separators leaves a string that does not start with one -/
theorem stripSlashes_no_lead (s : Bytes) : (stripSlashes s).head? ≠ some 0x2f := by
  unfold stripSlashes
  induction s with
  | nil => simp
  | cons b bs ih =>
    simp only [List.dropWhile_cons]
    split
    · exact ih
    · rename_i h; simp at h; simpa using h

/-- with option `i` the constructed path is the stripped file name alone (and a file name has no
'/', by C11): a single component below the extraction directory -/
theorem full_path_flat (h : Header.Hdr) (o : Opts) (hi : o.usePath = false) (hw : o.extractPath = none) :
    fileFullPath h o = stripSlashes (h.filename.getD []) := by
  simp [fileFullPath, hi, hw]

/-- without `w=` the constructed path is relative: it never starts with a separator, whatever the
header contains -/
theorem full_path_relative (h : Header.Hdr) (o : Opts) (hw : o.extractPath = none) :
    (fileFullPath h o).head? ≠ some 0x2f := by
  unfold fileFullPath
  simp only [hw, List.nil_append]
  by_cases hu : o.usePath = true
  · simp only [hu, if_true]
    cases hp : stripSlashes (h.path.getD []) with
    | nil => simpa using stripSlashes_no_lead (h.filename.getD [])
    | cons b bs =>
      have := stripSlashes_no_lead (h.path.getD [])
      rw [hp] at this
      simpa using this
  · simp only [hu, Bool.false_eq_true, if_false, List.nil_append]
    exact stripSlashes_no_lead (h.filename.getD [])

end LhasaV.Props.C10
