import LhasaV.Lemmas.ReaderAlloc
/-!
# C20, second half — "when any single memory allocation fails, the affected call reports failure or
end-of-archive without crashing and the same release guarantee holds"

`Reader.runA o (freshA st pol mk) ops` is the state of the allocation-aware reader model
(`LhasaV/Model/ReaderAlloc.lean`) after a history of API calls under the oracle `o : Nat → Bool`
("does allocation number `i` fail?", allocations counted in the order in which the C performs them, as
the wrapped allocator of `harness/ops_reader.c` counts them); `Oracle.ofFailAt (some k)` is the
harness's `fail_at = k`.  `freshA` is the reader after its three constructors' allocations (indices
0, 1, 2) succeeded; `newA` covers their failure.  `free` / `liveAfterFree` is what is still allocated
after `lha_reader_free` + `lha_input_stream_free`: ledger (header objects with reference counts, their
strings, decoders) plus the blocks outside it (the three structures, temporary names).
-/
namespace LhasaV.Props.C20Alloc
open LhasaV LhasaV.Reader LhasaV.Alloc

/-- **Release under a failing allocation.**  Every stream, policy, `mktime`, every legal history,
every `k ≥ 3`: no leak, no double free, no reference to a freed header. -/
theorem alloc_failure_releases_all (st : Stream.St) (pol : DirPolicy) (mk : Nat → Nat) (ops : List Op)
    (hl : Legal ops) (k : Nat) (hk : 3 ≤ k) :
    (free (runA (Oracle.ofFailAt (some k)) (freshA st pol mk) ops).s).live = 0 ∧
    (free (runA (Oracle.ofFailAt (some k)) (freshA st pol mk) ops).s).faults = [] ∧
    liveAfterFree (runA (Oracle.ofFailAt (some k)) (freshA st pol mk) ops) = 0 :=
  Reader.alloc_failure_releases_all st pol mk ops hl k hk

/-- … at every prefix of such a history. -/
theorem alloc_failure_releases_all_prefix (st : Stream.St) (pol : DirPolicy) (mk : Nat → Nat)
    (ops p : List Op) (hl : Legal ops) (hp : p <+: ops) (k : Nat) (hk : 3 ≤ k) :
    (free (runA (Oracle.ofFailAt (some k)) (freshA st pol mk) p).s).live = 0 ∧
    (free (runA (Oracle.ofFailAt (some k)) (freshA st pol mk) p).s).faults = [] ∧
    liveAfterFree (runA (Oracle.ofFailAt (some k)) (freshA st pol mk) p) = 0 :=
  Reader.alloc_failure_releases_all_prefix st pol mk ops p hl hp k hk

/-- `k < 3`: the reader cannot be created (`lha_reader_new` returns NULL, the caller frees the
stream); nothing stays allocated. -/
theorem alloc_failure_new (st : Stream.St) (pol : DirPolicy) (mk : Nat → Nat) (k : Nat) (hk : k < 3) :
    ∃ hp, newA (Oracle.ofFailAt (some k)) st pol mk = (none, hp) ∧ hp.live = 0 :=
  Reader.alloc_failure_new st pol mk k hk

/-- The same for ANY set of failing allocations and ANY history (legal or not), through `newA`. -/
theorem alloc_failures_release_all (o : Oracle) (st : Stream.St) (pol : DirPolicy) (mk : Nat → Nat)
    (ops : List Op) :
    match newA o st pol mk with
    | (none, hp) => hp.live = 0
    | (some a, _) => liveAfterFree (runA o a ops) = 0 ∧ (freeA (runA o a ops)).1.faults = [] :=
  Reader.newA_release_all o st pol mk ops

/-- **The affected call reports failure or end-of-archive** (`Reader.ReportsFailure`): on every
legal history over a stream whose lead-in buffer is within its capacity (empty in a new stream),
for every `k ≥ 3`, the call during which allocation `k` fails — `read`: returns 0 bytes; `check`,
`extract`: return 0, nothing pushed or deferred; no decoder left behind; `next`: the stream is
finished and the call reports end-of-archive or hands out a pending directory / deferred symbolic
link, never a header read from the stream. -/
theorem alloc_failure_reports (st : Stream.St) (pol : DirPolicy) (mk : Nat → Nat)
    (hlead : st.leadin.length ≤ 24) (pre : List Op) (op : Op)
    (hl : Legal (pre ++ [op])) (k : Nat) (hk : 3 ≤ k) :
    ReportsFailure (Oracle.ofFailAt (some k)) (runA (Oracle.ofFailAt (some k)) (freshA st pol mk) pre) op := by
  have hne : ∀ i, i < 3 → Oracle.ofFailAt (some k) i = false := by
    intro i hi; simp [Oracle.ofFailAt]; omega
  exact Reader.alloc_failure_reports' _ (hne 0 (by omega)) (hne 1 (by omega)) (hne 2 (by omega)) st pol mk hlead pre op hl

/-- … for any failure set. -/
theorem alloc_failures_report (o : Oracle) (h0 : o 0 = false) (h1 : o 1 = false) (h2 : o 2 = false)
    (st : Stream.St) (pol : DirPolicy) (mk : Nat → Nat) (hlead : st.leadin.length ≤ 24)
    (pre : List Op) (op : Op) (hl : Legal (pre ++ [op])) :
    ReportsFailure o (runA o (freshA st pol mk) pre) op :=
  Reader.alloc_failure_reports' o h0 h1 h2 st pol mk hlead pre op hl

/-- **No crash at model level**: under any allocation failures `next` never faults (no
out-of-range access in the header parser or the lead-in scan), along any history. -/
theorem nextA_never_faults (o : Oracle) (st : Stream.St) (pol : DirPolicy) (mk : Nat → Nat)
    (hlead : st.leadin.length ≤ 24) (ops : List Op) :
    ∃ r, nextA o (runA o (freshA st pol mk) ops) = .ok r :=
  Reader.nextA_never_faults o st pol mk hlead ops

/-- … and no call ever sees a freed header. -/
theorem alloc_failure_no_later_fault (o : Oracle) (h0 : o 0 = false) (h1 : o 1 = false) (h2 : o 2 = false)
    (st : Stream.St) (pol : DirPolicy) (mk : Nat → Nat) (ops : List Op) :
    (runA o (freshA st pol mk) ops).s.led.faults = [] :=
  Reader.alloc_failure_no_later_fault o h0 h1 h2 st pol mk ops

/-- A header handed out under allocation failures is the header of the fault-free parse. -/
theorem header_under_failure (o : Oracle) (mk : Nat → Nat) (inp : Bytes) (hp hp' : Heap)
    (r : Header.Hdr × Bytes) (e : Alloc.readA o mk inp hp = .ok r hp') : Header.read mk inp = .ok r :=
  Reader.header_under_failure o mk inp hp hp' r e

/-- The injected failure fires iff the library makes more than `k` allocations; at most once. -/
theorem fired_iff (st : Stream.St) (pol : DirPolicy) (mk : Nat → Nat) (ops : List Op) (k : Nat) (hk : 3 ≤ k) :
    (runA (Oracle.ofFailAt (some k)) (freshA st pol mk) ops).hp.failed.length =
      if k < (runA (Oracle.ofFailAt (some k)) (freshA st pol mk) ops).hp.n then 1 else 0 :=
  Reader.fired_iff st pol mk ops k hk

/-- Decoder objects are counted exactly on legal histories under any failure set. -/
theorem alloc_failure_decoders_exact (o : Oracle) (h0 : o 0 = false) (h1 : o 1 = false) (h2 : o 2 = false)
    (st : Stream.St) (pol : DirPolicy) (mk : Nat → Nat) (hlead : st.leadin.length ≤ 24)
    (ops : List Op) (hl : Legal ops) : InvD (runA o (freshA st pol mk) ops).s :=
  Reader.alloc_failure_decoders_exact' o h0 h1 h2 st pol mk hlead ops hl

/-- **Refinement**: with no failing allocation the model is the original one — same reader state
(ledger included) after every history, same result of `free`, nothing outside the ledger left. -/
theorem runA_refines (st : Stream.St) (pol : DirPolicy) (mk : Nat → Nat) (ops : List Op) :
    (runA (Oracle.ofFailAt none) (freshA st pol mk) ops).s = run (fresh st pol mk) ops :=
  Reader.runA_refines st pol mk ops

theorem freeA_refines (st : Stream.St) (pol : DirPolicy) (mk : Nat → Nat) (ops : List Op) :
    (freeA (runA (Oracle.ofFailAt none) (freshA st pol mk) ops)).1 = free (run (fresh st pol mk) ops) ∧
    (freeA (runA (Oracle.ofFailAt none) (freshA st pol mk) ops)).2 = 0 :=
  Reader.freeA_refines st pol mk ops

/-- … and every call returns what the original call returns. -/
theorem results_refine {o : Oracle} (hn : NoFail o) {a : StA} (h : InvA o a) :
    eraseNext (nextA o a) = next a.s ∧
    (∀ k, (Reader.readA o a k).1 = (read a.s k).1) ∧
    (checkA o a).1 = (check a.s).1 ∧
    (∀ b, (extractA o a b).1 = (extract a.s b).1) :=
  Reader.results_refine hn h

/-- Header parser: refinement, and block accounting under any oracle. -/
theorem header_readA_refines {o : Oracle} (hn : NoFail o) (mk : Nat → Nat) (inp : Bytes) :
    Refines false (Alloc.readA o mk inp) (Header.read mk inp) :=
  Alloc.readA_refines hn mk inp

theorem header_readA_blocks {o : Oracle} (mk : Nat → Nat) (inp : Bytes) (hp : Heap) (hg : Good o hp) :
    match Alloc.readA o mk inp hp with
    | .ok r hp' => hp'.live = hp.live + 1 + nstr r.1 ∧ Good o hp' ∧ hp'.failed = hp.failed
    | .fail _ hp' => hp'.live = hp.live ∧ Good o hp' ∧ Suffix hp.failed hp'
    | .fault _ => True :=
  Alloc.readA_blocks mk inp hp hg

end LhasaV.Props.C20Alloc
