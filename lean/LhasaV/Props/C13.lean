import LhasaV.Model.Reader
import LhasaV.Lemmas.WrapProps
import LhasaV.Lemmas.StreamProps
/-!
# C13 — every call returns; work and heap are bounded by bytes present and declared size

Termination: every function of the models (`Stream.skipSfx`, `Stream.scan`, `Header.extLoop`,
`Header.readL1Ext`, `Tree.buildLoop`, `Tree.walkFrom`, the decoder loops, `Wrap.fill`,
`Reader.decodeLoop`, `Reader.decodeToEnd`, …) is a total Lean definition accepted by the kernel:
structural recursion, well-founded recursion on consumed input (`extLoop`: `avail`; `readL1Ext`:
input length; `Bits.fill`: `n − bits`; `Wrap.fill`: `(need, pending = [])`) or fuel equal to a
consumed-input measure stated at the call site.
-/
namespace LhasaV.Props.C13
open LhasaV

/-- Decoding stops at the declared length: no schedule makes the read API return more than
`length − pos` bytes, for ANY inner decoder — including one that never ends (-pm1- zero fill). -/
theorem decode_stops {σ : Type} (rd : σ → List Byte × σ) (ks : List Nat) (s : Wrap.St σ)
    (h : s.pos ≤ s.length) : ((Wrap.reads rd ks s).1.1).length ≤ s.length - s.pos :=
  Wrap.reads_exact rd ks s h

/-- a header never grows beyond 1 MiB per extension step (the cap of `extend_raw_data`) -/
theorem extend_cap (h : Header.Hdr) (inp : Bytes) (n : Nat) (hn : n > Gen.level3MaxHeaderLen) :
    Header.extend h inp n = .fail := by
  simp [Header.extend, hn]

/-- The self-extractor scan reads each byte at most once and gives up after 256 KiB (+ one window):
source requests and bytes pulled are linear in the bytes present. -/
theorem scan_bounds (s s' : Stream.St) (hl : s.leadin.length ≤ 24) (h : Stream.start s = .ok s') :
    s.reads ≤ s'.reads ∧ s'.reads - s.reads ≤ (s.data.size - s.pos) + 1 ∧
    s.moved ≤ s'.moved ∧
    s'.moved - s.moved ≤ min (s.data.size - s.pos) (Gen.maxSfxHeaderLen + 23) ∧
    s'.moved + s.pos = s.moved + s'.pos :=
  Stream.start_bounds s s' hl h

/-- a stream read of `n` bytes makes at most one more source request and pulls at most `n` more
bytes (after the start-up scan) -/
theorem read_bounds (s s' : Stream.St) (n : Nat) (o : Option (List UInt8)) (hl : s.leadin.length ≤ 24)
    (h : Stream.read s n = .ok (o, s')) :
    ∃ s1, Stream.start s = .ok s1 ∧ (s.phase ≠ .init → s1 = s) ∧
      s1.reads ≤ s'.reads ∧ s'.reads ≤ s1.reads + 1 ∧
      s1.moved ≤ s'.moved ∧ s'.moved ≤ s1.moved + n ∧
      (∀ l, o = some l → l.length = n) :=
  Stream.read_bounds s s' n o hl h

/-- skipping a member — also a truncated one — pulls at most the bytes actually present and makes
at most `n/32 + 1` requests; it never waits for bytes that are not there -/
theorem skip_bounds (s : Stream.St) (n : Nat) :
    s.moved ≤ (Stream.skip s n).2.moved ∧ (Stream.skip s n).2.moved - s.moved ≤ min n (s.data.size - s.pos) ∧
    s.reads ≤ (Stream.skip s n).2.reads ∧ (Stream.skip s n).2.reads - s.reads ≤ n / 32 + 1 :=
  Stream.skip_bounds s n

/-- the scan and the stream read never fault -/
theorem stream_no_fault (s : Stream.St) (n : Nat) (h : s.leadin.length ≤ 24) :
    Res.NoFault (Stream.start s) ∧ Res.NoFault (Stream.read s n) :=
  ⟨Stream.start_noFault s h, Stream.read_noFault s n h⟩

end LhasaV.Props.C13
