import LhasaV.Model.Reader
import LhasaV.Lemmas.WrapProps
import LhasaV.Lemmas.StreamProps
import LhasaV.Lemmas.ReaderIndep
import LhasaV.Lemmas.ReaderWorkTotal
import LhasaV.Lemmas.ReaderWorkPresent
import LhasaV.Lemmas.ToolKinds
/-!
# C13 — every call returns; work and heap are bounded by bytes present and declared size

Termination: every function of the models (`Stream.skipSfx`, `Stream.scan`, `Header.extLoop`,
`Header.readL1Ext`, `Tree.buildLoop`, `Tree.walkFrom`, the decoder loops, `Wrap.fill`,
`Reader.decodeLoop`, `Reader.decodeToEnd`, …) is a total Lean definition accepted by the kernel:
structural recursion, well-founded recursion on consumed input (`extLoop`: `avail`; `readL1Ext`:
input length; `Bits.fill`: `n − bits`; `Wrap.fill`: `(need, pending = [])`) or fuel equal to a
consumed-input measure stated at the call site.
-/
namespace LhasaV.Props.C13
open LhasaV

/-- Decoding stops at the declared length: no schedule makes the read API return more than
`length − pos` bytes, for ANY inner decoder — including one that never ends (-pm1- zero fill). -/
theorem decode_stops {σ : Type} (rd : σ → List Byte × σ) (ks : List Nat) (s : Wrap.St σ)
    (h : s.pos ≤ s.length) : ((Wrap.reads rd ks s).1.1).length ≤ s.length - s.pos :=
  Wrap.reads_exact rd ks s h

/-- a header never grows beyond 1 MiB per extension step (the cap of `extend_raw_data`) -/
theorem extend_cap (h : Header.Hdr) (inp : Bytes) (n : Nat) (hn : n > Gen.level3MaxHeaderLen) :
    Header.extend h inp n = .fail := by
  simp [Header.extend, hn]

/-- The self-extractor scan reads each byte at most once and gives up after 256 KiB (+ one window):
source requests and bytes pulled are linear in the bytes present. -/
theorem scan_bounds (s s' : Stream.St) (hl : s.leadin.length ≤ 24) (h : Stream.start s = .ok s') :
    s.reads ≤ s'.reads ∧ s'.reads - s.reads ≤ (s.data.size - s.pos) + 1 ∧
    s.moved ≤ s'.moved ∧
    s'.moved - s.moved ≤ min (s.data.size - s.pos) (Gen.maxSfxHeaderLen + 23) ∧
    s'.moved + s.pos = s.moved + s'.pos :=
  Stream.start_bounds s s' hl h

/-- a stream read of `n` bytes makes at most one more source request and pulls at most `n` more
bytes (after the start-up scan) -/
theorem read_bounds (s s' : Stream.St) (n : Nat) (o : Option (List UInt8)) (hl : s.leadin.length ≤ 24)
    (h : Stream.read s n = .ok (o, s')) :
    ∃ s1, Stream.start s = .ok s1 ∧ (s.phase ≠ .init → s1 = s) ∧
      s1.reads ≤ s'.reads ∧ s'.reads ≤ s1.reads + 1 ∧
      s1.moved ≤ s'.moved ∧ s'.moved ≤ s1.moved + n ∧
      (∀ l, o = some l → l.length = n) :=
  Stream.read_bounds s s' n o hl h

/-- skipping a member — also a truncated one — pulls at most the bytes actually present and makes
at most `n/32 + 1` requests; it never waits for bytes that are not there -/
theorem skip_bounds (s : Stream.St) (n : Nat) :
    s.moved ≤ (Stream.skip s n).2.moved ∧ (Stream.skip s n).2.moved - s.moved ≤ min n (s.data.size - s.pos) ∧
    s.reads ≤ (Stream.skip s n).2.reads ∧ (Stream.skip s n).2.reads - s.reads ≤ n / 32 + 1 :=
  Stream.skip_bounds s n

/-- the scan and the stream read never fault -/
theorem stream_no_fault (s : Stream.St) (n : Nat) (h : s.leadin.length ≤ 24) :
    Res.NoFault (Stream.start s) ∧ Res.NoFault (Stream.read s n) :=
  ⟨Stream.start_noFault s h, Stream.read_noFault s n h⟩

open Reader ReaderIndep in
/-- **Work of one `next` is linear in the bytes present**, along any history from a fresh reader, for
any archive: with `A` = bytes still present in the stream, a `lha_reader_next_file` makes at most
`A/32 + (A+11)/12 + 4` source requests and pulls at most `A` bytes plus what closing the open
decoder charges (≤ the member's remaining bytes) — the declared sizes do not appear in the bound. -/
theorem next_work_linear (st : Stream.St) (pol : DirPolicy) (mk : Nat → Nat)
    (hl : st.leadin.length ≤ 24) (ops : List Op) (r : Option HObj) (s' : Reader.St)
    (e : next (run (fresh st pol mk) ops) = .ok (r, s')) :
    s'.basic.stream.reads - (run (fresh st pol mk) ops).basic.stream.reads ≤
      avail (run (fresh st pol mk) ops).basic.stream / 32 +
      (avail (run (fresh st pol mk) ops).basic.stream + 11) / 12 + 4 ∧
    s'.basic.stream.moved - (run (fresh st pol mk) ops).basic.stream.moved ≤
      avail (run (fresh st pol mk) ops).basic.stream + closeTake (run (fresh st pol mk) ops) :=
  ReaderIndep.next_work_history st pol mk hl ops r s' e

open Reader ReaderIndep in
/-- **Heap.** After ANY history the number of live header objects is at most 2 + the number of
successful extracts (current + pending + directory stack + deferred list) and their heap blocks at
most six each; on legal histories everything the reader holds — headers, strings, decoders — is at
most `6·(2 + successful extracts) + 4` blocks. Header blocks themselves never exceed the bytes
present (`ReaderIndep.header_raw_le`) and grow by at most 1 MiB per step (`extend_cap`). -/
theorem heap_bounded (st : Stream.St) (pol : DirPolicy) (mk : Nat → Nat) (ops : List Op) :
    (run (fresh st pol mk) ops).led.hdrs.length ≤ 2 + extractsOk ops ∧
    hdrBlocks (run (fresh st pol mk) ops).led ≤ 6 * (2 + extractsOk ops) ∧
    (Legal ops → (run (fresh st pol mk) ops).led.live ≤ 6 * (2 + extractsOk ops) + 4) :=
  ⟨(ReaderIndep.heap_bound_headers st pol mk ops).1, (ReaderIndep.heap_bound_headers st pol mk ops).2,
   fun hl => ReaderIndep.heap_bound st pol mk ops hl⟩

open Reader ReaderIndep in
/-- **The stream never goes backwards.** Along ANY history (legal or not) the data is the stream's
and the number of bytes still present never increases — which is what excludes re-reading. -/
theorem avail_nonincreasing (st : Stream.St) (pol : DirPolicy) (mk : Nat → Nat)
    (hl : st.leadin.length ≤ 24) (ops more : List Op) :
    (run (fresh st pol mk) (ops ++ more)).basic.stream.data = (run (fresh st pol mk) ops).basic.stream.data ∧
    avail (run (fresh st pol mk) (ops ++ more)).basic.stream ≤ avail (run (fresh st pol mk) ops).basic.stream :=
  ReaderIndep.avail_nonincreasing st pol mk hl ops more

open Reader ReaderIndep in
/-- **A whole listing is linear.** `n` calls of `lha_reader_next_file` on ANY stream: bytes pulled
+ bytes still present ≤ bytes present at the start (no byte is pulled twice), and source requests
≤ A₀/32 + (A₀+11)/12 + 2n + 2 in TOTAL (the per-call bound summed would allow n times as much:
a listing that re-reads the rest of the archive at every header is excluded). -/
theorem listing_work_linear (st : Stream.St) (pol : DirPolicy) (mk : Nat → Nat)
    (hl : st.leadin.length ≤ 24) (n : Nat) :
    st.moved ≤ (run (fresh st pol mk) (List.replicate n .next)).basic.stream.moved ∧
    ((run (fresh st pol mk) (List.replicate n .next)).basic.stream.moved - st.moved) +
        avail (run (fresh st pol mk) (List.replicate n .next)).basic.stream ≤ avail st ∧
    st.reads ≤ (run (fresh st pol mk) (List.replicate n .next)).basic.stream.reads ∧
    (run (fresh st pol mk) (List.replicate n .next)).basic.stream.reads - st.reads ≤
        avail st / 32 + (avail st + 11) / 12 + 2 * n + 2 :=
  ReaderIndep.listing_work_linear st pol mk hl n

open Reader ReaderIndep in
/-- **Every history: work and heap.** Bytes pulled ≤ bytes present + the declared compressed sizes
of the members actually DECODED (a member that is only listed or skipped adds nothing); source
requests ≤ A₀/32 + (A₀+11)/12 + 2·(number of `next`s) + 2; live headers ≤ 2 + successful extracts,
six blocks each; on legal histories the bytes handed to the caller are at most the declared lengths
of the members decoded and everything held on the heap is ≤ 6·(2 + extracts) + 4 blocks. -/
theorem run_bounded (st : Stream.St) (pol : DirPolicy) (mk : Nat → Nat)
    (hl : st.leadin.length ≤ 24) (ops : List Op) :
    ((run (fresh st pol mk) ops).basic.stream.moved - st.moved) +
        avail (run (fresh st pol mk) ops).basic.stream ≤ avail st + decodedDeclared st pol mk ops ∧
    (run (fresh st pol mk) ops).basic.stream.reads - st.reads ≤
        avail st / 32 + (avail st + 11) / 12 + 2 * nexts ops + 2 ∧
    (run (fresh st pol mk) ops).led.hdrs.length ≤ 2 + extractsOk ops ∧
    hdrBlocks (run (fresh st pol mk) ops).led ≤ 6 * (2 + extractsOk ops) ∧
    (Legal ops → outputBytes st pol mk ops ≤ decodedLength st pol mk ops ∧
      (run (fresh st pol mk) ops).led.live ≤ 6 * (2 + extractsOk ops) + 4) :=
  ReaderIndep.run_bounded st pol mk hl ops

open Reader ReaderIndep in
/-- **Work is bounded by the bytes PHYSICALLY present** — every history, legal or not, any
archive: bytes pulled + bytes still present ≤ bytes present at the start. No declared size occurs:
a header declaring a 4 GiB member over a 100-byte file costs at most 100 bytes. (Rests on
`decoders_present`: no decoder of the table ever moves its source position past the data that is
there.) Output side: on legal histories the bytes handed to the caller are at most the declared
lengths of the members decoded; heap as in `heap_bounded`. -/
theorem work_bounded (st : Stream.St) (pol : DirPolicy) (mk : Nat → Nat)
    (hl : st.leadin.length ≤ 24) (ops : List Op) :
    ((run (fresh st pol mk) ops).basic.stream.moved - st.moved) +
        avail (run (fresh st pol mk) ops).basic.stream ≤ avail st ∧
    (run (fresh st pol mk) ops).basic.stream.reads - st.reads ≤
        avail st / 32 + (avail st + 11) / 12 + 2 * nexts ops + 2 ∧
    (run (fresh st pol mk) ops).led.hdrs.length ≤ 2 + extractsOk ops ∧
    hdrBlocks (run (fresh st pol mk) ops).led ≤ 6 * (2 + extractsOk ops) ∧
    (Legal ops → outputBytes st pol mk ops ≤ decodedLength st pol mk ops ∧
      (run (fresh st pol mk) ops).led.live ≤ 6 * (2 + extractsOk ops) + 4) :=
  ReaderPresent.work_bounded st pol mk hl ops

open Reader ReaderIndep in
/-- one `next`: at most the bytes present are pulled (no close-charge term any more) -/
theorem next_work_present (st : Stream.St) (pol : DirPolicy) (mk : Nat → Nat)
    (hl : st.leadin.length ≤ 24) (ops : List Op) (r : Option HObj) (s' : Reader.St)
    (e : next (run (fresh st pol mk) ops) = .ok (r, s')) :
    s'.basic.stream.reads - (run (fresh st pol mk) ops).basic.stream.reads ≤
      avail (run (fresh st pol mk) ops).basic.stream / 32 +
      (avail (run (fresh st pol mk) ops).basic.stream + 11) / 12 + 4 ∧
    s'.basic.stream.moved - (run (fresh st pol mk) ops).basic.stream.moved ≤
      avail (run (fresh st pol mk) ops).basic.stream :=
  ReaderPresent.next_work_present st pol mk hl ops r s' e

/-- every decoder of the method table keeps its source position within the data present -/
theorem decoders_present : ReaderPresent.PresentAll := ReaderPresent.presentAll

/-- **The loops of the tool never run out of fuel.** The tool models are total functions with a
fuel argument (`2·|archive| + 16` rounds; `|archive| + 2` for the listing walk); for EVERY archive,
kind of source, options, file system and answers each loop (`lha x/e`, `p`, `t`, the listing walk)
is left through the end of the archive, `exit(-1)` or a parser fault WITHIN that fuel: every entry
`next` presents lowers `2·(bytes to come) + directories to re-present + deferred links`. So the
fuel is not a modelling artefact that could hide a non-terminating loop. -/
theorem tool_loops_end_in_fuel (k : Stream.Kind) (A : Array UInt8) (o : Extract.Opts) (fs : Fs.St)
    (answers : Bytes) (cmd : Messages.Cmd) : ToolKinds.EndsInFuel k A o fs answers cmd :=
  ToolKinds.ends_in_fuel k A o fs answers cmd

end LhasaV.Props.C13
