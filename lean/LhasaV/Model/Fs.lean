import LhasaV.Model.Basic
/-!
An abstract POSIX-like file system, as far as `lib/lha_arch_unix.c` uses one:
`mkdir`, `stat` (exists / kind), `unlink`, `open(O_CREAT|O_EXCL|O_WRONLY)` + `fchmod` + write,
`chmod`, `utime`, `symlink`; path resolution with symbolic links.

Entries are keyed by their canonical absolute path (list of components; `[]` is the root
directory).  Creating or removing an entry stamps its parent directory with the time `now`
(so "a directory keeps its recorded time although its children were written later" is a
real statement).  Everything is owned by the running user; a non-root user needs the owner
write+search bits of a directory to create or remove entries in it and the search bit to walk
through it.  Not modelled: hard links, other users, umask other than the given one, chown.
-/
namespace LhasaV.Fs

abbrev Path := List Bytes

inductive Ent where
  | dir (mode mtime : Nat)
  | file (data : Bytes) (mode mtime : Nat)
  | link (target : Bytes)
deriving Repr, BEq, DecidableEq

/-- one logged mutation: what was done to which canonical path -/
structure Mut where
  op : String
  path : Path
deriving Repr, BEq

structure St where
  ents : List (Path × Ent) := []
  now : Nat := 0xfffffffe          -- marker for "time of the run"
  umask : Nat := 0o022
  root : Bool := true              -- running as uid 0
  cwd : Path := []
  /-- absolute path of the model's root in the real world: absolute paths below it are mapped into
  the model, other absolute paths do not exist -/
  absPrefix : Bytes := []
  log : List Mut := []             -- mutations, most recent first
deriving Repr

def splitPath (p : Bytes) : List Bytes :=
  let rec go : List UInt8 → List UInt8 → List Bytes
    | [], cur => [cur.reverse]
    | b :: bs, cur => if b == 0x2f then cur.reverse :: go bs [] else go bs (b :: cur)
  go p []

def lookup (s : St) (p : Path) : Option Ent :=
  if p = [] then some (.dir 0o755 0) else (s.ents.find? (·.1 == p)).map (·.2)

def setEnt (s : St) (p : Path) (e : Ent) : St :=
  if s.ents.any (·.1 == p) then { s with ents := s.ents.map (fun x => if x.1 == p then (p, e) else x) }
  else { s with ents := s.ents ++ [(p, e)] }

def delEnt (s : St) (p : Path) : St := { s with ents := s.ents.filter (·.1 != p) }

/-- may the user walk through directory `p`? -/
def canSearch (s : St) (p : Path) : Bool :=
  s.root || match lookup s p with
    | some (.dir m _) => m / 64 % 2 == 1          -- 0100
    | _ => false

/-- may the user create / remove entries in directory `p`? -/
def canModify (s : St) (p : Path) : Bool :=
  s.root || match lookup s p with
    | some (.dir m _) => m / 64 % 2 == 1 && m / 128 % 2 == 1     -- 0100 and 0200
    | _ => false

/-- map a real-world absolute path into the model (or `none` if it lies outside the modelled area) -/
def mapAbs (s : St) (path : Bytes) : Option Bytes :=
  if path.head? != some 0x2f then some path
  else if s.absPrefix ≠ [] ∧ path.take s.absPrefix.length == s.absPrefix
          ∧ (path.drop s.absPrefix.length).head? == some 0x2f then some (path.drop s.absPrefix.length)
  else if s.absPrefix = [] then some path
  else none

inductive RR where
  | ok (p : Path)
  | enoent          -- a component does not exist
  | eother          -- ENOTDIR / ELOOP / EACCES
deriving Repr, BEq

/-- resolve `comps` starting at directory `cur`; the result is the canonical path of the object
(existing or not: for a missing final component the path where it would be created).
`followLast`: follow a symbolic link at the final component (stat/chmod/utime do; lstat-like
operations such as unlink/open(O_EXCL)/symlink/mkdir do not). -/
def resolve (s : St) (followLast : Bool) : Nat → Path → List Bytes → RR
  | 0, _, _ => .eother                      -- ELOOP
  | _, cur, [] => .ok cur
  | fuel+1, cur, c :: rest =>
    if c = [] ∨ c = [0x2e] then resolve s followLast fuel cur rest
    else if c = [0x2e, 0x2e] then resolve s followLast fuel cur.dropLast rest
    else if !canSearch s cur then .eother
    else
      let p := cur ++ [c]
      match lookup s p with
      | some (.link t) =>
        if rest = [] ∧ !followLast then .ok p
        else
          match mapAbs s t with
          | none => .enoent
          | some t =>
            let tc := splitPath t
            let start := if t.head? == some 0x2f then [] else cur
            resolve s followLast fuel start (tc ++ rest)
      | some (.dir _ _) => resolve s followLast fuel p rest
      | some (.file _ _ _) => if rest.all (fun x => x = [] ∨ x = [0x2e]) then (if rest = [] then .ok p else .eother) else .eother
      | none => if rest = [] then .ok p else .enoent

def resolveRR (s : St) (followLast : Bool) (path : Bytes) : RR :=
  -- POSIX: the empty path names nothing (ENOENT)
  if path = [] then .enoent else
  match mapAbs s path with
  | none => .enoent
  | some path =>
    -- empty components (doubled or trailing slashes) and "." are skipped up front
    let comps := (splitPath path).filter (fun c => c ≠ [] ∧ c ≠ [0x2e])
    let start := if path.head? == some 0x2f then [] else s.cwd
    resolve s followLast 64 start comps

def resolvePath (s : St) (followLast : Bool) (path : Bytes) : Option Path :=
  match resolveRR s followLast path with
  | .ok p => some p
  | _ => none

def stampParent (s : St) (p : Path) : St :=
  let par := p.dropLast
  match lookup s par with
  | some (.dir m _) => if par = [] then s else setEnt s par (.dir m s.now)
  | _ => s

def logMut (s : St) (op : String) (p : Path) : St := { s with log := ⟨op, p⟩ :: s.log }

inductive Kind where
  | none | file | dir | error
deriving Repr, BEq, DecidableEq

/-- `lha_arch_exists(path)`: `stat` follows symbolic links; a dangling link is "none" -/
def existsKind (s : St) (path : Bytes) : Kind :=
  match resolveRR s true path with
  | .enoent => .none
  | .eother => .error
  | .ok p =>
    match lookup s p with
    | some (.dir _ _) => .dir
    | some (.file _ _ _) => .file
    | some (.link _) => .none
    | none => .none

/-- `mkdir(path, mode)` -/
def mkdir (s : St) (path : Bytes) (mode : Nat) : Bool × St :=
  match resolvePath s false path with
  | none => (false, s)
  | some p =>
    if p = [] then (false, s)
    else if (lookup s p).isSome then (false, s)
    else if !(match lookup s p.dropLast with | some (.dir _ _) => true | _ => false) then (false, s)
    else if !canModify s p.dropLast then (false, s)
    else
      let m := mode % 4096
      let s := setEnt s p (.dir (m - (m &&& s.umask)) s.now)
      (true, logMut (stampParent s p) "mkdir" p)

/-- `unlink(path)` (never removes a directory; does not follow a final link) -/
def unlink (s : St) (path : Bytes) : Bool × St :=
  match resolvePath s false path with
  | none => (false, s)
  | some p =>
    match lookup s p with
    | some (.dir _ _) => (false, s)
    | none => (false, s)
    | some _ =>
      if p = [] ∨ !canModify s p.dropLast then (false, s)
      else (true, logMut (stampParent (delEnt s p) p) "unlink" p)

/-- `open(path, O_CREAT|O_WRONLY|O_EXCL, 0600)`: the canonical path of the new file -/
def openExcl (s : St) (path : Bytes) : Option Path × St :=
  match resolvePath s false path with
  | none => (none, s)
  | some p =>
    if p = [] ∨ (lookup s p).isSome then (none, s)
    else if !(match lookup s p.dropLast with | some (.dir _ _) => true | _ => false) then (none, s)
    else if !canModify s p.dropLast then (none, s)
    else
      let s := setEnt s p (.file [] (0o600 - (0o600 &&& s.umask)) s.now)
      (some p, logMut (stampParent s p) "create" p)

/-- `fchmod(fd, mode)` on a file we created -/
def fchmod (s : St) (p : Path) (mode : Nat) : St :=
  match lookup s p with
  | some (.file d _ t) => setEnt s p (.file d (mode % 4096) t)
  | _ => s

/-- write + close: contents and modification time -/
def writeAll (s : St) (p : Path) (data : Bytes) : St :=
  match lookup s p with
  | some (.file _ m _) => logMut (setEnt s p (.file data m s.now)) "write" p
  | _ => s

/-- `chmod(path, mode)` (follows links) -/
def chmod (s : St) (path : Bytes) (mode : Nat) : Bool × St :=
  match resolvePath s true path with
  | none => (false, s)
  | some p =>
    match lookup s p with
    | some (.dir _ t) => if p = [] then (false, s) else (true, logMut (setEnt s p (.dir (mode % 4096) t)) "chmod" p)
    | some (.file d _ t) => (true, logMut (setEnt s p (.file d (mode % 4096) t)) "chmod" p)
    | _ => (false, s)

/-- `utime(path, t)` (follows links) -/
def utime (s : St) (path : Bytes) (t : Nat) : Bool × St :=
  match resolvePath s true path with
  | none => (false, s)
  | some p =>
    match lookup s p with
    | some (.dir m _) => if p = [] then (false, s) else (true, logMut (setEnt s p (.dir m t)) "utime" p)
    | some (.file d m _) => (true, logMut (setEnt s p (.file d m t)) "utime" p)
    | _ => (false, s)

/-- `symlink(target, path)` -/
def symlink (s : St) (path target : Bytes) : Bool × St :=
  match resolvePath s false path with
  | none => (false, s)
  | some p =>
    if p = [] ∨ (lookup s p).isSome then (false, s)
    else if !(match lookup s p.dropLast with | some (.dir _ _) => true | _ => false) then (false, s)
    else if !canModify s p.dropLast then (false, s)
    else (true, logMut (stampParent (setEnt s p (.link target)) p) "symlink" p)

/-! ### the `lha_arch_*` layer on top -/

/-- `lha_arch_fopen(filename, uid, gid, perms)`: unlink, exclusive create, fchmod; `perms = none` ⇔ −1 -/
def archFopen (s : St) (filename : Bytes) (perms : Option Nat) : Option Path × St :=
  let s := (unlink s filename).2
  let r := openExcl s filename
  match r.1 with
  | none => (none, r.2)
  | some p =>
    match perms with
    | some m => (some p, fchmod r.2 p m)
    | none => (some p, r.2)

/-- `lha_arch_symlink(path, target)`: unlink, symlink -/
def archSymlink (s : St) (path target : Bytes) : Bool × St :=
  symlink (unlink s path).2 path target

/-- `lha_arch_is_symlink(path)`: `lstat` says the object at `path` is a symbolic link -/
def isSymlink (s : St) (path : Bytes) : Bool :=
  match resolvePath s false path with
  | some p => (match lookup s p with | some (.link _) => true | _ => false)
  | none => false

end LhasaV.Fs
