import LhasaV.Model.Header
/-!
Model of `lib/lha_input_stream.c`: the lead-in buffer, the self-extractor scan
(`skip_sfx`), `lha_input_stream_read` and the three skip variants, over the
four kinds of byte source the library is used with.
-/
namespace LhasaV.Stream
open LhasaV

/-- seekable FILE, unseekable FILE (pipe / stdin), callbacks with and without `skip` -/
inductive Kind where
  | seekable | pipe | cbSkip | cbNoSkip
deriving Repr, BEq, DecidableEq

inductive Phase where
  | init | reading | fail
deriving Repr, BEq, DecidableEq

structure St where
  kind : Kind
  data : Array UInt8
  pos : Nat := 0                 -- source position; may pass the end after `fseek`
  phase : Phase := .init
  leadin : List UInt8 := []      -- leadin[0 .. leadin_len)
  reads : Nat := 0               -- source read requests made (step counter)
  moved : Nat := 0               -- bytes handed out by the source (work counter)
deriving Repr

/-- `do_read(stream, buf, n)`: the source answers fully except at its end -/
def doRead (s : St) (n : Nat) : List UInt8 × St :=
  let k := min n (s.data.size - s.pos)
  ((s.data.extract s.pos (s.pos + k)).toList,
   { s with pos := s.pos + k, reads := s.reads + 1, moved := s.moved + k })

def chr (c : Char) : UInt8 := UInt8.ofNat c.toNat

/-- checked read of the lead-in buffer -/
def lget (l : List UInt8) (i : Nat) : Res UInt8 :=
  match l[i]? with
  | some b => .ok b
  | none => .fault "leadin[i + k]"

/-- `file_header_match(leadin + i)` -/
def headerMatch (l : List UInt8) (i : Nat) : Res Bool := do
  let b2 ← lget l (i + 2); let b6 ← lget l (i + 6)
  if b2 ≠ chr '-' ∨ b6 ≠ chr '-' then return false
  let b3 ← lget l (i + 3); let b4 ← lget l (i + 4); let b5 ← lget l (i + 5)
  if b3 = chr 'l' ∧ b4 = chr 'h' then return true
  if b3 = chr 'l' ∧ b4 = chr 'z' ∧ (b5 = chr '4' ∨ b5 = chr '5' ∨ b5 = chr 's') then return true
  if b3 = chr 'p' ∧ b4 = chr 'm' ∧ b5 ≠ chr 's' then return true
  return false

/-- `!memcmp(leadin + i, id, strlen(id))` -/
def markerAt (l : List UInt8) (i : Nat) (id : List Nat) : Res Bool :=
  if i + id.length ≤ l.length then .ok ((l.drop i).take id.length == id.map UInt8.ofNat)
  else .fault "memcmp(leadin + i, SFX_ID)"

inductive Scan where
  | found (i : Nat)                    -- header at i, lead-in emptied up to i
  | done (i : Nat) (skipFiles : Nat)   -- scanned up to i

/-- the `for (i = 0; i + 12 < leadin_len; ++i)` loop; `k` = iterations left -/
def scan (l : List UInt8) : Nat → Nat → Nat → Res Scan
  | 0, i, sf => .ok (.done i sf)
  | k+1, i, sf => do
    let m ← headerMatch l i
    if m ∧ sf = 0 then return .found i
    let sf := if m then sf - 1 else sf
    let a ← markerAt l i Gen.sfxIdDeclha
    let b ← markerAt l i Gen.sfxIdAmiga
    scan l k (i + 1) (if a ∨ b then 1 else sf)

/-- `skip_sfx`: `fuel` = source bytes left + 1 (every round consumes at least one) -/
def skipSfx : Nat → Nat → Nat → St → Res (Bool × St)
  | 0, _, _, s => .ok (false, s)
  | fuel+1, filepos, sf, s =>
    if filepos < Gen.maxSfxHeaderLen then
      if s.leadin.length > Gen.leadinCapacity then .fault "leadin + leadin_len beyond the buffer" else
      let g := doRead s (Gen.leadinBufferLen - s.leadin.length)
      if g.1.isEmpty then .ok (false, g.2)
      else
        let l := s.leadin ++ g.1
        if l.length > Gen.leadinCapacity then .fault "read past the lead-in buffer" else
        (scan l (l.length - 12) 0 sf) >>= fun r =>
        match r with
        | .found i => .ok (true, { g.2 with leadin := l.drop i })
        | .done i sf' => skipSfx fuel (filepos + i) sf' { g.2 with leadin := l.drop i }
    else .ok (false, s)

/-- start of stream: run the SFX scan once -/
def start (s : St) : Res St :=
  if s.phase == .init then
    (skipSfx (s.data.size - s.pos + 1) 0 0 s) >>= fun r =>
    .ok { r.2 with phase := if r.1 then .reading else .fail }
  else .ok s

/-- `lha_input_stream_read(stream, buf, n)`: `none` = failure (bytes may have been consumed) -/
def read (s : St) (n : Nat) : Res (Option (List UInt8) × St) :=
  (start s) >>= fun s =>
  if s.phase == .fail then .ok (none, s) else
  let k := min n s.leadin.length
  let fromLead := s.leadin.take k
  let s := { s with leadin := s.leadin.drop k }
  if k < n then
    let g := doRead s (n - k)
    if k + g.1.length = n then .ok (some (fromLead ++ g.1), g.2) else .ok (none, g.2)
  else .ok (some fromLead, s)

/-- everything the stream can still deliver, as one byte list (lead-in then source) -/
def rest (s : St) : List UInt8 := s.leadin ++ (s.data.extract s.pos s.data.size).toList

/-- drop `k` delivered bytes: lead-in first, then the source (used after a header parse) -/
def advance (s : St) (k : Nat) : St :=
  let a := min k s.leadin.length
  let b := min (k - a) (s.data.size - s.pos)
  { s with leadin := s.leadin.drop a, pos := s.pos + b,
           reads := s.reads + (if k > a then 1 else 0), moved := s.moved + b }

/-- `lha_input_stream_skip(stream, bytes)`.  The lead-in buffer is NOT consulted
(it is empty whenever the readers skip: every header is ≥ 24 bytes). -/
def skip (s : St) (n : Nat) : Bool × St :=
  let avail := s.data.size - s.pos
  match s.kind with
  | .seekable => (true, { s with pos := s.pos + n })          -- fseek: succeeds past the end
  | .cbSkip => if n ≤ avail then (true, { s with pos := s.pos + n }) else (false, s)
  | .pipe =>                                                   -- fread of 32-byte pieces; short = failure
    if n ≤ avail then (true, { s with pos := s.pos + n, reads := s.reads + (n + 31) / 32, moved := s.moved + n })
    else (false, { s with pos := s.data.size, reads := s.reads + avail / 32 + 1, moved := s.moved + avail })
  | .cbNoSkip =>                                               -- read-based fallback; a zero read is a failure
    if n ≤ avail then (true, { s with pos := s.pos + n, reads := s.reads + (n + 31) / 32, moved := s.moved + n })
    else (false, { s with pos := s.data.size, reads := s.reads + avail / 32 + 1, moved := s.moved + avail })

end LhasaV.Stream
