import LhasaV.Model.Reader
import LhasaV.Model.Fs
import LhasaV.Model.Glob
import LhasaV.Model.Safe
/-!
Model of the extraction side of the tool and library: `src/extract.c` (`file_full_path`,
`make_parent_directories`, overwrite policy, the `x`/`e` loop), the file-system half of
`lib/lha_reader.c` (`extract_file`, `extract_directory`, `extract_symlink` with placeholders,
`set_directory_metadata`) and `lib/lha_arch_unix.c`, over the abstract file system `Fs`.
-/
namespace LhasaV.Extract
open LhasaV LhasaV.Header

inductive Overwrite where
  | prompt | skip | all
deriving Repr, BEq, DecidableEq

structure Opts where
  overwrite : Overwrite := .prompt
  quiet : Nat := 0
  dryRun : Bool := false
  extractPath : Option Bytes := none     -- w=DIR
  usePath : Bool := true                 -- cleared by `i`
  filters : List Bytes := []             -- wildcard arguments after the archive name
deriving Repr

def stripSlashes (s : Bytes) : Bytes := s.dropWhile (· == 0x2f)

/-- `file_full_path(header, options)` -/
def fileFullPath (h : Hdr) (o : Opts) : Bytes :=
  (match o.extractPath with | some d => d ++ [0x2f] | none => []) ++
  (if o.usePath then stripSlashes (h.path.getD []) else []) ++
  stripSlashes (h.filename.getD [])

structure St where
  rd : Reader.St
  fs : Fs.St
  opts : Opts
  answers : Bytes := []        -- what the user types at the overwrite prompt
  result : Bool := true        -- 1 = all succeeded (exit status 0)
  aborted : Bool := false      -- an `exit(-1)` path was taken
  out : List String := []      -- per-entry outcome tokens, most recent first

/-- `check_parent_directory(path)` -/
def checkParentDirectory (fs : Fs.St) (path : Bytes) : Bool × Fs.St :=
  match Fs.existsKind fs path with
  | .dir => (true, fs)
  | .none => Fs.mkdir fs path 0o755
  | .file => (false, fs)
  | .error => (false, fs)

/-- positions of the separators at which a parent prefix ends (after the leading slashes) -/
def prefixEnds (path : Bytes) : List Nat :=
  let lead := (path.takeWhile (· == 0x2f)).length
  ((List.range path.length).filter (fun i => i ≥ lead ∧ path.getD i 0 == 0x2f))

/-- `make_parent_directories(path)` -/
def makeParentDirectories (fs : Fs.St) (path : Bytes) : Bool × Fs.St :=
  -- trailing slashes are removed first
  let trimmed := (path.reverse.dropWhile (· == 0x2f)).reverse
  (prefixEnds trimmed).foldl (fun (acc : Bool × Fs.St) i =>
    if !acc.1 then acc else checkParentDirectory acc.2 (trimmed.take i)) (true, fs)

/-- one line read by `prompt_user`: first character of the line; `none` = end of input -/
def readAnswer (a : Bytes) : Option (UInt8 × Bytes) :=
  match a with
  | [] => none
  | c :: _ => some (c, (a.dropWhile (· != 0x0a)).drop 1)

/-- `confirm_file_overwrite`: result, new policy, remaining answers; `none` = exit(-1) at end of input -/
def confirmOverwrite : Nat → Overwrite → Bytes → Option (Bool × Overwrite × Bytes)
  | 0, _, _ => none
  | fuel+1, pol, ans =>
    match pol with
    | .skip => some (false, pol, ans)
    | .all => some (true, pol, ans)
    | .prompt =>
      match readAnswer ans with
      | none => none
      | some (c, rest) =>
        let lc := if 0x41 ≤ c ∧ c ≤ 0x5a then c + 0x20 else c
        if lc == 0x79 then some (true, pol, rest)
        else if lc == 0x6e ∨ lc == 0x0a then some (false, pol, rest)
        else if lc == 0x61 then some (true, .all, rest)
        else if lc == 0x73 then some (false, .skip, rest)
        else confirmOverwrite fuel pol rest

def isDirEntry (h : Hdr) : Bool := h.method == "-lhd-".toUTF8.toList && h.symlinkTarget.isNone

/-- `set_directory_metadata(header, path)` -/
def setDirectoryMetadata (fs : Fs.St) (h : Hdr) (path : Bytes) : Fs.St :=
  let fs := if h.timestamp ≠ 0 then (Fs.utime fs path h.timestamp).2 else fs
  if hasFlag h Gen.flagUnixPerms then (Fs.chmod fs path h.unixPerms).2 else fs

/-- `path_passes_through_symlink(filename)`: some proper prefix ending before a '/' (other than a
leading one) is a symbolic link -/
def passesThroughSymlink (fs : Fs.St) (filename : Bytes) : Bool :=
  ((List.range filename.length).filter (fun i => i ≠ 0 ∧ filename.getD i 0 == 0x2f)).any
    (fun i => Fs.isSymlink fs (filename.take i))

/-- `lha_reader_extract(reader, filename, …)` on the current entry: result and new states -/
def readerExtract (rd : Reader.St) (fs : Fs.St) (filename : Bytes) : Bool × Reader.St × Fs.St :=
  match rd.currType, rd.curr with
  | .normal, some c =>
    let h := c.h
    if h.method != "-lhd-".toUTF8.toList then
      -- extract_file
      let okd := (Reader.openDecoder rd).1
      if !okd then
        let r := Reader.extract rd false
        (false, r.2, fs)
      else
        let perms := if hasFlag h Gen.flagUnixPerms then some h.unixPerms else none
        let f := Fs.archFopen fs filename perms
        match f.1 with
        | none => let r := Reader.extract rd false; (false, r.2, f.2)
        | some p =>
          let r := Reader.extract rd true
          let fs := Fs.writeAll f.2 p r.1.2
          let fs := if r.1.1 ∧ h.timestamp ≠ 0 then (Fs.utime fs filename h.timestamp).2 else fs
          (r.1.1, r.2, fs)
    else if h.symlinkTarget.isSome then
      if Reader.isDangerous h then
        -- extract_placeholder_symlink: an empty file with mode 0600 takes the link's place
        let f := Fs.archFopen fs filename (some 0o600)
        let r := Reader.extract rd f.1.isSome
        (r.1.1, r.2, f.2)
      else
        let l := Fs.archSymlink fs filename (h.symlinkTarget.getD [])
        let r := Reader.extract rd l.1
        (r.1.1, r.2, l.2)
    else
      -- extract_directory
      let mode := if hasFlag h Gen.flagUnixPerms then 0o700 else 0o777
      let m := Fs.mkdir fs filename mode
      if !m.1 then
        let r := Reader.extract rd false
        (Fs.existsKind fs filename == .dir, r.2, m.2)
      else
        let fs := if rd.policy == .plain then setDirectoryMetadata m.2 h filename else m.2
        let r := Reader.extract rd true
        (true, r.2, fs)
  | .fakeDir, some c =>
    (true, (Reader.extract rd true).2, setDirectoryMetadata fs c.h filename)
  | .deferred, some c =>
    -- a deferred link is only created where no directory component of its path is a symbolic link
    if passesThroughSymlink fs filename then (false, (Reader.extract rd false).2, fs) else
    let l := Fs.archSymlink fs filename (c.h.symlinkTarget.getD [])
    (l.1, (Reader.extract rd l.1).2, l.2)
  | _, _ => (false, rd, fs)

/-- `extract_archived_file(reader, header, options)` -/
def extractArchivedFile (s : St) (h : Hdr) : St :=
  let filename := fileFullPath h s.opts
  let isSymlink := h.symlinkTarget.isSome
  let isDir := isDirEntry h
  -- overwrite check (files only)
  let pre : Option (Bool × St) :=          -- some (skip?, state) | none = abort
    if !isDir ∧ !isSymlink then
      match Fs.existsKind s.fs filename with
      | .error => none
      | .none => some (false, s)
      | _ =>
        match confirmOverwrite 64 s.opts.overwrite s.answers with
        | none => none
        | some (yes, pol, rest) =>
          some (!yes, { s with opts := { s.opts with overwrite := pol }, answers := rest })
    else some (false, s)
  match pre with
  | none => { s with aborted := true, result := false, out := "abort" :: s.out }
  | some (true, s) => { s with out := "skipped" :: s.out }
  | some (false, s) =>
    if !s.opts.usePath ∧ isDir then { s with out := "dir-ignored" :: s.out } else
    -- parents are created for first-time entries only: a re-presented directory or a deferred link was extracted
    -- before (its parents exist), and by now a parent may be a link leading elsewhere
    let mp := if s.rd.currType == .fakeDir || s.rd.currType == .deferred then (true, s.fs)
              else makeParentDirectories s.fs filename
    if !mp.1 then { s with fs := mp.2, result := false, out := "parent-failed" :: s.out } else
    let r := readerExtract s.rd mp.2 filename
    { s with rd := r.2.1, fs := r.2.2, result := s.result && r.1, out := (if r.1 then "ok" else "failed") :: s.out }

/-- the loop of `extract_archive` (no wildcard filter): `fuel` = bound on the number of entries the
reader can present (each `next` consumes input or pops a stack/list that extraction filled) -/
def extractLoop : Nat → St → St
  | 0, s => s
  | fuel+1, s =>
    if s.aborted then s else
    match Reader.next s.rd with
    | .error _ => { s with result := false, out := "fault" :: s.out }
    | .ok (none, rd) => { s with rd := rd }
    | .ok (some c, rd) =>
      -- `lha_filter_next_file`: entries that match no wildcard argument are passed over
      if !Glob.matchesFilter s.opts.filters c.h then extractLoop fuel { s with rd := rd }
      else extractLoop fuel (extractArchivedFile { s with rd := rd } c.h)

/-- `lha x[options] archive` from directory `cwd` of the file system -/
def run (archive : Array UInt8) (o : Opts) (fs : Fs.St) (answers : Bytes) : St :=
  let rd : Reader.St := { basic := { stream := { kind := .seekable, data := archive } }, mktime := Header.dosTimeUTC }
  extractLoop (2 * archive.size + 16) { rd := rd, fs := fs, opts := o, answers := answers }

/-! ### `lha p`: print the selected members -/

/-- `print_archived_file`: 512-byte reads until an empty one -/
def printLoop : Nat → Reader.St → List UInt8 → List UInt8 × Reader.St
  | 0, s, acc => (acc, s)
  | fuel+1, s, acc =>
    let r := Reader.read s 512
    if r.1.isEmpty then (acc, r.2) else printLoop fuel r.2 (acc ++ r.1)

/-- the loop of `print_archive`: standard output so far -/
def printArchiveLoop (o : Opts) : Nat → Reader.St → List UInt8 → List UInt8
  | 0, _, out => out
  | fuel+1, rd, out =>
    match Reader.next rd with
    | .error _ => out
    | .ok (none, _) => out
    | .ok (some c, rd) =>
      if !Glob.matchesFilter o.filters c.h then printArchiveLoop o fuel rd out else
      let h := c.h
      let isNormal := h.method != "-lhd-".toUTF8.toList
      let full := fileFullPath h o
      let banner : List UInt8 :=
        if o.quiet < 2 then
          match h.symlinkTarget with
          | some tg => Safe.safeOutput ("Symbolic Link ".toUTF8.toList ++ full ++ " -> ".toUTF8.toList ++ tg) ++ [0x0a]
          | none =>
            if isNormal then "::::::::\n".toUTF8.toList ++ Safe.safeOutput full ++ "\n::::::::\n".toUTF8.toList else []
        else []
      if isNormal then
        let r := printLoop (h.length + 2) rd []
        printArchiveLoop o fuel r.2 (out ++ banner ++ r.1)
      else printArchiveLoop o fuel rd (out ++ banner)

/-- `lha p[options] archive [patterns]`: the bytes written to standard output -/
def print (archive : Array UInt8) (o : Opts) : List UInt8 :=
  let rd : Reader.St := { basic := { stream := { kind := .seekable, data := archive } }, mktime := Header.dosTimeUTC }
  printArchiveLoop o (2 * archive.size + 16) rd []

end LhasaV.Extract
