import LhasaV.Model.Header
/-!
Model of `src/filter.c`: `match_glob`, `matches_filter`, and an independent
specification of what a glob pattern denotes.

C strings are byte lists without the terminating NUL (the convention of
`Header.lean`); a command-line argument never contains a NUL.
-/
namespace LhasaV.Glob
open LhasaV LhasaV.Header

def star : UInt8 := 0x2a      -- '*'
def quest : UInt8 := 0x3f     -- '?'

/-- `match_glob(glob, str)`, same recursion as the C:

* the `while (*str != '\0')` loop is the recursion on `str`;
* `*glob == '*'`: the recursive call `match_glob(glob + 1, str)`, and on its failure
  `++str` with the glob unchanged;
* `*glob == '?' || *glob == *str`: `++glob; ++str` (at the end of the glob `*glob` is
  NUL, which equals no byte of `str`, so the answer is 0);
* after the loop: skip the trailing `'*'`s, succeed iff the glob is exhausted. -/
def matchGlob : List UInt8 → List UInt8 → Bool
  | glob, [] => (glob.dropWhile (· == star)).isEmpty
  | [], _ :: _ => false
  | g :: glob, c :: str =>
    if g == star then
      matchGlob glob (c :: str) || matchGlob (g :: glob) str
    else if g == quest || g == c then
      matchGlob glob str
    else false
termination_by glob str => (str.length, glob.length)

/-- `path ++ filename`, the string `matches_filter` builds with `strcat` -/
def fullName (h : Hdr) : List UInt8 := h.path.getD [] ++ h.filename.getD []

/-- `matches_filter(filter, header)`: no filters = everything, otherwise some filter
matches `path ++ filename` -/
def matchesFilter (filters : List (List UInt8)) (h : Hdr) : Bool :=
  if filters.isEmpty then true
  else filters.any (fun f => matchGlob f (fullName h))

/-- the members `lha_filter_next_file` hands out, in order -/
def select (filters : List (List UInt8)) (hdrs : List Hdr) : List Hdr :=
  hdrs.filter (matchesFilter filters)

/-- Specification: a pattern denotes a set of byte strings — `*` stands for any run of
bytes (also the empty one), `?` for exactly one byte, every other byte for itself.
Structural recursion on the pattern; for `*` every split point of the string is tried. -/
def GlobSpec : List UInt8 → List UInt8 → Bool
  | [], s => s.isEmpty
  | p :: pat, s =>
    if p == star then
      (List.range (s.length + 1)).any (fun k => GlobSpec pat (s.drop k))
    else
      match s with
      | [] => false
      | c :: s' => (p == quest || p == c) && GlobSpec pat s'

end LhasaV.Glob
