import LhasaV.Model.Basic
/-!
Model of `src/safe.c`: `safe_printf` / `safe_fprintf` format a string and replace every byte
outside printable ASCII by '?' before writing it.
-/
namespace LhasaV.Safe

/-- the test `*p < 0x20 || *p >= 0x7f` of `safe_output` -/
def safeByte (b : UInt8) : UInt8 := if b < 0x20 || b ≥ 0x7f then 0x3f else b

/-- `safe_output(stream, str)` on a C string (already formatted) -/
def safeOutput (s : Bytes) : Bytes := s.map safeByte

/-- `safe_printf("%s", s)`: the argument is a C string (cut at the first NUL) -/
def safeStr (s : Bytes) : Bytes := safeOutput (cstr s)

def printable (b : UInt8) : Prop := 0x20 ≤ b ∧ b ≤ 0x7e

instance (b : UInt8) : Decidable (printable b) := by unfold printable; infer_instance

theorem safeByte_printable_aux : ∀ n, n < 256 → printable (safeByte (UInt8.ofNat n)) := by decide +kernel

theorem safeByte_printable (b : UInt8) : printable (safeByte b) := by
  have := safeByte_printable_aux b.toNat (UInt8.toNat_lt b)
  simpa using this

theorem safeOutput_printable (s : Bytes) : ∀ b ∈ safeOutput s, printable b := by
  intro b hb
  simp only [safeOutput, List.mem_map] at hb
  obtain ⟨a, _, rfl⟩ := hb
  exact safeByte_printable a

end LhasaV.Safe
