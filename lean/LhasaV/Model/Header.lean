import LhasaV.Model.Basic
import LhasaV.Model.Crc
import LhasaV.Model.PathFix
import LhasaV.Gen.Header
/-!
Model of `lib/lha_file_header.c`, `lib/ext_header.c`, `lib/lha_endian.c`:
`lha_file_header_read` on a byte source positioned at the header.

* the input stream is the list of bytes still to come; `lha_input_stream_read`
  of `n` bytes succeeds iff `n` bytes are there (callback contract: full reads
  except at end of input);
* `raw` is `header->raw_data[0 .. raw_data_len)`; every `RAW_DATA(h, off)` and
  every `data[k]` of an extended-header decoder is a *checked* read of `raw`;
* C strings are byte lists without NUL (`cstr` cuts a buffer at its first NUL);
* `mk` is libc `mktime` applied to the broken-down MS-DOS stamp (parameter).
-/
namespace LhasaV.Header
open LhasaV

structure Hdr where
  path : Option Bytes := none
  filename : Option Bytes := none
  symlinkTarget : Option Bytes := none
  method : Bytes := []               -- compress_method[0..5)
  compressedLength : Nat := 0
  length : Nat := 0
  level : Nat := 0
  osType : Nat := 0
  crc : Nat := 0
  timestamp : Nat := 0
  raw : Bytes := []
  extraFlags : Nat := 0
  unixPerms : Nat := 0
  unixUid : Nat := 0
  unixGid : Nat := 0
  os9Perms : Nat := 0
  unixUsername : Option Bytes := none
  unixGroup : Option Bytes := none
  commonCrc : Nat := 0
  winCreation : Nat := 0
  winModification : Nat := 0
  winAccess : Nat := 0
deriving Repr, BEq, DecidableEq

/-! ### little-endian reads (lha_endian.c), checked -/

def rdU8 (site : String) (raw : Bytes) (off : Nat) : Res Nat := do
  let b ← rd site raw off
  pure b.toNat

def rdU16 (site : String) (raw : Bytes) (off : Nat) : Res Nat := do
  let a ← rd site raw off
  let b ← rd site raw (off + 1)
  pure (a.toNat + 256 * b.toNat)

def rdU32 (site : String) (raw : Bytes) (off : Nat) : Res Nat := do
  let a ← rdU16 site raw off
  let b ← rdU16 site raw (off + 2)
  pure (a + 65536 * b)

def rdU64 (site : String) (raw : Bytes) (off : Nat) : Res Nat := do
  let a ← rdU32 site raw off
  let b ← rdU32 site raw (off + 4)
  pure (a + 4294967296 * b)

/-- `memcpy(dst, &raw[off], n)`: a fault unless the whole range is inside. -/
def rdSlice (site : String) (raw : Bytes) (off n : Nat) : Res Bytes :=
  if off + n ≤ raw.length then .ok ((raw.drop off).take n) else .fault site

/-! ### MS-DOS time → Unix time (`decode_ftime` + `mktime` in UTC) -/

structure Tm where
  sec : Nat
  min : Nat
  hour : Nat
  mday : Nat
  mon : Int      -- tm_mon, −1 … 14
  year : Nat     -- tm_year + 1900
deriving Repr

def dosToTm (raw : Nat) : Tm :=
  { sec := (raw * 2) % 64,                  -- (raw << 1) & 0x3e
    min := (raw / 32) % 64,
    hour := (raw / 2048) % 32,
    mday := (raw / 65536) % 32,
    mon := (((raw / 2097152) % 16 : Nat) : Int) - 1,
    year := 1980 + (raw / 33554432) % 128 }

/-- days from 1970-01-01 to (y, m (1-based), d) for y ≥ 1971, `d` may be 0. -/
def daysFromCivil (y m d : Nat) : Nat :=
  let y' := if m ≤ 2 then y - 1 else y
  let era := y' / 400
  let yoe := y' - era * 400
  let mp := (m + 9) % 12
  era * 146097 + yoe * 365 + yoe / 4 - yoe / 100 + (153 * mp + 2) / 5 + d - 719469

/-- `timegm` with libc's normalisation of month −1 / ≥ 12, day 0, hour ≥ 24 … -/
def timegm (t : Tm) : Nat :=
  let (y, m) : Nat × Nat :=
    if t.mon < 0 then (t.year - 1, 12)
    else if t.mon ≥ 12 then (t.year + 1, (t.mon - 12).toNat + 1)
    else (t.year, t.mon.toNat + 1)
  daysFromCivil y m t.mday * 86400 + t.hour * 3600 + t.min * 60 + t.sec

/-- `decode_ftime` under `TZ=UTC`; result truncated to `unsigned int`. -/
def dosTimeUTC (raw : Nat) : Nat :=
  if raw = 0 then 0 else timegm (dosToTm raw) % 4294967296

/-! ### reading more header bytes -/

/-- `extend_raw_data(header, stream, nbytes)` -/
def extend (h : Hdr) (inp : Bytes) (n : Nat) : Res (Hdr × Bytes) :=
  if n > Gen.level3MaxHeaderLen then .fail
  else if inp.length < n then .fail
  else .ok ({ h with raw := h.raw ++ inp.take n }, inp.drop n)

/-! ### extended headers (ext_header.c) -/

def bor (a b : Nat) : Nat := a ||| b
def hasFlag (h : Hdr) (f : Nat) : Bool := (h.extraFlags &&& f) != 0

def lookupExt (num : Nat) : Option Nat :=
  (Gen.extHeaderTypes.find? (fun p => p.1 == num)).map (·.2)

/-- replace `raw[off]`, `raw[off+1]` by zero (`data[0] = data[1] = 0`) -/
def zero2 (raw : Bytes) (off : Nat) : Res Bytes :=
  if off + 2 ≤ raw.length then .ok (raw.take off ++ [0, 0] ++ raw.drop (off + 2))
  else .fault "common: data[0..1] write"

def mapBytes (f : Byte → Byte) (l : Bytes) : Bytes := l.map f

/-- `lha_ext_header_decode(header, num, data, data_len)` where
`data = &raw[off]`.  The return value is ignored by the caller, so unknown
types and too-short headers leave the header unchanged. -/
def decodeExt (h : Hdr) (num off len : Nat) : Res Hdr :=
  match lookupExt num with
  | none => .ok h
  | some minLen =>
    if len < minLen then .ok h
    else if num = Gen.extCommon then do
      let c ← rdU16 "common: data[0..1]" h.raw off
      let raw ← zero2 h.raw off
      pure { h with extraFlags := bor h.extraFlags Gen.flagCommonCrc, commonCrc := c, raw := raw }
    else if num = Gen.extFilename then do
      let d ← rdSlice "filename: memcpy" h.raw off len
      pure { h with filename := some ((cstr d).map (fun b => if b = 0x2f then 0x5f else b)) }
    else if num = Gen.extPath then do
      let d ← rdSlice "path: memcpy" h.raw off len
      if len = 0 then .fault "path: new_path[data_len - 1] with data_len = 0"
      else
        let d' := if d.getLast? = some 0xff then d else d ++ [0xff]
        pure { h with path := some (cstr (d'.map (fun b => if b = 0xff then 0x2f else b))) }
    else if num = Gen.extWindowsTimestamps then do
      let a ← rdU64 "wintime: data[0..7]" h.raw off
      let b ← rdU64 "wintime: data[8..15]" h.raw (off + 8)
      let c ← rdU64 "wintime: data[16..23]" h.raw (off + 16)
      pure { h with extraFlags := bor h.extraFlags Gen.flagWindowsTimestamps,
                    winCreation := a, winModification := b, winAccess := c }
    else if num = Gen.extUnixPermission then do
      let p ← rdU16 "unixperm: data[0..1]" h.raw off
      pure { h with extraFlags := bor h.extraFlags Gen.flagUnixPerms, unixPerms := p }
    else if num = Gen.extUnixUidGid then do
      let g ← rdU16 "uidgid: data[0..1]" h.raw off
      let u ← rdU16 "uidgid: data[2..3]" h.raw (off + 2)
      pure { h with extraFlags := bor h.extraFlags Gen.flagUnixUidGid, unixGid := g, unixUid := u }
    else if num = Gen.extUnixUser then do
      let d ← rdSlice "user: memcpy" h.raw off len
      pure { h with unixUsername := some (cstr d) }
    else if num = Gen.extUnixGroup then do
      let d ← rdSlice "group: memcpy" h.raw off len
      pure { h with unixGroup := some (cstr d) }
    else if num = Gen.extUnixTimestamp then do
      let t ← rdU32 "unixtime: data[0..3]" h.raw off
      pure { h with timestamp := t }
    else if num = Gen.extOs9 then do
      let p ← rdU16 "os9: data[7..8]" h.raw (off + 7)
      pure { h with os9Perms := p, extraFlags := bor h.extraFlags Gen.flagOs9Perms }
    else .ok h

/-- the loop of `decode_extended_headers`; `fs` = field size, `avail` =
`available_length`. Terminates because every accepted header has
`fs + 1 ≤ len ≤ avail`. -/
def extLoop (fs : Nat) (h : Hdr) (off avail : Nat) : Res Hdr :=
  -- loop condition `offset <= RAW_DATA_LEN - field_size`
  if off + fs ≤ h.raw.length then
    (if fs = 4 then rdU32 "ext chain: length field" h.raw off
     else rdU16 "ext chain: length field" h.raw off) >>= fun len =>
    if len = 0 then .ok h
    else if len < fs + 1 ∨ len > avail then .fail
    else
      rdU8 "ext chain: ext_header[0]" h.raw (off + fs) >>= fun num =>
      decodeExt h num (off + fs + 1) (len - fs - 1) >>= fun h' =>
      extLoop fs h' (off + len) (avail - len)
  else .ok h
termination_by avail
decreasing_by omega

/-- `decode_extended_headers(header, offset)` -/
def decodeExtendedHeaders (h : Hdr) (off : Nat) : Res Hdr :=
  let fs := if h.level = 3 then 4 else 2
  -- `available_length = RAW_DATA_LEN - offset - field_size` (size_t): an
  -- underflow here would make every later length check vacuous
  if h.raw.length < off + fs then .fault "decode_extended_headers: available_length underflow"
  else extLoop fs h off (h.raw.length - off - fs)

/-- `read_l1_extended_headers`: every iteration consumes `len ≥ 1` input bytes. -/
def readL1Ext (h : Hdr) (inp : Bytes) : Res (Hdr × Bytes) :=
  if h.raw.length < 2 then .fault "read_next_ext_header: raw_data_len < 2" else
  rdU16 "read_next_ext_header" h.raw (h.raw.length - 2) >>= fun len =>
  if hz : len = 0 then .ok (h, inp)
  else if len > Gen.level3MaxHeaderLen then .fail      -- `extend_raw_data`'s cap
  else if hlen : inp.length < len then .fail           -- `extend_raw_data`: short read
  else
    let h' := { h with raw := h.raw ++ inp.take len }
    if h'.compressedLength < len then .fail
    else if len < 3 then .fail
    else readL1Ext { h' with compressedLength := h'.compressedLength - len } (inp.drop len)
termination_by inp.length
decreasing_by simp; omega

/-! ### level 0 / 1 -/

def isLower (b : Byte) : Bool := 0x61 ≤ b && b ≤ 0x7a
def toLower (b : Byte) : Byte := if 0x41 ≤ b && b ≤ 0x5a then b + 0x20 else b

/-- `split_header_filename`: split at the last '/' (`strrchr`) -/
def splitFilename (h : Hdr) : Hdr :=
  match h.filename with
  | none => h
  | some f =>
    if f.contains 0x2f then
      let name := (f.reverse.takeWhile (· ≠ 0x2f)).reverse
      { h with path := some (f.take (f.length - name.length)), filename := some name }
    else h

/-- `process_level0_path` -/
def level0Path (h : Hdr) (data : Bytes) : Hdr :=
  if data.length = 0 then h
  else
    let buf := data.map (fun b => if b = 0x5c then 0x2f else b)
    splitFilename { h with filename := some (cstr buf) }

def methodIs (h : Hdr) (s : String) : Bool := h.method == s.toUTF8.toList
def methodStarts (h : Hdr) (s : String) : Bool := h.method.take s.length == s.toUTF8.toList

/-- `process_level0_extended_area(header, &raw[off], len)`, `len ≥ 1` -/
def level0ExtArea (h : Hdr) (off len : Nat) : Res Hdr := do
  if methodStarts h "-pm" then return h
  let t ← rdU8 "l0 area: data[0]" h.raw off
  if t = 0x55 ∨ t = 0x4b then          -- 'U', 'K'
    if len < Gen.level0UnixExtendedLen then return h
    let d1 ← rdU8 "l0 unix area: data[1]" h.raw (off + 1)
    if d1 ≠ 0 then return h
    let ts ← rdU32 "l0 unix area: data[2..5]" h.raw (off + 2)
    let p ← rdU16 "l0 unix area: perms" h.raw (off + len - 6)
    let u ← rdU16 "l0 unix area: uid" h.raw (off + len - 4)
    let g ← rdU16 "l0 unix area: gid" h.raw (off + len - 2)
    return { h with osType := t, timestamp := ts, unixPerms := p, unixUid := u, unixGid := g,
                    extraFlags := bor h.extraFlags (bor Gen.flagUnixPerms Gen.flagUnixUidGid) }
  else if t = 0x39 then                 -- '9'
    if len < Gen.level0Os9ExtendedLen then return h
    let d9 ← rdU8 "l0 os9 area: data[9]" h.raw (off + 9)
    if d9 ≠ 0xcc then return h
    let d1 ← rdU8 "l0 os9 area: data[1]" h.raw (off + 1)
    let d17 ← rdU8 "l0 os9 area: data[17]" h.raw (off + 17)
    if d1 ≠ d17 then return h
    let d2 ← rdU8 "l0 os9 area: data[2]" h.raw (off + 2)
    let d18 ← rdU8 "l0 os9 area: data[18]" h.raw (off + 18)
    if d2 ≠ d18 then return h
    let p ← rdU16 "l0 os9 area: perms" h.raw (off + 1)
    return { h with osType := 0x39, os9Perms := p, extraFlags := bor h.extraFlags Gen.flagOs9Perms }
  else return h

def sumBytes (l : Bytes) : Nat := l.foldl (fun s b => s + b.toNat) 0

/-- `decode_level0_header` (levels 0 and 1) -/
def decodeLevel0 (mk : Nat → Nat) (h : Hdr) (inp : Bytes) : Res (Hdr × Bytes) := do
  let headerLen ← rdU8 "l0: RAW_DATA(0)" h.raw 0
  let csum ← rdU8 "l0: RAW_DATA(1)" h.raw 1
  let minLen := if h.level = 0 then Gen.level0MinHeaderLen else Gen.level1MinHeaderLen
  if headerLen < minLen then .fail
  -- `header_len + 2 - RAW_DATA_LEN` in size_t
  if headerLen + 2 < h.raw.length then .fault "l0: header_len + 2 - raw_data_len underflow"
  let (h, inp) ← extend h inp (headerLen + 2 - h.raw.length)
  if sumBytes (h.raw.drop 2) % 256 ≠ csum then .fail
  let method ← rdSlice "l0: method" h.raw 2 5
  let clen ← rdU32 "l0: compressed_length" h.raw 7
  let len ← rdU32 "l0: length" h.raw 11
  let ft ← rdU32 "l0: ftime" h.raw 15
  let pathLen ← rdU8 "l0: path_len" h.raw 21
  if minLen + pathLen > headerLen then .fail
  let os ← if h.level = 0 then pure 0 else rdU8 "l1: os_type" h.raw (24 + pathLen)
  let name ← rdSlice "l0: path" h.raw 22 pathLen
  let h := { h with method := method, compressedLength := clen, length := len,
                    timestamp := mk ft, osType := os }
  let h := level0Path h name
  let crc ← rdU16 "l0: crc" h.raw (22 + pathLen)
  let h := { h with crc := crc }
  if h.level = 0 ∧ headerLen > Gen.level0MinHeaderLen + pathLen then
    let h ← level0ExtArea h (Gen.level0MinHeaderLen + 2 + pathLen)
              (headerLen - Gen.level0MinHeaderLen - pathLen)
    pure (h, inp)
  else pure (h, inp)

def decodeLevel1 (mk : Nat → Nat) (h : Hdr) (inp : Bytes) : Res (Hdr × Bytes) := do
  let (h, inp) ← decodeLevel0 mk h inp
  let start := h.raw.length - 2
  let (h, inp) ← readL1Ext h inp
  let h ← decodeExtendedHeaders h start
  pure (h, inp)

def decodeLevel2 (h : Hdr) (inp : Bytes) : Res (Hdr × Bytes) := do
  let headerLen ← rdU16 "l2: header_len" h.raw 0
  if headerLen < Gen.level2HeaderLen then .fail
  if headerLen < h.raw.length then .fault "l2: header_len - raw_data_len underflow"
  let (h, inp) ← extend h inp (headerLen - h.raw.length)
  let method ← rdSlice "l2: method" h.raw 2 5
  let clen ← rdU32 "l2: compressed_length" h.raw 7
  let len ← rdU32 "l2: length" h.raw 11
  let ts ← rdU32 "l2: timestamp" h.raw 15
  let crc ← rdU16 "l2: crc" h.raw 21
  let os ← rdU8 "l2: os_type" h.raw 23
  let h := { h with method := method, compressedLength := clen, length := len, timestamp := ts,
                    crc := crc, osType := os }
  let (h, inp) ← if os = 0x4b then extend h inp 2 else pure (h, inp)
  let h ← decodeExtendedHeaders h 24
  pure (h, inp)

def decodeLevel3 (h : Hdr) (inp : Bytes) : Res (Hdr × Bytes) := do
  let ws ← rdU16 "l3: word size" h.raw 0
  if ws ≠ 4 then .fail
  if Gen.level3HeaderLen < h.raw.length then .fault "l3: 32 - raw_data_len underflow"
  let (h, inp) ← extend h inp (Gen.level3HeaderLen - h.raw.length)
  let headerLen ← rdU32 "l3: header_len" h.raw 24
  if headerLen > Gen.level3MaxHeaderLen ∨ headerLen < h.raw.length then .fail
  let (h, inp) ← extend h inp (headerLen - h.raw.length)
  let method ← rdSlice "l3: method" h.raw 2 5
  let clen ← rdU32 "l3: compressed_length" h.raw 7
  let len ← rdU32 "l3: length" h.raw 11
  let ts ← rdU32 "l3: timestamp" h.raw 15
  let crc ← rdU16 "l3: crc" h.raw 21
  let os ← rdU8 "l3: os_type" h.raw 23
  let h := { h with method := method, compressedLength := clen, length := len, timestamp := ts,
                    crc := crc, osType := os }
  let h ← decodeExtendedHeaders h 28
  pure (h, inp)

/-! ### post-processing in `lha_file_header_read` -/

def fullPath (h : Hdr) : Bytes := h.path.getD [] ++ h.filename.getD []

/-- `parse_symlink` -/
def parseSymlink (h : Hdr) : Res Hdr :=
  let full := fullPath h
  match full.findIdx? (· == 0x7c) with            -- strchr(fullpath, '|')
  | none => .fail
  | some p =>
    .ok (splitFilename { h with symlinkTarget := some (full.drop (p + 1)),
                                path := none, filename := some (full.take p) })

/-- `fix_msdos_allcaps` -/
def fixAllCaps (h : Hdr) : Hdr :=
  let anyLower := (h.path.getD []).any isLower || (h.filename.getD []).any isLower
  if anyLower then h
  else { h with path := h.path.map (·.map toLower), filename := h.filename.map (·.map toLower) }

def bit (v k : Nat) : Nat := (v / 2 ^ k) % 2

/-- `os9_to_unix_permissions` -/
def os9ToUnix (h : Hdr) : Hdr :=
  let p := h.os9Perms
  let or := bit p 0; let ow := bit p 1; let oe := bit p 2
  let pr := bit p 3; let pw := bit p 4; let pe := bit p 5
  let d := bit p 7
  { h with extraFlags := bor h.extraFlags Gen.flagUnixPerms,
           unixPerms := d * 16384 + or * 256 + ow * 128 + oe * 64 + pr * 32 + pw * 16 + pe * 8
                        + pr * 4 + pw * 2 + pe }

def dosLikeOs (os : Nat) : Bool := os = 0 || os = 0x4d || os = 0x61 || os = 0x20 || os = 0x32

def crcOf (raw : Bytes) : Nat := (Crc.buf 0 raw).toNat

/-- everything `lha_file_header_read` does after the level-specific decoder -/
def postProcess (h : Hdr) : Res Hdr := do
  -- Amiga -lh0- directories
  let h := if h.osType = 0x41 ∧ methodIs h "-lh0-" ∧ h.length = 0 ∧ h.filename = none
           then { h with method := "-lhd-".toUTF8.toList } else h
  let h ←
    if !methodIs h "-lhd-" then
      (if h.filename = none then (.fail : Res Hdr) else pure h)
    else if hasFlag h Gen.flagUnixPerms ∧ (h.path ≠ none ∨ h.filename ≠ none)
            ∧ h.unixPerms &&& 0o170000 = 0o120000 then
      parseSymlink h
    else
      (if h.path = none then (.fail : Res Hdr) else pure h)
  let h := if dosLikeOs h.osType then fixAllCaps h else h
  let h := { h with path := h.path.map PathFix.collapse }
  let h := if h.osType = 0x4b ∧ hasFlag h Gen.flagUnixPerms
           then { h with os9Perms := h.unixPerms, extraFlags := bor h.extraFlags Gen.flagOs9Perms } else h
  let h := if hasFlag h Gen.flagOs9Perms then os9ToUnix h else h
  if hasFlag h Gen.flagCommonCrc ∧ crcOf h.raw ≠ h.commonCrc then .fail
  let h := if h.level = 1 ∧ h.osType = 0x20 ∧ methodIs h "-lh7-"
           then { h with method := "-lk7-".toUTF8.toList } else h
  pure h

/-- `lha_file_header_read(stream)`; returns the header and the input left. -/
def read (mk : Nat → Nat) (inp : Bytes) : Res (Hdr × Bytes) := do
  let (h, inp) ← extend {} inp Gen.commonHeaderLen
  let lvl ← rdU8 "raw_data[20]" h.raw 20
  let h := { h with level := lvl }
  let (h, inp) ←
    if lvl = 0 then decodeLevel0 mk h inp
    else if lvl = 1 then decodeLevel1 mk h inp
    else if lvl = 2 then decodeLevel2 h inp
    else if lvl = 3 then decodeLevel3 h inp
    else .fail
  let h ← postProcess h
  pure (h, inp)

end LhasaV.Header
