import LhasaV.Model.Stream
import LhasaV.Model.Decoders
/-!
Models of `lib/lha_basic_reader.c`, `lib/macbinary.c` and `lib/lha_reader.c`:
the reader state machine (`next_file`, `read`, `check`, `extract`), the
directory stack, deferred symlinks, the MacBinary pass-through, with a ghost
allocation ledger for header objects and decoders (C20).

File-system effects of `extract` are not modelled here: the outcome of the one
file-system call that decides the reader's state (mkdir / fopen / symlink) is
an input of the `extract` operation.
-/
namespace LhasaV.Reader
open LhasaV LhasaV.Header

/-! ### basic reader -/

/-- a header object: value, identity and reference count live in the ledger -/
structure HObj where
  id : Nat
  h : Hdr
deriving Repr

/-- ghost ledger: live header objects (id ↦ refcount) and live decoders -/
structure Ledger where
  hdrs : List (Nat × Nat) := []          -- (id, refcount)
  blocks : List (Nat × Nat) := []        -- (id, heap blocks of that header: struct + strings)
  decoders : Nat := 0
  nextId : Nat := 0
  faults : List String := []      -- use-after-free / double free observed
deriving Repr

namespace Ledger
def alloc (l : Ledger) (nblocks : Nat := 1) : Nat × Ledger :=
  (l.nextId, { l with hdrs := (l.nextId, 1) :: l.hdrs, blocks := (l.nextId, nblocks) :: l.blocks,
                      nextId := l.nextId + 1 })
def addRef (l : Ledger) (id : Nat) : Ledger :=
  if l.hdrs.any (·.1 == id) then { l with hdrs := l.hdrs.map (fun p => if p.1 == id then (p.1, p.2 + 1) else p) }
  else { l with faults := s!"add_ref of freed header {id}" :: l.faults }
def unref (l : Ledger) (id : Nat) : Ledger :=
  match l.hdrs.find? (·.1 == id) with
  | none => { l with faults := s!"free of freed header {id}" :: l.faults }
  | some (_, rc) =>
    if rc ≤ 1 then { l with hdrs := l.hdrs.filter (·.1 != id) }
    else { l with hdrs := l.hdrs.map (fun p => if p.1 == id then (p.1, p.2 - 1) else p) }
def use (l : Ledger) (id : Nat) : Ledger :=
  if l.hdrs.any (·.1 == id) then l else { l with faults := s!"use of freed header {id}" :: l.faults }
/-- heap blocks still allocated: every live header with its strings, every live decoder -/
def live (l : Ledger) : Nat :=
  (l.hdrs.map (fun p => ((l.blocks.find? (·.1 == p.1)).map (·.2)).getD 1)).sum + l.decoders
end Ledger

structure Basic where
  stream : Stream.St
  curr : Option HObj := none
  remaining : Nat := 0          -- curr_file_remaining
  eof : Bool := false
  dataStart : Nat := 0          -- ghost: stream position where the current member's data begins

/-- `lha_basic_reader_next_file`; `consumed` = compressed bytes already taken by a decoder -/
def basicNext (mk : Nat → Nat) (b : Basic) (led : Ledger) : Res (Basic × Ledger) :=
  let (b, led) :=
    match b.curr with
    | some c =>
      let sk := Stream.skip b.stream b.remaining
      ({ b with curr := none, stream := sk.2, eof := b.eof || !sk.1 }, led.unref c.id)
    | none => (b, led)
  if b.eof then .ok (b, led) else
  (Stream.start b.stream) >>= fun st =>
  if st.phase == .fail then .ok ({ b with stream := st, eof := true }, led) else
  match Header.read mk (Stream.rest st) with
  | .fault w => .fault w
  | .fail => .ok ({ b with stream := st, eof := true }, led)
  | .ok (h, rest) =>
    let used := (Stream.rest st).length - rest.length
    let st := Stream.advance st used
    let opt := fun (o : Option Bytes) => if o.isSome then 1 else 0
    let nblocks := 1 + opt h.path + opt h.filename + opt h.symlinkTarget + opt h.unixUsername + opt h.unixGroup
    let (id, led) := led.alloc nblocks
    .ok ({ b with stream := st, curr := some ⟨id, h⟩, remaining := h.compressedLength, dataStart := st.pos }, led)

/-- the member source handed to a decoder: the compressed bytes physically present, plus how
many more the header promises (`lha_basic_reader_read_compressed` fails a request that
crosses the physical end and then reports end of file for ever) -/
def memberSrc (b : Basic) : Src :=
  let avail := b.stream.data.size - b.stream.pos
  let phys := min b.remaining avail
  { data := b.stream.data.extract b.stream.pos (b.stream.pos + phys), extra := b.remaining - phys,
    dead := b.eof }

/-! ### MacBinary pass-through (macbinary.c) -/

def be32 (l : List UInt8) (off : Nat) : Nat :=
  ((l.getD off 0).toNat * 16777216 + (l.getD (off+1) 0).toNat * 65536 + (l.getD (off+2) 0).toNat * 256
   + (l.getD (off+3) 0).toNat)

def allZero (l : List UInt8) : Bool := l.all (· == 0)

/-- `is_macbinary_header(data, header)`, `data` = 128 bytes -/
def isMacBinaryHeader (d : List UInt8) (h : Hdr) : Bool :=
  if d.getD 0 0 ≠ 0 ∨ d.getD 0x4a 0 ≠ 0 ∨ d.getD 0x52 0 ≠ 0 ∨ !allZero ((d.drop 0x63).take 2)
     ∨ !allZero ((d.drop 0x65).take (128 - 0x65)) then false else
  let fl := (d.getD 1 0).toNat
  let name := h.filename.getD []
  if fl > 63 ∨ fl ≠ name.length ∨ (d.drop 2).take fl ≠ name then false else
  if !allZero ((d.drop (2 + fl)).take (63 - fl)) then false else
  let dataFork := be32 d 0x53
  let resFork := be32 d 0x57
  let expected := (dataFork + resFork + 128) % 4294967296
  let rounded := ((expected + 0x7f) % 4294967296) / 128 * 128
  if h.length ≠ rounded then false else
  let modTime := be32 d 0x5f
  if modTime < 2082844800 then false else
  let t := modTime - 2082844800
  let diff := if h.timestamp > t then h.timestamp - t else t - h.timestamp
  decide (diff ≤ 14 * 60 * 60)

/-- state of the pass-through decoder, holding the wrapped (inner) `LHADecoder` -/
structure Mac (σ : Type) where
  pending : List UInt8          -- mb_header[0 .. mb_header_bytes)
  remaining : Nat               -- stream_remaining
  inner : Wrap.St σ

/-- `while (bytes < 128) { n = lha_decoder_read(inner, …, 128 - bytes); if (n == 0) fail; }` -/
def macReadHeader {σ} (rd : σ → List Byte × σ) : Nat → List UInt8 → Wrap.St σ → Option (List UInt8) × Wrap.St σ
  | 0, acc, s => (if acc.length ≥ 128 then some acc else none, s)
  | fuel+1, acc, s =>
    if acc.length ≥ 128 then (some acc, s) else
    let r := Wrap.read rd (128 - acc.length) s
    if r.1.1.isEmpty then (none, r.2) else macReadHeader rd fuel (acc ++ r.1.1) r.2

/-- `macbinary_decoder_init`: `none` = init failed -/
def macInit {σ} (rd : σ → List Byte × σ) (h : Hdr) (inner : Wrap.St σ) : Option (Mac σ) × Wrap.St σ :=
  if h.length ≥ 128 then
    let r := macReadHeader rd 129 [] inner
    match r.1 with
    | none => (none, r.2)
    | some hd =>
      if !isMacBinaryHeader hd h then (some { pending := hd, remaining := h.length, inner := r.2 }, r.2)
      else
        let df := be32 hd 0x53
        (some { pending := [], remaining := if df > 0 then df else be32 hd 0x57, inner := r.2 }, r.2)
  else (some { pending := [], remaining := h.length, inner := inner }, inner)

/-- `decode_to_end`: read the inner decoder dry; at most `length − pos + 1` productive reads -/
def decodeToEnd {σ} (rd : σ → List Byte × σ) : Nat → Wrap.St σ → Wrap.St σ
  | 0, s => s
  | fuel+1, s =>
    let r := Wrap.read rd 128 s
    if r.1.1.isEmpty then r.2 else decodeToEnd rd fuel r.2

/-- `macbinary_decoder_read` -/
def macRead {σ} (rd : σ → List Byte × σ) (m : Mac σ) : List Byte × Mac σ :=
  let res := m.pending
  let toRead := min (4096 - res.length) m.remaining
  let r := Wrap.read rd toRead m.inner
  let rem := m.remaining - r.1.1.length
  let inner := if rem = 0 then decodeToEnd rd (r.2.length - r.2.pos + 2) r.2 else r.2
  (res ++ r.1.1, { pending := [], remaining := rem, inner := inner })

/-! ### reader -/

inductive CurrType where
  | start | normal | fakeDir | deferred | eof
deriving Repr, BEq, DecidableEq

inductive DirPolicy where
  | plain | endOfDir | endOfFile
deriving Repr, BEq, DecidableEq

/-- an open decoder: the inner `LHADecoder` and, for Mac members, the pass-through around it -/
structure Open where
  d : Dec
  plain : Option (Wrap.St (Except String d.σ))                 -- decoder == inner_decoder
  mac : Option (Wrap.St (Mac (Except String d.σ)))            -- decoder = pass-through(inner)
  danglingInner : Option (Wrap.St (Except String d.σ)) := none  -- pass-through init failed: inner only

structure St where
  basic : Basic
  curr : Option HObj := none
  currType : CurrType := .start
  dec : Option Open := none
  policy : DirPolicy := .endOfDir
  dirStack : List HObj := []
  deferred : List HObj := []
  led : Ledger := {}
  mktime : Nat → Nat

def pathLen (o : HObj) : Nat := (o.h.path.getD []).length + (o.h.filename.getD []).length

/-- the inner decoder state of an open decoder (for CRC / length) -/
def Open.innerSt (o : Open) : Option (Wrap.St (Except String o.d.σ)) :=
  match o.plain, o.mac, o.danglingInner with
  | some s, _, _ => some s
  | none, some m, _ => some m.inner.inner
  | none, none, x => x

/-- compressed bytes consumed so far by the open decoder, and whether its source died -/
def Open.consumed (o : Open) : Nat × Bool :=
  match o.innerSt with
  | some s => (match s.inner with
      | .ok st => ((o.d.src st).pos, (o.d.src st).dead)
      | .error _ => (0, false))
  | none => (0, false)

/-- `close_decoder`, and accounting of what the decoder took from the stream -/
def closeDecoder (s : St) : St :=
  match s.dec with
  | none => s
  | some o =>
    let c := o.consumed
    let b := s.basic
    let take := min c.1 b.remaining
    let b := { b with stream := { b.stream with pos := b.stream.pos + take, moved := b.stream.moved + take },
                      remaining := b.remaining - take, eof := b.eof || c.2 }
    { s with dec := none, basic := b, led := { s.led with decoders := 0 } }

/-- `end_of_top_dir` -/
def endOfTopDir (s : St) : Bool :=
  match s.dirStack with
  | [] => false
  | top :: _ =>
    match s.basic.curr with
    | none => true
    | some inp =>
      match s.policy with
      | .plain => true
      | .endOfFile => false
      | .endOfDir =>
        match inp.h.path with
        | none => true
        | some p => let tp := top.h.path.getD []; p.take tp.length != tp

/-- `lha_reader_next_file`; returns the header now current (`error w` = a fault in the
header parser or the lead-in scan) -/
def next (s : St) : Except String (Option HObj × St) :=
  let s := closeDecoder s
  if s.currType == .eof then .ok (none, s) else
  (if s.currType == .start ∨ s.currType == .normal then
     (match basicNext s.mktime s.basic s.led with
      | .ok r => (.ok { s with basic := r.1, led := r.2 } : Except String St)
      | .fail => .error "basicNext returned fail"
      | .fault w => .error w)
   else .ok s) >>= fun s =>
  let s := if s.currType == .fakeDir ∨ s.currType == .deferred then
      match s.curr with
      | some c => { s with led := s.led.unref c.id }
      | none => s
    else s
  let s :=
    if endOfTopDir s then
      match s.dirStack with
      | top :: rest => { s with curr := some top, dirStack := rest, currType := .fakeDir }
      | [] => s
    else { s with curr := s.basic.curr, currType := .normal }
  let s :=
    match s.curr with
    | some _ => s
    | none =>
      match s.deferred with
      | d :: rest => { s with curr := some d, currType := .deferred, deferred := rest }
      | [] => { s with currType := .eof }
  .ok (s.curr, s)

def methodName (h : Hdr) : String := String.ofList (h.method.map (fun b => Char.ofNat b.toNat))

/-- `open_decoder` (without progress callback): `false` = failure -/
def openDecoder (s : St) : Bool × St :=
  if s.currType != .normal then (false, s) else
  match s.curr with
  | none => (false, s)
  | some c =>
    match decoderFor (methodName c.h), decoderInfo (methodName c.h) with
    | some d, some info =>
      let inner : Wrap.St (Except String d.σ) :=
        { inner := .ok (d.init (memberSrc s.basic)), length := c.h.length, blockSize := info.2.2 }
      let led := { s.led with decoders := s.led.decoders + 1 }
      if c.h.osType = 0x6d then
        let m := macInit d.total c.h inner
        match m.1 with
        | none =>
          -- pass-through setup failed: the inner decoder is freed again, but what it consumed stays consumed
          let s' := closeDecoder { s with dec := some { d := d, plain := none, mac := none, danglingInner := some m.2 } }
          (false, s')
        | some mac =>
          let outer : Wrap.St (Mac (Except String d.σ)) := { inner := mac, length := c.h.length, blockSize := 0 }
          (true, { s with dec := some { d := d, plain := none, mac := some outer },
                          led := { led with decoders := led.decoders + 1 } })
      else (true, { s with dec := some { d := d, plain := some inner, mac := none }, led := led })
    | _, _ => (false, s)

/-- `lha_reader_read(reader, buf, k)` -/
def read (s : St) (k : Nat) : List UInt8 × St :=
  let (ok, s) := match s.dec with
    | some o => (o.plain.isSome || o.mac.isSome, s)
    | none => openDecoder s
  if !ok then ([], s) else
  match s.dec with
  | none => ([], s)
  | some o =>
    match o.plain, o.mac with
    | some st, _ =>
      let r := Wrap.read o.d.total k st
      (r.1.1, { s with dec := some { o with plain := some r.2 } })
    | none, some m =>
      let r := Wrap.read (macRead o.d.total) k m
      (r.1.1, { s with dec := some { o with mac := some r.2 } })
    | none, none => ([], s)

/-- the read loop of `do_decode` (64-byte reads until an empty one). `fuel`: every
productive read advances the outer decoder towards its declared length. -/
def decodeLoop : Nat → St → List UInt8 → List UInt8 × St
  | 0, s, acc => (acc, s)
  | fuel+1, s, acc =>
    let r := read s 64
    if r.1.isEmpty then (acc, r.2) else decodeLoop fuel r.2 (acc ++ r.1)

/-- verdict of `do_decode`: inner length and CRC against the header -/
def verdict (s : St) : Bool :=
  match s.dec, s.curr with
  | some o, some c =>
    (match o.innerSt with
     | some st => st.pos == c.h.length && st.crc.toNat == c.h.crc
     | none => false)
  | _, _ => false

/-- `lha_reader_check` (no callback): result and the bytes that were decoded -/
def check (s : St) : (Bool × List UInt8) × St :=
  if s.currType != .normal then ((false, []), s) else
  match s.curr with
  | none => ((false, []), s)
  | some c =>
    if c.h.method == "-lhd-".toUTF8.toList then ((true, []), s) else
    let (ok, s) := openDecoder s
    if !ok then ((false, []), s) else
    let r := decodeLoop (c.h.length + 2) s []
    ((verdict r.2, r.1), r.2)

/-- `is_dangerous_symlink` -/
def isDangerous (h : Hdr) : Bool :=
  match h.symlinkTarget with
  | none => false
  | some t =>
    t.head? == some 0x2f ||
    ((t.splitOn 0x2f).any (fun comp => comp == [0x2e, 0x2e]))
 where
  splitOnAux (sep : UInt8) : List UInt8 → List UInt8 → List (List UInt8)
    | [], cur => [cur.reverse]
    | b :: bs, cur => if b == sep then cur.reverse :: splitOnAux sep bs [] else splitOnAux sep bs (b :: cur)

/-- `lha_reader_extract`; `fsOk` = outcome of the deciding file-system call
(mkdir / fopen of the output or placeholder file / symlink); returns the result
and, for files, the bytes written -/
def extract (s : St) (fsOk : Bool) : (Bool × List UInt8) × St :=
  match s.currType, s.curr with
  | .normal, some c =>
    if c.h.method != "-lhd-".toUTF8.toList then
      -- extract_file
      let (ok, s) := openDecoder s
      if !ok then ((false, []), s) else
      if !fsOk then ((false, []), s) else
      let r := decodeLoop (c.h.length + 2) s []
      ((verdict r.2, r.1), r.2)
    else if c.h.symlinkTarget.isSome then
      if isDangerous c.h then
        -- extract_placeholder_symlink
        if !fsOk then ((false, []), s) else
        let before := s.deferred.takeWhile (fun r => pathLen r > pathLen c)
        let after := s.deferred.dropWhile (fun r => pathLen r > pathLen c)
        ((true, []), { s with deferred := before ++ [c] ++ after, led := s.led.addRef c.id })
      else ((fsOk, []), s)
    else
      -- extract_directory: a failed mkdir still succeeds if the directory exists (folded into fsOk = false → false)
      if !fsOk then ((false, []), s) else
      if s.policy == .plain then ((true, []), s)
      else ((true, []), { s with dirStack := c :: s.dirStack, led := s.led.addRef c.id })
  | .fakeDir, some _ => ((true, []), s)
  | .deferred, some _ => ((fsOk, []), s)
  | _, _ => ((false, []), s)

/-- `lha_reader_free` followed by `lha_input_stream_free`: what is still allocated -/
def free (s : St) : Ledger :=
  let s := closeDecoder s
  let led := if s.currType == .fakeDir ∨ s.currType == .deferred then
      (match s.curr with | some c => s.led.unref c.id | none => s.led) else s.led
  let led := s.dirStack.foldl (fun l o => l.unref o.id) led
  let led := s.deferred.foldl (fun l o => l.unref o.id) led
  let led := match s.basic.curr with | some c => led.unref c.id | none => led
  led

end LhasaV.Reader
