import LhasaV.Model.Basic
/-!
Model of `collapse_path` (lib/lha_file_header.c), written with the C's own
index tests: `out` is `filename[0 .. w)`, `cur` is `currpath - filename`.
-/
namespace LhasaV.PathFix

def slash : Byte := 0x2f
def dot : Byte := 0x2e

abbrev at' (l : Bytes) (i : Nat) : Byte := l.getD i 0

/-- `w = currpath - 1; while (w > filename) { if (*(w-1) == '/') break; --w; }` -/
def backTo (out : Bytes) : Nat → Nat
  | 0 => 0
  | w+1 => if at' out w = slash then w+1 else backTo out w

structure St where
  out : Bytes      -- filename[0 .. w)
  cur : Nat        -- currpath - filename
deriving Repr

/-- one iteration of the `for (r = filename; *r != '\0'; ++r)` loop -/
def step (s : St) (ch : Byte) : St :=
  let out' := s.out ++ [ch]                       -- *w++ = *r
  if ch = slash then
    let len := out'.length - s.cur - 1            -- currpath_len = w - currpath - 1
    if len = 0 ∨ (len = 1 ∧ at' out' s.cur = dot) then
      { out := out'.take s.cur, cur := s.cur }    -- w = currpath
    else if len = 2 ∧ at' out' s.cur = dot ∧ at' out' (s.cur + 1) = dot then
      if s.cur = 0 then { out := [], cur := 0 }   -- w = filename
      else { out := out'.take (backTo out' (s.cur - 1)), cur := backTo out' (s.cur - 1) }
    else { out := out', cur := out'.length }      -- currpath = w
  else { out := out', cur := s.cur }

def collapseRel (s : Bytes) : Bytes := (s.foldl step ⟨[], 0⟩).out

/-- `collapse_path`: an initial '/' is kept and skipped. The argument is a C
string (no NUL inside). -/
def collapse : Bytes → Bytes
  | [] => []
  | c :: rest => if c = slash then c :: collapseRel rest else collapseRel (c :: rest)

end LhasaV.PathFix
