import LhasaV.Model.Tree
import LhasaV.Model.Ring
import LhasaV.Gen.Decoders
/-!
Model of `lib/lh_new_decoder.c` (the template behind -lh4-, -lh5-, -lh6-,
-lh7-, -lhx- and, with `LHARK`, -lk7-).  All parameters come from `Gen`.
-/
namespace LhasaV.LhNew

structure Params where
  historyBits : Nat
  offsetBits : Nat
  numCodes : Nat
  copyThreshold : Nat
  ringSize : Nat
  tempCodeBits : Nat
  maxTempCodes : Nat
  maxOffsetCodes : Nat
  ringCap : Nat
  tempTreeCap : Nat
  codeTreeCap : Nat
  offsetTreeCap : Nat
  leafBit : Nat
  lhark : Bool
deriving Repr

open Gen in
def lh5 : Params := ⟨lh5HistoryBits, lh5OffsetBits, lh5NumCodes, lh5CopyThreshold, lh5RingSize, lh5TempCodeBits,
  lh5MaxTempCodes, lh5MaxOffsetCodes, lh5RingCap, lh5TempTreeCap, lh5CodeTreeCap, lh5OffsetTreeCap, lh5LeafBit, lh5Lhark != 0⟩
open Gen in
def lh6 : Params := ⟨lh6HistoryBits, lh6OffsetBits, lh6NumCodes, lh6CopyThreshold, lh6RingSize, lh6TempCodeBits,
  lh6MaxTempCodes, lh6MaxOffsetCodes, lh6RingCap, lh6TempTreeCap, lh6CodeTreeCap, lh6OffsetTreeCap, lh6LeafBit, lh6Lhark != 0⟩
open Gen in
def lh7 : Params := ⟨lh7HistoryBits, lh7OffsetBits, lh7NumCodes, lh7CopyThreshold, lh7RingSize, lh7TempCodeBits,
  lh7MaxTempCodes, lh7MaxOffsetCodes, lh7RingCap, lh7TempTreeCap, lh7CodeTreeCap, lh7OffsetTreeCap, lh7LeafBit, lh7Lhark != 0⟩
open Gen in
def lhx : Params := ⟨lhxHistoryBits, lhxOffsetBits, lhxNumCodes, lhxCopyThreshold, lhxRingSize, lhxTempCodeBits,
  lhxMaxTempCodes, lhxMaxOffsetCodes, lhxRingCap, lhxTempTreeCap, lhxCodeTreeCap, lhxOffsetTreeCap, lhxLeafBit, lhxLhark != 0⟩
open Gen in
def lk7 : Params := ⟨lk7HistoryBits, lk7OffsetBits, lk7NumCodes, lk7CopyThreshold, lk7RingSize, lk7TempCodeBits,
  lk7MaxTempCodes, lk7MaxOffsetCodes, lk7RingCap, lk7TempTreeCap, lk7CodeTreeCap, lk7OffsetTreeCap, lk7LeafBit, lk7Lhark != 0⟩

structure St where
  bits : Bits
  ring : Array UInt8
  pos : Nat
  blockRemaining : Nat
  tempTree : Array Nat
  codeTree : Array Nat
  offsetTree : Array Nat

def init (p : Params) (src : Src) : St :=
  { bits := { src := src }, ring := Array.replicate p.ringCap 0x20, pos := 0, blockRemaining := 0,
    tempTree := Tree.initTree p.leafBit p.tempTreeCap,
    codeTree := Tree.initTree p.leafBit p.codeTreeCap,
    offsetTree := Tree.initTree p.leafBit p.offsetTreeCap }

/-- bits still obtainable from a reader: bounds every "read until a 0 bit" loop -/
def bitsLeft (r : Bits) : Nat := r.bits + 8 * r.src.remaining

/-- the `for (;;)` of `read_length_value`: count 1-bits up to the first 0 -/
def unaryLoop : Nat → Nat → Bits → Option Nat × Bits
  | 0, _, r => (none, r)
  | fuel+1, len, r =>
    let p := r.readBit
    match p.1 with
    | none => (none, p.2)
    | some 0 => (some len, p.2)
    | some _ => unaryLoop fuel (len + 1) p.2

/-- `read_length_value` -/
def readLengthValue (r : Bits) : Option Nat × Bits :=
  let p := r.readBits 3
  match p.1 with
  | none => (none, p.2)
  | some 7 => unaryLoop (bitsLeft p.2 + 1) 7 p.2
  | some len => (some len, p.2)

/-- checked store into a local `uint8_t code_lengths[cap]` (value truncated to a byte) -/
def storeLen (site : String) (cap : Nat) (lens : Array Nat) (i v : Nat) : Res (Array Nat) :=
  if i < cap then .ok (lens.setIfInBounds i (v % 256)) else .fault site

/-- `for (j = 0; j < len; ++j) { ++i; code_lengths[i] = 0; }` (leaves `i` advanced by `k`) -/
def zeroRun (cap : Nat) : Nat → Nat → Array Nat → Res (Array Nat)
  | 0, _, lens => .ok lens
  | k+1, i, lens =>
    (storeLen "read_temp_table: code_lengths[++i] = 0" cap lens (i + 1) 0) >>= fun lens' =>
    zeroRun cap k (i + 1) lens'

/-- the `for (i = 0; i < n; ++i)` loop of `read_temp_table` -/
def tempLoop (cap n : Nat) (i : Nat) (lens : Array Nat) (r : Bits) : Res (Option (Array Nat) × Bits) :=
  if h : i < n then
    let p := readLengthValue r
    match p.1 with
    | none => .ok (none, p.2)
    | some len =>
      (storeLen "read_temp_table: code_lengths[i]" cap lens i len) >>= fun lens1 =>
      if i = 2 then
        let q := p.2.readBits 2
        match q.1 with
        | none => .ok (none, q.2)
        | some k =>
          (zeroRun cap k i lens1) >>= fun lens2 =>
          tempLoop cap n (i + k + 1) lens2 q.2
      else tempLoop cap n (i + 1) lens1 p.2
  else .ok (some lens, r)
termination_by n - i
decreasing_by all_goals omega

/-- `read_temp_table`; `ok none` = the C returned 0 -/
def readTempTable (p : Params) (s : St) : Res (Bool × St) :=
  let a := s.bits.readBits p.tempCodeBits
  match a.1 with
  | none => .ok (false, { s with bits := a.2 })
  | some 0 =>
    let c := a.2.readBits 5
    match c.1 with
    | none => .ok (false, { s with bits := c.2 })
    | some code => .ok (true, { s with bits := c.2, tempTree := Tree.setSingle p.leafBit s.tempTree code })
  | some n0 =>
    let n := min n0 p.maxTempCodes
    (tempLoop p.maxTempCodes n 0 (Array.replicate p.maxTempCodes 0) a.2) >>= fun t =>
    match t.1 with
    | none => .ok (false, { s with bits := t.2 })
    | some lens =>
      let b := Tree.buildTree p.leafBit s.tempTree (p.maxTempCodes * 2) (lens.toList.take n)
      if b.2 then .fault "build_tree(temp_tree): write outside the table"
      else .ok (true, { s with bits := t.2, tempTree := b.1 })

/-- `read_skip_count` -/
def readSkipCount (r : Bits) (skiprange : Nat) : Option Nat × Bits :=
  if skiprange = 0 then (some 1, r)
  else if skiprange = 1 then
    let p := r.readBits 4
    (p.1.map (· + 3), p.2)
  else
    let p := r.readBits 9
    (p.1.map (· + 20), p.2)

/-- `for (j = 0; j < skip_count && i < n; ++j) { code_lengths[i] = 0; ++i; }` -/
def skipRun (cap n : Nat) : Nat → Nat → Array Nat → Res (Nat × Array Nat)
  | 0, i, lens => .ok (i, lens)
  | k+1, i, lens =>
    if i < n then
      (storeLen "read_code_table: code_lengths[i] = 0" cap lens i 0) >>= fun lens' =>
      skipRun cap n k (i + 1) lens'
    else .ok (i, lens)

theorem skipRun_ge (cap n k i : Nat) (lens : Array Nat) (r : Nat × Array Nat)
    (h : skipRun cap n k i lens = .ok r) : i ≤ r.1 := by
  induction k generalizing i lens with
  | zero => simp [skipRun] at h; subst h; exact Nat.le_refl _
  | succ k ih =>
    unfold skipRun at h
    split at h
    · unfold storeLen at h
      split at h
      · simp only [Res.ok_bind] at h
        have := ih _ _ h; omega
      · simp at h
    · simp at h; subst h; exact Nat.le_refl _

/-- the `while (i < n)` loop of `read_code_table`. Every iteration consumes at
least one input bit or advances `i`; `fuel` = bits available + n bounds it. -/
def codeLoop (p : Params) (n : Nat) : Nat → Nat → Array Nat → Array Nat → Bits →
    Res (Option (Array Nat) × Bits)
  | 0, _, _, _, r => .ok (none, r)
  | fuel+1, i, lens, tempTree, r =>
    if i < n then
      (Tree.readFromTree p.leafBit tempTree r) >>= fun t =>
      match t.1 with
      | none => .ok (none, t.2)
      | some code =>
        if code ≤ 2 then
          let sk := readSkipCount t.2 code
          match sk.1 with
          | none => .ok (none, sk.2)
          | some cnt =>
            (skipRun p.numCodes n cnt i lens) >>= fun z =>
            codeLoop p n fuel z.1 z.2 tempTree sk.2
        else
          (storeLen "read_code_table: code_lengths[i]" p.numCodes lens i (code - 2)) >>= fun lens' =>
          codeLoop p n fuel (i + 1) lens' tempTree t.2
    else .ok (some lens, r)

/-- `read_code_table` -/
def readCodeTable (p : Params) (s : St) : Res (Bool × St) :=
  let a := s.bits.readBits 9
  match a.1 with
  | none => .ok (false, { s with bits := a.2 })
  | some 0 =>
    let c := a.2.readBits 9
    match c.1 with
    | none => .ok (false, { s with bits := c.2 })
    | some code => .ok (true, { s with bits := c.2, codeTree := Tree.setSingle p.leafBit s.codeTree code })
  | some n0 =>
    let n := min n0 p.numCodes
    -- a skip of zero entries (cnt = 0 cannot happen: counts are ≥ 1) always advances i,
    -- every other iteration stores one entry: at most n iterations
    (codeLoop p n (n + 1) 0 (Array.replicate p.numCodes 0) s.tempTree a.2) >>= fun t =>
    match t.1 with
    | none => .ok (false, { s with bits := t.2 })
    | some lens =>
      let b := Tree.buildTree p.leafBit s.codeTree (p.numCodes * 2) (lens.toList.take n)
      if b.2 then .fault "build_tree(code_tree): write outside the table"
      else .ok (true, { s with bits := t.2, codeTree := b.1 })

/-- the `for (i = 0; i < n; ++i)` loop of `read_offset_table` -/
def offLoop (cap : Nat) : Nat → Nat → Array Nat → Bits → Res (Option (Array Nat) × Bits)
  | 0, _, lens, r => .ok (some lens, r)
  | k+1, i, lens, r =>
    let p := readLengthValue r
    match p.1 with
    | none => .ok (none, p.2)
    | some len =>
      (storeLen "read_offset_table: code_lengths[i]" cap lens i len) >>= fun lens' =>
      offLoop cap k (i + 1) lens' p.2

/-- `read_offset_table` -/
def readOffsetTable (p : Params) (s : St) : Res (Bool × St) :=
  let a := s.bits.readBits p.offsetBits
  match a.1 with
  | none => .ok (false, { s with bits := a.2 })
  | some 0 =>
    let c := a.2.readBits p.offsetBits
    match c.1 with
    | none => .ok (false, { s with bits := c.2 })
    | some code => .ok (true, { s with bits := c.2, offsetTree := Tree.setSingle p.leafBit s.offsetTree code })
  | some n0 =>
    let n := min n0 p.maxOffsetCodes
    (offLoop p.maxOffsetCodes n 0 (Array.replicate p.maxOffsetCodes 0) a.2) >>= fun t =>
    match t.1 with
    | none => .ok (false, { s with bits := t.2 })
    | some lens =>
      let b := Tree.buildTree p.leafBit s.offsetTree (p.maxOffsetCodes * 2) (lens.toList.take n)
      if b.2 then .fault "build_tree(offset_tree): write outside the table"
      else .ok (true, { s with bits := t.2, offsetTree := b.1 })

/-- `start_new_block` -/
def startNewBlock (p : Params) (s : St) : Res (Bool × St) :=
  let a := s.bits.readBits 16
  match a.1 with
  | none => .ok (false, { s with bits := a.2 })
  | some len =>
    (readTempTable p { s with bits := a.2, blockRemaining := len }) >>= fun t =>
    if !t.1 then .ok t else
    (readCodeTable p t.2) >>= fun c =>
    if !c.1 then .ok c else
    readOffsetTable p c.2

/-- `while (block_remaining == 0) { if (!start_new_block) return 0; }` – each
round consumes at least 16 bits, `fuel` = bits available / 16 + 1 -/
def blockLoop (p : Params) : Nat → St → Res (Bool × St)
  | 0, s => .ok (false, s)
  | fuel+1, s =>
    if s.blockRemaining = 0 then
      (startNewBlock p s) >>= fun b =>
      if !b.1 then .ok b else blockLoop p fuel b.2
    else .ok (true, s)

/-- 32-bit two's-complement view of a C `int` computation -/
def toInt32 (v : Nat) : Int :=
  let w := v % 4294967296
  if w < 2147483648 then (w : Int) else (w : Int) - 4294967296

/-- `read_offset_code` (with `lhark_read_offset_code` when LHARK): `none` = −1.
The result is a C `int`; it can be negative only through LHARK's shift. -/
def readOffsetCode (p : Params) (s : St) : Res (Option Int × Bits) :=
  (Tree.readFromTree p.leafBit s.offsetTree s.bits) >>= fun t =>
  match t.1 with
  | none => .ok (none, t.2)
  | some bits =>
    if bits = 0 then .ok (some 0, t.2)
    else if bits = 1 then .ok (some 1, t.2)
    else if p.lhark then
      if bits < 4 then .ok (some (bits : Int), t.2)
      else
        let nlow := (bits - 2) / 2
        let q := t.2.readBits nlow
        match q.1 with
        | none => .ok (none, q.2)
        | some low => .ok (some (toInt32 ((2 + bits % 2) * 2 ^ nlow + low)), q.2)
    else
      let q := t.2.readBits (bits - 1)
      match q.1 with
      | none => .ok (none, q.2)
      | some v => .ok (some (toInt32 (v + 2 ^ (bits - 1))), q.2)

/-- `lhark_decode_copy_count` -/
def lharkCopyCount (p : Params) (r : Bits) (code : Nat) : Option Nat × Bits :=
  if code < 264 then (some (code - 256 + p.copyThreshold), r)
  else if code < 288 then
    let nlow := (code - 260) / 4
    let q := r.readBits nlow
    (q.1.map (fun low => (4 + code % 4) * 2 ^ nlow + low + 3), q.2)
  else (some 514, r)

/-- `lha_lh_new_read` -/
def read (p : Params) (s : St) : Res (List UInt8 × St) :=
  (blockLoop p (LhNew.bitsLeft s.bits / 16 + 2) s) >>= fun b =>
  if !b.1 then .ok ([], b.2) else
  let s := { b.2 with blockRemaining := b.2.blockRemaining - 1 }
  (Tree.readFromTree p.leafBit s.codeTree s.bits) >>= fun t =>
  match t.1 with
  | none => .ok ([], { s with bits := t.2 })
  | some code =>
    if code < 256 then
      if s.pos < s.ring.size then
        .ok ([UInt8.ofNat code],
             { s with bits := t.2, ring := s.ring.setIfInBounds s.pos (UInt8.ofNat code),
                      pos := (s.pos + 1) % p.ringSize })
      else .fault "lh_new: ringbuf[ringbuf_pos] write"
    else
      let cc : Option Nat × Bits :=
        if p.lhark then lharkCopyCount p t.2 code else (some (code - 256 + p.copyThreshold), t.2)
      match cc.1 with
      | none => .ok ([], { s with bits := cc.2 })
      | some count =>
        (readOffsetCode p { s with bits := cc.2 }) >>= fun o =>
        match o.1 with
        | none => .ok ([], { s with bits := o.2 })
        | some off =>
          if off < 0 then .ok ([], { s with bits := o.2 })
          else
            -- start = ringbuf_pos + RING_BUFFER_SIZE - offset - 1 (unsigned, reduced mod the ring)
            let start := (s.pos + p.ringSize + 4294967296 - off.toNat - 1) % p.ringSize
            (Ring.copyLoop p.ringSize count start s.ring s.pos []) >>= fun r =>
            .ok (r.2.2.reverse, { s with bits := o.2, ring := r.1, pos := r.2.1 })

def dec (p : Params) : Dec := { σ := St, init := init p, read := read p, src := fun s => s.bits.src }

end LhasaV.LhNew
