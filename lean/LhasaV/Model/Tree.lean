import LhasaV.Model.Bits
/-!
Model of `lib/tree_decode.c`, generic in the element width.

A tree is an `Array Nat` of raw `TreeElement` values; `lb` is `TREE_NODE_LEAF`
(`2^(W-1)`: 0x8000 for the 16-bit trees of lh_new, 0x80 for the 8-bit trees of
pm2).  An entry `e ≥ lb` is a leaf with value `e - lb`; an entry `e < lb` is the
index of a pair of children.

Writes of the builder are bounds-checked against the REAL array size (capacity
from `Gen`), not against the `tree_len` argument: the ghost flag `oob` records
any write outside the array.
-/
namespace LhasaV.Tree

/-- `(TreeElement) i | TREE_NODE_LEAF` -/
def mkLeaf (lb i : Nat) : Nat :=
  let t := i % (2 * lb)
  if t ≥ lb then t else t + lb

/-- `init_tree` -/
def initTree (lb len : Nat) : Array Nat := Array.replicate len lb

/-- `set_tree_single(tree, code)`; `code` may be −1 (pm2: `num_codes − 1`) -/
def setSingle (lb : Nat) (t : Array Nat) (code : Int) : Array Nat :=
  t.setIfInBounds 0 (mkLeaf lb (code % (2 * lb : Nat)).toNat)

structure Build where
  tree : Array Nat
  treeLen : Nat        -- the `tree_len` argument
  alloc : Nat          -- tree_allocated
  next : Nat           -- next_entry
  oob : Bool := false  -- ghost: some write fell outside `tree`
deriving Repr

def Build.write (b : Build) (i v : Nat) : Build :=
  { b with tree := b.tree.setIfInBounds i v, oob := b.oob || decide (b.tree.size ≤ i) }

/-- body of `expand_queue`'s while loop, `k` entries still to do -/
def expandLoop (lb : Nat) : Nat → Build → Build
  | 0, b => b
  | k+1, b =>
    let b' := b.write b.next (b.alloc % (2 * lb))
    expandLoop lb k { b' with alloc := b.alloc + 2, next := b.next + 1 }

/-- `expand_queue` -/
def expandQueue (lb : Nat) (b : Build) : Build :=
  if b.alloc + (b.alloc - b.next) * 2 > b.treeLen then b
  else expandLoop lb (b.alloc - b.next) b

/-- `read_next_entry` -/
def readNext (b : Build) : Nat × Build :=
  if b.next ≥ b.alloc then (0, b) else (b.next, { b with next := b.next + 1 })

/-- `add_codes_with_length`: loop over the code lengths from index `i` -/
def addCodes (lb codeLen : Nat) : List Nat → Nat → Build → Bool → Build × Bool
  | [], _, b, rem => (b, rem)
  | l :: ls, i, b, rem =>
    if l = codeLen then
      let r := readNext b
      addCodes lb codeLen ls (i+1) (r.2.write r.1 (mkLeaf lb i)) rem
    else if l > codeLen then addCodes lb codeLen ls (i+1) b true
    else addCodes lb codeLen ls (i+1) b rem

/-- the do/while of `build_tree`; code lengths are bytes, so at most 255 rounds
find remaining work: `fuel = 256` is never exhausted. -/
def buildLoop (lb : Nat) (lens : List Nat) : Nat → Nat → Build → Build
  | 0, _, b => b
  | fuel+1, codeLen, b =>
    let r := addCodes lb (codeLen + 1) lens 0 (expandQueue lb b) false
    if r.2 then buildLoop lb lens fuel (codeLen + 1) r.1 else r.1

/-- `build_tree(tree, tree_len, code_lengths, n)`; returns the tree and the ghost flag -/
def buildTree (lb : Nat) (tree : Array Nat) (treeLen : Nat) (lens : List Nat) : Array Nat × Bool :=
  let b := buildLoop lb lens 256 0 { tree := tree, treeLen := treeLen, alloc := 1, next := 0 }
  (b.tree, b.oob)

/-- `read_from_tree`: walk from the root. `ok none` = ran out of input (−1).
Every step consumes one input bit, so the number of bits still available
(`fuel`, computed by `readFromTree`) bounds the walk whatever the table holds. -/
def walkFrom (lb : Nat) (t : Array Nat) : Nat → Nat → Bits → Res (Option Nat × Bits)
  | 0, _, r => .ok (none, r)
  | fuel+1, code, r =>
    if code ≥ lb then .ok (some (code - lb), r)
    else
      let p := r.readBit
      match p.1 with
      | none => .ok (none, p.2)
      | some bit =>
        match t[code + bit]? with
        | none => .fault "read_from_tree: tree[code + bit]"
        | some c => walkFrom lb t fuel c p.2

def readFromTree (lb : Nat) (t : Array Nat) (r : Bits) : Res (Option Nat × Bits) :=
  match t[0]? with
  | none => .fault "read_from_tree: tree[0]"
  | some c => walkFrom lb t (r.bits + 8 * r.src.remaining + 1) c r

end LhasaV.Tree
