/-!
Common vocabulary of the models.

`Res α` is the result of a modelled C function:
* `ok a`     – the function returned normally with `a`
* `fail`     – the function's own error return (NULL / 0 / -1)
* `fault w`  – the C would have performed undefined behaviour at site `w`
               (index outside an array, use of a freed object, …)

Every C array access in a model is a *checked* access, so "no memory error for
every input" is the ordinary theorem "`fault` is unreachable".
-/
namespace LhasaV

inductive Res (α : Type) where
  | ok (a : α)
  | fail
  | fault (what : String)
deriving Repr, BEq, DecidableEq

namespace Res

@[inline] def bind {α β : Type} (x : Res α) (f : α → Res β) : Res β :=
  match x with
  | ok a => f a
  | fail => fail
  | fault w => fault w

instance : Monad Res where
  pure := ok
  bind := bind

@[simp] theorem pure_eq {α} (a : α) : (pure a : Res α) = ok a := rfl
@[simp] theorem ok_bind {α β} (a : α) (f : α → Res β) : (ok a >>= f) = f a := rfl
@[simp] theorem fail_bind {α β} (f : α → Res β) : ((fail : Res α) >>= f) = fail := rfl
@[simp] theorem fault_bind {α β} (w) (f : α → Res β) : ((fault w : Res α) >>= f) = fault w := rfl

def isFault {α} : Res α → Bool
  | fault _ => true
  | _ => false

def NoFault {α} (r : Res α) : Prop := ∀ w, r ≠ fault w

theorem noFault_ok {α} (a : α) : NoFault (ok a) := by intro w h; cases h
theorem noFault_fail {α} : NoFault (fail : Res α) := by intro w h; cases h

theorem noFault_bind {α β} {x : Res α} {f : α → Res β}
    (hx : NoFault x) (hf : ∀ a, x = ok a → NoFault (f a)) : NoFault (x >>= f) := by
  cases x with
  | ok a => exact hf a rfl
  | fail => exact noFault_fail
  | fault w => exact absurd rfl (hx w)

/-- guard: the C `if (!cond) return 0;` -/
@[inline] def require (c : Bool) : Res Unit := if c then ok () else fail

end Res

abbrev Byte := UInt8
abbrev Bytes := List UInt8

/-- checked list read: `buf[i]`, a fault if `i` is outside the buffer. -/
@[inline] def rd (site : String) (l : Bytes) (i : Nat) : Res Byte :=
  match l[i]? with
  | some b => .ok b
  | none => .fault site

/-- C string view of a buffer: bytes up to (excluding) the first NUL. -/
def cstr (l : Bytes) : Bytes := l.takeWhile (· ≠ 0)

end LhasaV
