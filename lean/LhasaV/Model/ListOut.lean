import LhasaV.Model.Header
/-!
Model of `src/list.c` and `src/safe.c`: the bytes that `lha l`, `lha lv`, `lha v`
and `lha vv` write to stdout for a given sequence of member headers.

* the process runs with `TZ=UTC`, so `localtime` is `gmtime`;
* `now` is what `get_now_time()` returns (`TEST_NOW_TIME`, an `unsigned int`);
* `archiveMtime` is `st_mtime` of the archive, cast to `unsigned int` by
  `read_file_timestamp`;
* `float` arithmetic is IEEE binary32, round-to-nearest-even after every operation,
  done here on exact integers/rationals; `%5.1f` is glibc's correctly rounded
  (half-even on the exact binary value) conversion;
* C strings are byte lists without NUL.
-/
namespace LhasaV.ListOut
open LhasaV LhasaV.Header

/-! ### printf building blocks -/

def str (s : String) : Bytes := s.toUTF8.toList
def blanks (n : Nat) : Bytes := List.replicate n 0x20
/-- `%Ns` / `%Nd`: right-justify in a field of `w` (never truncates) -/
def padLeft (w : Nat) (b : Bytes) : Bytes := blanks (w - b.length) ++ b
/-- `%-Ns` -/
def padRight (w : Nat) (b : Bytes) : Bytes := b ++ blanks (w - b.length)
/-- `%0Nd` of a non-negative number -/
def padZero (w : Nat) (b : Bytes) : Bytes := List.replicate (w - b.length) 0x30 ++ b

def digitsOf (base n : Nat) : Bytes := (Nat.toDigits base n).map (fun c => UInt8.ofNat c.toNat)
/-- `%d` / `%i` / `%u` / `%lu` of a non-negative value -/
def dec (n : Nat) : Bytes := digitsOf 10 n
/-- `%x` (lower case) -/
def hex (n : Nat) : Bytes := digitsOf 16 n

def two32 : Nat := 4294967296

/-! ### `os_type_to_string` -/

def osTypeToString (os : Nat) : String :=
  if os = 0x4d then "[MS-DOS]"          -- 'M'
  else if os = 0x77 then "[Win9x]"      -- 'w'
  else if os = 0x57 then "[WinNT]"      -- 'W'
  else if os = 0x55 then "[Unix]"       -- 'U'
  else if os = 0x32 then "[OS/2]"       -- '2'
  else if os = 0x43 then "[CP/M]"       -- 'C'
  else if os = 0x6d then "[Mac OS]"     -- 'm'
  else if os = 0x4a then "[Java]"       -- 'J'
  else if os = 0x46 then "[FLEX]"       -- 'F'
  else if os = 0x52 then "[Runser]"     -- 'R'
  else if os = 0x54 then "[TownsOS]"    -- 'T'
  else if os = 0x39 then "[OS-9]"       -- '9'
  else if os = 0x4b then "[OS-9/68K]"   -- 'K'
  else if os = 0x33 then "[OS-386]"     -- '3'
  else if os = 0x48 then "[Human68K]"   -- 'H'
  else if os = 0x61 then "[Atari]"      -- 'a'
  else if os = 0x41 then "[Amiga]"      -- 'A'
  else if os = 0x20 then "[LHARK]"      -- ' '
  else if os = 0x00 then "[generic]"
  else "[unknown]"

/-! ### permissions column -/

/-- `strcmp(header->compress_method, "-lhd-") == 0` (`compress_method[5]` is NUL) -/
def isDirMethod (h : Hdr) : Bool := cstr h.method == str "-lhd-"

def testBit (v k : Nat) : Bool := (v / 2 ^ k) % 2 == 1

/-- `for (i = 0; i < n; ++i) putchar(v & (1U << (n-1-i)) ? perms[i] : '-')` -/
def permBits (letters : Bytes) (v : Nat) : Bytes :=
  let n := letters.length
  (List.range n).map (fun i => if testBit v (n - 1 - i) then letters.getD i 0x2d else 0x2d)

/-- `unix_permissions_print` -/
def unixPermissions (h : Hdr) : Bytes :=
  let t : UInt8 :=
    if !isDirMethod h then 0x2d                       -- '-'
    else if h.symlinkTarget.isSome then 0x6c          -- 'l'
    else 0x64                                         -- 'd'
  t :: permBits (str "rwxrwxrwx") h.unixPerms

/-- `os9_permissions_print` -/
def os9Permissions (h : Hdr) : Bytes :=
  let t : UInt8 := if !isDirMethod h then 0x2d else 0x64
  t :: permBits (str "sewrewr") h.os9Perms ++ str "  "

/-- `permission_column_print` -/
def permissionColumn (h : Hdr) : Bytes :=
  if hasFlag h Gen.flagOs9Perms then os9Permissions h
  else if hasFlag h Gen.flagUnixPerms then unixPermissions h
  else padRight 10 (str (osTypeToString h.osType))

/-! ### uid/gid column -/

/-- `unix_uid_gid_column_print`: `"%5i/%-5i"` (both values are below 2^31) -/
def uidGidColumn (h : Hdr) : Bytes :=
  if hasFlag h Gen.flagUnixUidGid then
    padLeft 5 (dec h.unixUid) ++ str "/" ++ padRight 5 (dec h.unixGid)
  else blanks 11

/-- `"%5i"` of an `unsigned int` passed where an `int` is expected -/
def decInt32 (n : Nat) : Bytes :=
  let n := n % two32
  if n < 2147483648 then dec n else str "-" ++ dec (two32 - n)

/-- `unix_uid_gid_column_footer` -/
def numFilesFooter (numFiles : Nat) : Bytes :=
  if numFiles = 1 then padLeft 5 (decInt32 numFiles) ++ str " file "
  else padLeft 5 (decInt32 numFiles) ++ str " files"

/-! ### sizes -/

/-- `"%7lu"` -/
def sizeField (n : Nat) : Bytes := padLeft 7 (dec n)

/-! ### ratio: binary32 arithmetic on exact numbers -/

/-- a finite non-negative binary32 value `m · 2^e` (`m ≤ 2^24`); exponent range is not an
issue for the values of this file (between 2^-26 and 2^39) -/
structure F32 where
  m : Nat
  e : Int
deriving Repr, BEq

/-- the exact value as a fraction -/
def F32.toRat (f : F32) : Nat × Nat :=
  if f.e ≥ 0 then (f.m * 2 ^ f.e.toNat, 1) else (f.m, 2 ^ (-f.e).toNat)

/-- `n / (d · 2^e)` as a fraction of naturals -/
def scaleRat (n d : Nat) (e : Int) : Nat × Nat :=
  if e ≥ 0 then (n, d * 2 ^ e.toNat) else (n * 2 ^ (-e).toNat, d)

/-- round-half-even of `a / b` to an integer -/
def roundHalfEven (a b : Nat) : Nat :=
  let q := a / b
  let r := a % b
  if 2 * r > b ∨ (2 * r = b ∧ q % 2 = 1) then q + 1 else q

/-- the binary32 nearest to `n / d`, ties to even: a 24-bit significand -/
def roundRat (n d : Nat) : F32 :=
  if n = 0 ∨ d = 0 then ⟨0, 0⟩ else
  -- 2^(ln-ld-1) < n/d < 2^(ln-ld+1)
  let e0 : Int := (Nat.log2 n : Int) - (Nat.log2 d : Int) - 23
  let s0 := scaleRat n d e0                          -- 2^22 < s0 < 2^24
  let e : Int := if s0.1 / s0.2 < 2 ^ 23 then e0 - 1 else e0
  let s := scaleRat n d e                            -- 2^23 ≤ s < 2^24
  ⟨roundHalfEven s.1 s.2, e⟩

/-- `(float) n` for an unsigned integer -/
def F32.ofNat (n : Nat) : F32 := roundRat n 1

/-- `a * b` -/
def F32.mul (a b : F32) : F32 :=
  let x := a.toRat; let y := b.toRat
  roundRat (x.1 * y.1) (x.2 * y.2)

/-- `a / b`, `b ≠ 0` -/
def F32.div (a b : F32) : F32 :=
  let x := a.toRat; let y := b.toRat
  roundRat (x.1 * y.2) (x.2 * y.1)

/-- `compression_percent(compressed, uncompressed)` -/
def compressionPercent (compressed uncompressed : Nat) : F32 :=
  if uncompressed > 0 then
    F32.div (F32.mul (F32.ofNat compressed) (F32.ofNat 100)) (F32.ofNat uncompressed)
  else F32.ofNat 100

/-- `"%5.1f"` of a non-negative float (promotion to `double` is exact): the exact value
rounded half-even to one decimal -/
def fmt51 (f : F32) : Bytes :=
  let r := f.toRat
  let t := roundHalfEven (r.1 * 10) r.2              -- tenths
  padLeft 5 (dec (t / 10) ++ str "." ++ dec (t % 10))

def percentField (compressed uncompressed : Nat) : Bytes :=
  fmt51 (compressionPercent compressed uncompressed) ++ str "%"

/-- `ratio_column_print` -/
def ratioColumn (h : Hdr) : Bytes :=
  if isDirMethod h then str "******" else percentField h.compressedLength h.length

/-- `ratio_column_footer` -/
def ratioFooter (compressed length : Nat) : Bytes :=
  if length = 0 then str "******" else percentField compressed length

/-! ### names (`safe_printf`) -/

/-- `safe_output`: only plain ASCII goes to the terminal -/
def safe (b : Bytes) : Bytes := b.map (fun c => if c < 0x20 || c ≥ 0x7f then 0x3f else c)

/-! ### method / CRC -/

/-- what `printf("%-5s %04x", header->compress_method, header->crc)` formats: the method up to
its first NUL, left-justified in 5 -/
def methodCrcRaw (h : Hdr) : Bytes :=
  padRight 5 (cstr h.method) ++ str " " ++ padZero 4 (hex h.crc)

/-- `method_crc_column_print`: since /repo commit 474f491 the formatted string goes through
`safe_printf` (before that commit it was a plain `printf`, i.e. `methodCrcRaw`) -/
def methodCrcColumn (h : Hdr) : Bytes := safe (methodCrcRaw h)

/-! ### timestamps -/

/-- `struct tm` of `gmtime`: `mon` 0-based, `year` the full year -/
structure Tm where
  sec : Nat
  min : Nat
  hour : Nat
  mday : Nat
  mon : Nat
  year : Nat
deriving Repr, BEq

/-- `gmtime` for `t ≥ 0` (civil-from-days) -/
def gmtime (t : Nat) : Tm :=
  let days := t / 86400
  let rem := t % 86400
  let z := days + 719468
  let era := z / 146097
  let doe := z - era * 146097                                     -- [0, 146096]
  let yoe := (doe - doe / 1460 + doe / 36524 - doe / 146096) / 365  -- [0, 399]
  let doy := doe - (365 * yoe + yoe / 4 - yoe / 100)               -- [0, 365], March-based
  let mp := (5 * doy + 2) / 153                                     -- [0, 11]
  let d := doy - (153 * mp + 2) / 5 + 1
  let m := if mp < 10 then mp + 3 else mp - 9                       -- 1-based
  let y := yoe + era * 400 + (if m ≤ 2 then 1 else 0)
  { sec := rem % 60, min := (rem / 60) % 60, hour := rem / 3600, mday := d, mon := m - 1, year := y }

def months : List String :=
  ["Jan", "Feb", "Mar", "Apr", "May", "Jun", "Jul", "Aug", "Sep", "Oct", "Nov", "Dec"]

/-- `output_timestamp(timestamp)`; `timestamp` and `now` are `unsigned int`s, the comparison
is made in (signed 64-bit) `time_t` -/
def outputTimestamp (now timestamp : Nat) : Bytes :=
  if timestamp = 0 then blanks 12 else
  let ts := gmtime timestamp
  let date := str (months.getD ts.mon "???") ++ str " " ++ padLeft 2 (dec ts.mday) ++ str " "
  if (timestamp : Int) > (now : Int) - 15552000 then
    date ++ padZero 2 (dec ts.hour) ++ str ":" ++ padZero 2 (dec ts.min)
  else
    date ++ str " " ++ padZero 4 (dec ts.year)

/-- `output_full_timestamp(timestamp)` -/
def outputFullTimestamp (timestamp : Nat) : Bytes :=
  if timestamp = 0 then blanks 19 else
  let ts := gmtime timestamp
  padZero 4 (dec ts.year) ++ str "-" ++ padZero 2 (dec (ts.mon + 1)) ++ str "-" ++ padZero 2 (dec ts.mday)
  ++ str " " ++ padZero 2 (dec ts.hour) ++ str ":" ++ padZero 2 (dec ts.min) ++ str ":" ++ padZero 2 (dec ts.sec)

/-! ### names -/

def optSafe : Option Bytes → Bytes
  | none => []
  | some b => safe b

/-- `name_column_print` -/
def nameColumn (h : Hdr) : Bytes :=
  optSafe h.path ++ optSafe h.filename ++
  (match h.symlinkTarget with
   | none => []
   | some t => safe (str " -> " ++ t))

/-- `whole_line_name_column_print` -/
def wholeLineNameColumn (h : Hdr) : Bytes :=
  optSafe h.path ++ optSafe h.filename ++
  (match h.symlinkTarget with
   | none => []
   | some t => safe (str "|" ++ t))
  ++ str "\n"

/-- `header_level_column_print` -/
def headerLevelColumn (h : Hdr) : Bytes := str "[" ++ dec h.level ++ str "]"

/-! ### the column tables -/

inductive Handler where
  | permission | uidGid | packed | size | ratio | methodCrc | timestamp | fullTimestamp
  | name | wholeLineName | headerLevel
deriving Repr, BEq, DecidableEq

/-- a `ListColumn`: heading, width, row handler, and whether it has a footer (the footer
function is determined by the handler) -/
structure Column where
  name : String
  width : Nat
  handler : Handler
  footer : Bool
deriving Repr, BEq

def permissionCol : Column := ⟨" PERMSSN", 10, .permission, true⟩
def uidGidCol : Column := ⟨" UID  GID", 11, .uidGid, true⟩
def packedCol : Column := ⟨" PACKED", 7, .packed, true⟩
def sizeCol : Column := ⟨"   SIZE", 7, .size, true⟩
def ratioCol : Column := ⟨" RATIO", 6, .ratio, true⟩
def methodCrcCol : Column := ⟨"METHOD CRC", 10, .methodCrc, false⟩
def timestampCol : Column := ⟨"    STAMP", 12, .timestamp, true⟩
def fullTimestampCol : Column := ⟨"    STAMP", 19, .fullTimestamp, true⟩
def nameCol : Column := ⟨"       NAME", 20, .name, false⟩
def shortNameCol : Column := ⟨"      NAME", 13, .name, false⟩
def wholeLineNameCol : Column := ⟨"", 0, .wholeLineName, false⟩
def headerLevelCol : Column := ⟨" LV", 3, .headerLevel, false⟩

/-- `normal_column_headers` (lha l) -/
def normalColumns : List Column :=
  [permissionCol, uidGidCol, sizeCol, ratioCol, timestampCol, nameCol]
/-- `normal_column_headers_verbose` (lha lv) -/
def normalColumnsVerbose : List Column :=
  [wholeLineNameCol, permissionCol, uidGidCol, sizeCol, ratioCol, timestampCol, headerLevelCol]
/-- `verbose_column_headers` (lha v) -/
def verboseColumns : List Column :=
  [permissionCol, uidGidCol, packedCol, sizeCol, ratioCol, methodCrcCol, timestampCol, shortNameCol]
/-- `verbose_column_headers_verbose` (lha vv) -/
def verboseColumnsVerbose : List Column :=
  [wholeLineNameCol, permissionCol, uidGidCol, packedCol, sizeCol, ratioCol, methodCrcCol,
   fullTimestampCol, headerLevelCol]

/-- `list_file_basic` / `list_file_verbose`: which table -/
def columnsFor (verboseList verboseOpt : Bool) : List Column :=
  match verboseList, verboseOpt with
  | false, false => normalColumns
  | false, true => normalColumnsVerbose
  | true, false => verboseColumns
  | true, true => verboseColumnsVerbose

/-- `FileStatistics` (all four are `unsigned int`) -/
structure Stats where
  numFiles : Nat := 0
  compressedLength : Nat := 0
  length : Nat := 0
  timestamp : Nat := 0
deriving Repr, BEq

/-- `columns[i]->handler(header)` -/
def runHandler (now : Nat) (k : Handler) (h : Hdr) : Bytes :=
  match k with
  | .permission => permissionColumn h
  | .uidGid => uidGidColumn h
  | .packed => sizeField h.compressedLength
  | .size => sizeField h.length
  | .ratio => ratioColumn h
  | .methodCrc => methodCrcColumn h
  | .timestamp => outputTimestamp now h.timestamp
  | .fullTimestamp => outputFullTimestamp h.timestamp
  | .name => nameColumn h
  | .wholeLineName => wholeLineNameColumn h
  | .headerLevel => headerLevelColumn h

/-- `columns[i]->footer(stats)` for the columns that have one -/
def runFooter (now : Nat) (k : Handler) (s : Stats) : Bytes :=
  match k with
  | .permission => str " Total    "
  | .uidGid => numFilesFooter s.numFiles
  | .packed => sizeField s.compressedLength
  | .size => sizeField s.length
  | .ratio => ratioFooter s.compressedLength s.length
  | .timestamp => outputTimestamp now s.timestamp
  | .fullTimestamp => outputFullTimestamp s.timestamp
  | _ => []

/-- `last_column`: index of the last column of non-zero width -/
def lastColumn (cols : List Column) : Option Nat :=
  let rec go (i : Nat) (last : Option Nat) : List Column → Option Nat
    | [] => last
    | c :: cs => go (i + 1) (if c.width != 0 then some i else last) cs
  go 0 none cols

/-- `print_list_headings` -/
def printListHeadings (cols : List Column) : Bytes :=
  let last := lastColumn cols
  let rec go (i : Nat) : List Column → Bytes
    | [] => []
    | c :: cs =>
      let nm := str c.name
      let pad := if c.width > 0 ∧ some i != last then blanks (c.width + 1 - nm.length) else []
      nm ++ pad ++ go (i + 1) cs
  go 0 cols ++ str "\n"

/-- `print_list_separators` -/
def printListSeparators (cols : List Column) : Bytes :=
  let last := lastColumn cols
  let rec go (i : Nat) : List Column → Bytes
    | [] => []
    | c :: cs =>
      List.replicate c.width 0x2d ++ (if c.width != 0 ∧ some i != last then str " " else []) ++ go (i + 1) cs
  go 0 cols ++ str "\n"

/-- `print_columns` -/
def printColumns (cols : List Column) (now : Nat) (h : Hdr) : Bytes :=
  let last := lastColumn cols
  let rec go (i : Nat) : List Column → Bytes
    | [] => []
    | c :: cs =>
      runHandler now c.handler h ++ (if c.width != 0 ∧ some i != last then str " " else []) ++ go (i + 1) cs
  go 0 cols ++ str "\n"

/-- `while (num_columns > 0 && columns[num_columns-1]->footer == NULL) --num_columns;` -/
def footerColumnCount (cols : List Column) : Nat :=
  (cols.reverse.dropWhile (fun c => !c.footer)).length

/-- `print_footers` -/
def printFooters (cols : List Column) (now : Nat) (s : Stats) : Bytes :=
  let n := footerColumnCount cols
  let rec go (i : Nat) : List Column → Bytes
    | [] => []
    | c :: cs =>
      if i < n then
        (if c.footer then runFooter now c.handler s
         else if i + 1 < n then blanks (str c.name).length
         else []) ++
        (if c.width != 0 ∧ i + 1 < n then str " " else []) ++ go (i + 1) cs
      else []
  go 0 cols ++ str "\n"

/-- the accumulation in the loop of `list_file_contents` (32-bit `unsigned int` sums) -/
def accumulate (s : Stats) (h : Hdr) : Stats :=
  { s with numFiles := (s.numFiles + 1) % two32,
           length := (s.length + h.length) % two32,
           compressedLength := (s.compressedLength + h.compressedLength) % two32 }

/-- `list_file_contents`: everything written to stdout.

`verboseList` – the command is `v` (else `l`); `verboseOpt` – the `v` option is set;
`hdrs` – the headers `lha_filter_next_file` returns, in order. -/
def render (verboseList : Bool) (verboseOpt : Bool) (quiet : Nat) (now : Nat) (archiveMtime : Nat)
    (hdrs : List Header.Hdr) : List UInt8 :=
  let cols := columnsFor verboseList verboseOpt
  let head := if quiet < 2 then printListHeadings cols ++ printListSeparators cols else []
  let rows := hdrs.flatMap (printColumns cols now)
  let stats := hdrs.foldl accumulate { timestamp := archiveMtime % two32 }
  let foot := if quiet < 2 then printListSeparators cols ++ printFooters cols now stats else []
  head ++ rows ++ foot

end LhasaV.ListOut
