import LhasaV.Model.Ring
import LhasaV.Model.Crc
/-!
Model of `lib/lha_decoder.c`: `lha_decoder_read`, `lha_decoder_monitor`,
`check_progress_callback`, generic in the inner decoder.

The inner decoder is a pure step `rd : σ → List Byte × σ` (one call of
`dtype->read`: the bytes written to `outbuf`).  `Dec.total` turns a `Dec`
(whose reads may `fault`) into such a step over `Except String σ`: after a
fault the state is `error w` and every later read is empty, so a run is
faithful to the C exactly as long as no fault is reported.
-/
namespace LhasaV

/-- totalised inner step of a decoder -/
def Dec.total (d : Dec) : Except String d.σ → List Byte × Except String d.σ
  | .error w => ([], .error w)
  | .ok s =>
    match d.read s with
    | .ok (o, s') => (o, .ok s')
    | .fail => ([], .error "inner read returned fail")
    | .fault w => ([], .error w)

namespace Wrap

structure St (σ : Type) where
  inner : σ
  pending : List Byte := []     -- outbuf[outbuf_pos .. outbuf_len)
  failed : Bool := false        -- decoder_failed
  pos : Nat := 0                -- stream_pos
  length : Nat                  -- stream_length
  crc : BitVec 16 := 0
  blockSize : Nat               -- dtype->block_size
  monitored : Bool := false     -- progress_callback != NULL
  nextBlock : Nat := 0          -- last_block + 1  (last_block starts at UINT_MAX)
  totalBlocks : Nat := 0

variable {σ : Type} (rd : σ → List Byte × σ)

/-- `while (filled < buf_len) { … }` with `need = buf_len - filled` -/
def fill (need : Nat) (s : St σ) : List Byte × St σ :=
  if need = 0 then ([], s)
  else if s.failed then
    (s.pending.take need, { s with pending := s.pending.drop need })
  else if s.pending.length > need then
    -- outbuf not exhausted: the loop ends with filled = buf_len
    (s.pending.take need, { s with pending := s.pending.drop need })
  else if (rd s.inner).1 = [] then
    (s.pending, { s with inner := (rd s.inner).2, pending := [], failed := true })
  else
    let r := fill (need - s.pending.length)
               { s with inner := (rd s.inner).2, pending := (rd s.inner).1, failed := false }
    (s.pending ++ r.1, r.2)
termination_by (need, if s.pending = [] then 1 else 0)
decreasing_by
  rename_i h1 h2 h3 h4
  by_cases hp : s.pending = []
  · simp [hp, Prod.lex_def]; exact h4
  · have : 0 < s.pending.length := List.length_pos_iff.mpr hp
    simp [Prod.lex_def]; omega

/-- `check_progress_callback`: the block numbers passed to the callback, and the new state -/
def checkProgress (s : St σ) : List Nat × St σ :=
  let block := (s.pos + s.blockSize - 1) / s.blockSize
  (List.range' s.nextBlock (block + 1 - s.nextBlock), { s with nextBlock := max s.nextBlock (block + 1) })

/-- `lha_decoder_monitor` -/
def monitor (s : St σ) : List Nat × St σ :=
  checkProgress { s with monitored := true,
                         totalBlocks := (s.length + s.blockSize - 1) / s.blockSize }

/-- `lha_decoder_read(decoder, buf, buf_len)`: bytes returned, progress calls made -/
def read (bufLen : Nat) (s : St σ) : (List Byte × List Nat) × St σ :=
  let need := if s.pos + bufLen > s.length then s.length - s.pos else bufLen
  let r := fill rd need s
  let s' := { r.2 with crc := Crc.buf r.2.crc r.1, pos := r.2.pos + r.1.length }
  if s'.monitored then
    let c := checkProgress s'
    ((r.1, c.1), c.2)
  else ((r.1, []), s')

/-- a schedule of reads: all bytes, all progress calls -/
def reads : List Nat → St σ → (List Byte × List Nat) × St σ
  | [], s => (([], []), s)
  | k :: ks, s =>
    let a := read rd k s
    let b := reads ks a.2
    ((a.1.1 ++ b.1.1, a.1.2 ++ b.1.2), b.2)

end Wrap
end LhasaV
