import LhasaV.Gen.Crc
/-!
Model of `lib/crc16.c` (`lha_crc16_buf`): a 16-bit register, one table lookup
per byte.  The table is `Gen.crc16Table`, regenerated from the C source on
every run.
-/
namespace LhasaV.Crc

/-- `crc16_table[i]` (masked to 16 bits as the C's `& 0xffff` does). -/
def tbl (i : Nat) : BitVec 16 := BitVec.ofNat 16 (Gen.crc16Table.getD i 0)

/-- One iteration of the loop in `lha_crc16_buf`. -/
def step (c : BitVec 16) (b : BitVec 8) : BitVec 16 :=
  (c >>> 8) ^^^ tbl ((c ^^^ b.zeroExtend 16) &&& 0xff#16).toNat

/-- `lha_crc16_buf(&c, buf, len)`. -/
def buf (c : BitVec 16) (bs : List UInt8) : BitVec 16 :=
  bs.foldl (fun c b => step c b.toBitVec) c

end LhasaV.Crc
