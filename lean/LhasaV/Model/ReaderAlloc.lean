import LhasaV.Model.Reader
import LhasaV.Model.HeaderAlloc
/-!
Allocation-aware refinement of `LhasaV/Model/Reader.lean` (C20, second half: "when any single
memory allocation fails, the affected call reports failure or end-of-archive without crashing and
the same release guarantee holds").

Every allocation the C library executes on behalf of a reader is a step that consults the oracle
(`LhasaV.Alloc.Oracle`), counted in the order in which the C performs them, exactly as the wrapped
allocator of `harness/ops_reader.c` counts them:

* `lha_input_stream_new`, `lha_reader_new`, `lha_basic_reader_new` (three `calloc`s): `newA`;
* `lha_file_header_read` (`calloc`, every `realloc` of `extend_raw_data`, every string
  duplication of `lha_file_header.c` / `ext_header.c`): `Alloc.readA`, used by `basicNextA`;
* `lha_decoder_new` for the member's decoder and for the MacBinary pass-through (one `calloc`
  each: the decoder state block and its output buffer live in the same block; no decoder
  allocates anything after creation): `openDecoderA`;
* `lha_file_header_full_path` in `extract_file` / `extract_symlink` (temporary name): `extractA`.

The ledger (`St.led`) is the one of the original model: header objects with reference counts and
their string blocks, decoder objects.  `Heap.live` of the reader counts the blocks *outside* the
ledger: the three structures of `newA` and temporary names.
-/
namespace LhasaV.Reader
open LhasaV LhasaV.Header LhasaV.Alloc

/-- reader state + allocator state -/
structure StA where
  s : St
  hp : Heap

/-- `lha_input_stream_new` / `lha_input_stream_from_FILE`, then `lha_reader_new` (which calls
`lha_basic_reader_new`); when the reader cannot be created the caller frees the stream again.
Result: the reader (if any) and the allocator state. -/
def newA (o : Oracle) (st : Stream.St) (pol : DirPolicy) (mk : Nat → Nat) : Option StA × Heap :=
  let hp : Heap := {}
  -- lha_input_stream_new: calloc
  if o hp.n then (none, { hp with n := hp.n + 1, failed := Site.stream :: hp.failed }) else
  let hp := { hp with n := hp.n + 1, live := hp.live + 1 }
  -- lha_reader_new: calloc(LHAReader); NULL: return NULL; caller: lha_input_stream_free
  if o hp.n then (none, { hp with n := hp.n + 1, failed := Site.reader :: hp.failed, live := hp.live - 1 }) else
  let hp := { hp with n := hp.n + 1, live := hp.live + 1 }
  -- lha_basic_reader_new: calloc; NULL: free(reader); return NULL; caller: lha_input_stream_free
  if o hp.n then (none, { hp with n := hp.n + 1, failed := Site.basicReader :: hp.failed, live := hp.live - 1 - 1 }) else
  let hp := { hp with n := hp.n + 1, live := hp.live + 1 }
  (some { s := { basic := { stream := st }, policy := pol, mktime := mk }, hp := hp }, hp)

/-- `lha_basic_reader_next_file` with the allocation-aware header parser.  A header that was read
hands its blocks (the object and its strings) over to the ledger; a failed read has freed
everything itself. -/
def basicNextA (o : Oracle) (mk : Nat → Nat) (b : Basic) (led : Ledger) (hp : Heap) :
    Res ((Basic × Ledger) × Heap) :=
  let (b, led) :=
    match b.curr with
    | some c =>
      let sk := Stream.skip b.stream b.remaining
      ({ b with curr := none, stream := sk.2, eof := b.eof || !sk.1 }, led.unref c.id)
    | none => (b, led)
  if b.eof then .ok ((b, led), hp) else
  -- lha_file_header_read: the header object is allocated before the stream is touched
  if o hp.n then
    .ok (({ b with eof := true }, led), { hp with n := hp.n + 1, failed := Site.hdrCalloc :: hp.failed })
  else
  let hp1 : Heap := { hp with n := hp.n + 1, live := hp.live + 1 }
  (Stream.start b.stream) >>= fun st =>
  -- no archive found: the first read fails, `fail:` frees the object
  if st.phase == .fail then .ok (({ b with stream := st, eof := true }, led), { hp1 with live := hp1.live - 1 }) else
  match Alloc.readRestA o mk (Stream.rest st) hp1 with
  | .fault w => .fault w
  | .fail _ hp' => .ok (({ b with stream := st, eof := true }, led), hp')
  | .ok (h, rest) hp' =>
    let used := (Stream.rest st).length - rest.length
    let st := Stream.advance st used
    let nblocks := hp'.live - hp.live
    let (id, led) := led.alloc nblocks
    .ok (({ b with stream := st, curr := some ⟨id, h⟩, remaining := h.compressedLength, dataStart := st.pos }, led),
         { hp' with live := hp.live })

/-- `lha_reader_next_file` -/
def nextA (o : Oracle) (a : StA) : Except String (Option HObj × StA) :=
  let s := closeDecoder a.s
  if s.currType == .eof then .ok (none, { a with s := s }) else
  (if s.currType == .start ∨ s.currType == .normal then
     (match basicNextA o s.mktime s.basic s.led a.hp with
      | .ok r => (.ok { s := { s with basic := r.1.1, led := r.1.2 }, hp := r.2 } : Except String StA)
      | .fail => .error "basicNext returned fail"
      | .fault w => .error w)
   else .ok { a with s := s }) >>= fun a =>
  let s := a.s
  let s := if s.currType == .fakeDir ∨ s.currType == .deferred then
      match s.curr with
      | some c => { s with led := s.led.unref c.id }
      | none => s
    else s
  let s :=
    if endOfTopDir s then
      match s.dirStack with
      | top :: rest => { s with curr := some top, dirStack := rest, currType := .fakeDir }
      | [] => s
    else { s with curr := s.basic.curr, currType := .normal }
  let s :=
    match s.curr with
    | some _ => s
    | none =>
      match s.deferred with
      | d :: rest => { s with curr := some d, currType := .deferred, deferred := rest }
      | [] => { s with currType := .eof }
  .ok (s.curr, { a with s := s })

/-- one allocation outside the parser monad: `(succeeded, new heap)` -/
def allocAt (o : Oracle) (site : Site) (hp : Heap) : Bool × Heap :=
  if o hp.n then (false, { hp with n := hp.n + 1, failed := site :: hp.failed })
  else (true, { hp with n := hp.n + 1 })

/-- `open_decoder` (without progress callback): `lha_basic_reader_decode` = `lha_decoder_new`
(`calloc`; NULL: return 0), then for MacLHA members `lha_macbinary_passthrough` =
`lha_decoder_new` again (NULL, from its `calloc` or from its `init`: the inner decoder is freed,
return 0). -/
def openDecoderA (o : Oracle) (a : StA) : Bool × StA :=
  let s := a.s
  if s.currType != .normal then (false, a) else
  match s.curr with
  | none => (false, a)
  | some c =>
    match decoderFor (methodName c.h), decoderInfo (methodName c.h) with
    | some d, some info =>
      let r := allocAt o .decoder a.hp
      if !r.1 then (false, { a with hp := r.2 }) else
      let inner : Wrap.St (Except String d.σ) :=
        { inner := .ok (d.init (memberSrc s.basic)), length := c.h.length, blockSize := info.2.2 }
      let led := { s.led with decoders := s.led.decoders + 1 }
      if c.h.osType = 0x6d then
        let r2 := allocAt o .macDecoder r.2
        if !r2.1 then
          -- the pass-through object could not be allocated: lha_decoder_free(inner_decoder)
          (false, { s := closeDecoder { s with dec := some { d := d, plain := none, mac := none, danglingInner := some inner } },
                    hp := r2.2 })
        else
        let m := macInit d.total c.h inner
        match m.1 with
        | none =>
          let s' := closeDecoder { s with dec := some { d := d, plain := none, mac := none, danglingInner := some m.2 } }
          (false, { s := s', hp := r2.2 })
        | some mac =>
          let outer : Wrap.St (Mac (Except String d.σ)) := { inner := mac, length := c.h.length, blockSize := 0 }
          (true, { s := { s with dec := some { d := d, plain := none, mac := some outer },
                                 led := { led with decoders := led.decoders + 1 } },
                   hp := r2.2 })
      else (true, { s := { s with dec := some { d := d, plain := some inner, mac := none }, led := led }, hp := r.2 })
    | _, _ => (false, a)

/-- `lha_reader_read(reader, buf, k)` -/
def readA (o : Oracle) (a : StA) (k : Nat) : List UInt8 × StA :=
  let (ok, a) := match a.s.dec with
    | some d => (d.plain.isSome || d.mac.isSome, a)
    | none => openDecoderA o a
  if !ok then ([], a) else
  match a.s.dec with
  | none => ([], a)
  | some d =>
    match d.plain, d.mac with
    | some st, _ =>
      let r := Wrap.read d.d.total k st
      (r.1.1, { a with s := { a.s with dec := some { d with plain := some r.2 } } })
    | none, some m =>
      let r := Wrap.read (macRead d.d.total) k m
      (r.1.1, { a with s := { a.s with dec := some { d with mac := some r.2 } } })
    | none, none => ([], a)

/-- the read loop of `do_decode` -/
def decodeLoopA (o : Oracle) : Nat → StA → List UInt8 → List UInt8 × StA
  | 0, a, acc => (acc, a)
  | fuel+1, a, acc =>
    let r := readA o a 64
    if r.1.isEmpty then (acc, r.2) else decodeLoopA o fuel r.2 (acc ++ r.1)

/-- `lha_reader_check` (no callback) -/
def checkA (o : Oracle) (a : StA) : (Bool × List UInt8) × StA :=
  if a.s.currType != .normal then ((false, []), a) else
  match a.s.curr with
  | none => ((false, []), a)
  | some c =>
    if c.h.method == "-lhd-".toUTF8.toList then ((true, []), a) else
    let (ok, a) := openDecoderA o a
    if !ok then ((false, []), a) else
    let r := decodeLoopA o (c.h.length + 2) a []
    ((verdict r.2.s, r.1), r.2)

/-- `free(tmp_filename)` -/
def dropTmp (a : StA) : StA := { a with hp := { a.hp with live := a.hp.live - 1 } }

/-- `lha_reader_extract` (filename = NULL): `extract_file` and `extract_symlink` build the name
with `lha_file_header_full_path` (`malloc`; NULL: return 0 before anything else is done) and free
it on every path; directories (first or second presentation) allocate nothing. -/
def extractA (o : Oracle) (a : StA) (fsOk : Bool) : (Bool × List UInt8) × StA :=
  let s := a.s
  match s.currType, s.curr with
  | .normal, some c =>
    if c.h.method != "-lhd-".toUTF8.toList then
      -- extract_file
      let r := allocAt o .extractName a.hp
      if !r.1 then ((false, []), { a with hp := r.2 }) else
      let a := { a with hp := { r.2 with live := r.2.live + 1 } }
      let (ok, a) := openDecoderA o a
      if !ok then ((false, []), dropTmp a) else
      if !fsOk then ((false, []), dropTmp a) else
      let r := decodeLoopA o (c.h.length + 2) a []
      ((verdict r.2.s, r.1), dropTmp r.2)
    else if c.h.symlinkTarget.isSome then
      -- extract_symlink
      let r := allocAt o .extractName a.hp
      if !r.1 then ((false, []), { a with hp := r.2 }) else
      let a := { a with hp := { r.2 with live := r.2.live + 1 } }
      if isDangerous c.h then
        -- extract_placeholder_symlink
        if !fsOk then ((false, []), dropTmp a) else
        let before := s.deferred.takeWhile (fun r => pathLen r > pathLen c)
        let after := s.deferred.dropWhile (fun r => pathLen r > pathLen c)
        ((true, []), dropTmp { a with s := { s with deferred := before ++ [c] ++ after, led := s.led.addRef c.id } })
      else ((fsOk, []), dropTmp a)
    else
      -- extract_directory
      if !fsOk then ((false, []), a) else
      if s.policy == .plain then ((true, []), a)
      else ((true, []), { a with s := { s with dirStack := c :: s.dirStack, led := s.led.addRef c.id } })
  | .fakeDir, some _ => ((true, []), a)
  | .deferred, some _ =>
    -- extract_symlink of a deferred link
    let r := allocAt o .extractName a.hp
    if !r.1 then ((false, []), { a with hp := r.2 }) else
    let a := { a with hp := { r.2 with live := r.2.live + 1 } }
    ((fsOk, []), dropTmp a)
  | _, _ => ((false, []), a)

/-- `lha_reader_free` followed by `lha_input_stream_free`: the ledger that is left, and the
blocks outside the ledger that are left (the reader, the basic reader and the stream are freed) -/
def freeA (a : StA) : Ledger × Nat :=
  (free a.s, a.hp.live - 1 - 1 - 1)

/-- all heap blocks still allocated after `freeA` -/
def liveAfterFree (a : StA) : Nat := (freeA a).1.live + (freeA a).2

end LhasaV.Reader
