import LhasaV.Model.Basic
/-!
Model of the decoder input callback and of `lib/bit_stream_reader.c`.

`Src` is the `LHADecoderCallback`: a byte source that hands out at most what is
asked for, possibly less (`chunk` bounds one answer; 0 = no bound), and 0 only
at the end of the data.  `Bits` is `BitStreamReader`: a 32-bit buffer filled
from the top, `(32 - bits) / 8` bytes requested per refill.
-/
namespace LhasaV

structure Src where
  data : Array UInt8
  pos : Nat := 0
  chunk : Nat := 0
  /-- pm1 wraps its callback: an empty answer is replaced by `req` zero bytes -/
  zeroFill : Bool := false
  /-- member sources of the archive reader (`lha_basic_reader_read_compressed`): the header
  declares `extra` more bytes than are physically present in `data`; a request that would
  cross the physical end fails as a whole (returns 0) and the source is dead from then on.
  `extra = 0`, `dead = false` for a plain callback. -/
  extra : Nat := 0
  dead : Bool := false
deriving Repr

namespace Src

def remaining (s : Src) : Nat := s.data.size - s.pos

/-- number of bytes the callback returns for a request of `req` bytes -/
def grant (s : Src) (req : Nat) : Nat :=
  if s.dead then 0 else
  let n := min req (s.remaining + s.extra)
  if s.chunk = 0 then n else min n s.chunk

/-- `callback(buf, req, data)`: the bytes written to `buf` and the new source.  A request that
crosses the physical end of a member source is answered with 0 bytes and kills the source; a
0-byte answer is replaced by `req` zero bytes when `zeroFill` is set (pm1's wrapper). -/
def read (s : Src) (req : Nat) : List UInt8 × Src :=
  let n := s.grant req
  if n > s.remaining then
    (if s.zeroFill then List.replicate req 0 else [], { s with dead := true })
  else if n = 0 ∧ s.zeroFill then (List.replicate req 0, s)
  else ((s.data.extract s.pos (s.pos + n)).toList, { s with pos := s.pos + n })

end Src

structure Bits where
  src : Src
  buf : Nat := 0        -- bit_buffer (< 2^32)
  bits : Nat := 0       -- number of valid bits at the top of `buf`
deriving Repr

namespace Bits

/-- `bit_buffer |= buf[i] << (24 - bits); bits += 8` for each byte -/
def push (buf bits : Nat) : List UInt8 → Nat × Nat
  | [] => (buf, bits)
  | b :: bs => push (buf ||| (b.toNat <<< (24 - bits))) (bits + 8) bs

/-- the refill loop of `peek_bits`; `false` = the callback returned 0 (end of input) -/
def fill (r : Bits) (n : Nat) : Bool × Bits :=
  if h : r.bits < n then
    let got := r.src.read ((32 - r.bits) / 8)
    if hg : got.1.length = 0 then (false, { r with src := got.2 })
    else
      let p := push r.buf r.bits got.1
      fill { src := got.2, buf := p.1, bits := r.bits + 8 * got.1.length } n
  else (true, r)
termination_by n - r.bits
decreasing_by
  have hlen : 0 < (r.src.read ((32 - r.bits) / 8)).1.length := Nat.pos_of_ne_zero hg
  show n - (r.bits + 8 * (r.src.read ((32 - r.bits) / 8)).1.length) < n - r.bits
  omega

/-- `peek_bits(reader, n)`: `none` is the C's −1 -/
def peek (r : Bits) (n : Nat) : Option Nat × Bits :=
  if n = 0 then (some 0, r)
  else
    let f := fill r n
    if f.1 then (some (f.2.buf >>> (32 - n)), f.2) else (none, f.2)

/-- `read_bits(reader, n)` -/
def readBits (r : Bits) (n : Nat) : Option Nat × Bits :=
  let p := peek r n
  match p.1 with
  | some v => (some v, { p.2 with buf := (p.2.buf <<< n) % 4294967296, bits := p.2.bits - n })
  | none => (none, p.2)

/-- `read_bit(reader)` -/
def readBit (r : Bits) : Option Nat × Bits := readBits r 1

end Bits
end LhasaV
