import LhasaV.Model.Header
/-!
Allocation-aware refinement of `LhasaV/Model/Header.lean` (`lib/lha_file_header.c`,
`lib/ext_header.c`): every `calloc` / `realloc` / `malloc` / `strdup` the header parser executes is
a step that asks an oracle "does allocation number `i` fail?", in the order in which the C performs
them (the order in which `harness/ops_reader.c` counts them: one count per call of the wrapped
`malloc`, `calloc`, `realloc`, `strdup`).

* `Heap.n`     – number of allocation calls made so far = index of the next one;
* `Heap.live`  – heap blocks obtained and not yet released (explicit `+1` at a successful
                 allocation, explicit `-1` at every `free` of a non-NULL pointer);
* `Heap.failed` – ghost log: the sites whose allocation failed (most recent first).

No allocation failure is swallowed: every one makes `lha_file_header_read` return NULL (since the
repair "fail the header read when an extended header cannot be stored" this includes the string
duplications of the file-name / path / user / group extended headers).

A failing parse carries the header object as it is at the point of the failure (`ARes.fail h`):
`lha_file_header_read`'s `fail:` label frees exactly what hangs off that object.
-/
namespace LhasaV.Alloc
open LhasaV LhasaV.Header

/-- "does allocation number `i` fail?" -/
abbrev Oracle := Nat → Bool

/-- the oracle of `fail_at`: allocation `k` fails, no other (`none` = none fails) -/
def Oracle.ofFailAt : Option Nat → Oracle
  | none => fun _ => false
  | some k => fun i => i == k

/-- the allocation sites of the library on behalf of a reader -/
inductive Site where
  | stream        -- lha_input_stream_new: calloc(LHAInputStream)
  | reader        -- lha_reader_new: calloc(LHAReader)
  | basicReader   -- lha_basic_reader_new: calloc(LHABasicReader)
  | hdrCalloc     -- lha_file_header_read: calloc(LHAFileHeader + COMMON_HEADER_LEN)
  | hdrRealloc    -- extend_raw_data: realloc(header)
  | l0Filename    -- process_level0_path: malloc(data_len + 1)
  | splitStrdup   -- split_header_filename: strdup(sep + 1)
  | extFilename   -- ext_header_filename_decoder: malloc
  | extPath       -- ext_header_path_decoder: malloc
  | extUser       -- ext_header_unix_username_decoder: malloc
  | extGroup      -- ext_header_unix_group_decoder: malloc
  | symFullPath   -- parse_symlink: lha_file_header_full_path: malloc
  | symTarget     -- parse_symlink: strdup(p + 1)
  | decoder       -- lha_decoder_new: calloc(LHADecoder + extra_size + max_read)
  | macDecoder    -- lha_macbinary_passthrough: lha_decoder_new(macbinary_decoder_type)
  | extractName   -- extract_file / extract_symlink: lha_file_header_full_path: malloc
deriving Repr, DecidableEq

def Site.name : Site → String
  | .stream => "stream" | .reader => "reader" | .basicReader => "basic-reader"
  | .hdrCalloc => "hdr-calloc" | .hdrRealloc => "hdr-realloc" | .l0Filename => "l0-filename"
  | .splitStrdup => "split-strdup" | .extFilename => "ext-filename" | .extPath => "ext-path"
  | .extUser => "ext-user" | .extGroup => "ext-group" | .symFullPath => "sym-fullpath"
  | .symTarget => "sym-target" | .decoder => "decoder" | .macDecoder => "mac-decoder"
  | .extractName => "extract-name"

structure Heap where
  n : Nat := 0
  live : Nat := 0
  failed : List Site := []
deriving Repr

/-- result of an allocation-aware parser step -/
inductive ARes (α : Type) where
  | ok (a : α) (hp : Heap)
  | fail (h : Hdr) (hp : Heap)     -- error return; `h` = the header object at that point
  | fault (w : String)

def AM (α : Type) := Heap → ARes α

namespace AM
@[inline] def bind {α β : Type} (m : AM α) (f : α → AM β) : AM β := fun hp =>
  match m hp with
  | .ok a hp' => f a hp'
  | .fail h hp' => .fail h hp'
  | .fault w => .fault w
end AM

instance : Monad AM where
  pure := fun a hp => .ok a hp
  bind := AM.bind

/-- a step of the original model that allocates nothing; its error return happens with header `h` -/
def liftR {α : Type} (h : Hdr) (r : Res α) : AM α := fun hp =>
  match r with
  | .ok a => .ok a hp
  | .fail => .fail h hp
  | .fault w => .fault w

/-- `return 0` / `goto fail` with the header object `h` -/
def failH {α : Type} (h : Hdr) : AM α := fun hp => .fail h hp

/-- `malloc` / `calloc` / `strdup` at `site`: `true` = a new block -/
def malloc (o : Oracle) (site : Site) : AM Bool := fun hp =>
  if o hp.n then .ok false { hp with n := hp.n + 1, failed := site :: hp.failed }
  else .ok true { hp with n := hp.n + 1, live := hp.live + 1 }

/-- `realloc` of a live block: on success the block count is unchanged, on failure the old block stays -/
def realloc (o : Oracle) (site : Site) : AM Bool := fun hp =>
  if o hp.n then .ok false { hp with n := hp.n + 1, failed := site :: hp.failed }
  else .ok true { hp with n := hp.n + 1 }

/-- `free` of `k` blocks -/
def release (k : Nat) : AM Unit := fun hp => .ok () { hp with live := hp.live - k }

/-- `free(p)` of a string field: nothing happens for NULL -/
def freeStr (s : Option Bytes) : AM Unit := release (if s.isSome then 1 else 0)

/-- string blocks hanging off a header object -/
def nstr (h : Hdr) : Nat :=
  (if h.path.isSome then 1 else 0) + (if h.filename.isSome then 1 else 0) +
  (if h.symlinkTarget.isSome then 1 else 0) + (if h.unixUsername.isSome then 1 else 0) +
  (if h.unixGroup.isSome then 1 else 0)

/-! ### reading more header bytes -/

/-- `extend_raw_data`: the size check comes before the `realloc`, the read after it -/
def extendA (o : Oracle) (h : Hdr) (inp : Bytes) (n : Nat) : AM (Hdr × Bytes) :=
  if n > Gen.level3MaxHeaderLen then failH h
  else do
    let ok ← realloc o .hdrRealloc
    if ok then liftR h (extend h inp n) else failH h

/-! ### extended headers -/

/-- is `num` one of the four extended headers whose decoder duplicates a string? -/
def extSite (num : Nat) : Option Site :=
  if num = Gen.extFilename then some .extFilename
  else if num = Gen.extPath then some .extPath
  else if num = Gen.extUnixUser then some .extUser
  else if num = Gen.extUnixGroup then some .extGroup
  else none

/-- the string field such a decoder replaces -/
def extField (h : Hdr) : Site → Option Bytes
  | .extFilename => h.filename
  | .extPath => h.path
  | .extUser => h.unixUsername
  | .extGroup => h.unixGroup
  | _ => none

/-- `lha_ext_header_decode`: the four string decoders `malloc` first and fail when that fails
(`lha_ext_header_decode` then returns a negative value and `decode_extended_headers` returns 0:
the header read fails); then they copy, `free` the old string and install the new one.  All other
decoders allocate nothing.  Unknown types and too-short headers are ignored (result 0). -/
def decodeExtA (o : Oracle) (h : Hdr) (num off len : Nat) : AM Hdr :=
  match lookupExt num, extSite num with
  | some minLen, some site =>
    if len < minLen then pure h
    else do
      let ok ← malloc o site
      if ok then do
        let h' ← liftR h (decodeExt h num off len)
        freeStr (extField h site)
        pure h'
      else failH h
  | _, _ => liftR h (decodeExt h num off len)

/-- the loop of `decode_extended_headers` -/
def extLoopA (o : Oracle) (fs : Nat) (h : Hdr) (off avail : Nat) : AM Hdr :=
  if off + fs ≤ h.raw.length then
    liftR h (if fs = 4 then rdU32 "ext chain: length field" h.raw off
             else rdU16 "ext chain: length field" h.raw off) >>= fun len =>
    if len = 0 then pure h
    else if len < fs + 1 ∨ len > avail then failH h
    else
      liftR h (rdU8 "ext chain: ext_header[0]" h.raw (off + fs)) >>= fun num =>
      decodeExtA o h num (off + fs + 1) (len - fs - 1) >>= fun h' =>
      extLoopA o fs h' (off + len) (avail - len)
  else pure h
termination_by avail
decreasing_by omega

def decodeExtendedHeadersA (o : Oracle) (h : Hdr) (off : Nat) : AM Hdr :=
  let fs := if h.level = 3 then 4 else 2
  if h.raw.length < off + fs then
    liftR h (.fault "decode_extended_headers: available_length underflow")
  else extLoopA o fs h off (h.raw.length - off - fs)

/-- `read_l1_extended_headers`: one `realloc` per extended header read -/
def readL1ExtA (o : Oracle) (h : Hdr) (inp : Bytes) : AM (Hdr × Bytes) :=
  if h.raw.length < 2 then liftR h (.fault "read_next_ext_header: raw_data_len < 2") else
  liftR h (rdU16 "read_next_ext_header" h.raw (h.raw.length - 2)) >>= fun len =>
  if _hz : len = 0 then pure (h, inp)
  else if len > Gen.level3MaxHeaderLen then failH h
  else realloc o .hdrRealloc >>= fun ok =>
  if ok = false then failH h
  else if _hlen : inp.length < len then failH h
  else
    let h' := { h with raw := h.raw ++ inp.take len }
    if h'.compressedLength < len then failH h'
    else if len < 3 then failH h'
    else readL1ExtA o { h' with compressedLength := h'.compressedLength - len } (inp.drop len)
termination_by inp.length
decreasing_by simp; omega

/-! ### level 0 / 1 -/

/-- `split_header_filename`: `strdup` of the part after the last '/' -/
def splitFilenameA (o : Oracle) (h : Hdr) : AM Hdr :=
  match h.filename with
  | none => pure h
  | some f =>
    if f.contains 0x2f then do
      let ok ← malloc o .splitStrdup
      if ok then pure (splitFilename h) else failH h
    else pure h

/-- `process_level0_path`: `malloc` of the name, then `split_header_filename` -/
def level0PathA (o : Oracle) (h : Hdr) (data : Bytes) : AM Hdr :=
  if data.length = 0 then pure h
  else do
    let ok ← malloc o .l0Filename
    if ok then
      splitFilenameA o { h with filename := some (cstr (data.map (fun b => if b = 0x5c then 0x2f else b))) }
    else failH h

def decodeLevel0A (o : Oracle) (mk : Nat → Nat) (h : Hdr) (inp : Bytes) : AM (Hdr × Bytes) := do
  let headerLen ← liftR h (rdU8 "l0: RAW_DATA(0)" h.raw 0)
  let csum ← liftR h (rdU8 "l0: RAW_DATA(1)" h.raw 1)
  let minLen := if h.level = 0 then Gen.level0MinHeaderLen else Gen.level1MinHeaderLen
  if headerLen < minLen then failH h
  if headerLen + 2 < h.raw.length then liftR h (.fault "l0: header_len + 2 - raw_data_len underflow")
  let (h, inp) ← extendA o h inp (headerLen + 2 - h.raw.length)
  if sumBytes (h.raw.drop 2) % 256 ≠ csum then failH h
  let method ← liftR h (rdSlice "l0: method" h.raw 2 5)
  let clen ← liftR h (rdU32 "l0: compressed_length" h.raw 7)
  let len ← liftR h (rdU32 "l0: length" h.raw 11)
  let ft ← liftR h (rdU32 "l0: ftime" h.raw 15)
  let pathLen ← liftR h (rdU8 "l0: path_len" h.raw 21)
  if minLen + pathLen > headerLen then failH h
  let os ← if h.level = 0 then pure 0 else liftR h (rdU8 "l1: os_type" h.raw (24 + pathLen))
  let name ← liftR h (rdSlice "l0: path" h.raw 22 pathLen)
  let h := { h with method := method, compressedLength := clen, length := len,
                    timestamp := mk ft, osType := os }
  let h ← level0PathA o h name
  let crc ← liftR h (rdU16 "l0: crc" h.raw (22 + pathLen))
  let h := { h with crc := crc }
  if h.level = 0 ∧ headerLen > Gen.level0MinHeaderLen + pathLen then
    let h ← liftR h (level0ExtArea h (Gen.level0MinHeaderLen + 2 + pathLen)
              (headerLen - Gen.level0MinHeaderLen - pathLen))
    pure (h, inp)
  else pure (h, inp)

def decodeLevel1A (o : Oracle) (mk : Nat → Nat) (h : Hdr) (inp : Bytes) : AM (Hdr × Bytes) := do
  let (h, inp) ← decodeLevel0A o mk h inp
  let start := h.raw.length - 2
  let (h, inp) ← readL1ExtA o h inp
  let h ← decodeExtendedHeadersA o h start
  pure (h, inp)

def decodeLevel2A (o : Oracle) (h : Hdr) (inp : Bytes) : AM (Hdr × Bytes) := do
  let headerLen ← liftR h (rdU16 "l2: header_len" h.raw 0)
  if headerLen < Gen.level2HeaderLen then failH h
  if headerLen < h.raw.length then liftR h (.fault "l2: header_len - raw_data_len underflow")
  let (h, inp) ← extendA o h inp (headerLen - h.raw.length)
  let method ← liftR h (rdSlice "l2: method" h.raw 2 5)
  let clen ← liftR h (rdU32 "l2: compressed_length" h.raw 7)
  let len ← liftR h (rdU32 "l2: length" h.raw 11)
  let ts ← liftR h (rdU32 "l2: timestamp" h.raw 15)
  let crc ← liftR h (rdU16 "l2: crc" h.raw 21)
  let os ← liftR h (rdU8 "l2: os_type" h.raw 23)
  let h := { h with method := method, compressedLength := clen, length := len, timestamp := ts,
                    crc := crc, osType := os }
  let (h, inp) ← if os = 0x4b then extendA o h inp 2 else pure (h, inp)
  let h ← decodeExtendedHeadersA o h 24
  pure (h, inp)

def decodeLevel3A (o : Oracle) (h : Hdr) (inp : Bytes) : AM (Hdr × Bytes) := do
  let ws ← liftR h (rdU16 "l3: word size" h.raw 0)
  if ws ≠ 4 then failH h
  if Gen.level3HeaderLen < h.raw.length then liftR h (.fault "l3: 32 - raw_data_len underflow")
  let (h, inp) ← extendA o h inp (Gen.level3HeaderLen - h.raw.length)
  let headerLen ← liftR h (rdU32 "l3: header_len" h.raw 24)
  if headerLen > Gen.level3MaxHeaderLen ∨ headerLen < h.raw.length then failH h
  let (h, inp) ← extendA o h inp (headerLen - h.raw.length)
  let method ← liftR h (rdSlice "l3: method" h.raw 2 5)
  let clen ← liftR h (rdU32 "l3: compressed_length" h.raw 7)
  let len ← liftR h (rdU32 "l3: length" h.raw 11)
  let ts ← liftR h (rdU32 "l3: timestamp" h.raw 15)
  let crc ← liftR h (rdU16 "l3: crc" h.raw 21)
  let os ← liftR h (rdU8 "l3: os_type" h.raw 23)
  let h := { h with method := method, compressedLength := clen, length := len, timestamp := ts,
                    crc := crc, osType := os }
  let h ← decodeExtendedHeadersA o h 28
  pure (h, inp)

/-! ### post-processing -/

/-- `parse_symlink`: the joined path is a temporary block that becomes `filename`; both error
returns `free` it -/
def parseSymlinkA (o : Oracle) (h : Hdr) : AM Hdr := do
  let ok ← malloc o .symFullPath          -- fullpath = lha_file_header_full_path(header)
  if ok = false then failH h
  let full := fullPath h
  match full.findIdx? (· == 0x7c) with
  | none => do release 1; failH h          -- free(fullpath); return 0
  | some p => do
    let ok ← malloc o .symTarget           -- header->symlink_target = strdup(p + 1)
    if ok = false then do release 1; failH h   -- free(fullpath); return 0
    freeStr h.path                         -- free(header->path)
    freeStr h.filename                     -- free(header->filename)
    splitFilenameA o { h with symlinkTarget := some (full.drop (p + 1)),
                              path := none, filename := some (full.take p) }

/-- the first step of `postProcess`: Amiga `-lh0-` directories -/
def ppAmiga (h : Hdr) : Hdr :=
  if h.osType = 0x41 ∧ methodIs h "-lh0-" ∧ h.length = 0 ∧ h.filename = none
  then { h with method := "-lhd-".toUTF8.toList } else h

/-- everything of `postProcess` after the name checks / `parse_symlink` (allocates nothing) -/
def ppTail (h : Hdr) : Res Hdr := do
  let h := if dosLikeOs h.osType then fixAllCaps h else h
  let h := { h with path := h.path.map PathFix.collapse }
  let h := if h.osType = 0x4b ∧ hasFlag h Gen.flagUnixPerms
           then { h with os9Perms := h.unixPerms, extraFlags := bor h.extraFlags Gen.flagOs9Perms } else h
  let h := if hasFlag h Gen.flagOs9Perms then os9ToUnix h else h
  if hasFlag h Gen.flagCommonCrc ∧ crcOf h.raw ≠ h.commonCrc then .fail
  let h := if h.level = 1 ∧ h.osType = 0x20 ∧ methodIs h "-lh7-"
           then { h with method := "-lk7-".toUTF8.toList } else h
  pure h

def postProcessA (o : Oracle) (h : Hdr) : AM Hdr := do
  let h := ppAmiga h
  let h ←
    if !methodIs h "-lhd-" then
      (if h.filename = none then failH h else pure h)
    else if hasFlag h Gen.flagUnixPerms ∧ (h.path ≠ none ∨ h.filename ≠ none)
            ∧ h.unixPerms &&& 0o170000 = 0o120000 then
      parseSymlinkA o h
    else
      (if h.path = none then failH h else pure h)
  liftR h (ppTail h)

/-- the body of `lha_file_header_read` after the `calloc` -/
def readBodyA (o : Oracle) (mk : Nat → Nat) (inp : Bytes) : AM (Hdr × Bytes) := do
  let (h, inp) ← liftR {} (extend {} inp Gen.commonHeaderLen)
  let lvl ← liftR h (rdU8 "raw_data[20]" h.raw 20)
  let h := { h with level := lvl }
  let (h, inp) ←
    if lvl = 0 then decodeLevel0A o mk h inp
    else if lvl = 1 then decodeLevel1A o mk h inp
    else if lvl = 2 then decodeLevel2A o h inp
    else if lvl = 3 then decodeLevel3A o h inp
    else failH h
  let h ← postProcessA o h
  pure (h, inp)

/-- `lha_file_header_read(stream)` after its `calloc` succeeded (the block is already counted in
`Heap.live`): any error goes to `fail:` = `lha_file_header_free(header)`, which frees the five
strings that are set and the object itself. -/
def readRestA (o : Oracle) (mk : Nat → Nat) (inp : Bytes) : AM (Hdr × Bytes) := fun hp =>
  match readBodyA o mk inp hp with
  | .ok r hp' => .ok r hp'
  | .fail h hp' => .fail h { hp' with live := hp'.live - (1 + nstr h) }
  | .fault w => .fault w

/-- `lha_file_header_read(stream)`: `calloc` of the header object (NULL: return NULL, nothing is
held), then `readRestA`. -/
def readA (o : Oracle) (mk : Nat → Nat) (inp : Bytes) : AM (Hdr × Bytes) := fun hp =>
  if o hp.n then .fail {} { hp with n := hp.n + 1, failed := Site.hdrCalloc :: hp.failed }
  else readRestA o mk inp { hp with n := hp.n + 1, live := hp.live + 1 }

end LhasaV.Alloc
