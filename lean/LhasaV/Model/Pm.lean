import LhasaV.Model.Tree
import LhasaV.Model.Ring
import LhasaV.Gen.Decoders
/-!
Models of `lib/pma_common.c`, `lib/pm1_decoder.c`, `lib/pm2_decoder.c`.
Tables (`copy_ranges`, `byte_ranges`, `byte_decode_trees`, `history_decode`,
`copy_decode`, the initial history list) come from `Gen`; every table access is
checked against the table's real length.
-/
namespace LhasaV

namespace Pma

/-- `HistoryLinkedList`: `prev`/`next` per byte value (both `uint8_t`) and the head -/
structure Hist where
  prev : Array Nat
  next : Array Nat
  head : Nat
deriving Repr

/-- `init_history_list` (the resulting structure is extracted from the compiled C) -/
def initHist : Hist :=
  { prev := (Gen.pmaInitHistory.map (·.1)).toArray, next := (Gen.pmaInitHistory.map (·.2)).toArray,
    head := Gen.pmaInitHead }

def walkPrev (h : Hist) : Nat → Nat → Res Nat
  | 0, code => .ok code
  | k+1, code => match h.prev[code]? with
    | some c => walkPrev h k c
    | none => .fault "history[code].prev"

def walkNext (h : Hist) : Nat → Nat → Res Nat
  | 0, code => .ok code
  | k+1, code => match h.next[code]? with
    | some c => walkNext h k c
    | none => .fault "history[code].next"

/-- `find_in_history_list(list, count)`, `count` a `uint8_t` -/
def find (h : Hist) (count : Nat) : Res Nat :=
  if count < 128 then walkPrev h count h.head else walkNext h (256 - count) h.head

def geta (a : Array Nat) (site : String) (i : Nat) : Res Nat :=
  match a[i]? with | some v => .ok v | none => .fault site

def seta (a : Array Nat) (site : String) (i v : Nat) : Res (Array Nat) :=
  if i < a.size then .ok (a.setIfInBounds i v) else .fault site

/-- `update_history_list(list, b)` -/
def update (h : Hist) (b : Nat) : Res Hist := do
  if h.head = b then return h
  let nNext ← geta h.next "history[b].next" b
  let nPrev ← geta h.prev "history[b].prev" b
  let prev ← seta h.prev "history[node->next].prev" nNext nPrev
  let next ← seta h.next "history[node->prev].next" nPrev nNext
  -- old_head = &history[head]
  let prev ← seta prev "node->prev" b h.head
  let ohNext ← geta next "old_head->next" h.head
  let next ← seta next "node->next" b ohNext
  -- re-read old_head->next (b may be the head's neighbour)
  let ohNext ← geta next "old_head->next" h.head
  let prev ← seta prev "history[old_head->next].prev" ohNext b
  let next ← seta next "old_head->next" h.head b
  pure { prev := prev, next := next, head := b }

/-- `decode_variable_length(reader, table, header)`: `table[header]` is a checked access -/
def decodeVarLen (site : String) (table : List (Nat × Nat)) (r : Bits) (header : Nat) :
    Res (Option Nat × Bits) :=
  match table[header]? with
  | none => .fault site
  | some (off, nbits) =>
    let p := r.readBits nbits
    .ok (p.1.map (· + off), p.2)

end Pma

/-! ## -pm2- -/
namespace Pm2

inductive TreeState where
  | unbuilt | build1 | build2 | build3 | continuing
deriving Repr, BEq, DecidableEq

structure St where
  bits : Bits
  treeState : TreeState := .unbuilt
  rebuildRemaining : Nat := 0
  ring : Array UInt8
  pos : Nat := 0
  hist : Pma.Hist
  codeTree : Array Nat
  needOffsetTree : Bool := false       -- calloc'd: 0
  offsetTree : Array Nat

abbrev lb := Gen.pm2LeafBit

def init (src : Src) : St :=
  { bits := { src := src }, ring := Array.replicate Gen.pm2RingCap 0x20, hist := Pma.initHist,
    codeTree := Tree.initTree lb Gen.pm2CodeTreeCap, offsetTree := Tree.initTree lb Gen.pm2OffsetTreeCap }

/-- the loop of `read_code_tree` over `i < num_codes`; `code_lengths[31]` -/
def codeLenLoop (minLen lengthBits : Nat) : Nat → Nat → Array Nat → Bits → Res (Option (Array Nat) × Bits)
  | 0, _, lens, r => .ok (some lens, r)
  | k+1, i, lens, r =>
    let p := r.readBits lengthBits
    match p.1 with
    | none => .ok (none, p.2)
    | some v =>
      if i < 31 then
        codeLenLoop minLen lengthBits k (i + 1)
          (lens.setIfInBounds i (if v = 0 then 0 else (minLen + v - 1) % 256)) p.2
      else .fault "pm2 read_code_tree: code_lengths[i]"

/-- `read_code_tree`; the return value is ignored by the caller, only the state matters -/
def readCodeTree (s : St) : Res St :=
  let a := s.bits.readBits 5
  let b := a.2.readBits 3
  match a.1, b.1 with
  | some numCodes, some minLen =>
    let s := { s with bits := b.2,
                      needOffsetTree := decide (numCodes ≥ 10) && !(numCodes == 29 && minLen == 0) }
    if minLen = 0 then
      .ok { s with codeTree := Tree.setSingle lb s.codeTree ((numCodes : Int) - 1) }
    else
      let c := s.bits.readBits 3
      match c.1 with
      | none => .ok { s with bits := c.2 }
      | some lengthBits =>
        (codeLenLoop minLen lengthBits numCodes 0 (Array.replicate 31 0) c.2) >>= fun t =>
        match t.1 with
        | none => .ok { s with bits := t.2 }
        | some lens =>
          let bt := Tree.buildTree lb s.codeTree Gen.pm2CodeTreeElements (lens.toList.take numCodes)
          if bt.2 then .fault "pm2 build_tree(code_tree): write outside the table"
          else .ok { s with bits := t.2, codeTree := bt.1 }
  | _, _ => .ok { s with bits := b.2 }

/-- the loop of `read_offset_tree`; `offset_lengths[8]` -/
def offLenLoop : Nat → Nat → Array Nat → Nat → Nat → Bits → Res (Option (Array Nat × Nat × Nat) × Bits)
  | 0, _, lens, single, n, r => .ok (some (lens, single, n), r)
  | k+1, off, lens, single, n, r =>
    let p := r.readBits 3
    match p.1 with
    | none => .ok (none, p.2)
    | some len =>
      if off < 8 then
        if len ≠ 0 then offLenLoop k (off + 1) (lens.setIfInBounds off len) off (n + 1) p.2
        else offLenLoop k (off + 1) (lens.setIfInBounds off len) single n p.2
      else .fault "pm2 read_offset_tree: offset_lengths[off]"

/-- `read_offset_tree(decoder, num_offsets)` -/
def readOffsetTree (s : St) (numOffsets : Nat) : Res St :=
  if !s.needOffsetTree then .ok s else
  (offLenLoop numOffsets 0 (Array.replicate 8 0) 0 0 s.bits) >>= fun t =>
  match t.1 with
  | none => .ok { s with bits := t.2 }
  | some (lens, single, n) =>
    if n = 1 then .ok { s with bits := t.2, offsetTree := Tree.setSingle lb s.offsetTree single }
    else
      let bt := Tree.buildTree lb s.offsetTree Gen.pm2OffsetTreeElements (lens.toList.take numOffsets)
      if bt.2 then .fault "pm2 build_tree(offset_tree): write outside the table"
      else .ok { s with bits := t.2, offsetTree := bt.1 }

/-- `rebuild_tree` -/
def rebuildTree (s : St) : Res St :=
  match s.treeState with
  | .unbuilt =>
    (readCodeTree s) >>= fun s => (readOffsetTree s 5) >>= fun s =>
    .ok { s with treeState := .build1, rebuildRemaining := 1024 }
  | .build1 =>
    (readOffsetTree s 6) >>= fun s => .ok { s with treeState := .build2, rebuildRemaining := 1024 }
  | .build2 =>
    (readOffsetTree s 7) >>= fun s => .ok { s with treeState := .build3, rebuildRemaining := 2048 }
  | .build3 =>
    let p := s.bits.readBit
    let s := { s with bits := p.2 }
    (if p.1 = some 1 then readCodeTree s else .ok s) >>= fun s =>
    (readOffsetTree s 8) >>= fun s => .ok { s with treeState := .continuing, rebuildRemaining := 4096 }
  | .continuing =>
    let p := s.bits.readBit
    let s := { s with bits := p.2 }
    (if p.1 = some 1 then (readCodeTree s) >>= fun s => readOffsetTree s 8 else .ok s) >>= fun s =>
    .ok { s with rebuildRemaining := 4096 }

/-- `output_byte` -/
def outputByte (s : St) (b : UInt8) : Res St :=
  if s.pos < s.ring.size then
    let s := { s with ring := s.ring.setIfInBounds s.pos b, pos := (s.pos + 1) % Gen.pm2RingSize }
    (Pma.update s.hist b.toNat) >>= fun h =>
    let s := { s with hist := h, rebuildRemaining := s.rebuildRemaining - 1 }
    if s.rebuildRemaining = 0 then rebuildTree s else .ok s
  else .fault "pm2: ringbuf[ringbuf_pos] write"

/-- the copy loop of `copy_from_history` (tables may be re-read in the middle) -/
def copyLoop : Nat → Nat → St → List UInt8 → Res (St × List UInt8)
  | 0, _, s, acc => .ok (s, acc)
  | k+1, src, s, acc =>
    match s.ring[src % Gen.pm2RingSize]? with
    | none => .fault "pm2: ringbuf[pos] read"
    | some b => (outputByte s b) >>= fun s' => copyLoop k (src + 1) s' (b :: acc)

/-- `history_get_offset`: `none` = −1 -/
def historyGetOffset (s : St) (code : Nat) : Res (Option Nat × Bits) :=
  if code = 0 then
    let p := s.bits.readBits 6
    .ok (p.1, p.2)
  else if code < 20 then
    (Tree.readFromTree lb s.offsetTree s.bits) >>= fun t =>
    match t.1 with
    | none => .ok (none, t.2)
    | some v =>
      if v = 0 then
        let p := t.2.readBits 6
        .ok (p.1, p.2)
      else
        let p := t.2.readBits (v + 5)
        .ok (p.1.map (· + 2 ^ (v + 5)), p.2)
  else .ok (some 0, s.bits)

/-- `lha_pm2_decoder_read` -/
def read (s : St) : Res (List UInt8 × St) :=
  (if s.treeState == .unbuilt then
     let p := s.bits.readBit
     rebuildTree { s with bits := p.2 }
   else .ok s) >>= fun s =>
  (Tree.readFromTree lb s.codeTree s.bits) >>= fun t =>
  match t.1 with
  | none => .ok ([], { s with bits := t.2 })
  | some code =>
    let s := { s with bits := t.2 }
    if code < 8 then
      -- read_single_byte
      (Pma.decodeVarLen "pm2: history_decode[code]" Gen.pm2HistoryDecode s.bits code) >>= fun d =>
      match d.1 with
      | none => .ok ([], { s with bits := d.2 })
      | some off =>
        (Pma.find s.hist (off % 256)) >>= fun b =>
        (outputByte { s with bits := d.2 } (UInt8.ofNat b)) >>= fun s' => .ok ([UInt8.ofNat b], s')
    else
      -- copy_from_history(code - 8)
      let c := code - 8
      -- history_get_count
      (if c < 15 then (.ok (some (c + 2), s.bits) : Res (Option Nat × Bits))
       else if c - 15 < Gen.pm2CopyDecode.length then
         Pma.decodeVarLen "pm2: copy_decode[code - 15]" Gen.pm2CopyDecode s.bits (c - 15)
       else .ok (none, s.bits)) >>= fun cnt =>
      (historyGetOffset { s with bits := cnt.2 } c) >>= fun off =>
      let s := { s with bits := off.2 }
      match cnt.1, off.1 with
      | some toCopy, some offset =>
        if toCopy > Gen.pm2OutputBufferSize then .ok ([], s)
        else
          let start := (s.pos + Gen.pm2RingSize + 4294967296 - 1 - offset) % Gen.pm2RingSize
          (copyLoop toCopy start s []) >>= fun r => .ok (r.2.reverse, r.1)
      | _, _ => .ok ([], s)

def dec : Dec := { σ := St, init := init, read := read, src := fun s => s.bits.src }

end Pm2

/-! ## -pm1- -/
namespace Pm1

structure St where
  bits : Bits
  outPos : Nat := 0                 -- output_stream_pos
  tree : Option Nat := none         -- byte_decode_tree: row index, NULL before the start header
  ring : Array UInt8
  pos : Nat := 0
  hist : Pma.Hist

def init (src : Src) : St :=
  -- memset(decoder, 0, sizeof): the ring starts as zeros
  { bits := { src := { src with zeroFill := true } }, ring := Array.replicate Gen.pm1RingCap 0,
    hist := Pma.initHist }

/-- `outputted_byte` -/
def outputted (s : St) (b : UInt8) : Res St :=
  if s.pos < s.ring.size then
    (Pma.update s.hist b.toNat) >>= fun h =>
    .ok { s with ring := s.ring.setIfInBounds s.pos b, pos := (s.pos + 1) % Gen.pm1RingSize,
                 hist := h, outPos := (s.outPos + 1) % 4294967296 }
  else .fault "pm1: ringbuf[ringbuf_pos] write"

/-- `read_copy_byte_count`: `none` = −1 -/
def readCopyByteCount (r : Bits) : Option Nat × Bits :=
  let a := r.readBits 2
  match a.1 with
  | none => (none, a.2)
  | some x =>
    if x < 3 then (some (x + 3), a.2) else
    let b := a.2.readBits 3
    match b.1 with
    | none => (none, b.2)
    | some x =>
      if x < 5 then (some (x + 6), b.2)
      else if x = 5 then let c := b.2.readBits 2; (c.1.map (· + 11), c.2)
      else if x = 6 then let c := b.2.readBits 3; (c.1.map (· + 15), c.2)
      else
        let c := b.2.readBits 6
        match c.1 with
        | none => (none, c.2)
        | some x =>
          if x < 62 then (some (x + 23), c.2)
          else if x = 62 then let d := c.2.readBits 5; (d.1.map (· + 85), d.2)
          else let d := c.2.readBits 7; (d.1.map (· + 117), d.2)

/-- `read_bit_after_threshold` -/
def bitAfter (s : St) (r : Bits) (threshold deflt : Nat) : Option Nat × Bits :=
  if s.outPos ≥ threshold then r.readBit else (some deflt, r)

/-- `read_copy_type_range`: `none` = −1 -/
def readCopyTypeRange (s : St) : Option Nat × Bits :=
  let a := s.bits.readBit
  match a.1 with
  | none => (none, a.2)
  | some 0 =>
    let b := bitAfter s a.2 576 0
    match b.1 with
    | none => (none, b.2)
    | some x => if x ≠ 0 then (some 4, b.2) else bitAfter s b.2 64 0
  | some _ =>
    let b := bitAfter s a.2 64 1
    match b.1 with
    | none => (none, b.2)
    | some 0 => (some 3, b.2)
    | some _ =>
      let c := bitAfter s b.2 2624 1
      match c.1 with
      | none => (none, c.2)
      | some x => if x ≠ 0 then (some 2, c.2) else (some 5, c.2)

/-- the position-dependent narrowing of the range index in `read_copy_command` -/
def narrow (outPos ri : Nat) : Nat :=
  if ri = 3 then (if outPos < 320 then 6 else 3)
  else if ri = 4 then
    (if outPos < 832 then 7 else if outPos < 1088 then 8 else if outPos < 1600 then 9 else 4)
  else if ri = 5 then
    (if outPos < 2880 then 10 else if outPos < 3136 then 11 else if outPos < 3648 then 12
     else if outPos < 4672 then 13 else if outPos < 6720 then 14 else 5)
  else ri

/-- the copy loop of `read_copy_command` -/
def copyLoop : Nat → Nat → St → List UInt8 → Res (St × List UInt8)
  | 0, _, s, acc => .ok (s, acc)
  | k+1, idx, s, acc =>
    match s.ring[idx]? with
    | none => .fault "pm1: ringbuf[copy_index] read"
    | some b => (outputted s b) >>= fun s' => copyLoop k ((idx + 1) % Gen.pm1RingSize) s' (b :: acc)

/-- `read_copy_command`: bytes written (empty = the C returned 0) -/
def readCopyCommand (s : St) : Res (List UInt8 × St) :=
  let a := readCopyTypeRange s
  match a.1 with
  | none => .ok ([], { s with bits := a.2 })
  | some ri =>
    let cnt : Option Nat × Bits := if ri < 2 then (some 2, a.2) else readCopyByteCount a.2
    match cnt.1 with
    | none => .ok ([], { s with bits := cnt.2 })
    | some count =>
      (Pma.decodeVarLen "pm1: copy_ranges[range_index]" Gen.pm1CopyRanges cnt.2 (narrow s.outPos ri)) >>= fun d =>
      let s := { s with bits := d.2 }
      match d.1 with
      | none => .ok ([], s)
      | some dist =>
        if dist ≥ s.outPos then .ok ([], s)
        else
          let idx := (s.pos + Gen.pm1RingSize - dist - 1) % Gen.pm1RingSize
          (copyLoop count idx s []) >>= fun r => .ok (r.2.reverse, r.1)

/-- `read_byte_decode_index`: walk inside `byte_decode_trees` from `row`. Every
step consumes one input bit; `fuel` bounds the walk (pm1 input never ends, so a
table whose walk does not reach a leaf would make the C loop for ever: reported
as a fault). -/
def treeWalk : Nat → Nat → Bits → Res (Option Nat × Bits)
  | 0, _, _ => .fault "pm1 read_byte_decode_index: no leaf reached (would not terminate)"
  | k+1, ptr, r =>
    let p := r.readBit
    match p.1 with
    | none => .ok (none, p.2)
    | some bit =>
      match Gen.pm1ByteDecodeTrees[ptr]? with
      | none => .fault "pm1: byte_decode_trees *ptr"
      | some v =>
        let child := if bit = 0 then (v / 16) % 16 else v % 16
        if child ≥ 10 then .ok (some (child - 10), p.2)
        else treeWalk k (ptr + child) p.2

def readByteDecodeIndex (s : St) (row : Nat) : Res (Option Nat × Bits) :=
  match Gen.pm1ByteDecodeTrees[row * Gen.pm1TreeRowLen]? with
  | none => .fault "pm1: byte_decode_trees[index]"
  | some 0 => .ok (some 0, s.bits)
  | some _ => treeWalk 64 (row * Gen.pm1TreeRowLen) s.bits

/-- `read_byte`: `none` = −1 -/
def readByte (s : St) (row : Nat) : Res (Option Nat × Bits) :=
  (readByteDecodeIndex s row) >>= fun i =>
  match i.1 with
  | none => .ok (none, i.2)
  | some index =>
    (Pma.decodeVarLen "pm1: byte_ranges[index]" Gen.pm1ByteRanges i.2 index) >>= fun c =>
    match c.1 with
    | none => .ok (none, c.2)
    | some count => (Pma.find s.hist (count % 256)) >>= fun b => .ok (some b, c.2)

/-- `read_byte_block_count`: 0 = failure -/
def readByteBlockCount (r : Bits) : Nat × Bits :=
  let a := r.readBits 2
  match a.1 with
  | none => (0, a.2)
  | some x =>
    if x < 3 then (x + 1, a.2) else
    let b := a.2.readBits 3
    match b.1 with
    | none => (0, b.2)
    | some x =>
      if x < 7 then (x + 4, b.2) else
      let c := b.2.readBits 4
      match c.1 with
      | none => (0, c.2)
      | some x =>
        if x < 14 then (x + 11, c.2)
        else if x = 14 then let d := c.2.readBits 6; ((d.1.map (· + 25)).getD 0, d.2)
        else let d := c.2.readBits 7; ((d.1.map (· + 89)).getD 0, d.2)

/-- the byte loop of `read_byte_block` -/
def byteLoop (row : Nat) : Nat → St → List UInt8 → Res (Option (List UInt8) × St)
  | 0, s, acc => .ok (some acc, s)
  | k+1, s, acc =>
    (readByte s row) >>= fun b =>
    match b.1 with
    | none => .ok (none, { s with bits := b.2 })
    | some v => (outputted { s with bits := b.2 } (UInt8.ofNat v)) >>= fun s' =>
                byteLoop row k s' (UInt8.ofNat v :: acc)

/-- `read_byte_block` -/
def readByteBlock (s : St) (row : Nat) : Res (List UInt8 × St) :=
  let n := readByteBlockCount s.bits
  if n.1 = 0 then .ok ([], { s with bits := n.2 }) else
  (byteLoop row n.1 { s with bits := n.2 } []) >>= fun r =>
  match r.1 with
  | none => .ok ([], r.2)
  | some acc =>
    if n.1 = Gen.pm1MaxByteBlockLen then .ok (acc.reverse, r.2)
    else
      (readCopyCommand r.2) >>= fun c =>
      if c.1 = [] then .ok ([], c.2) else .ok (acc.reverse ++ c.1, c.2)

/-- `lha_pm1_read` -/
def read (s : St) : Res (List UInt8 × St) :=
  let hdr : Option (Nat × St) :=
    match s.tree with
    | some row => some (row, s)
    | none =>
      let p := s.bits.readBits 5
      match p.1 with
      | none => none
      | some idx => some (idx, { s with bits := p.2, tree := some idx })
  match hdr with
  | none => .ok ([], s)
  | some (row, s) =>
    if row ≥ Gen.pm1TreeRows then .fault "pm1: byte_decode_trees[index] row" else
    let c := s.bits.readBit
    let s := { s with bits := c.2 }
    if c.1 = some 0 then readCopyCommand s else readByteBlock s row

def dec : Dec := { σ := St, init := init, read := read, src := fun s => s.bits.src }

end Pm1
end LhasaV
