import LhasaV.Model.Ring
import LhasaV.Gen.Decoders
/-!
Model of `lib/lh1_decoder.c` (-lh1-: adaptive Huffman over 314 symbols with
frequency groups, 4 KiB window, fixed code for the upper six offset bits).
Every array access is checked against the capacity taken from `Gen`.
-/
namespace LhasaV.Lh1

structure Node where
  leaf : Bool := false
  child : Nat := 0      -- child_index (15-bit field)
  parent : Nat := 0
  freq : Nat := 0       -- uint16
  group : Nat := 0
deriving Repr, Inhabited, BEq

structure St where
  bits : Bits
  ring : Array UInt8
  pos : Nat
  nodes : Array Node
  leafNodes : Array Nat
  groups : Array Nat
  numGroups : Nat
  groupLeader : Array Nat
  offsetLookup : Array Nat
  offsetLengths : Array Nat

abbrev numCodes := Gen.lh1NumCodes
abbrev numNodes := Gen.lh1NumTreeNodes

/-! checked accessors -/

def getNode (s : St) (site : String) (i : Nat) : Res Node :=
  match s.nodes[i]? with | some n => .ok n | none => .fault ("nodes[] " ++ site)

def setNode (s : St) (site : String) (i : Nat) (n : Node) : Res St :=
  if i < s.nodes.size then .ok { s with nodes := s.nodes.setIfInBounds i n } else .fault ("nodes[] " ++ site)

def getA (a : Array Nat) (site : String) (i : Nat) : Res Nat :=
  match a[i]? with | some n => .ok n | none => .fault site

def setLeafNode (s : St) (site : String) (i v : Nat) : Res St :=
  if i < s.leafNodes.size then .ok { s with leafNodes := s.leafNodes.setIfInBounds i v }
  else .fault ("leaf_nodes[] " ++ site)

def setGroupLeader (s : St) (site : String) (i v : Nat) : Res St :=
  if i < s.groupLeader.size then .ok { s with groupLeader := s.groupLeader.setIfInBounds i v }
  else .fault ("group_leader[] " ++ site)

/-- `alloc_group` -/
def allocGroup (s : St) : Res (Nat × St) := do
  let g ← getA s.groups "groups[num_groups] (alloc_group)" s.numGroups
  pure (g, { s with numGroups := s.numGroups + 1 })

/-- `free_group` -/
def freeGroup (s : St) (g : Nat) : Res St :=
  if s.numGroups = 0 then .fault "free_group: num_groups underflow"
  else if s.numGroups - 1 < s.groups.size then
    .ok { s with numGroups := s.numGroups - 1, groups := s.groups.setIfInBounds (s.numGroups - 1) g }
  else .fault "groups[num_groups] (free_group)"

/-- `init_groups` -/
def initGroups (s : St) : St :=
  { s with groups := (Array.range Gen.lh1GroupsCap).map id |>.extract 0 (max numNodes Gen.lh1GroupsCap)
           , numGroups := 0 }

/-- first loop of `init_tree`: the leaves, from the top index downwards -/
def initLeaves (leafGroup : Nat) : Nat → Nat → Nat → St → Res St
  | 0, _, _, s => .ok s
  | k+1, i, nodeIndex, s => do
    let s ← setNode s "init_tree leaf" nodeIndex { leaf := true, child := i, freq := 1, group := leafGroup }
    let s ← setGroupLeader s "init_tree leaf" leafGroup nodeIndex
    let s ← setLeafNode s "init_tree" i nodeIndex
    initLeaves leafGroup k (i + 1) (nodeIndex - 1) s

/-- second loop of `init_tree`: the branch nodes, `k` = node_index + 1 -/
def initBranches : Nat → Nat → St → Res St
  | 0, _, s => .ok s
  | k+1, child, s => do
    let nodeIndex := k
    let c1 ← getNode s "init_tree nodes[child]" child
    if child = 0 then .fault "init_tree: nodes[child - 1] with child = 0"
    let c2 ← getNode s "init_tree nodes[child-1]" (child - 1)
    let s ← setNode s "init_tree parent" child { c1 with parent := nodeIndex }
    let s ← setNode s "init_tree parent" (child - 1) { c2 with parent := nodeIndex }
    let freq := (c1.freq + c2.freq) % 65536
    let nxt ← getNode s "init_tree nodes[node_index+1]" (nodeIndex + 1)
    let old ← getNode s "init_tree node" nodeIndex
    let (g, s) ← if freq = nxt.freq then pure (nxt.group, s) else allocGroup s
    let s ← setNode s "init_tree branch" nodeIndex { old with leaf := false, child := child, freq := freq, group := g }
    let s ← setGroupLeader s "init_tree branch" g nodeIndex
    initBranches k (child - 2) s

/-- `fill_offset_range` + `init_offset_table`, as the same two loops -/
def initOffsetTable (s : St) : Res St := do
  let mut code := 0
  let mut offset := 0
  let mut lookup := s.offsetLookup
  let mut lengths := s.offsetLengths
  let mut i := 0
  for cnt in Gen.lh1OffsetFdist do
    let len := i + Gen.lh1MinOffsetLength
    let iterbit := (2 ^ (8 - len)) % 256
    for _ in [0:cnt] do
      -- fill_offset_range(code, iterbit - 1, offset): for (i = 0; (i & ~mask) == 0; ++i) lookup[code | i] = offset
      let mask := (iterbit + 255) % 256
      for k in [0:mask + 1] do
        let idx := code ||| k
        if idx < lookup.size then lookup := lookup.setIfInBounds idx (offset % 256)
        else .fault "offset_lookup[code | i]"
      if offset % 256 < lengths.size then lengths := lengths.setIfInBounds (offset % 256) (len % 256)
      else .fault "offset_lengths[offset]"
      code := (code + iterbit) % 256
      offset := offset + 1
    i := i + 1
  pure { s with offsetLookup := lookup, offsetLengths := lengths }

def init (src : Src) : Res St := do
  let s : St := { bits := { src := src }, ring := Array.replicate Gen.lh1RingCap 0x20, pos := 0,
                  nodes := Array.replicate Gen.lh1NodesCap {}, leafNodes := Array.replicate Gen.lh1LeafNodesCap 0,
                  groups := Array.replicate Gen.lh1GroupsCap 0, numGroups := 0,
                  groupLeader := Array.replicate Gen.lh1GroupLeaderCap 0,
                  offsetLookup := Array.replicate Gen.lh1OffsetLookupCap 0,
                  offsetLengths := Array.replicate Gen.lh1OffsetLengthsCap 0 }
  let s := { s with groups := Array.range Gen.lh1GroupsCap, numGroups := 0 }
  let (lg, s) ← allocGroup s
  let s ← initLeaves lg numCodes 0 (numNodes - 1) s
  let s ← initBranches (numNodes - numCodes) (numNodes - 1) s
  initOffsetTable s

/-- the part of `make_group_leader` after the swap: re-point children / leaf table -/
def fixLinks (s : St) (idx : Nat) : Res St := do
  let n ← getNode s "make_group_leader" idx
  if n.leaf then setLeafNode s "make_group_leader" n.child idx
  else
    let c1 ← getNode s "make_group_leader child" n.child
    if n.child = 0 then .fault "make_group_leader: nodes[child_index - 1] with child_index = 0"
    let c2 ← getNode s "make_group_leader child-1" (n.child - 1)
    let s ← setNode s "make_group_leader child" n.child { c1 with parent := idx }
    -- re-read: child and child-1 are distinct entries
    setNode s "make_group_leader child-1" (n.child - 1) { c2 with parent := idx }

/-- `make_group_leader` -/
def makeGroupLeader (s : St) (nodeIndex : Nat) : Res (Nat × St) := do
  let node ← getNode s "make_group_leader node" nodeIndex
  let leaderIndex ← getA s.groupLeader "group_leader[group]" node.group
  if leaderIndex = nodeIndex then return (nodeIndex, s)
  let leader ← getNode s "make_group_leader leader" leaderIndex
  let s ← setNode s "swap" leaderIndex { leader with leaf := node.leaf, child := node.child }
  let s ← setNode s "swap" nodeIndex { node with leaf := leader.leaf, child := leader.child }
  let s ← fixLinks s nodeIndex
  let s ← fixLinks s leaderIndex
  pure (leaderIndex, s)

/-- `increment_node_freq` -/
def incrementNodeFreq (s : St) (nodeIndex : Nat) : Res St := do
  if nodeIndex = 0 then .fault "increment_node_freq: nodes[node_index - 1] with node_index = 0"
  let node0 ← getNode s "increment_node_freq node" nodeIndex
  let node := { node0 with freq := (node0.freq + 1) % 65536 }
  let s ← setNode s "increment_node_freq" nodeIndex node
  let other ← getNode s "increment_node_freq other" (nodeIndex - 1)
  let sameAsNext ←
    if nodeIndex < numNodes - 1 then do
      let nxt ← getNode s "increment_node_freq nodes[node_index+1]" (nodeIndex + 1)
      pure (node.group == nxt.group)
    else pure false
  if sameAsNext then
    let gl ← getA s.groupLeader "group_leader[node->group]" node.group
    let s ← setGroupLeader s "++group_leader" node.group ((gl + 1) % 65536)
    if node.freq = other.freq then
      setNode s "increment_node_freq" nodeIndex { node with group := other.group }
    else
      let (g, s) ← allocGroup s
      let s ← setNode s "increment_node_freq" nodeIndex { node with group := g }
      setGroupLeader s "increment_node_freq" g nodeIndex
  else
    if node.freq = other.freq then
      let s ← freeGroup s node.group
      setNode s "increment_node_freq" nodeIndex { node with group := other.group }
    else pure s

/-- first loop of `reconstruct_tree`: gather the leaves at the front, halving frequencies -/
def gatherLeaves : Nat → Nat → Nat → St → Res St
  | 0, _, _, s => .ok s
  | k+1, i, leaf, s => do
    let n ← getNode s "reconstruct_tree nodes[i]" i
    if n.leaf then
      let l ← getNode s "reconstruct_tree leaf" leaf
      let s ← setNode s "reconstruct_tree leaf" leaf
                { l with leaf := true, child := n.child, freq := ((n.freq + 1) % 65536) / 2 }
      gatherLeaves k (i + 1) (leaf + 1) s
    else gatherLeaves k (i + 1) leaf s

/-- `decoder->nodes[i] = *leaf; leaf_nodes[leaf->child_index] = i; --i; --leaf;` -/
def placeLeaf (s : St) (i leaf : Int) : Res St := do
  if leaf < 0 then .fault "reconstruct_tree: *leaf before nodes[0]"
  if i < 0 then .fault "reconstruct_tree: nodes[i] with i < 0"
  let l ← getNode s "reconstruct_tree *leaf" leaf.toNat
  let s ← setNode s "reconstruct_tree nodes[i]" i.toNat l
  setLeafNode s "reconstruct_tree" l.child i.toNat

/-- `while ((int) child - i < 2) { place; }` : at most 2 rounds -/
def placeWhileClose : Nat → Int → Int → Int → St → Res (Int × Int × St)
  | 0, i, leaf, _, s => .ok (i, leaf, s)
  | k+1, i, leaf, child, s =>
    if child - i < 2 then do
      let s ← placeLeaf s i leaf
      placeWhileClose k (i - 1) (leaf - 1) child s
    else .ok (i, leaf, s)

/-- `while (leaf >= nodes && freq >= leaf->freq) { place; }` -/
def placeWhileLighter : Nat → Int → Int → Nat → St → Res (Int × Int × St)
  | 0, i, leaf, _, s => .ok (i, leaf, s)
  | k+1, i, leaf, freq, s =>
    if leaf ≥ 0 then do
      let l ← getNode s "reconstruct_tree leaf->freq" leaf.toNat
      if freq ≥ l.freq then
        let s ← placeLeaf s i leaf
        placeWhileLighter k (i - 1) (leaf - 1) freq s
      else pure (i, leaf, s)
    else .ok (i, leaf, s)

/-- the `while (i >= 0)` loop of `reconstruct_tree`; every round lowers `i` -/
def rebuildLoop : Nat → Int → Int → Int → St → Res St
  | 0, _, _, _, s => .ok s
  | k+1, i, leaf, child, s =>
    if i ≥ 0 then do
      let (i, leaf, s) ← placeWhileClose (numNodes + 2) i leaf child s
      if child < 1 then .fault "reconstruct_tree: nodes[child - 1]"
      let c1 ← getNode s "reconstruct_tree nodes[child]" child.toNat
      let c2 ← getNode s "reconstruct_tree nodes[child-1]" (child.toNat - 1)
      let freq := c1.freq + c2.freq
      let (i, leaf, s) ← placeWhileLighter (numNodes + 2) i leaf freq s
      if i < 0 then .fault "reconstruct_tree: nodes[i] with i < 0 (branch)"
      let old ← getNode s "reconstruct_tree nodes[i]" i.toNat
      let s ← setNode s "reconstruct_tree branch" i.toNat
                { old with leaf := false, freq := freq % 65536, child := child.toNat % 32768 }
      let c1 ← getNode s "reconstruct_tree nodes[child]" child.toNat
      let s ← setNode s "reconstruct_tree parent" child.toNat { c1 with parent := i.toNat }
      let c2 ← getNode s "reconstruct_tree nodes[child-1]" (child.toNat - 1)
      let s ← setNode s "reconstruct_tree parent" (child.toNat - 1) { c2 with parent := i.toNat }
      rebuildLoop k (i - 1) leaf (child - 2) s
    else .ok s

/-- last loop of `reconstruct_tree`: regroup by equal frequency -/
def regroup : Nat → Nat → Nat → St → Res St
  | 0, _, _, s => .ok s
  | k+1, i, group, s => do
    let n ← getNode s "regroup nodes[i]" i
    let prev ← getNode s "regroup nodes[i-1]" (i - 1)
    if n.freq = prev.freq then
      let s ← setNode s "regroup" i { n with group := prev.group }
      regroup k (i + 1) group s
    else
      let (g, s) ← allocGroup s
      let s ← setNode s "regroup" i { n with group := g }
      let s ← setGroupLeader s "regroup" g i
      regroup k (i + 1) g s

/-- `reconstruct_tree` -/
def reconstructTree (s : St) : Res St := do
  let s ← gatherLeaves numNodes 0 0 s
  let s ← rebuildLoop (numNodes + 1) (numNodes - 1 : Nat) (numCodes - 1 : Nat) (numNodes - 1 : Nat) s
  let s := { s with groups := Array.range Gen.lh1GroupsCap, numGroups := 0 }
  let (g, s) ← allocGroup s
  let n0 ← getNode s "reconstruct_tree nodes[0]" 0
  let s ← setNode s "reconstruct_tree nodes[0]" 0 { n0 with group := g }
  let s ← setGroupLeader s "reconstruct_tree" g 0
  regroup (numNodes - 1) 1 g s

/-- the `while (node_index != 0)` loop of `increment_for_code` -/
def climb : Nat → Nat → St → Res St
  | 0, _, _ => .fault "increment_for_code: parent chain does not reach the root (would not terminate)"
  | k+1, nodeIndex, s =>
    if nodeIndex = 0 then .ok s
    else do
      let (li, s) ← makeGroupLeader s nodeIndex
      let s ← incrementNodeFreq s li
      let n ← getNode s "increment_for_code parent" li
      climb k n.parent s

/-- `increment_for_code` -/
def incrementForCode (s : St) (code : Nat) : Res St := do
  let root ← getNode s "nodes[0]" 0
  let s ← if root.freq ≥ Gen.lh1TreeReorderLimit then reconstructTree s else pure s
  let root ← getNode s "nodes[0]" 0
  let s ← setNode s "++nodes[0].freq" 0 { root with freq := (root.freq + 1) % 65536 }
  let ni ← getA s.leafNodes "leaf_nodes[code]" code
  climb (numNodes + 1) ni s

/-- the walk of `read_code`; `fuel` = input bits available + 1 -/
def walk : Nat → Nat → St → Res (Option Nat × St)
  | 0, _, s => .ok (none, s)
  | k+1, nodeIndex, s => do
    let n ← getNode s "read_code nodes[node_index]" nodeIndex
    if n.leaf then pure (some n.child, s)
    else
      let p := s.bits.readBit
      match p.1 with
      | none => pure (none, { s with bits := p.2 })
      | some bit =>
        if n.child < bit then .fault "read_code: child_index - bit underflow"
        walk k (n.child - bit) { s with bits := p.2 }

/-- `read_offset`: `none` = failure -/
def readOffset (s : St) : Res (Option Nat × St) := do
  let f := s.bits.peek 8
  match f.1 with
  | none => pure (none, { s with bits := f.2 })
  | some future =>
    let offset ← getA s.offsetLookup "offset_lookup[future]" future
    let len ← getA s.offsetLengths "offset_lengths[offset]" offset
    let a := f.2.readBits len
    let b := a.2.readBits 6
    match b.1 with
    | none => pure (none, { s with bits := b.2 })
    | some o2 => pure (some (offset * 64 + o2), { s with bits := b.2 })

/-- `lha_lh1_read` -/
def read (s : St) : Res (List UInt8 × St) := do
  let (code?, s) ← walk (s.bits.bits + 8 * s.bits.src.remaining + 1) 0 s
  match code? with
  | none => pure ([], s)
  | some code =>
    let s ← incrementForCode s code
    if code < 256 then
      if s.pos < s.ring.size then
        pure ([UInt8.ofNat code], { s with ring := s.ring.setIfInBounds s.pos (UInt8.ofNat code),
                                            pos := (s.pos + 1) % Gen.lh1RingSize })
      else .fault "lh1: ringbuf[ringbuf_pos] write"
    else
      let (off?, s) ← readOffset s
      match off? with
      | none => pure ([], s)
      | some offset =>
        let count := code - 256 + Gen.lh1CopyThreshold
        let start := (s.pos + 4294967296 - offset + Gen.lh1RingSize - 1) % Gen.lh1RingSize
        let r ← Ring.copyLoop Gen.lh1RingSize count start s.ring s.pos []
        pure (r.2.2.reverse, { s with ring := r.1, pos := r.2.1 })

/-- as a `Dec`: the state is `Res St` so that an (impossible) init fault is kept -/
def dec : Dec :=
  { σ := Res St, init := init,
    read := fun rs => match rs with
      | .ok s => (read s) >>= fun r => .ok (r.1, .ok r.2)
      | .fail => .fail
      | .fault w => .fault w,
    src := fun rs => match rs with
      | .ok s => s.bits.src
      | _ => { data := #[] } }

end LhasaV.Lh1
