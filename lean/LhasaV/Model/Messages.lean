import LhasaV.Model.Extract
/-!
Model of what `lha t…` and `lha x…` / `lha e…` (and their dry-run forms `tn`, `xn`) write to
standard output and standard error, and of the process exit status: `src/extract.c`
(`progress_callback`, `print_filename`, `print_filename_brief`, `print_symlink_line`,
`test_archived_file_crc`, `check_parent_directory`, `make_parent_directories`, `prompt_user`,
`confirm_file_overwrite`, `file_exists`, `extract_archived_file`, `extract_archive_dry_run`,
`test_file_crc`, `extract_archive`) and `src/main.c` (`do_command`, `main`: exit status `!result`,
`exit(-1)` = 255 on the abort paths).

The progress bar is a function of three numbers.  `lha_decoder_monitor` is attached to the *inner*
decoder in `open_decoder`; by `WrapProps.monitor_reads_calls` the callback then sees the block
numbers `0, 1, …, ⌈p / bs⌉` one by one, where `p` is the final position of the inner decoder and
`bs` the block size of the method, and `total_blocks = ⌈length / bs⌉`.  So the callback's output is
`progressOutput quiet name op total last`.

The file-system effects are those of `Extract` (same helper functions); the loop here carries in
addition the two output streams and the per-member verdicts (`trace`).
-/
namespace LhasaV.Messages
open LhasaV LhasaV.Header LhasaV.Extract

def str (s : String) : Bytes := s.toUTF8.toList

/-- `safe_printf(fmt, …)` on the formatted string (header strings and arguments are NUL-free) -/
abbrev safe (s : Bytes) : Bytes := Safe.safeOutput s

def nl : Bytes := [0x0a]

def lhdName : Bytes := "-lhd-".toUTF8.toList

/-! ### the progress bar -/

/-- `MAX_PROGRESS_LEN` -/
def maxProgressLen : Nat := 58

/-- `print_filename(filename, status)`: `\r`, the sanitised name, `"\t- %s  "` -/
def printFilename (fn status : Bytes) : Bytes :=
  [0x0d] ++ safe fn ++ str "\t- " ++ status ++ str "  "

/-- `print_filename_brief(filename)`: `\r`, then `safe_printf("%s :", filename)` -/
def printFilenameBrief (fn : Bytes) : Bytes := [0x0d] ++ safe (fn ++ str " :")

/-- what one call `progress_callback(block, num_blocks, data)` writes -/
def progressCallback (quiet : Nat) (fn op : Bytes) (numBlocks block : Nat) : Bytes :=
  if quiet ≥ 2 then []
  else if quiet = 1 then (if block = 0 then printFilenameBrief fn else [])
  else
    let factor := 1 + numBlocks / maxProgressLen
    let shown := (numBlocks + factor - 1) / factor
    if block = 0 then
      printFilename fn op ++ List.replicate shown 0x2e ++ printFilename fn op
    else if (block + factor - 1) % factor = 0 then [0x6f]
    else []

/-- everything the callback writes when it is called with the blocks `0 … last` -/
def progressOutput (quiet : Nat) (fn op : Bytes) (numBlocks last : Nat) : Bytes :=
  (List.range' 0 (last + 1)).flatMap (progressCallback quiet fn op numBlocks)

/-- `(x + bs - 1) / bs` -/
def ceilDiv (x bs : Nat) : Nat := (x + bs - 1) / bs

/-- what the progress callback of one `lha_reader_check` / `lha_reader_extract` call saw -/
structure Mon where
  total : Nat        -- `total_blocks`
  last : Nat         -- the last block number reported

/-- `rd` = reader state when `lha_reader_check` / `lha_reader_extract` is entered, `after` = the state
it leaves.  `none`: `progress.invoked` stays 0 (not a normal entry, a directory or symbolic link, no
decoder for the method).  Otherwise `lha_decoder_monitor` ran on the inner decoder; its final
position is read off the decoder left open in `after` (when the MacBinary pass-through could not be
set up the inner decoder is freed again at once: its position is that after the header reads of
`macInit`). -/
def monitorOf (rd after : Reader.St) : Option Mon :=
  if rd.currType != .normal then none else
  match rd.curr with
  | none => none
  | some c =>
    if c.h.method == lhdName then none else
    match decoderFor (Reader.methodName c.h), decoderInfo (Reader.methodName c.h) with
    | some d, some info =>
      let bs := info.2.2
      let pos : Nat :=
        match after.dec with
        | some o => (match o.innerSt with | some st => st.pos | none => 0)
        | none =>
          if c.h.osType = 0x6d then
            (Reader.macInit d.total c.h
              { inner := .ok (d.init (Reader.memberSrc rd.basic)), length := c.h.length, blockSize := bs }).2.pos
          else 0
      some { total := ceilDiv c.h.length bs, last := ceilDiv pos bs }
    | _, _ => none

/-! ### one member -/

/-- outcome of one `test_archived_file_crc` / `extract_archived_file` / dry-run iteration -/
structure Entry where
  out : Bytes := []          -- written to stdout
  err : Bytes := []          -- written to stderr
  ok : Bool := true          -- the function's return value
  abort : Bool := false      -- `exit(-1)` was called
deriving Repr

/-- the last line of a member that had a progress bar -/
def statusLine (quiet : Nat) (fn status : Bytes) : Bytes :=
  if quiet < 2 then printFilename fn status ++ nl else []

/-- `test_archived_file_crc(reader, header, options)` -/
def testEntry (o : Opts) (rd : Reader.St) (h : Hdr) : Entry × Reader.St :=
  let fn := fileFullPath h o
  if o.dryRun then
    ({ out := if h.method != lhdName then safe (str "VERIFY " ++ fn) ++ nl else [] }, rd)
  else
    let r := Reader.check rd
    match monitorOf rd r.2 with
    | none => ({ ok := r.1.1 }, r.2)
    | some m =>
      ({ out := progressOutput o.quiet fn (str "Testing  :") m.total m.last ++
                statusLine o.quiet fn (if r.1.1 then str "Tested" else str "CRC error"),
         ok := r.1.1 }, r.2)

/-! ### trailing slashes

A member that is not a directory can have a full path that ends in '/': a header without a file name
(e.g. a level-1 header whose name ends in a separator) on a non-directory method.  POSIX resolves
`name/` as "`name`, which must be a directory", so for such a path `stat` fails with ENOTDIR when
`name` is a regular file (→ `LHA_FILE_ERROR`), and `unlink`, `open(O_CREAT|O_EXCL)`, `symlink` fail
whatever `name` is: nothing is created or removed.  `Fs` drops empty path components before it
resolves, so this is layered on top of it here. -/

def endsWithSlash (p : Bytes) : Bool := p.getLast? == some 0x2f

/-- `lha_arch_exists(path)` with the trailing-slash rule -/
def existsKind (fs : Fs.St) (path : Bytes) : Fs.Kind :=
  match Fs.existsKind fs path with
  | .file => if endsWithSlash path then .error else .file
  | k => k

/-- `lha_reader_extract(reader, filename, …)` with the trailing-slash rule: a normal entry that is a
file or a symbolic link cannot be created under a name ending in '/' -/
def readerExtract (rd : Reader.St) (fs : Fs.St) (filename : Bytes) : Bool × Reader.St × Fs.St :=
  match rd.currType, rd.curr with
  | .normal, some c =>
    if endsWithSlash filename ∧ !isDirEntry c.h then (false, (Reader.extract rd false).2, fs)
    else Extract.readerExtract rd fs filename
  | _, _ => Extract.readerExtract rd fs filename

/-- the message of `file_exists` before its `exit(-1)` -/
def fileTypeError (fn : Bytes) : Bytes := safe (str "Failed to read file type of '" ++ fn ++ str "'") ++ nl

/-- one iteration of `extract_archive_dry_run` -/
def dryRunEntry (o : Opts) (fs : Fs.St) (h : Hdr) : Entry :=
  let fn := fileFullPath h o
  let head := safe (str "EXTRACT " ++ fn)
  match h.symlinkTarget with
  | some t => { out := head ++ safe (str "|" ++ t ++ str " (directory)") ++ nl }
  | none =>
    if h.method == lhdName then { out := head ++ safe (str " (directory)") ++ nl }
    else
      match Messages.existsKind fs fn with
      | .error => { out := head, err := fileTypeError fn, ok := false, abort := true }
      | .none => { out := head ++ nl }
      | _ => { out := head ++ safe (str " but file is exist.") ++ nl }

/-- one line read by `prompt_user`: the first non-NUL character up to and including the newline;
`none` = end of input before a newline (`exit(-1)`) -/
def readLine (a : Bytes) : Option (UInt8 × Bytes) :=
  if a.contains 0x0a then
    some (((a.takeWhile (· != 0x0a)).find? (· != 0)).getD 0x0a, (a.dropWhile (· != 0x0a)).drop 1)
  else none

/-- the two writes to stderr per round of `confirm_file_overwrite` -/
def promptText (fn : Bytes) : Bytes := safe (fn ++ str " ") ++ str "OverWrite ?(Yes/[No]/All/Skip) "

structure Confirm where
  answer : Option Bool       -- `none` = `exit(-1)` at end of input
  policy : Overwrite
  rest : Bytes
  err : Bytes

/-- `confirm_file_overwrite(filename, options)`; `fuel` bounds the number of prompts (each consumes a
line of the answers) -/
def confirm (fn : Bytes) : Nat → Overwrite → Bytes → Bytes → Confirm
  | 0, pol, ans, err => { answer := none, policy := pol, rest := ans, err := err }
  | fuel+1, pol, ans, err =>
    match pol with
    | .skip => { answer := some false, policy := pol, rest := ans, err := err }
    | .all => { answer := some true, policy := pol, rest := ans, err := err }
    | .prompt =>
      let err := err ++ promptText fn
      match readLine ans with
      | none => { answer := none, policy := pol, rest := [], err := err }
      | some (c, rest) =>
        let lc := if 0x41 ≤ c ∧ c ≤ 0x5a then c + 0x20 else c
        if lc == 0x79 then { answer := some true, policy := pol, rest := rest, err := err }
        else if lc == 0x6e ∨ lc == 0x0a then { answer := some false, policy := pol, rest := rest, err := err }
        else if lc == 0x61 then { answer := some true, policy := .all, rest := rest, err := err }
        else if lc == 0x73 then { answer := some false, policy := .skip, rest := rest, err := err }
        else confirm fn fuel pol rest err

/-- `check_parent_directory(path)` with its message -/
def checkParent (fs : Fs.St) (path : Bytes) : Bool × Fs.St × Bytes :=
  match Fs.existsKind fs path with
  | .dir => (true, fs, [])
  | .none =>
    let m := Fs.mkdir fs path 0o755
    if m.1 then (true, m.2, [])
    else (false, m.2, safe (str "Failed to create parent directory " ++ path) ++ nl)
  | .file => (false, fs, safe (str "Parent path " ++ path ++ str " is not a directory!") ++ nl)
  | .error => (false, fs, safe (str "Failed to stat " ++ path) ++ nl)

/-- `make_parent_directories(path)` with the message of the failing step -/
def makeParents (fs : Fs.St) (path : Bytes) : Bool × Fs.St × Bytes :=
  let trimmed := (path.reverse.dropWhile (· == 0x2f)).reverse
  (prefixEnds trimmed).foldl (fun (acc : Bool × Fs.St × Bytes) i =>
    if !acc.1 then acc else checkParent acc.2.1 (trimmed.take i)) (true, fs, [])

/-- `!lha_reader_current_is_fake(reader) && !make_parent_directories(filename)`: an entry that the reader
presents a second time was extracted before, its parents are not looked at again -/
def parentsFor (fake : Bool) (fs : Fs.St) (path : Bytes) : Bool × Fs.St × Bytes :=
  if fake then (true, fs, []) else makeParents fs path

/-- state of the `x` command between members -/
structure XSt where
  rd : Reader.St
  fs : Fs.St
  opts : Opts
  answers : Bytes := []

/-- the part of `extract_archived_file` after the overwrite check -/
def extractBody (s : XSt) (h : Hdr) (err : Bytes) : Entry × XSt :=
  let fn := fileFullPath h s.opts
  if !s.opts.usePath ∧ isDirEntry h then ({ err := err }, s) else
  -- `lha_reader_current_is_fake`: a directory presented again for its metadata, a deferred symbolic link
  let fake := s.rd.currType == .fakeDir || s.rd.currType == .deferred
  -- parents are created for first-time entries only (`!lha_reader_current_is_fake(reader) && …`)
  let mp := parentsFor fake s.fs fn
  if !mp.1 then ({ err := err ++ mp.2.2, ok := false }, { s with fs := mp.2.1 }) else
  let r := Messages.readerExtract s.rd mp.2.1 fn
  let out : Bytes :=
    match monitorOf s.rd r.2.1 with
    | some m =>
      -- a progress bar means a normal entry: `lha_reader_current_is_fake` is false
      progressOutput s.opts.quiet fn (str "Melting  :") m.total m.last ++
        statusLine s.opts.quiet fn (if r.1 then str "Melted" else str "Failure")
    | none =>
      match h.symlinkTarget with
      | some t =>
        if !fake ∧ s.opts.quiet < 2 then safe (str "Symbolic Link " ++ fn ++ str " -> " ++ t) ++ nl else []
      | none => []
  ({ out := out, err := err, ok := r.1 }, { s with rd := r.2.1, fs := r.2.2 })

/-- `extract_archived_file(reader, header, options)` -/
def extractEntry (s : XSt) (h : Hdr) : Entry × XSt :=
  let fn := fileFullPath h s.opts
  if !isDirEntry h ∧ h.symlinkTarget.isNone then
    match Messages.existsKind s.fs fn with
    | .error => ({ err := fileTypeError fn, ok := false, abort := true }, s)
    | .none => extractBody s h []
    | _ =>
      let c := confirm fn (s.answers.length + 1) s.opts.overwrite s.answers []
      let s' := { s with opts := { s.opts with overwrite := c.policy }, answers := c.rest }
      match c.answer with
      | none => ({ err := c.err, ok := false, abort := true }, s')
      | some true => extractBody s' h c.err
      | some false =>
        ({ out := if c.policy == .skip then safe (fn ++ str " : Skipped...") ++ nl else [], err := c.err }, s')
  else extractBody s h []

/-! ### the commands -/

inductive Cmd where
  | test | extract
deriving Repr, BEq, DecidableEq

structure St where
  x : XSt
  result : Bool := true        -- `result` of `test_file_crc` / `extract_archive`
  aborted : Bool := false      -- the process left through `exit(-1)`
  fault : Bool := false        -- the header parser model reported a fault (undefined behaviour in the C)
  stdout : Bytes := []
  stderr : Bytes := []
  trace : List (Hdr × Bool) := []    -- the members handled, most recent first, with their verdicts

/-- book-keeping of the loop bodies: `if (!f(…)) result = 0;` plus the output -/
def record (s : St) (x : XSt) (h : Hdr) (e : Entry) : St :=
  { s with x := x, result := s.result && e.ok, aborted := e.abort,
           stdout := s.stdout ++ e.out, stderr := s.stderr ++ e.err, trace := (h, e.ok) :: s.trace }

/-- one iteration of `test_file_crc` / `extract_archive` / `extract_archive_dry_run` on a selected member -/
def step (cmd : Cmd) (s : St) (h : Hdr) : St :=
  match cmd with
  | .test =>
    let r := testEntry s.x.opts s.x.rd h
    record s { s.x with rd := r.2 } h r.1
  | .extract =>
    if s.x.opts.dryRun then record s s.x h (dryRunEntry s.x.opts s.x.fs h)
    else
      let r := extractEntry s.x h
      record s r.2 h r.1

/-- the loops over `lha_filter_next_file`; `fuel` as in `Extract.extractLoop` -/
def loop (cmd : Cmd) : Nat → St → St
  | 0, s => s
  | fuel+1, s =>
    if s.aborted then s else
    match Reader.next s.x.rd with
    | .error _ => { s with fault := true }
    | .ok (none, rd) => { s with x := { s.x with rd := rd } }
    | .ok (some c, rd) =>
      if !Glob.matchesFilter s.x.opts.filters c.h then loop cmd fuel { s with x := { s.x with rd := rd } }
      else loop cmd fuel (step cmd { s with x := { s.x with rd := rd } } c.h)

def initReader (archive : Array UInt8) : Reader.St :=
  { basic := { stream := { kind := .seekable, data := archive } }, mktime := Header.dosTimeUTC }

/-- `lha <t|x|e>[options] archive [patterns]` -/
def run (cmd : Cmd) (archive : Array UInt8) (o : Opts) (fs : Fs.St) (answers : Bytes) : St :=
  loop cmd (2 * archive.size + 16) { x := { rd := initReader archive, fs := fs, opts := o, answers := answers } }

/-- the exit status of the process: `exit(-1)` on the abort paths, otherwise `!result` -/
def exitStatus (s : St) : Nat :=
  if s.aborted then 255 else if s.result ∧ !s.fault then 0 else 1

/-- `lha t[options] archive [patterns]`: standard output and "exit status is 0" -/
def runTest (archive : Array UInt8) (o : Opts) : Bytes × Bool :=
  let s := run .test archive o {} []
  (s.stdout, exitStatus s == 0)

/-- `lha x[options] archive [patterns]`: standard output, "exit status is 0", resulting file system -/
def runExtract (archive : Array UInt8) (o : Opts) (fs : Fs.St) (answers : Bytes) : Bytes × Bool × Fs.St :=
  let s := run .extract archive o fs answers
  (s.stdout, exitStatus s == 0, s.x.fs)

end LhasaV.Messages
