import LhasaV.Model.Basic
/-!
# `src/main.c`: the command argument — `[-]{lvtxep}[q{num}][finv][w=<dir>]`

`parse_command_line` + `parse_options` + `init_options`, written with the C's own tests. The
command argument is a C string: the model takes the bytes before the first NUL (the harness passes
exactly those).
-/
namespace LhasaV.Cli

inductive Mode where
  | list | listVerbose | crcCheck | extract | print
deriving Repr, DecidableEq

/-- `LHAOptions` after `init_options` -/
structure Options where
  overwriteAll : Bool := false
  quiet : Nat := 0
  verbose : Bool := false
  dryRun : Bool := false
  extractPath : Option Bytes := none
  usePath : Bool := true
deriving Repr, DecidableEq

/-- `mode_for_char` -/
def modeForChar (c : UInt8) : Option Mode :=
  if c == 0x6c then some .list          -- 'l'
  else if c == 0x76 then some .listVerbose   -- 'v'
  else if c == 0x74 then some .crcCheck      -- 't'
  else if c == 0x65 || c == 0x78 then some .extract   -- 'e', 'x'
  else if c == 0x70 then some .print         -- 'p'
  else none

/-- `parse_options`: one switch per character; `q` takes an optional digit; `w` takes the rest -/
def parseOptions : Bytes → Options → Option Options
  | [], o => some o
  | c :: rest, o =>
    if c == 0x66 then parseOptions rest { o with overwriteAll := true }          -- 'f'
    else if c == 0x69 then parseOptions rest { o with usePath := false }         -- 'i'
    else if c == 0x6e then parseOptions rest { o with dryRun := true }           -- 'n'
    else if c == 0x71 then                                                        -- 'q'
      match _h : rest with
      | d :: rest' =>
        if 0x30 ≤ d ∧ d ≤ 0x39 then
          parseOptions rest' { o with quiet := (d - 0x30).toNat, overwriteAll := true }
        else parseOptions rest { o with quiet := 2, overwriteAll := true }
      | [] => some { o with quiet := 2, overwriteAll := true }
    else if c == 0x76 then parseOptions rest { o with verbose := true }          -- 'v'
    else if c == 0x77 then                                                        -- 'w'
      match rest with
      | 0x3d :: dir => some { o with extractPath := some dir }                    -- optional '='
      | dir => some { o with extractPath := some dir }
    else none
termination_by b => b.length
decreasing_by all_goals (subst_vars; simp only [List.length_cons]; omega)

/-- an initial '-' is ignored -/
def stripDash : Bytes → Bytes
  | 0x2d :: r => r
  | r => r

/-- the first character is the command, the rest are options -/
def parseCommand : Bytes → Option (Mode × Options)
  | [] => none
  | c :: rest =>
    match modeForChar c with
    | none => none
    | some m => (parseOptions rest {}).map (fun o => (m, o))

/-- `parse_command_line` (after `init_options`) -/
def parseCommandLine (cmd : Bytes) : Option (Mode × Options) := parseCommand (stripDash cmd)

end LhasaV.Cli
