import LhasaV.Model.Bits
/-!
Shared pieces of the decoder models: the ring buffer with checked accesses,
the history copy loop, the generic inner-decoder interface.
-/
namespace LhasaV

/-- One inner decoder (`LHADecoderType`): `read` is one call of `dtype->read`,
returning the bytes written to the output buffer (0 bytes = end / failure). -/
structure Dec where
  σ : Type
  init : Src → σ
  read : σ → Res (List UInt8 × σ)
  /-- the callback state inside the decoder state (how much input was consumed) -/
  src : σ → Src

namespace Ring

@[inline] def get (site : String) (ring : Array UInt8) (i : Nat) : Res UInt8 :=
  match ring[i]? with
  | some b => .ok b
  | none => .fault site

@[inline] def set (site : String) (ring : Array UInt8) (i : Nat) (b : UInt8) : Res (Array UInt8) :=
  if i < ring.size then .ok (ring.setIfInBounds i b) else .fault site

/-- `for (i = 0; i < count; ++i) output_byte(ringbuf[(start + i) % SIZE])`:
returns ring, write position and the bytes produced (in order, appended to `acc` reversed). -/
def copyLoop (rs : Nat) : Nat → Nat → Array UInt8 → Nat → List UInt8 →
    Res (Array UInt8 × Nat × List UInt8)
  | 0, _, ring, pos, acc => .ok (ring, pos, acc)
  | n+1, src, ring, pos, acc =>
    match ring[src % rs]? with
    | none => .fault "ringbuf[(start + i) % RING_BUFFER_SIZE] read"
    | some b =>
      if pos < ring.size then
        copyLoop rs n (src + 1) (ring.setIfInBounds pos b) ((pos + 1) % rs) (b :: acc)
      else .fault "ringbuf[ringbuf_pos] write"

end Ring
end LhasaV
