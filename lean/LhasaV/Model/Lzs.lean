import LhasaV.Model.Ring
import LhasaV.Gen.Decoders
/-! Models of `lib/lzs_decoder.c`, `lib/lz5_decoder.c`, `lib/null_decoder.c`. -/
namespace LhasaV

namespace Lzs

structure St where
  bits : Bits
  ring : Array UInt8
  pos : Nat

def init (src : Src) : St :=
  { bits := { src := src }, ring := Array.replicate Gen.lzsRingCap 0x20,
    pos := Gen.lzsRingSize - Gen.lzsStartOffset }

/-- `lha_lzs_read` -/
def read (s : St) : Res (List UInt8 × St) :=
  let p := s.bits.readBit
  match p.1 with
  | none => .ok ([], { s with bits := p.2 })
  | some bit =>
    if bit ≠ 0 then
      let q := p.2.readBits 8
      match q.1 with
      | none => .ok ([], { s with bits := q.2 })
      | some b =>
        if s.pos < s.ring.size then
          let s' : St := { bits := q.2, ring := s.ring.setIfInBounds s.pos (UInt8.ofNat b),
                           pos := (s.pos + 1) % Gen.lzsRingSize }
          .ok ([UInt8.ofNat b], s')
        else .fault "lzs: ringbuf[ringbuf_pos] write"
    else
      let q := p.2.readBits 11
      let q2 := q.2.readBits 4
      match q.1, q2.1 with
      | some pos, some len =>
        (Ring.copyLoop Gen.lzsRingSize (len + Gen.lzsThreshold) pos s.ring s.pos []) >>= fun r =>
        .ok (r.2.2.reverse, { bits := q2.2, ring := r.1, pos := r.2.1 })
      | _, _ => .ok ([], { s with bits := q2.2 })

def dec : Dec := { σ := St, init := init, read := read, src := fun s => s.bits.src }

end Lzs

namespace Lz5

structure St where
  src : Src
  ring : Array UInt8
  pos : Nat

/-- `fill_initial`, as the same six loops -/
def fillInitial : Array UInt8 :=
  let a : Array UInt8 := Array.mkEmpty 4096
  let a := (List.range 256).foldl (fun a i => (List.range 13).foldl (fun a _ => a.push (UInt8.ofNat i)) a) a
  let a := (List.range 256).foldl (fun a i => a.push (UInt8.ofNat i)) a
  let a := (List.range 256).foldl (fun a i => a.push (UInt8.ofNat (255 - i))) a
  let a := (List.range 128).foldl (fun a _ => a.push 0) a
  let a := (List.range 110).foldl (fun a _ => a.push 0x20) a
  (List.range 18).foldl (fun a _ => a.push 0) a

def init (src : Src) : St :=
  { src := src, ring := fillInitial, pos := Gen.lz5RingSize - Gen.lz5StartOffset }

/-- the `for (bit = 0; bit < 8; ++bit)` loop of `lha_lz5_read`; `k` = iterations left -/
def cmdLoop : Nat → Nat → Nat → St → List UInt8 → Res (List UInt8 × St)
  | 0, _, _, s, acc => .ok (acc, s)
  | k+1, bit, bitmap, s, acc =>
    if (bitmap / 2 ^ bit) % 2 ≠ 0 then
      let g := s.src.read 1
      match g.1 with
      | [b] =>
        if s.pos < s.ring.size then
          cmdLoop k (bit + 1) bitmap
            { src := g.2, ring := s.ring.setIfInBounds s.pos b, pos := (s.pos + 1) % Gen.lz5RingSize }
            (b :: acc)
        else .fault "lz5: ringbuf[ringbuf_pos] write"
      | _ => .ok (acc, { s with src := g.2 })
    else
      let g := s.src.read 2
      match g.1 with
      | [c0, c1] =>
        let start := ((c1.toNat / 16) * 256) + c0.toNat      -- ((cmd[1] & 0xf0) << 4) | cmd[0]
        let len := (c1.toNat % 16) + Gen.lz5Threshold
        (Ring.copyLoop Gen.lz5RingSize len start s.ring s.pos acc) >>= fun r =>
        cmdLoop k (bit + 1) bitmap { src := g.2, ring := r.1, pos := r.2.1 } r.2.2
      | _ => .ok (acc, { s with src := g.2 })      -- fewer than 2 bytes: break

/-- `lha_lz5_read` -/
def read (s : St) : Res (List UInt8 × St) :=
  let g := s.src.read 1
  match g.1 with
  | [bitmap] =>
    (cmdLoop 8 0 bitmap.toNat { s with src := g.2 } []) >>= fun r => .ok (r.1.reverse, r.2)
  | _ => .ok ([], { s with src := g.2 })

def dec : Dec := { σ := St, init := init, read := read, src := fun s => s.src }

end Lz5

namespace Null

/-- `lha_null_read`: one callback request of BLOCK_READ_SIZE bytes -/
def read (s : Src) : Res (List UInt8 × Src) :=
  let g := s.read Gen.nullBlockReadSize
  .ok g

def dec : Dec := { σ := Src, init := id, read := read, src := id }

end Null
end LhasaV
