import LhasaV.Model.Lzs
import LhasaV.Model.LhNew
import LhasaV.Model.Lh1
import LhasaV.Model.Pm
import LhasaV.Model.Wrap
/-! Method name → decoder model (`decoders[]` of lib/lha_decoder.c). -/
namespace LhasaV

/-- `lha_decoder_for_name`: the model serving each method name -/
def decoderFor (name : String) : Option Dec :=
  match name with
  | "-lz4-" | "-lh0-" | "-pm0-" => some Null.dec
  | "-lz5-" => some Lz5.dec
  | "-lzs-" => some Lzs.dec
  | "-lh1-" => some Lh1.dec
  | "-lh4-" | "-lh5-" => some (LhNew.dec LhNew.lh5)
  | "-lh6-" => some (LhNew.dec LhNew.lh6)
  | "-lh7-" => some (LhNew.dec LhNew.lh7)
  | "-lhx-" => some (LhNew.dec LhNew.lhx)
  | "-lk7-" => some (LhNew.dec LhNew.lk7)
  | "-pm1-" => some Pm1.dec
  | "-pm2-" => some Pm2.dec
  | _ => none

/-- (extra_size, max_read, block_size) of the method, from the compiled table -/
def decoderInfo (name : String) : Option (Nat × Nat × Nat) :=
  (Gen.decoderTable.find? (fun e => e.1 == name)).map (fun e => (e.2.2.1, e.2.2.2.1, e.2.2.2.2))

end LhasaV
