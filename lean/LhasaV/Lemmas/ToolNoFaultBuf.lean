import LhasaV.Lemmas.ReaderIndep2
import LhasaV.Lemmas.WrapProps
/-!
# C08 at tool level: the output buffer of `lha_decoder_read` never over-fills

`lha_decoder_new` allocates `max_read` bytes for `outbuf`; one inner read writes its whole result
there.  In `Wrap.St`, `pending` is `outbuf[outbuf_pos .. outbuf_len)`.  If every inner read on a
`Q`-state returns at most `mr` bytes (`hlen`), then `pending` never holds more than `mr` bytes —
through `fill`, `read`, the MacBinary header probe, `decode_to_end`, `macbinary_decoder_read` and
`macbinary_decoder_init` (the same closure as `ReaderIndep2`, section `closure`, one level up).
-/
namespace LhasaV.ToolNoFault
open LhasaV LhasaV.Reader LhasaV.ReaderIndep

section fits
variable {σ : Type} (rd : σ → List Byte × σ) (Q : σ → Prop) (hQ : ∀ x, Q x → Q (rd x).2)
  (mr : Nat) (hlen : ∀ x, Q x → (rd x).1.length ≤ mr)

/-- the inner state is a `Q`-state and the output buffer holds at most `mr` bytes -/
def Fits (s : Wrap.St σ) : Prop := Q s.inner ∧ s.pending.length ≤ mr

include hQ hlen

theorem fill_fits (n : Nat) (s : Wrap.St σ) (h : Q s.inner) (hp : s.pending.length ≤ mr) :
    (Wrap.fill rd n s).2.pending.length ≤ mr := by
  fun_induction Wrap.fill rd n s with
  | case1 s => exact hp
  | case2 need s h1 h2 => simp only [List.length_drop]; omega
  | case3 need s h1 h2 h3 => simp only [List.length_drop]; omega
  | case4 need s h1 h2 h3 h4 => exact Nat.zero_le _
  | case5 need s h1 h2 h3 h4 r ih => exact ih (hQ _ h) (hlen _ h)

theorem wread_fits (k : Nat) (s : Wrap.St σ) (h : Fits Q mr s) : Fits Q mr (Wrap.read rd k s).2 :=
  ⟨wread_keeps rd Q hQ k s h.1, by rw [Wrap.read_pending]; exact fill_fits rd Q hQ mr hlen _ s h.1 h.2⟩

theorem macReadHeader_fits (fuel : Nat) (acc : List UInt8) (s : Wrap.St σ) (h : Fits Q mr s) :
    Fits Q mr (macReadHeader rd fuel acc s).2 := by
  induction fuel generalizing acc s with
  | zero => exact h
  | succ n ih =>
    unfold macReadHeader
    split
    · exact h
    · dsimp only
      split
      · exact wread_fits rd Q hQ mr hlen _ s h
      · exact ih _ _ (wread_fits rd Q hQ mr hlen _ s h)

theorem decodeToEnd_fits (fuel : Nat) (s : Wrap.St σ) (h : Fits Q mr s) :
    Fits Q mr (decodeToEnd rd fuel s) := by
  induction fuel generalizing s with
  | zero => exact h
  | succ n ih =>
    unfold decodeToEnd
    dsimp only
    split
    · exact wread_fits rd Q hQ mr hlen _ s h
    · exact ih _ (wread_fits rd Q hQ mr hlen _ s h)

theorem macRead_fits (m : Mac σ) (h : Fits Q mr m.inner) : Fits Q mr (macRead rd m).2.inner := by
  unfold macRead
  dsimp only
  split
  · exact decodeToEnd_fits rd Q hQ mr hlen _ _ (wread_fits rd Q hQ mr hlen _ _ h)
  · exact wread_fits rd Q hQ mr hlen _ _ h

theorem macInit_fits (hd : Header.Hdr) (s : Wrap.St σ) (h : Fits Q mr s) :
    Fits Q mr (macInit rd hd s).2 ∧ ∀ m, (macInit rd hd s).1 = some m → Fits Q mr m.inner := by
  unfold macInit
  split
  · dsimp only
    have hk := macReadHeader_fits rd Q hQ mr hlen 129 [] s h
    split
    · exact ⟨hk, fun m hm => by cases hm⟩
    · split
      · exact ⟨hk, fun m hm => by cases hm; exact hk⟩
      · exact ⟨hk, fun m hm => by cases hm; exact hk⟩
  · exact ⟨h, fun m hm => by cases hm; exact h⟩

end fits

end LhasaV.ToolNoFault
