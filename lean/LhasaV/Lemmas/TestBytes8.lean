import LhasaV.Lemmas.TestBytes7
/-!
# C07 on bytes (part 8): the reader along `flatI pk its` WITH extraction

`lha x` calls `lha_reader_extract`: directories are pushed and presented a second time, dangerous
links deferred.  `XInv pk A H its rd`: the reader stands in the archive before the members `its`
(`RStateI`), and every header it still holds (directory stack, deferred list) satisfies `H` — used
with `H h := ∃ member, h = its header`.

* `next_lists`: `lha_reader_next_file` only removes from the two lists, and a re-presented entry
  comes from them;
* `x_next`: one `lha_reader_next_file` from an `XInv` state — the end only when no member is left;
  else an entry whose header satisfies `H`: a re-presented one, or the header of the first member;
* `x_after`: whether the entry is then passed over or `lha_reader_extract` is called (any outcome
  of the file-system call), the reader is in an `XInv` state for the remaining members;
* `decodeResult_item`: `lha_reader_extract` on a file member returns `goodOf` and `decodedOf`.
-/
set_option linter.unusedSimpArgs false
namespace LhasaV.TestBytes
open LhasaV LhasaV.Header LhasaV.Extract LhasaV.GlobFs LhasaV.Contain LhasaV.ExtractTree
open LhasaV.ExtractTree.Sample LhasaV.Spec.HeaderEnc LhasaV.Reader LhasaV.ReaderIndep LhasaV.ArchiveOf
open LhasaV.PrintList LhasaV.MacProps

/-! ## the two lists -/

theorem nextPop_lists (u : Reader.St) :
    (∀ c ∈ (nextPop u).dirStack, c ∈ u.dirStack) ∧ (nextPop u).deferred = u.deferred ∧
    ((nextPop u).currType = .fakeDir → ∀ c, (nextPop u).curr = some c → c ∈ u.dirStack) ∧
    ((nextPop u).currType = .fakeDir ∨ (nextPop u).currType = .normal) := by
  by_cases he : endOfTopDir u = true
  · obtain ⟨top, rest, hds⟩ := endOfTopDir_cons he
    have e : nextPop u = { u with curr := some top, dirStack := rest, currType := .fakeDir } := by
      unfold nextPop
      rw [if_pos he]
      simp only [hds]
    rw [e]
    refine ⟨fun c hc => by rw [hds]; exact List.mem_cons_of_mem _ hc, rfl, ?_, Or.inl rfl⟩
    intro _ c hc
    cases hc
    rw [hds]; exact List.mem_cons_self
  · have e : nextPop u = { u with curr := u.basic.curr, currType := .normal } := by
      unfold nextPop
      rw [if_neg he]
    rw [e]
    exact ⟨fun c hc => hc, rfl, (fun h => by cases h), Or.inr rfl⟩

theorem nextDeferred_lists (u : Reader.St) :
    (nextDeferred u).dirStack = u.dirStack ∧ (∀ c ∈ (nextDeferred u).deferred, c ∈ u.deferred) ∧
    ((nextDeferred u).currType = .deferred → u.currType ≠ .deferred →
      ∀ c, (nextDeferred u).curr = some c → c ∈ u.deferred) ∧
    ((nextDeferred u).currType = .fakeDir → u.currType = .fakeDir ∧ (nextDeferred u).curr = u.curr) := by
  unfold nextDeferred
  split
  · exact ⟨rfl, fun c hc => hc, fun h hn => absurd h hn, fun h => ⟨h, rfl⟩⟩
  · split
    · rename_i d rest hdf
      refine ⟨rfl, fun c hc => by rw [hdf]; exact List.mem_cons_of_mem _ hc, ?_, (fun h => by cases h)⟩
      intro _ _ c hc
      cases hc
      rw [hdf]; exact List.mem_cons_self
    · exact ⟨rfl, fun c hc => hc, (fun h => by cases h), (fun h => by cases h)⟩

/-- **`lha_reader_next_file` and the two lists**: nothing is added; a re-presented directory comes
from the directory stack, a deferred link from the deferred list -/
theorem next_lists {rd rd' : Reader.St} {oc : Option HObj} (hne : rd.currType ≠ .eof)
    (e : Reader.next rd = .ok (oc, rd')) :
    (∀ c ∈ rd'.dirStack, c ∈ rd.dirStack) ∧ (∀ c ∈ rd'.deferred, c ∈ rd.deferred) ∧
    (rd'.currType = .fakeDir → ∀ c, rd'.curr = some c → c ∈ rd.dirStack) ∧
    (rd'.currType = .deferred → ∀ c, rd'.curr = some c → c ∈ rd.deferred) := by
  have hf := closeDecoder_frame rd
  have he : ((closeDecoder rd).currType == CurrType.eof) = false := by
    rw [hf.currType]; simpa using hne
  rw [next_eq, he] at e
  simp only [Bool.false_eq_true, if_false] at e
  cases h1 : nextAdv (closeDecoder rd) with
  | error w => rw [h1] at e; cases e
  | ok s1 =>
    rw [h1] at e
    have e' : (oc, rd') = ((nextDeferred (nextPop (nextUnref s1))).curr,
        nextDeferred (nextPop (nextUnref s1))) := by
      have : (Except.ok ((nextDeferred (nextPop (nextUnref s1))).curr,
          nextDeferred (nextPop (nextUnref s1))) : Except String _) = .ok (oc, rd') := e
      cases this; rfl
    obtain ⟨a1, a2⟩ := nextAdv_lists h1
    obtain ⟨b1, b2⟩ := nextUnref_lists s1
    have hds : (nextUnref s1).dirStack = rd.dirStack := by rw [b1, a1, hf.dirStack]
    have hdf : (nextUnref s1).deferred = rd.deferred := by rw [b2, a2, hf.deferred]
    obtain ⟨p1, p2, p3, p4⟩ := nextPop_lists (nextUnref s1)
    obtain ⟨d1, d2, d3, d4⟩ := nextDeferred_lists (nextPop (nextUnref s1))
    cases e'
    refine ⟨?_, ?_, ?_, ?_⟩
    · intro c hc; rw [d1] at hc; rw [← hds]; exact p1 c hc
    · intro c hc; rw [← hdf, ← p2]; exact d2 c hc
    · intro h c hc
      obtain ⟨h', hcur⟩ := d4 h
      rw [hcur] at hc
      rw [← hds]; exact p3 h' c hc
    · intro h c hc
      rw [← hdf, ← p2]
      exact d3 h (by rcases p4 with q | q <;> rw [q] <;> exact fun x => by cases x) c hc

/-- the metadata half of `lha_reader_extract`: the lists stay, or the current entry is added to one -/
theorem extractMeta_lists (s : Reader.St) (b : Bool) :
    ((extractMeta s b).dirStack = s.dirStack ∨
      ∃ c, s.curr = some c ∧ (extractMeta s b).dirStack = c :: s.dirStack) ∧
    ((extractMeta s b).deferred = s.deferred ∨
      ∃ c, s.curr = some c ∧ (extractMeta s b).deferred =
        s.deferred.takeWhile (fun r => pathLen r > pathLen c) ++ [c] ++
          s.deferred.dropWhile (fun r => pathLen r > pathLen c)) := by
  unfold extractMeta
  split
  · repeat' split
    all_goals first
      | exact ⟨Or.inl rfl, Or.inl rfl⟩
      | exact ⟨Or.inl rfl, Or.inr ⟨_, ‹_›, rfl⟩⟩
      | exact ⟨Or.inr ⟨_, ‹_›, rfl⟩, Or.inl rfl⟩
  · exact ⟨Or.inl rfl, Or.inl rfl⟩

/-- `lha_reader_extract` adds at most the current entry to the two lists -/
theorem extract_lists {rd : Reader.St} (hp : Pre rd) (b : Bool) :
    (∀ c ∈ (Reader.extract rd b).2.dirStack, c ∈ rd.dirStack ∨ rd.curr = some c) ∧
    (∀ c ∈ (Reader.extract rd b).2.deferred, c ∈ rd.deferred ∨ rd.curr = some c) := by
  by_cases hf : IsFile rd
  · have hs := (extract_file_step honestAll hp hf b).frame
    exact ⟨fun c hc => Or.inl (by rw [← hs.dirStack]; exact hc),
      fun c hc => Or.inl (by rw [← hs.deferred]; exact hc)⟩
  · rw [extract_nonfile hf]
    obtain ⟨h1, h2⟩ := extractMeta_lists rd b
    constructor
    · intro x hx
      rcases h1 with h1 | ⟨c, hc, h1⟩
      · rw [h1] at hx; exact Or.inl hx
      · rw [h1] at hx
        rcases List.mem_cons.1 hx with hx | hx
        · exact Or.inr (by rw [hx]; exact hc)
        · exact Or.inl hx
    · intro x hx
      rcases h2 with h2 | ⟨c, hc, h2⟩
      · rw [h2] at hx; exact Or.inl hx
      · rw [h2] at hx
        simp only [List.mem_append, List.mem_cons, List.not_mem_nil, or_false] at hx
        rcases hx with (hx | hx) | hx
        · exact Or.inl ((List.takeWhile_sublist _).subset hx)
        · exact Or.inr (by rw [hx]; exact hc)
        · exact Or.inl ((List.dropWhile_sublist _).subset hx)

/-! ## the invariant -/

/-- the reader stands in the archive before the members `its`; every header it still holds
satisfies `H` -/
structure XInv (pk : Packer) (A : Array UInt8) (H : Hdr → Prop) (its : List Item) (rd : Reader.St) : Prop where
  good : Good rd
  rs : RStateI pk A its rd
  live : rd.currType ≠ .eof
  ds : ∀ c ∈ rd.dirStack, H c.h
  df : ∀ c ∈ rd.deferred, H c.h

/-- what `lha_reader_next_file` has just presented: a re-presented entry (the members to come are
still `its`) or the header of the first member -/
structure Pres (pk : Packer) (A : Array UInt8) (H : Hdr → Prop) (its : List Item) (c : HObj)
    (rd : Reader.St) : Prop where
  good : Good rd
  h : H c.h
  curr : rd.curr = some c
  dec : rd.dec = none
  got : GotI pk A its rd.basic
  ds : ∀ c ∈ rd.dirStack, H c.h
  df : ∀ c ∈ rd.deferred, H c.h
  shape : (rd.currType = .fakeDir) ∨ (rd.currType = .deferred) ∨
    (rd.currType = .normal ∧ rd.curr = rd.basic.curr ∧ ∃ it tl, its = it :: tl ∧ c.h = hdrOf pk it.e)

/-- the members still to come after the presented entry was handled -/
def restOf (its : List Item) (rd : Reader.St) : List Item :=
  if rd.currType = .normal then its.tail else its

/-- **one `lha_reader_next_file`**: the end only when no member is left -/
theorem x_next {pk : Packer} {A : Array UInt8} {H : Hdr → Prop} {its : List Item} {rd : Reader.St}
    (hok : ItemsOk pk its) (hH : ∀ it ∈ its, H (hdrOf pk it.e)) (h : XInv pk A H its rd) :
    (∃ rd', Reader.next rd = .ok (none, rd') ∧ its = []) ∨
    (∃ c rd', Reader.next rd = .ok (some c, rd') ∧ Pres pk A H its c rd') := by
  obtain ⟨oc, rd', hn, hoc, hd, hgot, hsh, heof⟩ := next_stepI pk A its rd hok h.good h.rs h.live
  obtain ⟨l1, l2, l3, l4⟩ := next_lists h.live hn
  have hg' : Good rd' := next_good h.good hn
  have hds : ∀ c ∈ rd'.dirStack, H c.h := fun c hc => h.ds c (l1 c hc)
  have hdf : ∀ c ∈ rd'.deferred, H c.h := fun c hc => h.df c (l2 c hc)
  cases hcur : rd'.curr with
  | none =>
    left
    refine ⟨rd', by rw [hn, hoc, hcur], ?_⟩
    rcases hsh with ⟨_, x⟩ | ⟨_, _, x⟩ | ⟨_, x⟩ | ⟨ht, _⟩
    · exact absurd hcur x
    · exact absurd hcur x
    · exact absurd hcur x
    · cases its with
      | nil => rfl
      | cons it tl =>
        obtain ⟨_, ⟨id, hid⟩, _⟩ := hgot
        rw [heof ht] at hid; cases hid
  | some c =>
    right
    refine ⟨c, rd', by rw [hn, hoc, hcur], ?_⟩
    rcases hsh with ⟨ht, _⟩ | ⟨ht, hb, _⟩ | ⟨ht, _⟩ | ⟨_, x⟩
    · exact ⟨hg', h.ds c (l3 ht c hcur), hcur, hd, hgot, hds, hdf, Or.inl ht⟩
    · cases its with
      | nil =>
        have := hgot.2.1
        rw [← hb, hcur] at this; cases this
      | cons it tl =>
        have hgot0 := hgot
        obtain ⟨_, ⟨id, hid⟩, _⟩ := hgot0
        have hch : c.h = hdrOf pk it.e := by
          rw [← hb, hcur] at hid; cases hid; rfl
        exact ⟨hg', by rw [hch]; exact hH it (by simp), hcur, hd, hgot, hds, hdf,
          Or.inr (Or.inr ⟨ht, hb, it, tl, rfl, hch⟩)⟩
    · exact ⟨hg', h.df c (l4 ht c hcur), hcur, hd, hgot, hds, hdf, Or.inr (Or.inl ht)⟩
    · rw [hcur] at x; cases x

/-- **after the entry was handled** — passed over, or `lha_reader_extract` with any outcome of the
file-system call — the reader stands before the remaining members -/
theorem x_after {pk : Packer} {A : Array UInt8} {H : Hdr → Prop} {its : List Item} {c : HObj}
    {rd : Reader.St} (hok : ItemsOk pk its) (h : Pres pk A H its c rd) :
    XInv pk A H (restOf its rd) rd ∧ ∀ b, XInv pk A H (restOf its rd) (Reader.extract rd b).2 := by
  rcases h.shape with ht | ht | ⟨ht, hb, it, tl, hits, hch⟩
  · have hr : restOf its rd = its := by simp [restOf, ht]
    have h0 : XInv pk A H its rd :=
      ⟨h.good, (by simp only [RStateI, ht]; exact ⟨h.dec, h.got⟩), (by rw [ht]; exact fun x => by cases x), h.ds, h.df⟩
    rw [hr]
    exact ⟨h0, fun b => by rw [fake_extract (Or.inl ht)]; exact h0⟩
  · have hr : restOf its rd = its := by simp [restOf, ht]
    have h0 : XInv pk A H its rd :=
      ⟨h.good, (by simp only [RStateI, ht]; exact ⟨h.dec, h.got⟩), (by rw [ht]; exact fun x => by cases x), h.ds, h.df⟩
    rw [hr]
    exact ⟨h0, fun b => by rw [fake_extract (Or.inr ht)]; exact h0⟩
  · subst hits
    have hr : restOf (it :: tl) rd = tl := by simp [restOf, ht]
    rw [hr]
    have hat : AtI pk A tl rd.basic := h.got.at hok
    refine ⟨⟨h.good, (by simp only [RStateI, ht]; exact hat), (by rw [ht]; exact fun x => by cases x), h.ds, h.df⟩, ?_⟩
    intro b
    have hct := extract_currType rd b
    obtain ⟨e1, e2⟩ := extract_lists h.good.pre b
    refine ⟨good_extract h.good b, ?_, (by rw [hct, ht]; exact fun x => by cases x), ?_, ?_⟩
    · simp only [RStateI, hct, ht]
      by_cases hf : IsFile rd
      · exact hat.consEq (extract_file_step honestAll h.good.pre hf b).basic
      · rw [extract_nonfile hf, (extractMeta_basic rd b).1]; exact hat
    · intro x hx
      rcases e1 x hx with hx | hx
      · exact h.ds x hx
      · rw [h.curr] at hx; cases hx; exact h.h
    · intro x hx
      rcases e2 x hx with hx | hx
      · exact h.df x hx
      · rw [h.curr] at hx; cases hx; exact h.h

/-- the reader `lha` opens on the archive bytes -/
theorem xinv_init (pk : Packer) (H : Hdr → Prop) (its : List Item) :
    XInv pk (flatI pk its).toArray H its (Messages.initReader (flatI pk its).toArray) :=
  ⟨(walkI_init pk its).good, (walkI_init pk its).rs, (walkI_init pk its).live,
    (fun c hc => by cases hc), (fun c hc => by cases hc)⟩

/-! ## `lha_reader_extract` on a file member -/

/-- **`do_decode` on a file member of the archive**: the decoder opens, the verdict is `goodOf`, the
bytes handed to the caller are `decodedOf` -/
theorem decodeResult_item {pk : Packer} {A : Array UInt8} {p : Fs.Path} {data : Bytes} {perms : Option Nat}
    {t : Nat} {comp : Bytes} {tl : List Item} {c : HObj} {rd : Reader.St}
    (hn : rd.currType = .normal) (hc : rd.curr = some c) (hh : c.h = hdrOf pk (.file p data perms t))
    (hg : GotI pk A (⟨.file p data perms t, comp⟩ :: tl) rd.basic)
    (hok : ItemsOk pk (⟨.file p data perms t, comp⟩ :: tl)) :
    (openDecoder rd).1 = true ∧ c.h.method ≠ "-lhd-".toUTF8.toList ∧
    (decodeResult rd c).1 = (goodOf pk data comp, decodedOf pk data comp) := by
  obtain ⟨hke, hee, hpk, hle⟩ := hok.1
  have hpk : PackOk pk data := hpk
  obtain ⟨hdat, _, hrem, heof, _, _, hdrop⟩ := hg
  obtain ⟨d, info, hd, hi, _⟩ := hpk.decodes
  have hmm : c.h.method = (pk.pack data).1 := by rw [hh]; rfl
  have hname : methodName c.h = mname (pk.pack data).1 := by rw [methodName_eq, hmm]
  have hos : c.h.osType ≠ 0x6d := by rw [hh, hdrOf_os]; decide
  have hnd : c.h.method ≠ "-lhd-".toUTF8.toList := by
    rw [hmm, ← lhdM_eq]; exact hpk.notDir
  have hl : c.h.length = data.length := by rw [hh]; rfl
  have hcrc : c.h.crc = (Crc.buf 0 data).toNat := by rw [hh]; rfl
  have hsrc : memberSrc rd.basic = srcOf pk data comp :=
    memberSrc_item rd.basic comp (flatI pk tl) _ hrem heof (by rw [hdat]; exact hdrop) hle
      (fun hlt => by
        apply Classical.byContradiction
        intro hne
        have := hok.2.1 (fun h0 => hne (by rw [h0]; rfl))
        exact absurd this (Nat.ne_of_lt hlt))
  have hinner : innerBytes rd c d = decodedOf pk data comp := by
    unfold innerBytes decodedOf
    rw [hsrc, hl]
    split
    · rename_i d' hd'
      rw [hd] at hd'
      cases hd'
      rfl
    · rename_i hd'
      rw [hd] at hd'
      cases hd'
  rw [← hname] at hd hi
  refine ⟨(openDecoder_plainIn hn hc hos hd hi).1, hnd, ?_⟩
  rw [decodeResult_plain hn hc hos hd hi, hinner]
  simp only [MacProps.good, goodOf, hl, hcrc]

end LhasaV.TestBytes
