import LhasaV.Lemmas.Lh1Mirror16
import LhasaV.Lemmas.Lh1MirrorDrv
/-!
# C02 — the -lh1- decoder stays in lock-step with the LZHUF model

Umbrella module.  Layers (all without `sorry`; axioms: `propext`, `Classical.choice`, `Quot.sound`):

* `Lh1MirrorTab`  kernel-evaluated finite tables (offset tables = `d_code`/`p_len`; position code)
* `Lh1Mirror1`    views of `Lzhuf.TreeState`, one round of `updateLoop` (`stepZ`), `exchange`
* `Lh1Mirror2`    the mirror relation `MirF` over plain functions; swap + increment = exchange
* `Lh1Mirror3`    `make_group_leader` / `increment_node_freq` with their full effect; `Mirror`
* `Lh1Mirror4`    the climb against `updateLoop`; `mirror_update_no_rebuild`
* `Lh1Mirror5`    `StartHuff` vs `lha_lh1_init`: `mirror_init`
* `Lh1Mirror6`    `lh1_lockstep_no_rebuild`
* `Lh1Mirror7`    the loops of `reconst` on views
* `Lh1Mirror8`    second loop of `reconstruct_tree` in lock-step with `buildInner`
* `Lh1Mirror9`    `mirror_rebuild`
* `Lh1Mirror10`   `mirror_update` (every state), `lh1_lockstep` (any length, any number of rebuilds)
* `Lh1Mirror11`   frame lemmas (tree operations leave bit reader, ring, offset tables alone)
* `Lh1Mirror12`   `walk_codeBits`: the code words agree
* `Lh1Mirror13`   `read_offset` vs `EncodePosition`
* `Lh1Mirror14`   one `lha_lh1_read` = one command
* `Lh1Mirror15`   `lh1_round_trip`, `lh1_reads`
* `Lh1Mirror16`   root frequency = 314 + number of symbols; the rebuild branch is reached
* `Lh1MirrorDrv`  `Mirror` ⇔ the driver's executable check `mirrorDiff … = none`

## About `Props.C02.RoundTripStatement`

As stated (for *every* declared length `n`) it is **false**: `EncodeEnd` pads the last byte with up
to seven zero bits, and a short all-zero code word makes the decoder emit further symbols when it
is asked for more bytes than the commands denote.  Concretely (checked with `#eval` on the model):
`cmds = List.replicate 185 (.lit 65)`, `n = 205`, `ks = [205]`, `b = 8192` gives 192 bytes
(seven extra `65`), the right-hand side has 185.  LHA never reads beyond the length recorded in
the header; `RoundTripCorrected` below adds `n ≤ (expandWin 0x20 cmds).length` and is proved.
-/
namespace LhasaV.Lh1Mirror
open LhasaV LhasaV.Lh1 LhasaV.Spec.Lzhuf LhasaV.Spec.Lz77

/-- `Props.C02.RoundTripStatement` with the side condition that the declared length does not
exceed the length of the data -/
def RoundTripCorrected : Prop :=
  ∀ (cmds : List WCmd), (∀ c ∈ cmds, valid c = true) →
    ∀ (n b : Nat) (ks : List Nat), n ≤ (expandWin 0x20 cmds).length →
      (Wrap.reads (Dec.total Lh1.dec) ks
        { inner := .ok (Lh1.dec.init { data := (encode cmds).toArray }), length := n, blockSize := b }).1.1
      = (expandWin 0x20 cmds).take (min ks.sum n)

theorem roundTripCorrected : RoundTripCorrected :=
  fun cmds hv n b ks hn => lh1_reads cmds hv 0 n b ks hn

/-! ## non-vacuity -/

/-- a concrete symbol sequence (literals and copy lengths) -/
example (src : Src) : ∃ d, decTree src [65, 66, 300, 65, 313, 0] = .ok d ∧ Lh1.Inv d ∧
    Mirror d (run [65, 66, 300, 65, 313, 0]) :=
  lh1_lockstep src _ (by decide)

/-- the hypotheses of `mirror_update_no_rebuild` and `mirror_rebuild` are satisfiable -/
example (src : Src) : ∃ d z, Mirror d z ∧ Lh1.Inv d ∧ fr d 0 < 0x8000 := by
  obtain ⟨s, e, hi, hm⟩ := mirror_init src
  exact ⟨s, startHuff, hm, hi, by rw [init_root src s e]; decide⟩

/-- a sequence long enough to pass through the rebuild (40000 > 0x8000 − 314 symbols): after its
first 32454 symbols LZHUF's root is at `MAX_FREQ` (`run_reaches_limit`), the next symbol rebuilds -/
example (src : Src) : ∃ d, decTree src (List.replicate 40000 65) = .ok d ∧ Lh1.Inv d ∧
    Mirror d (run (List.replicate 40000 65)) :=
  lh1_lockstep src _ (fun c hc => by rw [List.mem_replicate] at hc; omega)

example : (run (List.replicate 32454 65)).freq.getD R 0 = MAX_FREQ :=
  run_reaches_limit _ (fun c hc => by rw [List.mem_replicate] at hc; omega) List.length_replicate

/-- the mirror relation is the driver's check -/
example (src : Src) (syms : List Nat) (h : ∀ c ∈ syms, c < 314) :
    ∃ d, decTree src syms = .ok d ∧ Driver.mirrorDiff (run syms) d = none := by
  obtain ⟨d, e, hi, hm⟩ := lh1_lockstep src syms h
  exact ⟨d, e, mirror_driver d _ hi hm⟩

/-- round trip of a concrete command list: two literals, an overlapping copy from distance 1 and a
copy from distance 0, any callback chunking, block size and read schedule -/
example (c b : Nat) (ks : List Nat) :
    (Wrap.reads (Dec.total Lh1.dec) ks
      { inner := .ok (Lh1.dec.init
          { data := (encode [.lit 65, .lit 66, .copy 1 5, .copy 0 3]).toArray, chunk := c }),
        length := 10, blockSize := b }).1.1
      = ([65, 66, 65, 66, 65, 66, 65, 65, 65, 65] : List UInt8).take (min ks.sum 10) := by
  have h := lh1_reads [.lit 65, .lit 66, .copy 1 5, .copy 0 3] (by decide) c 10 b ks (by decide)
  have e : expandWin 0x20 [.lit 65, .lit 66, .copy 1 5, .copy 0 3]
      = [65, 66, 65, 66, 65, 66, 65, 65, 65, 65] := by decide
  rw [e] at h
  exact h

end LhasaV.Lh1Mirror
