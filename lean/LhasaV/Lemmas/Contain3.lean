import LhasaV.Lemmas.Contain2
/-!
# C10, main phase (part 3): `make_parent_directories` and `lha_reader_extract`

In a `SafeLinks` state, with a relative ".."-free file name, `make_parent_directories` and
`lha_reader_extract` on a normal entry (file, directory, safe link, dangerous link → placeholder
file) or on a re-presented directory (`fakeDir`: metadata) are `Contained`: they log only
mutations below the extraction directory and keep all links below it safe.
-/
namespace LhasaV.Contain
open LhasaV LhasaV.Header LhasaV.Extract LhasaV.GlobFs

/-! ## prefixes of a clean path cut at a separator -/

theorem noDotDot_left (x y : Bytes) (h : NoDotDot (x ++ 0x2f :: y)) : NoDotDot x := by
  intro c hc
  exact h c (by rw [split_append]; exact List.mem_append_left _ hc)

theorem head_prefix_rel (x y : Bytes) (h : (x ++ y).head? ≠ some 0x2f) : x.head? ≠ some 0x2f := by
  cases x with
  | nil => simp
  | cons b bs => simpa using h

theorem relClean_left (x y : Bytes) (h : RelClean (x ++ 0x2f :: y)) : RelClean x :=
  ⟨head_prefix_rel x _ h.1, noDotDot_left x y h.2⟩

theorem split_at_slash (p : Bytes) (i : Nat) (hi : i < p.length) (hs : p.getD i 0 = 0x2f) :
    p = p.take i ++ 0x2f :: p.drop (i + 1) := by
  have h1 : p[i] = 0x2f := by
    simpa [List.getD_eq_getElem?_getD, hi] using hs
  have h2 : p.drop i = p[i] :: p.drop (i + 1) := List.drop_eq_getElem_cons hi
  calc p = p.take i ++ p.drop i := (List.take_append_drop i p).symm
    _ = p.take i ++ 0x2f :: p.drop (i + 1) := by rw [h2, h1]

theorem relClean_take (p : Bytes) (hp : RelClean p) (i : Nat) (hi : i < p.length)
    (hs : p.getD i 0 = 0x2f) : RelClean (p.take i) := by
  have := split_at_slash p i hi hs
  rw [this] at hp
  exact relClean_left _ _ hp

theorem mem_takeWhile_pred {α} (p : α → Bool) : ∀ (l : List α) (x : α), x ∈ l.takeWhile p → p x = true := by
  intro l
  induction l with
  | nil => intro x h; simp at h
  | cons a l ih =>
    intro x h
    rw [List.takeWhile_cons] at h
    split at h
    · rcases List.mem_cons.1 h with rfl | h
      · assumption
      · exact ih x h
    · simp at h

/-- removing trailing separators keeps a path relative and ".."-free -/
theorem relClean_trim (p : Bytes) (hp : RelClean p) :
    RelClean ((p.reverse.dropWhile (· == 0x2f)).reverse) := by
  have hsplit : p = (p.reverse.dropWhile (· == 0x2f)).reverse ++ (p.reverse.takeWhile (· == 0x2f)).reverse := by
    have := List.takeWhile_append_dropWhile (p := (· == (0x2f : UInt8))) (l := p.reverse)
    have h2 := congrArg List.reverse this
    rw [List.reverse_append, List.reverse_reverse] at h2
    exact h2.symm
  cases htl : (p.reverse.takeWhile (· == 0x2f)).reverse with
  | nil => rw [htl, List.append_nil] at hsplit; rw [← hsplit]; exact hp
  | cons b tl =>
    have hb : b = 0x2f := by
      have hm : b ∈ p.reverse.takeWhile (· == 0x2f) := by
        rw [← List.mem_reverse, htl]; simp
      simpa using mem_takeWhile_pred _ _ _ hm
    subst hb
    rw [htl] at hsplit
    rw [hsplit] at hp
    exact relClean_left _ _ hp

theorem mem_prefixEnds (p : Bytes) (i : Nat) (h : i ∈ prefixEnds p) :
    i < p.length ∧ p.getD i 0 = 0x2f := by
  unfold prefixEnds at h
  simp only [List.mem_filter, List.mem_range] at h
  refine ⟨h.1, ?_⟩
  have := h.2
  simp only [decide_eq_true_eq] at this
  simpa using this.2

/-! ## `check_parent_directory`, `make_parent_directories` -/

theorem checkParent_contained (fs : Fs.St) (hs : SafeLinks fs) (path : Bytes) (hp : RelClean path) :
    Contained fs (checkParentDirectory fs path).2 := by
  unfold checkParentDirectory
  split
  · exact Contained.refl fs hs
  · exact mkdir_contained fs hs path _ hp
  · exact Contained.refl fs hs
  · exact Contained.refl fs hs

theorem parents_fold_contained (fs0 : Fs.St) (trimmed : Bytes) (l : List Nat)
    (hl : ∀ i ∈ l, RelClean (trimmed.take i)) :
    ∀ acc : Bool × Fs.St, Contained fs0 acc.2 →
      Contained fs0 (l.foldl (fun (acc : Bool × Fs.St) i =>
        if !acc.1 then acc else checkParentDirectory acc.2 (trimmed.take i)) acc).2 := by
  induction l with
  | nil => intro acc h; exact h
  | cons i l ih =>
    intro acc h
    rw [List.foldl_cons]
    apply ih (fun j hj => hl j (by simp [hj]))
    split
    · exact h
    · exact h.trans (checkParent_contained acc.2 h.safe _ (hl i (by simp)))

/-- **`make_parent_directories`** in a `SafeLinks` state, for a relative ".."-free path -/
theorem makeParents_contained (fs : Fs.St) (hs : SafeLinks fs) (path : Bytes) (hp : RelClean path) :
    Contained fs (makeParentDirectories fs path).2 := by
  unfold makeParentDirectories
  simp only
  apply parents_fold_contained fs _ _ _ (true, fs) (Contained.refl fs hs)
  intro i hi
  obtain ⟨h1, h2⟩ := mem_prefixEnds _ i hi
  exact relClean_take _ (relClean_trim path hp) i h1 h2

/-! ## `set_directory_metadata` -/

theorem setDirMeta_contained (fs : Fs.St) (hs : SafeLinks fs) (h : Hdr) (path : Bytes)
    (hp : RelClean path) : Contained fs (setDirectoryMetadata fs h path) := by
  unfold setDirectoryMetadata
  simp only
  have h1 : Contained fs (if h.timestamp ≠ 0 then (Fs.utime fs path h.timestamp).2 else fs) := by
    split
    · exact utime_contained fs hs path _ hp
    · exact Contained.refl fs hs
  split
  · exact h1.trans (chmod_contained _ h1.safe path _ hp)
  · exact h1

/-! ## `lha_reader_extract` -/

/-- **C10, main phase.**  `lha_reader_extract` on anything but a deferred link — a normal entry
(file, directory, safe link, dangerous link → placeholder FILE) or a re-presented directory —
with a relative ".."-free file name in a `SafeLinks` state: every mutation it logs is below the
extraction directory, and `SafeLinks` still holds afterwards (a dangerous link is never created
in the main phase). -/
theorem readerExtract_contained (rd : Reader.St) (fs : Fs.St) (filename : Bytes)
    (hs : SafeLinks fs) (hp : RelClean filename) (hnd : rd.currType ≠ .deferred) :
    Contained fs (readerExtract rd fs filename).2.2 := by
  unfold readerExtract
  split
  · -- normal
    rename_i c _ _
    simp only
    split
    · -- extract_file
      split
      · exact Contained.refl fs hs
      · have hf := archFopen_contained fs hs filename
          (if hasFlag c.h Gen.flagUnixPerms then some c.h.unixPerms else none) hp
        split
        · exact hf.1
        · rename_i p hpq
          have hpc : (Fs.archFopen fs filename
              (if hasFlag c.h Gen.flagUnixPerms then some c.h.unixPerms else none)).2.cwd <+: p := by
            rw [hf.1.cwd]; exact hf.2 p hpq
          have hw := writeAll_contained _ hf.1.safe p (Reader.extract rd true).1.2 hpc
          simp only
          split
          · exact (hf.1.trans hw).trans (utime_contained _ hw.safe filename _ hp)
          · exact hf.1.trans hw
    · split
      · split
        · -- placeholder
          exact (archFopen_contained fs hs filename (some 0o600) hp).1
        · -- safe link
          rename_i hd
          have hd' : Reader.isDangerous c.h = false := by simpa using hd
          exact archSymlink_contained fs hs filename _ hp (safe_of_not_dangerous c.h hd')
      · -- extract_directory
        have hm := fun mode => mkdir_contained fs hs filename mode hp
        repeat' split
        all_goals first
          | exact hm _
          | exact (hm _).trans (setDirMeta_contained _ (hm _).safe c.h filename hp)
  · -- fakeDir
    exact setDirMeta_contained fs hs _ filename hp
  · -- deferred
    rename_i _ _ ht _
    exact absurd ht hnd
  · exact Contained.refl fs hs

/-- the combination `extract_archived_file` performs: parents first, then the entry -/
theorem parents_then_extract_contained (rd : Reader.St) (fs : Fs.St) (filename : Bytes)
    (hs : SafeLinks fs) (hp : RelClean filename) (hnd : rd.currType ≠ .deferred) :
    Contained fs (readerExtract rd (makeParentDirectories fs filename).2 filename).2.2 := by
  have h1 := makeParents_contained fs hs filename hp
  exact h1.trans (readerExtract_contained rd _ filename h1.safe hp hnd)

end LhasaV.Contain
