import LhasaV.Lemmas.ArchiveOf2
/-!
# C06, archives as bytes (part 3): the header the parser returns for a member

`hdrOf e` is the header a caller receives for `member e`: `normalise_entry` evaluates the
normalisation stage (`Header.postProcess`: symlink split at '|', `collapse_path`, …) on the typed
fields, `header_read_member` combines it with the C05 round trip, `hdrOf_denotes` shows that the
header denotes the entry in the sense of `HdrOf`.
-/
set_option linter.unusedSimpArgs false
namespace LhasaV.ArchiveOf
open LhasaV LhasaV.Header LhasaV.Extract LhasaV.GlobFs LhasaV.Contain LhasaV.ExtractTree
open LhasaV.ExtractTree.Sample LhasaV.Spec.HeaderEnc

theorem lhdM_eq : lhdM = "-lhd-".toUTF8.toList := by decide +kernel
theorem lhdM_eq2 : "-lhd-".toByteArray.toList = lhdM := by decide +kernel
theorem lh0_eq2 : "-lh0-".toByteArray.toList = lh0 := by decide +kernel
theorem lh7_eq2 : "-lh7-".toByteArray.toList ≠ lh0 := by decide +kernel
theorem lh0_ne_lhdM : lh0 ≠ lhdM := by decide

def flagsOf : Option Nat → Nat
  | some _ => 1
  | none => 0

def pathOf (dl : Fs.Path) : Option Bytes := if dl = [] then none else some (joinDir dl)

/-- the header the parser returns for the entry's member -/
def hdrOf (pk : Packer) : Entry → Hdr
  | .dir p perms t =>
    { path := some (joinDir p), method := lhdM, level := lvl pk, osType := 0x55, timestamp := t,
      raw := rawOf (fieldsOf pk (.dir p perms t)), extraFlags := flagsOf perms, unixPerms := perms.getD 0 }
  | .file p data perms t =>
    { path := pathOf p.dropLast, filename := some (p.getLast?.getD []), method := (pk.pack data).1,
      compressedLength := (pk.pack data).2.length, length := data.length, level := lvl pk, osType := 0x55,
      crc := (Crc.buf 0 data).toNat, timestamp := t,
      raw := rawOf (fieldsOf pk (.file p data perms t)), extraFlags := flagsOf perms, unixPerms := perms.getD 0 }
  | .link p tg =>
    { path := pathOf p.dropLast, filename := some (p.getLast?.getD []), symlinkTarget := some tg,
      method := lhdM, level := lvl pk, osType := 0x55,
      raw := rawOf (fieldsOf pk (.link p tg)), extraFlags := 1, unixPerms := 0o120777 }

theorem stored_path (p : Fs.Path) (hpl : ∀ c ∈ p, PlainName c) :
    cstr ((sp p).map (fun b => if b = 0xff then 0x2f else b)) = joinDir p := by
  rw [map_sp p (fun c hc b hb => (hpl c hc b hb).2.1)]
  exact cstr_id _ (joinDir_bytes p (· ≠ 0) (by decide) (fun c hc b hb => (hpl c hc b hb).1))

theorem lvl_le_one (pk : Packer) : (lvl pk ≤ 1) = (pk.level1 = true) := by
  unfold lvl; split <;> simp [*]

theorem lvl_ne_zero (pk : Packer) : lvl pk ≠ 0 := by
  unfold lvl; split <;> decide

theorem normalise_dir (pk : Packer) (mk : Nat → Nat) (p : Fs.Path) (perms : Option Nat) (t : Nat)
    (hk : EntryOk (.dir p perms t)) (he : EntryEnc (.dir p perms t)) :
    normalise mk (fieldsOf pk (.dir p perms t)) = .ok (hdrOf pk (.dir p perms t)) := by
  obtain ⟨hpl, _, _, hpf⟩ := he
  have hne : p ≠ [] := hk.ne
  have hn : ∀ c ∈ p, Name c := hk.names
  have hp := stored_path p hpl
  have ht : typed mk (fieldsOf pk (.dir p perms t)) = hdrOf pk (.dir p perms t) := by
    unfold hdrOf
    cases hl : pk.level1 <;> cases perms <;>
      simp [typed, fieldsOf, lvl, baseTime, timeExt, hl, permExt, applyExt, sp_getLast p hne, hp, flagsOf]
  unfold normalise
  rw [ht]
  unfold hdrOf postProcess
  cases perms with
  | none =>
    simp [methodIs, lhdM_eq2, hasFlag, dosLikeOs, bor, collapse_joinDir p hn, flagsOf, Gen.flagOs9Perms,
      Gen.flagCommonCrc, Gen.flagUnixPerms]
  | some q =>
    have hq : q &&& 0o170000 ≠ 0o120000 := hpf.2 rfl
    simp [methodIs, lhdM_eq2, hasFlag, dosLikeOs, bor, collapse_joinDir p hn, flagsOf, hq, Gen.flagOs9Perms,
      Gen.flagCommonCrc, Gen.flagUnixPerms]

theorem fname_id (s : Bytes) (h0 : ∀ b ∈ s, b ≠ 0) (hs : ∀ b ∈ s, b ≠ 0x2f) :
    (cstr s).map (fun b => if b = 0x2f then 0x5f else b) = s := by
  rw [cstr_id s h0]
  conv => rhs; rw [← List.map_id s]
  apply List.map_congr_left
  intro b hb
  simp [hs b hb]

theorem findIdx_sep (a tl : Bytes) (h : ∀ b ∈ a, b ≠ 0x7c) :
    (a ++ 0x7c :: tl).findIdx? (· == 0x7c) = some a.length := by
  induction a with
  | nil => simp [List.findIdx?_cons]
  | cons x a ih =>
    have hx : (x == 0x7c) = false := by simpa using h x (by simp)
    rw [List.cons_append, List.findIdx?_cons, hx]
    simp only [Bool.false_eq_true, if_false]
    rw [ih (fun b hb => h b (List.mem_cons_of_mem _ hb))]
    simp

theorem takeWhile_all {α} (p : α → Bool) (l : List α) (h : ∀ b ∈ l, p b = true) : l.takeWhile p = l := by
  induction l with
  | nil => rfl
  | cons b l ih =>
    rw [List.takeWhile_cons, h b (by simp), if_pos rfl, ih (fun b' hb' => h b' (List.mem_cons_of_mem _ hb'))]

theorem split_last (a name : Bytes) (hn : ∀ b ∈ name, b ≠ 0x2f) :
    ((a ++ 0x2f :: name).reverse.takeWhile (· ≠ 0x2f)).reverse = name := by
  rw [List.reverse_append, List.reverse_cons, List.append_assoc, List.takeWhile_append]
  have h1 : name.reverse.takeWhile (· ≠ 0x2f) = name.reverse := by
    apply takeWhile_all
    intro b hb
    simpa using hn b (List.mem_reverse.1 hb)
  rw [h1]
  simp

theorem normalise_file (pk : Packer) (mk : Nat → Nat) (p : Fs.Path) (data : Bytes) (perms : Option Nat) (t : Nat)
    (hk : EntryOk (.file p data perms t)) (he : EntryEnc (.file p data perms t)) (hpk : PackOk pk data) :
    normalise mk (fieldsOf pk (.file p data perms t)) = .ok (hdrOf pk (.file p data perms t)) := by
  obtain ⟨hpl, _, _, hpf, _⟩ := he
  have hmd : ((pk.pack data).1 == lhdM) = false := by
    rw [beq_eq_false_iff_ne]; exact hpk.notDir
  have hne : p ≠ [] := hk.ne
  have hn : ∀ c ∈ p, Name c := hk.names
  have hdl : ∀ c ∈ p.dropLast, Name c := fun c hc => hn c (List.dropLast_subset _ hc)
  have hp := stored_path p.dropLast (fun c hc => hpl c (List.dropLast_subset _ hc))
  have hlast : p.getLast?.getD [] ∈ p := by
    rw [List.getLast?_eq_some_getLast hne]; exact List.getLast_mem hne
  have hf := fname_id (p.getLast?.getD []) (fun b hb => (hpl _ hlast b hb).1) (hn _ hlast).1
  have ht : typed mk (fieldsOf pk (.file p data perms t)) = hdrOf pk (.file p data perms t) := by
    unfold hdrOf
    by_cases hd : p.dropLast = []
    · cases hl : pk.level1 <;> cases perms <;>
        simp [typed, fieldsOf, lvl, baseTime, timeExt, hl, permExt, pathExt, pathOf, hd, applyExt, hf, flagsOf]
    · cases hl : pk.level1 <;> cases perms <;>
        simp [typed, fieldsOf, lvl, baseTime, timeExt, hl, permExt, pathExt, pathOf, hd, applyExt, hf, flagsOf,
          sp_getLast _ hd, hp]
  have hcol : (pathOf p.dropLast).map PathFix.collapse = pathOf p.dropLast := by
    unfold pathOf
    split
    · rfl
    · simp [collapse_joinDir _ hdl]
  unfold normalise
  rw [ht]
  unfold hdrOf postProcess
  cases perms <;>
    simp [methodIs, lhdM_eq2, hmd, hasFlag, dosLikeOs, bor, flagsOf, hcol, Gen.flagOs9Perms,
      Gen.flagCommonCrc, Gen.flagUnixPerms]

theorem take_sep {α} (a : List α) (x : α) (tl : List α) : (a ++ x :: tl).take a.length = a := by
  simp

theorem drop_sep {α} (a : List α) (x : α) (tl : List α) : (a ++ x :: tl).drop (a.length + 1) = tl := by
  rw [← List.drop_drop]; simp

theorem pathOf_getD (dl : Fs.Path) : (pathOf dl).getD [] = joinDir dl := by
  unfold pathOf
  split
  · rename_i h; subst h; rfl
  · rfl

theorem splitFilename_link (h : Hdr) (dl : Fs.Path) (name : Bytes) (hn : NoSlash name)
    (hf : h.filename = some (joinDir dl ++ name)) :
    splitFilename h = { h with path := if dl = [] then h.path else some (joinDir dl), filename := some name } := by
  unfold splitFilename
  rw [hf]
  by_cases hd : dl = []
  · subst hd
    have : (joinDir [] ++ name).contains 0x2f = false := by
      simp only [joinDir, List.nil_append]
      cases hc : name.contains 0x2f with
      | false => rfl
      | true => simp only [List.contains_iff_mem] at hc; exact absurd rfl (hn _ hc)
    simp only [this, Bool.false_eq_true, if_false, if_true]
    cases h; simp_all [joinDir]
  · have hj := joinDir_eq dl hd
    have : (joinDir dl ++ name).contains 0x2f = true := by
      rw [hj]; simp
    simp only [this, if_true, hd, if_false]
    have e : joinDir dl ++ name = joinPath dl ++ 0x2f :: name := by rw [hj]; simp
    rw [e, split_last _ _ hn]
    congr 2
    have : (joinPath dl ++ 0x2f :: name).length - name.length = (joinPath dl ++ [0x2f]).length := by
      simp; omega
    rw [this, hj, show joinPath dl ++ 0x2f :: name = (joinPath dl ++ [0x2f]) ++ name by simp]
    exact List.take_left'  rfl

theorem parseSymlink_link (h : Hdr) (dl : Fs.Path) (name tg : Bytes)
    (hpl : ∀ c ∈ dl, PlainName c) (hn : NoSlash name) (hnp : PlainName name)
    (hp : h.path = pathOf dl) (hf : h.filename = some (name ++ [0x7c] ++ tg)) :
    parseSymlink h = .ok { h with symlinkTarget := some tg, path := pathOf dl, filename := some name } := by
  have hfull : fullPath h = (joinDir dl ++ name) ++ 0x7c :: tg := by
    unfold fullPath; rw [hp, hf, pathOf_getD]; simp
  have hno : ∀ b ∈ joinDir dl ++ name, b ≠ 0x7c := by
    intro b hb
    rcases List.mem_append.1 hb with hb | hb
    · exact joinDir_bytes dl (· ≠ 0x7c) (by decide) (fun c hc b hb => (hpl c hc b hb).2.2) b hb
    · exact (hnp b hb).2.2
  unfold parseSymlink
  simp only [hfull, findIdx_sep _ _ hno, take_sep, drop_sep]
  rw [splitFilename_link _ dl name hn rfl]
  congr 1

theorem normalise_link (pk : Packer) (mk : Nat → Nat) (p : Fs.Path) (tg : Bytes)
    (hk : EntryOk (.link p tg)) (he : EntryEnc (.link p tg)) :
    normalise mk (fieldsOf pk (.link p tg)) = .ok (hdrOf pk (.link p tg)) := by
  obtain ⟨hpl, _, htg⟩ := he
  have hne : p ≠ [] := hk.ne
  have hn : ∀ c ∈ p, Name c := hk.names
  have hdl : ∀ c ∈ p.dropLast, Name c := fun c hc => hn c (List.dropLast_subset _ hc)
  have hpdl : ∀ c ∈ p.dropLast, PlainName c := fun c hc => hpl c (List.dropLast_subset _ hc)
  have hp := stored_path p.dropLast hpdl
  have hlast : p.getLast?.getD [] ∈ p := by
    rw [List.getLast?_eq_some_getLast hne]; exact List.getLast_mem hne
  have hf := fname_id (p.getLast?.getD [] ++ [0x7c] ++ tg)
    (by
      intro b hb
      simp only [List.mem_append, List.mem_singleton] at hb
      rcases hb with (hb | hb) | hb
      · exact (hpl _ hlast b hb).1
      · subst hb; decide
      · exact (htg b hb).1)
    (by
      intro b hb
      simp only [List.mem_append, List.mem_singleton] at hb
      rcases hb with (hb | hb) | hb
      · exact (hn _ hlast).1 b hb
      · subst hb; decide
      · exact (htg b hb).2)
  have key : ∀ (h : Hdr), h.method = lhdM → h.extraFlags = 1 → h.unixPerms = 0o120777 → h.osType = 0x55 →
      h.path = pathOf p.dropLast → h.filename = some (p.getLast?.getD [] ++ [0x7c] ++ tg) →
      postProcess h = .ok { h with symlinkTarget := some tg, path := pathOf p.dropLast,
                                   filename := some (p.getLast?.getD []) } := by
    intro h h1 h2 h3 h4 h6 h7
    have hps := parseSymlink_link h p.dropLast (p.getLast?.getD []) tg hpdl (hn _ hlast).1 (hpl _ hlast) h6 h7
    have hcol : (pathOf p.dropLast).map PathFix.collapse = pathOf p.dropLast := by
      unfold pathOf
      split
      · rfl
      · simp [collapse_joinDir _ hdl]
    unfold postProcess
    simp [methodIs, lhdM_eq2, hasFlag, dosLikeOs, bor, h1, h2, h3, h4, h7, hps, hcol,
      Gen.flagOs9Perms, Gen.flagCommonCrc, Gen.flagUnixPerms]
  have ht : typed mk (fieldsOf pk (.link p tg)) =
      { hdrOf pk (.link p tg) with symlinkTarget := none,
                                   filename := some (p.getLast?.getD [] ++ [0x7c] ++ tg) } := by
    unfold hdrOf
    have hf' : List.map (fun b => if b = 0x2f then (0x5f : UInt8) else b) (cstr (p.getLast?.getD [] ++ 0x7c :: tg)) =
        p.getLast?.getD [] ++ 0x7c :: tg := by simpa using hf
    by_cases hd : p.dropLast = []
    · cases hl : pk.level1 <;>
        simp [typed, fieldsOf, lvl, baseTime, timeExt, hl, pathExt, pathOf, hd, applyExt, hf']
    · cases hl : pk.level1 <;>
        simp [typed, fieldsOf, lvl, baseTime, timeExt, hl, pathExt, pathOf, hd, applyExt, hf', sp_getLast _ hd, hp]
  unfold normalise
  rw [ht, key _ rfl rfl rfl rfl rfl rfl]
  rfl

/-- **the normalisation stage accepts the fields of every encodable entry and yields `hdrOf`** -/
theorem normalise_entry (pk : Packer) (mk : Nat → Nat) (e : Entry) (hk : EntryOk e) (he : EntryEnc e)
    (hpk : FilePack pk e) : normalise mk (fieldsOf pk e) = .ok (hdrOf pk e) := by
  cases e with
  | dir p perms t => exact normalise_dir pk mk p perms t hk he
  | file p data perms t => exact normalise_file pk mk p data perms t hk he hpk
  | link p tg => exact normalise_link pk mk p tg hk he

/-- **the header parser on the bytes of a member**: it returns `hdrOf e` and leaves exactly the
member's data and whatever follows -/
theorem header_read_member (pk : Packer) (mk : Nat → Nat) (e : Entry) (hk : EntryOk e) (he : EntryEnc e)
    (hpk : FilePack pk e) (rest : Bytes) :
    Header.read mk (encode (fieldsOf pk e) ++ rest) = .ok (hdrOf pk e, rest) :=
  HeaderRT.header_roundtrip_ok mk _ (fields_wf pk hk he hpk) rest _ (normalise_entry pk mk e hk he hpk)

theorem permsOf_hdr (h : Hdr) (perms : Option Nat) (h1 : h.extraFlags = flagsOf perms)
    (h2 : h.unixPerms = perms.getD 0) : permsOf h = perms := by
  unfold permsOf hasFlag
  rw [h1, h2]
  cases perms <;> simp [flagsOf, Gen.flagUnixPerms]

/-- **the returned header denotes the entry** -/
theorem hdrOf_denotes (pk : Packer) (e : Entry) (hpk : FilePack pk e) : HdrOf e (hdrOf pk e) := by
  cases e with
  | dir p perms t =>
    refine ⟨rfl, rfl, lhdM_eq, rfl, permsOf_hdr _ _ rfl rfl, rfl⟩
  | file p data perms t =>
    refine ⟨pathOf_getD _, rfl, ?_, rfl, permsOf_hdr _ _ rfl rfl, rfl⟩
    show (pk.pack data).1 ≠ "-lhd-".toUTF8.toList
    rw [← lhdM_eq]; exact hpk.notDir
  | link p tg =>
    exact ⟨pathOf_getD _, rfl, lhdM_eq, rfl⟩

theorem hdrOf_clen (pk : Packer) (e : Entry) : (hdrOf pk e).compressedLength = (dataOf pk e).length := by
  cases e <;> rfl

theorem hdrOf_os (pk : Packer) (e : Entry) : (hdrOf pk e).osType = 0x55 := by
  cases e <;> rfl

end LhasaV.ArchiveOf
