import LhasaV.Lemmas.TestBytes2
/-!
# C07 on bytes (part 3): `test_archived_file_crc` on a member of `flatI pk its`

The specification side, on ENTRIES and BYTES (no reader state):

* `srcOf pk data comp`: what `lha_basic_reader_read_compressed` can deliver for the member — the
  physical bytes `comp`, and how many more the header promises;
* `decodedOf pk data comp`: the output of the method's decoder on that source, cut at the
  recorded length;
* `goodOf pk data comp`: that output has the recorded length and the recorded CRC-16;
* `testOut o pk it` / `testOk o pk it`: what `lha t` writes for a selected member and what it
  returns — nothing / good for directories and links; for a file the progress bar and the line
  `name - Tested` or `name - CRC error` by `goodOf`.

The model side: `check_item` (C07 `check_iff_all` read off the bytes: the verdict of
`lha_reader_check` on the member IS `goodOf`, and the decoder ends at position
`|decodedOf|`), `testEntry_item` (`Messages.testEntry` = `testOut`, `testOk`, and the reader
stands before the remaining members).
-/
set_option linter.unusedSimpArgs false
namespace LhasaV.TestBytes
open LhasaV LhasaV.Header LhasaV.Extract LhasaV.GlobFs LhasaV.Contain LhasaV.ExtractTree
open LhasaV.ExtractTree.Sample LhasaV.Spec.HeaderEnc LhasaV.Reader LhasaV.ReaderIndep LhasaV.ArchiveOf
open LhasaV.PrintList LhasaV.MacProps LhasaV.Messages

/-! ## specification -/

/-- the member source: the bytes physically present behind the header, and how many more the
header's compressed size promises -/
def srcOf (pk : Packer) (data comp : Bytes) : Src :=
  { data := comp.toArray, extra := (pk.pack data).2.length - comp.length }

/-- **the decoded content**: the output of the method's decoder on the physical bytes, cut at the
recorded length -/
def decodedOf (pk : Packer) (data comp : Bytes) : Bytes :=
  match decoderFor (mname (pk.pack data).1) with
  | some d => Wrap.avail d.total data.length (.ok (d.init (srcOf pk data comp)))
  | none => []

/-- **the C07 verdict on bytes**: the decoded content has the length and the CRC-16 recorded in the
header (those of `data`) -/
def goodOf (pk : Packer) (data comp : Bytes) : Bool :=
  (decodedOf pk data comp).length == data.length &&
    (Crc.buf 0 (decodedOf pk data comp)).toNat == (Crc.buf 0 data).toNat

theorem goodOf_iff (pk : Packer) (data comp : Bytes) :
    goodOf pk data comp = true ↔
      ((decodedOf pk data comp).length = data.length ∧ Crc.buf 0 (decodedOf pk data comp) = Crc.buf 0 data) := by
  simp [goodOf, BitVec.toNat_inj]

/-- the unit of the progress bar: the block size of the method -/
def blockSizeOf (m : Bytes) : Nat :=
  match decoderInfo (mname m) with
  | some info => info.2.2
  | none => 1

/-- **what `lha t[q][n]…` writes for a selected member** -/
def testOut (o : Opts) (pk : Packer) (it : Item) : Bytes :=
  match it.e with
  | .file _ data _ _ =>
    if o.dryRun then safe (str "VERIFY " ++ shownName o it.e) ++ nl
    else
      progressOutput o.quiet (shownName o it.e) (str "Testing  :")
          (ceilDiv data.length (blockSizeOf (pk.pack data).1))
          (ceilDiv (decodedOf pk data it.comp).length (blockSizeOf (pk.pack data).1)) ++
        statusLine o.quiet (shownName o it.e) (if goodOf pk data it.comp then str "Tested" else str "CRC error")
  | _ => []

/-- **the verdict `lha t` records for a selected member**: good for directories and links and in
a dry run; for a file `goodOf` -/
def testOk (o : Opts) (pk : Packer) (it : Item) : Bool :=
  match it.e with
  | .file _ data _ _ => o.dryRun || goodOf pk data it.comp
  | _ => true

/-! ## the member source -/

/-- the member source of a member of which `comp` is physically there -/
theorem memberSrc_item (b : Basic) (comp rest : Bytes) (n : Nat) (hrem : b.remaining = n)
    (heof : b.eof = false) (hdrop : b.stream.data.toList.drop b.stream.pos = comp ++ rest)
    (hle : comp.length ≤ n) (hshort : comp.length < n → rest = []) :
    memberSrc b = { data := comp.toArray, extra := n - comp.length } := by
  have hav : b.stream.data.size - b.stream.pos = comp.length + rest.length := by
    have := congrArg List.length hdrop
    rw [List.length_drop, Array.length_toList, List.length_append] at this
    exact this
  have hphys : min n (b.stream.data.size - b.stream.pos) = comp.length := by
    by_cases h : comp.length < n
    · rw [hav, hshort h]; simp; omega
    · rw [hav]; omega
  have hdata : b.stream.data.extract b.stream.pos (b.stream.pos + comp.length) = comp.toArray := by
    apply Array.ext'
    simp only [Array.toList_extract, List.extract_eq_take_drop]
    rw [hdrop]
    simp
  simp only [memberSrc, hrem, hphys, hdata, heof]

/-! ## `lha_reader_check` on a plain member: verdict AND final decoder position -/

/-- after `lha_reader_check` on a plain member the decoder is left open at the end of the decoded
content -/
theorem check_plain_state {s : Reader.St} {c : HObj} {d : Dec} {info : Nat × Nat × Nat}
    (ht : s.currType = .normal) (hc : s.curr = some c) (hos : c.h.osType ≠ 0x6d)
    (hm : c.h.method ≠ "-lhd-".toUTF8.toList)
    (hd : decoderFor (methodName c.h) = some d) (hi : decoderInfo (methodName c.h) = some info) :
    ∃ w, PlainIn (Reader.check s).2 d w ∧ w.pos = (innerBytes s c d).length := by
  obtain ⟨h1, h2, h3⟩ := openDecoder_plainIn ht hc hos hd hi
  obtain ⟨e1, e2⟩ := decodeLoop_plainIn (c.h.length + 2) h2 []
  have hT := tail_inner0 s c d info.2.2
  have hlen := innerBytes_length_le s c d
  have hd' := drain_all d.total 64 (by decide) (c.h.length + 2) (inner0 s c d info.2.2) []
    (by rw [hT]; omega)
  have hcons : Cons d.total (innerBytes s c d)
      (drain d.total 64 (c.h.length + 2) (inner0 s c d info.2.2) []).2 :=
    drain_inv d.total (Cons d.total (innerBytes s c d)) 64 (fun w hw => cons_read d.total 64 hw)
      _ _ [] (cons_start d.total hT rfl rfl)
  obtain ⟨q1, _⟩ := cons_done d.total hcons hd'.2
  refine ⟨_, ?_, q1⟩
  rw [check_eq_decodeResult ht hc hm]
  unfold decodeResult
  rw [if_neg (by rw [h1]; decide)]
  exact e2

/-- the progress callback's record of a `lha_reader_check` on a plain member -/
theorem monitorOf_check {s : Reader.St} {c : HObj} {d : Dec} {info : Nat × Nat × Nat}
    (ht : s.currType = .normal) (hc : s.curr = some c) (hos : c.h.osType ≠ 0x6d)
    (hm : c.h.method ≠ "-lhd-".toUTF8.toList)
    (hd : decoderFor (methodName c.h) = some d) (hi : decoderInfo (methodName c.h) = some info) :
    ∃ m, monitorOf s (Reader.check s).2 = some m ∧ m.total = ceilDiv c.h.length info.2.2 ∧
      m.last = ceilDiv (innerBytes s c d).length info.2.2 := by
  obtain ⟨w, ⟨mc, dg, hw⟩, hp⟩ := check_plain_state ht hc hos hm hd hi
  have hm' : (c.h.method == lhdName) = false := by
    rw [beq_eq_false_iff_ne]; exact hm
  refine ⟨⟨ceilDiv c.h.length info.2.2, ceilDiv (innerBytes s c d).length info.2.2⟩, ?_, rfl, rfl⟩
  unfold monitorOf
  simp only [ht, hc, hm', hd, hi, hw, bne_self_eq_false, Bool.false_eq_true, if_false, Open.innerSt, hp]

/-! ## a member of the archive -/

theorem hdr_method_dir {pk : Packer} {e : ExtractTree.Entry} (h : ∀ p data perms t, e ≠ .file p data perms t) :
    (hdrOf pk e).method = "-lhd-".toUTF8.toList := by
  cases e with
  | file p data perms t => exact absurd rfl (h p data perms t)
  | dir _ _ _ => exact lhdM_eq
  | link _ _ => exact lhdM_eq

/-- **`lha_reader_check` on a file member of the archive**: the verdict is `goodOf`, read off the
bytes; the progress callback saw the blocks up to the end of the decoded content -/
theorem check_item {pk : Packer} {A : Array UInt8} {p : Fs.Path} {data : Bytes} {perms : Option Nat}
    {t : Nat} {comp : Bytes} {tl : List Item} {c : HObj} {rd : Reader.St}
    (h : ShownI pk A ⟨.file p data perms t, comp⟩ tl c rd)
    (hok : ItemsOk pk (⟨.file p data perms t, comp⟩ :: tl)) :
    (Reader.check rd).1.1 = goodOf pk data comp ∧
    ∃ m, monitorOf rd (Reader.check rd).2 = some m ∧
      m.total = ceilDiv data.length (blockSizeOf (pk.pack data).1) ∧
      m.last = ceilDiv (decodedOf pk data comp).length (blockSizeOf (pk.pack data).1) := by
  obtain ⟨hke, hee, hpk, hle⟩ := hok.1
  have hpk : PackOk pk data := hpk
  obtain ⟨hdat, _, hrem, heof, _, _, hdrop⟩ := h.got
  obtain ⟨d, info, hd, hi, _⟩ := hpk.decodes
  have hh := h.hdr
  have hmm : c.h.method = (pk.pack data).1 := by rw [hh]; rfl
  have hname : methodName c.h = mname (pk.pack data).1 := by rw [methodName_eq, hmm]
  have hos : c.h.osType ≠ 0x6d := by rw [hh, hdrOf_os]; decide
  have hnd : c.h.method ≠ "-lhd-".toUTF8.toList := by
    rw [hmm, ← lhdM_eq]; exact hpk.notDir
  have hl : c.h.length = data.length := by rw [hh]; rfl
  have hcrc : c.h.crc = (Crc.buf 0 data).toNat := by rw [hh]; rfl
  have hsrc : memberSrc rd.basic = srcOf pk data comp :=
    memberSrc_item rd.basic comp (flatI pk tl) _ hrem heof (by rw [hdat]; exact hdrop) hle
      (fun hlt => by
        apply Classical.byContradiction
        intro hne
        have := hok.2.1 (fun h0 => hne (by rw [h0]; rfl))
        exact absurd this (Nat.ne_of_lt hlt))
  have hinner : innerBytes rd c d = decodedOf pk data comp := by
    unfold innerBytes decodedOf
    rw [hsrc, hl]
    split
    · rename_i d' hd'
      rw [hd] at hd'
      cases hd'
      rfl
    · rename_i hd'
      rw [hd] at hd'
      cases hd'
  have hbs : blockSizeOf (pk.pack data).1 = info.2.2 := by
    unfold blockSizeOf; rw [hi]
  have hd2 := hd
  have hi2 := hi
  rw [← hname] at hd2 hi2
  constructor
  · rw [check_eq_decodeResult h.normal h.curr hnd, decodeResult_plain h.normal h.curr hos hd2 hi2,
      hinner]
    simp only [MacProps.good, goodOf, hl, hcrc]
  · obtain ⟨m, h1, h2, h3⟩ := monitorOf_check h.normal h.curr hos hnd hd2 hi2
    exact ⟨m, h1, by rw [h2, hl, hbs], by rw [h3, hinner, hbs]⟩

/-- **`test_archived_file_crc` on a member of the archive**: output and verdict are the specified
ones (nothing on stderr, no `exit`), and the reader stands before the remaining members -/
theorem testEntry_item {pk : Packer} {A : Array UInt8} {it : Item} {tl : List Item} {c : HObj}
    {rd : Reader.St} (o : Opts) (h : ShownI pk A it tl c rd) (hok : ItemsOk pk (it :: tl)) :
    (testEntry o rd c.h).1.out = testOut o pk it ∧ (testEntry o rd c.h).1.ok = testOk o pk it ∧
    (testEntry o rd c.h).1.err = [] ∧ (testEntry o rd c.h).1.abort = false ∧
    WalkI pk A tl (testEntry o rd c.h).2 := by
  obtain ⟨hke, hee, hpk, hle⟩ := hok.1
  have hfn : fileFullPath c.h o = shownName o it.e := by
    rw [h.hdr]; exact fullPath_shown (hdrOf_denotes pk it.e hpk) hke o
  obtain ⟨e, comp⟩ := it
  cases e with
  | file p data perms t =>
    have hm : (c.h.method != lhdName) = true := by
      rw [h.hdr, bne_iff_ne]
      exact (hdrOf_denotes pk _ hpk).2.2.1
    by_cases hdry : o.dryRun = true
    · unfold testEntry
      simp only [hdry, if_true, hm, hfn, testOut, testOk, Bool.true_or]
      exact ⟨trivial, trivial, trivial, trivial, h.skip hok⟩
    · have hdry' : o.dryRun = false := by simpa using hdry
      obtain ⟨hv, m, hmon, hm1, hm2⟩ := check_item h hok
      unfold testEntry
      simp only [hdry', Bool.false_eq_true, if_false, hmon, hv, hfn, testOut, testOk, Bool.false_or,
        hm1, hm2]
      exact ⟨trivial, trivial, trivial, trivial, h.checked hok⟩
  | dir p perms t =>
    have hmeth : c.h.method = "-lhd-".toUTF8.toList := by
      rw [h.hdr]; exact hdr_method_dir (fun _ _ _ _ hx => by cases hx)
    have hm : (c.h.method != lhdName) = false := by
      rw [hmeth]; exact bne_self_eq_false _
    have hchk := Reader.check_dir h.normal h.curr hmeth
    have hmon : monitorOf rd rd = none := by
      unfold monitorOf
      have hb : (c.h.method == lhdName) = true := by rw [hmeth]; exact beq_self_eq_true _
      simp only [h.normal, h.curr, hb, bne_self_eq_false, Bool.false_eq_true, if_false, if_true]
    unfold testEntry
    by_cases hdry : o.dryRun = true
    · simp only [hdry, if_true, hm, testOut, testOk, Bool.false_eq_true, if_false]
      exact ⟨trivial, trivial, trivial, trivial, h.skip hok⟩
    · have hdry' : o.dryRun = false := by simpa using hdry
      simp only [hdry', Bool.false_eq_true, if_false, hchk, hmon, testOut, testOk]
      exact ⟨trivial, trivial, trivial, trivial, h.skip hok⟩
  | link p tg =>
    have hmeth : c.h.method = "-lhd-".toUTF8.toList := by
      rw [h.hdr]; exact hdr_method_dir (fun _ _ _ _ hx => by cases hx)
    have hm : (c.h.method != lhdName) = false := by
      rw [hmeth]; exact bne_self_eq_false _
    have hchk := Reader.check_dir h.normal h.curr hmeth
    have hmon : monitorOf rd rd = none := by
      unfold monitorOf
      have hb : (c.h.method == lhdName) = true := by rw [hmeth]; exact beq_self_eq_true _
      simp only [h.normal, h.curr, hb, bne_self_eq_false, Bool.false_eq_true, if_false, if_true]
    unfold testEntry
    by_cases hdry : o.dryRun = true
    · simp only [hdry, if_true, hm, testOut, testOk, Bool.false_eq_true, if_false]
      exact ⟨trivial, trivial, trivial, trivial, h.skip hok⟩
    · have hdry' : o.dryRun = false := by simpa using hdry
      simp only [hdry', Bool.false_eq_true, if_false, hchk, hmon, testOut, testOk]
      exact ⟨trivial, trivial, trivial, trivial, h.skip hok⟩

end LhasaV.TestBytes
