import LhasaV.Lemmas.ReaderWorkPresentSmall
import LhasaV.Lemmas.ReaderWorkPresentLhNew
import LhasaV.Lemmas.ReaderWorkPresentLh1
import LhasaV.Lemmas.ReaderWorkPresentPm1
import LhasaV.Lemmas.ReaderWorkTotal
/-!
# C13, bytes physically present: the reader invariant

* `presentAll`: every decoder of `decoderFor` (all 14 method names) is `Present`.
* `DecIn s`: the source of the decoder that is open in `s` (plain, inside the MacBinary
  pass-through, or dangling after a failed pass-through set-up) has its position inside its data,
  and that data is at most the bytes still present in the stream (`avail`).
* `DecIn` is kept by every operation, on any state (`step_decIn`, `next_decIn`), and gives
  **`closeTake_le_avail`**: what closing the open decoder charges to the stream is at most the
  bytes still present in the stream — whatever compressed length the header declares.
* `pot s = moved + avail` never increases (`step_pot`): no operation pulls a byte that is not there.
-/
set_option linter.unusedSimpArgs false
namespace LhasaV.ReaderPresent
open LhasaV LhasaV.Reader LhasaV.ReaderIndep

/-! ## every decoder is present -/

/-- every decoder `lha_decoder_for_name` can return keeps its source position inside the data -/
def PresentAll : Prop := ∀ name d, decoderFor name = some d → Present d

theorem presentAll : PresentAll := by
  intro name d h
  unfold decoderFor at h
  split at h <;> first
    | (cases h; exact present_null)
    | (cases h; exact present_lz5)
    | (cases h; exact present_lzs)
    | (cases h; exact present_lh1)
    | (cases h; exact present_lhnew _)
    | (cases h; exact present_pm1)
    | (cases h; exact present_pm2)
    | cases h

/-! ## the decoder invariant -/

/-- an inner decoder state whose source, as far as the state is live, is inside `N` bytes -/
def InnerIn (d : Dec) (N : Nat) (x : Except String d.σ) : Prop :=
  ∀ st, x = .ok st → In N (d.src st)

theorem innerIn_total {d : Dec} (hd : Present d) (N : Nat) (x : Except String d.σ)
    (h : InnerIn d N x) : InnerIn d N (d.total x).2 := by
  unfold Dec.total
  split
  · exact h
  · rename_i s
    split
    · rename_i o s' hr
      intro st e
      cases e
      exact hd.read N s o _ hr (h s rfl)
    · intro st e; cases e
    · intro st e; cases e

/-- the open decoder `o`: a `Present` decoder whose source is inside `N` bytes -/
def OpenIn (N : Nat) (o : Open) : Prop :=
  Present o.d ∧ ∀ ist, o.innerSt = some ist → InnerIn o.d N ist.inner

/-- **the reader invariant**: the open decoder's source is inside the bytes still present -/
def DecIn (s : St) : Prop := ∀ o, s.dec = some o → OpenIn (avail s.basic.stream) o

theorem decIn_none {s : St} (h : s.dec = none) : DecIn s := by
  intro o ho; rw [h] at ho; cases ho

/-- the member source handed to a decoder starts at 0 and holds at most the bytes present -/
theorem memberSrc_in (b : Basic) : In (avail b.stream) (memberSrc b) := by
  unfold memberSrc In avail
  simp only [Array.size_extract]
  omega

/-- what the open decoder reports as consumed is at most `N` -/
theorem consumed_le {N : Nat} {o : Open} (h : OpenIn N o) : o.consumed.1 ≤ N := by
  unfold Open.consumed
  cases hi : o.innerSt with
  | none => exact Nat.zero_le _
  | some ist =>
    simp only []
    cases hx : ist.inner with
    | error w => exact Nat.zero_le _
    | ok st =>
      have := h.2 ist hi st hx
      simp only []
      exact Nat.le_trans this.1 this.2

/-- **`closeTake_le_avail`.**  What `closeDecoder` charges to the stream for the open decoder —
`min consumed remaining` — is at most the bytes still present in the stream.  The declared
compressed length (`remaining`) may be anything. -/
theorem closeTake_le_avail {s : St} (h : DecIn s) : closeTake s ≤ avail s.basic.stream := by
  unfold closeTake
  cases hd : s.dec with
  | none => exact Nat.zero_le _
  | some o =>
    have := consumed_le (h o hd)
    simp only []
    omega

/-! ## the potential `moved + avail` -/

/-- bytes pulled so far plus bytes still present -/
def pot (s : St) : Nat := s.basic.stream.moved + avail s.basic.stream

/-- closing the decoder charges only bytes that are there: the potential does not grow -/
theorem closeDecoder_pot {s : St} (h : DecIn s) : pot (closeDecoder s) ≤ pot s := by
  obtain ⟨c1, _, c3, c4⟩ := closeDecoder_stream s
  have := closeTake_le_avail h
  unfold pot avail at *
  rw [c1, c3, c4]
  omega

/-- what a decoding operation guarantees -/
structure PStep (s s' : St) : Prop where
  decIn : DecIn s'
  pot : pot s' ≤ pot s

theorem PStep.refl {s : St} (h : DecIn s) : PStep s s := ⟨h, Nat.le_refl _⟩

theorem PStep.trans {a b c : St} (h1 : PStep a b) (h2 : PStep b c) : PStep a c :=
  ⟨h2.decIn, Nat.le_trans h2.pot h1.pot⟩

/-- install a decoder whose source is inside the bytes present -/
theorem setDec_pstep (s : St) (o : Open) (ho : OpenIn (avail s.basic.stream) o) (led : Ledger) :
    PStep s { s with dec := some o, led := led } := by
  refine ⟨?_, Nat.le_refl _⟩
  intro o' h
  cases h
  exact ho

/-- install such a decoder and close it at once (the failed pass-through set-up) -/
theorem closeWith_pstep (s : St) (o : Open) (ho : OpenIn (avail s.basic.stream) o) (led : Ledger) :
    PStep s (closeDecoder { s with dec := some o, led := led }) := by
  have h1 := setDec_pstep s o ho led
  exact h1.trans ⟨decIn_none (closeDecoder_dec _), closeDecoder_pot h1.decIn⟩

theorem openDecoder_pstep (H : PresentAll) (s : St) (hs : DecIn s) : PStep s (openDecoder s).2 := by
  unfold openDecoder
  split
  · exact PStep.refl hs
  · split
    · exact PStep.refl hs
    · rename_i c hc
      split
      · rename_i d info hd hi
        have hon : Present d := H _ d hd
        have hQ := innerIn_total hon (avail s.basic.stream)
        have h0 : InnerIn d (avail s.basic.stream) (.ok (d.init (memberSrc s.basic))) := by
          intro st e; cases e; exact hon.init _ _ (memberSrc_in s.basic)
        split
        · dsimp only
          have hk := macInit_keeps d.total (InnerIn d (avail s.basic.stream)) hQ c.h
            { inner := .ok (d.init (memberSrc s.basic)), length := c.h.length, blockSize := info.2.2 } h0
          split
          · exact closeWith_pstep s _ ⟨hon, fun ist hi => by cases hi; exact hk.1⟩ _
          · rename_i mac hm
            exact setDec_pstep s _ ⟨hon, fun ist hi => by cases hi; exact hk.2 mac hm⟩ _
        · exact setDec_pstep s _ ⟨hon, fun ist hi => by cases hi; exact h0⟩ _
      · exact PStep.refl hs

theorem readCore_pstep (s : St) (hs : DecIn s) (k : Nat) : PStep s (readCore s k).2 := by
  unfold readCore
  split
  · exact PStep.refl hs
  · rename_i o ho
    have hO := hs o ho
    have hQ := innerIn_total hO.1 (avail s.basic.stream)
    split
    · rename_i _ _ st hpl
      refine ⟨?_, Nat.le_refl _⟩
      intro o' h
      cases h
      refine ⟨hO.1, fun ist hi => ?_⟩
      cases hi
      exact wread_keeps o.d.total (InnerIn o.d (avail s.basic.stream)) hQ k st
        (hO.2 st (by simp [Open.innerSt, hpl]))
    · rename_i m hpl hm
      refine ⟨?_, Nat.le_refl _⟩
      intro o' h
      cases h
      refine ⟨hO.1, fun ist hi => ?_⟩
      have e : ist = (Wrap.read (macRead o.d.total) k m).2.inner.inner := by
        simp only [Open.innerSt, hpl] at hi
        cases hi; rfl
      rw [e]
      exact wread_keeps (macRead o.d.total) (fun x => InnerIn o.d (avail s.basic.stream) x.inner.inner)
        (fun x hx => macRead_keeps o.d.total (InnerIn o.d (avail s.basic.stream)) hQ x hx) k m
        (hO.2 m.inner.inner (by simp [Open.innerSt, hpl, hm]))
    · exact PStep.refl hs

theorem read_pstep (H : PresentAll) (s : St) (hs : DecIn s) (k : Nat) : PStep s (read s k).2 := by
  rw [read_eq]
  split
  · split
    · exact readCore_pstep s hs k
    · exact PStep.refl hs
  · split
    · exact (openDecoder_pstep H s hs).trans (readCore_pstep _ (openDecoder_pstep H s hs).decIn k)
    · exact openDecoder_pstep H s hs

theorem decodeLoop_pstep (H : PresentAll) (fuel : Nat) (s : St) (hs : DecIn s) (acc : List UInt8) :
    PStep s (decodeLoop fuel s acc).2 := by
  induction fuel generalizing s acc with
  | zero => exact PStep.refl hs
  | succ n ih =>
    unfold decodeLoop
    dsimp only
    split
    · exact read_pstep H s hs 64
    · exact (read_pstep H s hs 64).trans (ih _ (read_pstep H s hs 64).decIn _)

theorem check_pstep (H : PresentAll) (s : St) (hs : DecIn s) : PStep s (check s).2 := by
  unfold check
  split
  · exact PStep.refl hs
  · split
    · exact PStep.refl hs
    · split
      · exact PStep.refl hs
      · dsimp only
        split
        · exact openDecoder_pstep H s hs
        · exact (openDecoder_pstep H s hs).trans
            (decodeLoop_pstep H _ _ (openDecoder_pstep H s hs).decIn _)

/-- a change of the reader's bookkeeping only (directory stack, deferred list, ledger) -/
theorem meta_pstep (s s' : St) (hs : DecIn s) (hb : s'.basic = s.basic) (hd : s'.dec = s.dec) :
    PStep s s' := by
  refine ⟨?_, by unfold pot; rw [hb]; exact Nat.le_refl _⟩
  intro o ho
  rw [hd] at ho
  rw [hb]
  exact hs o ho

theorem extract_pstep (H : PresentAll) (s : St) (hs : DecIn s) (b : Bool) :
    PStep s (extract s b).2 := by
  unfold extract
  split
  · split
    · dsimp only
      split
      · exact openDecoder_pstep H s hs
      · split
        · exact openDecoder_pstep H s hs
        · exact (openDecoder_pstep H s hs).trans
            (decodeLoop_pstep H _ _ (openDecoder_pstep H s hs).decIn _)
    · split
      · split
        · split
          · exact PStep.refl hs
          · exact meta_pstep s _ hs rfl rfl
        · exact PStep.refl hs
      · split
        · exact PStep.refl hs
        · split
          · exact PStep.refl hs
          · exact meta_pstep s _ hs rfl rfl
  · exact PStep.refl hs
  · exact PStep.refl hs
  · exact PStep.refl hs

/-- `lha_reader_next_file`: close the decoder (charging only bytes that are there), then stream
operations that pull no more bytes than disappear from the source; no decoder is open afterwards -/
theorem next_pstep (s s' : St) (r : Option HObj) (wf : Stream.WF s.basic) (hs : DecIn s)
    (e : next s = .ok (r, s')) : PStep s s' := by
  obtain ⟨h1, _, _, _, h5⟩ := next_amort s s' r wf e
  refine ⟨decIn_none h5, Nat.le_trans ?_ (closeDecoder_pot hs)⟩
  have := h1.moved
  have := h1.movedLe
  unfold pot
  omega

/-- **every operation, on any state satisfying the invariant**: the invariant is kept, the stream
stays well-formed and `moved + avail` does not grow -/
theorem step_pstep (H : PresentAll) (s : St) (wf : Stream.WF s.basic) (hs : DecIn s) (op : Op) :
    PStep s (step s op) ∧ Stream.WF (step s op).basic := by
  cases op with
  | next =>
    cases e : next s with
    | error w =>
      have hst : step s .next = s := by simp only [step, e]
      rw [hst]; exact ⟨PStep.refl hs, wf⟩
    | ok r =>
      have hst : step s .next = r.2 := by simp only [step, e]
      rw [hst]
      exact ⟨next_pstep s r.2 r.1 wf hs e, (next_amort s r.2 r.1 wf e).2.2.1⟩
  | read k => exact ⟨read_pstep H s hs k, (step_adv s (.read k) (by intro h; cases h)).wf wf⟩
  | check => exact ⟨check_pstep H s hs, (step_adv s .check (by intro h; cases h)).wf wf⟩
  | extract b => exact ⟨extract_pstep H s hs b, (step_adv s (.extract b) (by intro h; cases h)).wf wf⟩

theorem run_pstep (H : PresentAll) (ops : List Op) (s : St) (wf : Stream.WF s.basic) (hs : DecIn s) :
    PStep s (run s ops) ∧ Stream.WF (run s ops).basic := by
  induction ops generalizing s with
  | nil => exact ⟨PStep.refl hs, wf⟩
  | cons op ops ih =>
    obtain ⟨h1, w1⟩ := step_pstep H s wf hs op
    obtain ⟨h2, w2⟩ := ih (step s op) w1 h1.decIn
    exact ⟨h1.trans h2, w2⟩

end LhasaV.ReaderPresent
