import LhasaV.Model.Header
import LhasaV.Lemmas.PathFix
import LhasaV.Lemmas.Res
/-!
C11 over the header parser model: a returned header has a '/'-free file name
and a clean path.
-/

/-! ### `Sat x P`: every normal result of `x` satisfies `P` -/
namespace LhasaV.Res

def Sat {α} (x : Res α) (P : α → Prop) : Prop := ∀ a, x = ok a → P a

theorem sat_ok {α} {a : α} {P : α → Prop} (h : P a) : Sat (ok a) P := by
  intro b hb; cases hb; exact h

theorem sat_pure {α} {a : α} {P : α → Prop} (h : P a) : Sat (Pure.pure a) P := sat_ok h

theorem sat_fail {α} {P : α → Prop} : Sat (fail : Res α) P := by
  intro b hb; cases hb

theorem sat_fault {α} {P : α → Prop} {w} : Sat (fault w : Res α) P := by
  intro b hb; cases hb

theorem sat_bind {α β} {x : Res α} {f : α → Res β} {P : β → Prop}
    (h : ∀ a, x = ok a → Sat (f a) P) : Sat (x >>= f) P := by
  intro b hb
  obtain ⟨a, ha, hfa⟩ := bind_eq_ok.mp hb
  exact h a ha b hfa

theorem sat_bind_of {α β} {x : Res α} {f : α → Res β} {Q : α → Prop} {P : β → Prop}
    (hx : Sat x Q) (h : ∀ a, Q a → Sat (f a) P) : Sat (x >>= f) P :=
  sat_bind (fun a ha => h a (hx a ha))

theorem sat_ite {α} {c : Prop} [Decidable c] {a b : Res α} {P : α → Prop}
    (ht : c → Sat a P) (he : ¬ c → Sat b P) : Sat (if c then a else b) P := by
  by_cases h : c
  · rw [if_pos h]; exact ht h
  · rw [if_neg h]; exact he h

theorem sat_dite {α} {c : Prop} [Decidable c] {a : c → Res α} {b : ¬ c → Res α} {P : α → Prop}
    (ht : ∀ h : c, Sat (a h) P) (he : ∀ h : ¬ c, Sat (b h) P) : Sat (dite c a b) P := by
  by_cases h : c
  · rw [dif_pos h]; exact ht h
  · rw [dif_neg h]; exact he h

theorem ite_ite_bind {α β} {c d : Prop} [Decidable c] [Decidable d] (x y z : Res α)
    (f : α → Res β) :
    (if c then x else if d then y else z) >>= f
      = if c then x >>= f else if d then y >>= f else z >>= f := by
  by_cases hc : c
  · simp only [if_pos hc]
  · by_cases hd : d
    · simp only [if_neg hc, if_pos hd]
    · simp only [if_neg hc, if_neg hd]

theorem sat_mono {α} {x : Res α} {P Q : α → Prop} (hx : Sat x P) (h : ∀ a, P a → Q a) :
    Sat x Q := fun a ha => h a (hx a ha)

end LhasaV.Res

namespace LhasaV.Header
open LhasaV LhasaV.Res

/-- no '/' in a name -/
def NoSlash (s : Bytes) : Prop := ∀ b ∈ s, b ≠ 0x2f
def FnOk (h : Hdr) : Prop := ∀ f, h.filename = some f → NoSlash f
def PathOk (h : Hdr) : Prop := ∀ p, h.path = some p → PathFix.CleanPath p

theorem fnOk_of_filename_eq {h h' : Hdr} (e : h'.filename = h.filename) (hf : FnOk h) : FnOk h' := by
  intro f hf'; exact hf f (e ▸ hf')

theorem fnOk_of_none {h : Hdr} (e : h.filename = none) : FnOk h := by
  intro f hf; rw [e] at hf; cases hf

/-- normalise a `Res` computation: resolve join points, `fail >>= _`, `pure`. -/
macro "res_norm" : tactic =>
  `(tactic| simp only [Res.fail_bind, Res.fault_bind, Res.ok_bind, Res.pure_eq])

/-- one structural step on a goal `Sat prog P` -/
macro "res_step" : tactic =>
  `(tactic| first
    | exact sat_fail
    | exact sat_fault
    | refine sat_ok ?_
    | refine sat_pure ?_
    | res_norm
    | refine sat_bind (fun _ _ => ?_)
    | refine sat_ite (fun _ => ?_) (fun _ => ?_)
    | refine sat_dite (fun _ => ?_) (fun _ => ?_)
    | split)

/-! ### splitFilename / level0Path -/

theorem mem_takeWhile_imp {α} {p : α → Bool} {l : List α} {a : α} (h : a ∈ l.takeWhile p) :
    p a = true := by
  induction l with
  | nil => simp at h
  | cons x xs ih =>
    rw [List.takeWhile_cons] at h
    split at h
    · next hx =>
      rcases List.mem_cons.mp h with rfl | h'
      · exact hx
      · exact ih h'
    · simp at h

theorem splitFilename_fnOk (h : Hdr) : FnOk (splitFilename h) := by
  unfold splitFilename
  split
  · next e => exact fnOk_of_none e
  · next f e =>
    split
    · intro g hg
      simp only [Option.some.injEq] at hg
      subst hg
      intro b hb
      rw [List.mem_reverse] at hb
      have := mem_takeWhile_imp hb
      simpa using this
    · next hc =>
      intro g hg
      rw [e] at hg
      simp only [Option.some.injEq] at hg
      subst hg
      intro b hb hb2
      subst hb2
      exact hc (List.contains_iff_mem.mpr hb)

theorem level0Path_fnOk (h : Hdr) (data : Bytes) (hf : FnOk h) : FnOk (level0Path h data) := by
  unfold level0Path
  split
  · exact hf
  · exact splitFilename_fnOk _

/-! ### extended headers -/

theorem noSlash_map_underscore (d : Bytes) :
    NoSlash (d.map (fun b => if b = 0x2f then 0x5f else b)) := by
  intro b hb
  obtain ⟨a, _, rfl⟩ := List.mem_map.mp hb
  split
  · decide
  · assumption

theorem decodeExt_fnOk {h : Hdr} {num off len : Nat} (hf : FnOk h) :
    Sat (decodeExt h num off len) FnOk := by
  unfold decodeExt
  repeat' res_step
  all_goals first
    | exact hf
    | (intro f hf'
       simp only [Option.some.injEq] at hf'
       subst hf'
       exact noSlash_map_underscore _)

theorem extLoop_fnOk (fs : Nat) (avail : Nat) : ∀ (h : Hdr) (off : Nat), FnOk h →
    Sat (extLoop fs h off avail) FnOk := by
  induction avail using Nat.strongRecOn with
  | _ avail ih =>
    intro h off hf
    rw [extLoop]
    repeat' res_step
    all_goals first
      | exact hf
      | exact ih _ (by omega) _ _ (decodeExt_fnOk hf _ ‹_›)

theorem decodeExtendedHeaders_fnOk {h : Hdr} {off : Nat} (hf : FnOk h) :
    Sat (decodeExtendedHeaders h off) FnOk := by
  unfold decodeExtendedHeaders
  repeat' res_step
  all_goals exact extLoop_fnOk _ _ _ _ hf

theorem readL1Ext_fnOk (n : Nat) : ∀ (h : Hdr) (inp : Bytes), inp.length = n → FnOk h →
    Sat (readL1Ext h inp) (fun r => FnOk r.1) := by
  induction n using Nat.strongRecOn with
  | _ n ih =>
    intro h inp hn hf
    rw [readL1Ext]
    repeat' res_step
    all_goals first
      | exact hf
      | exact ih _ (by subst hn; simp only [List.length_drop]; omega) _ _ rfl hf

theorem extend_fnOk {h : Hdr} {inp : Bytes} {n : Nat} (hf : FnOk h) :
    Sat (extend h inp n) (fun r => FnOk r.1) := by
  unfold extend
  repeat' res_step
  exact hf

theorem level0ExtArea_fnOk {h : Hdr} {off len : Nat} (hf : FnOk h) :
    Sat (level0ExtArea h off len) FnOk := by
  unfold level0ExtArea
  repeat' res_step
  all_goals exact hf

/-- close a goal `FnOk _` from the context -/
macro "fn_close" : tactic =>
  `(tactic| first
    | assumption
    | exact ‹FnOk _›
    | exact level0Path_fnOk _ _ (by assumption))

/-- like `res_step`, but calls that return a header carry `FnOk` along -/
macro "fn_step" : tactic =>
  `(tactic| first
    | res_norm
    | refine sat_bind_of (extend_fnOk (by fn_close)) (fun _ _ => ?_)
    | refine sat_bind_of (readL1Ext_fnOk _ _ _ rfl (by fn_close)) (fun _ _ => ?_)
    | refine sat_bind_of (decodeExtendedHeaders_fnOk (by fn_close)) (fun _ _ => ?_)
    | refine sat_bind_of (level0ExtArea_fnOk (by fn_close)) (fun _ _ => ?_)
    | res_step)

theorem decodeLevel0_fnOk {mk : Nat → Nat} {h : Hdr} {inp : Bytes} (hf : FnOk h) :
    Sat (decodeLevel0 mk h inp) (fun r => FnOk r.1) := by
  unfold decodeLevel0
  repeat' fn_step
  all_goals fn_close

theorem decodeLevel1_fnOk {mk : Nat → Nat} {h : Hdr} {inp : Bytes} (hf : FnOk h) :
    Sat (decodeLevel1 mk h inp) (fun r => FnOk r.1) := by
  unfold decodeLevel1
  refine sat_bind_of (decodeLevel0_fnOk hf) (fun _ _ => ?_)
  repeat' fn_step
  all_goals fn_close

theorem decodeLevel2_fnOk {h : Hdr} {inp : Bytes} (hf : FnOk h) :
    Sat (decodeLevel2 h inp) (fun r => FnOk r.1) := by
  unfold decodeLevel2
  repeat' fn_step
  all_goals fn_close

theorem decodeLevel3_fnOk {h : Hdr} {inp : Bytes} (hf : FnOk h) :
    Sat (decodeLevel3 h inp) (fun r => FnOk r.1) := by
  unfold decodeLevel3
  repeat' fn_step
  all_goals fn_close

/-! ### post-processing -/

theorem toLower_ne_slash (b : Byte) (h : b ≠ 0x2f) : toLower b ≠ 0x2f := by
  revert h
  rcases b with ⟨v⟩
  revert v
  decide +kernel

theorem fixAllCaps_fnOk {h : Hdr} (hf : FnOk h) : FnOk (fixAllCaps h) := by
  unfold fixAllCaps
  by_cases hc : ((h.path.getD []).any isLower || (h.filename.getD []).any isLower) = true
  · simp only [hc, if_true]; exact hf
  · simp only [hc]
    intro f hf'
    simp only [Bool.false_eq_true, if_false, Option.map_eq_some_iff] at hf'
    obtain ⟨g, hg, rfl⟩ := hf'
    intro b hb
    obtain ⟨a, ha, rfl⟩ := List.mem_map.mp hb
    exact toLower_ne_slash a (hf g hg a ha)

theorem parseSymlink_fnOk {h : Hdr} : Sat (parseSymlink h) FnOk := by
  unfold parseSymlink
  repeat' res_step
  exact splitFilename_fnOk _

/-- the first half of `postProcess`: up to and including the symlink split -/
def postPre (h : Hdr) : Res Hdr :=
  let h := if h.osType = 0x41 ∧ methodIs h "-lh0-" ∧ h.length = 0 ∧ h.filename = none
           then { h with method := "-lhd-".toUTF8.toList } else h
  if !methodIs h "-lhd-" then
    (if h.filename = none then (.fail : Res Hdr) else pure h)
  else if hasFlag h Gen.flagUnixPerms ∧ (h.path ≠ none ∨ h.filename ≠ none)
          ∧ h.unixPerms &&& 0o170000 = 0o120000 then
    parseSymlink h
  else
    (if h.path = none then (.fail : Res Hdr) else pure h)

def post1 (h : Hdr) : Hdr := if dosLikeOs h.osType then fixAllCaps h else h
def post2 (h : Hdr) : Hdr := { h with path := h.path.map PathFix.collapse }
def post3 (h : Hdr) : Hdr :=
  if h.osType = 0x4b ∧ hasFlag h Gen.flagUnixPerms
  then { h with os9Perms := h.unixPerms, extraFlags := bor h.extraFlags Gen.flagOs9Perms } else h
def post4 (h : Hdr) : Hdr := if hasFlag h Gen.flagOs9Perms then os9ToUnix h else h
def post5 (h : Hdr) : Res Hdr :=
  if hasFlag h Gen.flagCommonCrc ∧ crcOf h.raw ≠ h.commonCrc then .fail
  else .ok (if h.level = 1 ∧ h.osType = 0x20 ∧ methodIs h "-lh7-"
            then { h with method := "-lk7-".toUTF8.toList } else h)

theorem postProcess_eq (h : Hdr) :
    postProcess h = postPre h >>= fun h => post5 (post4 (post3 (post2 (post1 h)))) := by
  exact (ite_ite_bind _ _ _ _).symm

theorem postPre_fnOk {h : Hdr} (hf : FnOk h) : Sat (postPre h) FnOk := by
  unfold postPre
  have h0 : FnOk (if h.osType = 0x41 ∧ methodIs h "-lh0-" ∧ h.length = 0 ∧ h.filename = none
           then { h with method := "-lhd-".toUTF8.toList } else h) := by
    split <;> exact hf
  revert h0
  generalize (if h.osType = 0x41 ∧ methodIs h "-lh0-" ∧ h.length = 0 ∧ h.filename = none
           then { h with method := "-lhd-".toUTF8.toList } else h) = g
  intro hg
  dsimp only
  refine sat_ite (fun _ => ?_) (fun _ => sat_ite (fun _ => parseSymlink_fnOk) (fun _ => ?_))
  · exact sat_ite (fun _ => sat_fail) (fun _ => sat_pure hg)
  · exact sat_ite (fun _ => sat_fail) (fun _ => sat_pure hg)

def Good (h : Hdr) : Prop := FnOk h ∧ PathOk h

theorem good_of_eq {h h' : Hdr} (e1 : h'.filename = h.filename) (e2 : h'.path = h.path)
    (hg : Good h) : Good h' :=
  ⟨fun f hf => hg.1 f (e1 ▸ hf), fun p hp => hg.2 p (e2 ▸ hp)⟩

theorem post1_fnOk {h : Hdr} (hf : FnOk h) : FnOk (post1 h) := by
  unfold post1; split
  · exact fixAllCaps_fnOk hf
  · exact hf

theorem post2_good {h : Hdr} (hf : FnOk h) : Good (post2 h) := by
  refine ⟨hf, ?_⟩
  intro p hp
  simp only [post2, Option.map_eq_some_iff] at hp
  obtain ⟨q, _, rfl⟩ := hp
  exact PathFix.collapse_clean q

theorem post3_good {h : Hdr} (hg : Good h) : Good (post3 h) := by
  unfold post3; split
  · exact good_of_eq rfl rfl hg
  · exact hg

theorem post4_good {h : Hdr} (hg : Good h) : Good (post4 h) := by
  unfold post4; split
  · exact good_of_eq rfl rfl hg
  · exact hg

theorem post5_good {h : Hdr} (hg : Good h) : Sat (post5 h) Good := by
  unfold post5
  refine sat_ite (fun _ => sat_fail) (fun _ => sat_ok ?_)
  split
  · exact good_of_eq rfl rfl hg
  · exact hg

theorem postProcess_good {h : Hdr} (hf : FnOk h) : Sat (postProcess h) Good := by
  rw [postProcess_eq]
  exact sat_bind_of (postPre_fnOk hf)
    (fun _ ha => post5_good (post4_good (post3_good (post2_good (post1_fnOk ha)))))

/-! ### the whole parser -/

theorem read_good (mk : Nat → Nat) (inp : Bytes) : Sat (Header.read mk inp) (fun r => Good r.1) := by
  unfold Header.read
  refine sat_bind_of (extend_fnOk (h := {}) (fnOk_of_none rfl)) (fun _ _ => ?_)
  repeat' first
    | refine sat_bind_of (decodeLevel0_fnOk (by fn_close)) (fun _ _ => ?_)
    | refine sat_bind_of (decodeLevel1_fnOk (by fn_close)) (fun _ _ => ?_)
    | refine sat_bind_of (decodeLevel2_fnOk (by fn_close)) (fun _ _ => ?_)
    | refine sat_bind_of (decodeLevel3_fnOk (by fn_close)) (fun _ _ => ?_)
    | refine sat_bind_of (postProcess_good (by fn_close)) (fun _ _ => ?_)
    | res_step
  all_goals assumption

/-- C11 over the whole parser model: whatever the input bytes and whatever `mktime` does,
a returned header has a '/'-free file name and a clean path. -/
theorem read_names_ok (mk : Nat → Nat) (inp : Bytes) (h : Hdr) (rest : Bytes)
    (hr : Header.read mk inp = .ok (h, rest)) : FnOk h ∧ PathOk h :=
  read_good mk inp (h, rest) hr

end LhasaV.Header
