import LhasaV.Lemmas.ReaderLedger
/-!
# C15: directories are re-presented exactly once (`fake_once`)

Under the END_OF_DIR / END_OF_FILE policies a directory whose extraction succeeded is pushed on
the directory stack and later popped by `next`, which presents it again (`currType = fakeDir`) so
that its metadata can be set after its contents.  Counting per header identity:
`presented again so far + still on the stack = pushed so far`; the stack is empty when the end
is reported; and under PLAIN nothing is ever pushed or re-presented.
-/
set_option linter.unusedSimpArgs false
namespace LhasaV.ReaderIndep
open LhasaV LhasaV.Reader

/-- the directory this operation pushes on the stack: a successful `extract` of a directory
entry (method `-lhd-`, no symlink target) under a policy other than PLAIN -/
def pushedBy (s : St) : Op → List HObj
  | .extract true =>
    (match s.currType, s.curr with
     | .normal, some c =>
       if c.h.method != "-lhd-".toUTF8.toList then []
       else if c.h.symlinkTarget.isSome then []
       else if s.policy == .plain then [] else [c]
     | _, _ => [])
  | _ => []

/-- the directory this operation presents again: a `next` that returns with `currType = fakeDir` -/
def fakedBy (s : St) : Op → List HObj
  | .next =>
    (match next s with
     | .ok r => if r.2.currType = .fakeDir then r.1.toList else []
     | .error _ => [])
  | _ => []

def pushedAll : St → List Op → List HObj
  | _, [] => []
  | s, op :: ops => pushedBy s op ++ pushedAll (step s op) ops

def fakedAll : St → List Op → List HObj
  | _, [] => []
  | s, op :: ops => fakedBy s op ++ fakedAll (step s op) ops

/-! ## one step -/

theorem extract_dirStack (s : St) (b : Bool) :
    (extract s b).2.dirStack = pushedBy s (.extract b) ++ s.dirStack := by
  unfold extract pushedBy
  cases ht : s.currType <;> cases hc : s.curr <;> cases b <;> dsimp only <;> try rfl
  all_goals (rename_i c)
  · -- normal, some c, fsOk = false
    split
    · split
      · exact (openDecoder_frame s).dirStack
      · exact (openDecoder_frame s).dirStack
    · split
      · split <;> rfl
      · rfl
  · -- normal, some c, fsOk = true
    split
    · split
      · exact (openDecoder_frame s).dirStack
      · simp only [Bool.not_true, Bool.false_eq_true, if_false]
        exact ((openDecoder_frame s).trans (decodeLoop_frame _ _ _)).dirStack
    · split
      · split <;> rfl
      · simp only [Bool.not_true, Bool.false_eq_true, if_false]
        split <;> rfl

theorem nextAdv_dirStack {s s1 : St} (ha : nextAdv s = .ok s1) :
    s1.dirStack = s.dirStack ∧ s1.currType = s.currType ∧ s1.curr = s.curr ∧ s1.policy = s.policy := by
  unfold nextAdv at ha
  split at ha
  · split at ha
    · cases ha; exact ⟨rfl, rfl, rfl, rfl⟩
    · cases ha
    · cases ha
  · cases ha; exact ⟨rfl, rfl, rfl, rfl⟩

theorem nextUnref_dirStack (s : St) : (nextUnref s).dirStack = s.dirStack ∧
    (nextUnref s).policy = s.policy := by
  unfold nextUnref; split
  · split <;> exact ⟨rfl, rfl⟩
  · exact ⟨rfl, rfl⟩

/-- what the pop phase and the deferred phase of `next` do to the stack: either the top is popped
and presented as a fake directory, or the stack is untouched and the entry is not a fake one -/
theorem pop_cases (x : St) :
    (∃ top rest, x.dirStack = top :: rest ∧ (nextDeferred (nextPop x)).dirStack = rest ∧
      (nextDeferred (nextPop x)).currType = .fakeDir ∧ (nextDeferred (nextPop x)).curr = some top) ∨
    ((nextDeferred (nextPop x)).dirStack = x.dirStack ∧ (nextDeferred (nextPop x)).currType ≠ .fakeDir ∧
      ((nextDeferred (nextPop x)).currType = .eof → x.dirStack = [])) := by
  by_cases he : endOfTopDir x = true
  · obtain ⟨top, rest, hd⟩ := endOfTopDir_cons he
    left
    refine ⟨top, rest, hd, ?_⟩
    have : nextPop x = { x with curr := some top, dirStack := rest, currType := .fakeDir } := by
      unfold nextPop; rw [if_pos he]; simp only [hd]
    rw [this]
    unfold nextDeferred
    exact ⟨rfl, rfl, rfl⟩
  · right
    have hp : nextPop x = { x with curr := x.basic.curr, currType := .normal } := by
      unfold nextPop; rw [if_neg he]
    rw [hp]
    unfold nextDeferred
    dsimp only
    cases hc : x.basic.curr with
    | some c => exact ⟨rfl, by simp, by simp⟩
    | none =>
      dsimp only
      have hds : x.dirStack = [] := by
        cases hd : x.dirStack with
        | nil => rfl
        | cons top rest =>
          exfalso; apply he
          unfold endOfTopDir; simp only [hd, hc]
      cases hdf : x.deferred with
      | nil => exact ⟨rfl, by simp, fun _ => hds⟩
      | cons d r => exact ⟨rfl, by simp, by simp⟩

/-- `next`: the stack after, plus what was presented again, is the stack before -/
theorem next_dirStack {s : St} {r : Option HObj × St} (e : next s = .ok r) :
    fakedBy s .next ++ r.2.dirStack = s.dirStack ∧ (r.2.currType = .eof → s.currType ≠ .eof → r.2.dirStack = []) ∧
    r.2.policy = s.policy := by
  have f := closeDecoder_frame s
  simp only [fakedBy, e]
  rw [next_eq] at e
  split at e
  · rename_i he
    cases e
    have h1 : (closeDecoder s).currType = .eof := by simpa using he
    simp only [h1]
    refine ⟨by simp [f.dirStack], fun _ h2 => absurd (f.currType ▸ h1) h2, f.policy⟩
  · cases ha : nextAdv (closeDecoder s) with
    | error w => rw [ha] at e; cases e
    | ok s1 =>
      rw [ha] at e
      simp only [bind, Except.bind, Except.ok.injEq] at e
      subst e
      obtain ⟨a1, _, _, a4⟩ := nextAdv_dirStack ha
      obtain ⟨u1, u2⟩ := nextUnref_dirStack s1
      have hpol : (nextDeferred (nextPop (nextUnref s1))).policy = s.policy := by
        have : ∀ x : St, (nextDeferred (nextPop x)).policy = x.policy := by
          intro x
          unfold nextDeferred nextPop
          split <;> (try split) <;> (try split) <;> (try split) <;> rfl
        rw [this, u2, a4, f.policy]
      rcases pop_cases (nextUnref s1) with ⟨top, rest, h1, h2, h3, h4⟩ | ⟨h1, h2, h3⟩
      · refine ⟨?_, fun h => ?_, hpol⟩
        · simp only [h3, if_true, h4, h2, Option.toList]
          rw [← f.dirStack, ← a1, ← u1, h1]; rfl
        · rw [h3] at h; cases h
      · refine ⟨?_, fun h _ => ?_, hpol⟩
        · simp only [h2, if_false, List.nil_append, h1, u1, a1, f.dirStack]
        · rw [h1]; exact h3 h

/-- **the step equation**: stack after `++` presented again `≈` pushed `++` stack before (as
multisets; stated by counting header identities) -/
theorem step_count (s : St) (op : Op) (id : Nat) :
    cnt (fakedBy s op) id + cnt (step s op).dirStack id = cnt (pushedBy s op) id + cnt s.dirStack id := by
  cases op with
  | read k =>
    simp only [step, fakedBy, pushedBy, cnt_nil, (read_frame s k).dirStack]
  | check =>
    simp only [step, fakedBy, pushedBy, cnt_nil, (check_frame s).dirStack]
  | extract b =>
    simp only [step, fakedBy, cnt_nil, extract_dirStack, cnt_append]; omega
  | next =>
    simp only [step, pushedBy, cnt_nil]
    cases e : next s with
    | error w => simp only [fakedBy, e, cnt_nil]
    | ok r =>
      have := (next_dirStack e).1
      show cnt (fakedBy s .next) id + cnt r.2.dirStack id = 0 + cnt s.dirStack id
      rw [← this, cnt_append]; omega

theorem history_count (s : St) (ops : List Op) (id : Nat) :
    cnt (fakedAll s ops) id + cnt (run s ops).dirStack id = cnt (pushedAll s ops) id + cnt s.dirStack id := by
  induction ops generalizing s with
  | nil => simp [fakedAll, pushedAll]
  | cons op ops ih =>
    have h1 := step_count s op id
    have h2 := ih (step s op)
    simp only [fakedAll, pushedAll, cnt_append, run_cons]
    omega

/-! ## the end is reported with an empty stack -/

def EofEmpty (s : St) : Prop := s.currType = .eof → s.dirStack = []

theorem step_eofEmpty {s : St} (h : EofEmpty s) (op : Op) : EofEmpty (step s op) := by
  cases op with
  | read k =>
    intro he; simp only [step] at he ⊢
    rw [(read_frame s k).currType] at he; rw [(read_frame s k).dirStack]; exact h he
  | check =>
    intro he; simp only [step] at he ⊢
    rw [(check_frame s).currType] at he; rw [(check_frame s).dirStack]; exact h he
  | extract b =>
    intro he; simp only [step] at he ⊢
    rw [extract_currType] at he
    have : pushedBy s (.extract b) = [] := by
      unfold pushedBy; cases b
      · rfl
      · simp only [he]
    rw [extract_dirStack, this]; exact h he
  | next =>
    simp only [step]
    cases e : next s with
    | error w => exact h
    | ok r =>
      intro he
      by_cases hs : s.currType = .eof
      · have := (next_dirStack e).1
        rw [h hs] at this
        exact (List.append_eq_nil_iff.mp this).2
      · exact (next_dirStack e).2.1 he hs

theorem run_eofEmpty {s : St} (h : EofEmpty s) (ops : List Op) : EofEmpty (run s ops) := by
  induction ops generalizing s with
  | nil => exact h
  | cons op ops ih => exact ih (step_eofEmpty h op)

/-! ## PLAIN -/

theorem step_policy (s : St) (op : Op) : (step s op).policy = s.policy := by
  cases op with
  | read k => exact (read_frame s k).policy
  | check => exact (check_frame s).policy
  | extract b =>
    rcases extract_cases s b with ⟨f, _⟩ | ⟨ds, df, led, e⟩
    · exact f.policy
    · simp only [step, e]
  | next =>
    simp only [step]
    cases e : next s with
    | error w => rfl
    | ok r => exact (next_dirStack e).2.2

theorem pushedAll_plain (s : St) (hp : s.policy = .plain) (ops : List Op) : pushedAll s ops = [] := by
  induction ops generalizing s with
  | nil => rfl
  | cons op ops ih =>
    have h1 : pushedBy s op = [] := by
      unfold pushedBy
      cases op with
      | extract b =>
        cases b
        · rfl
        · dsimp only
          split
          · simp [hp]
          · rfl
      | next => rfl
      | read k => rfl
      | check => rfl
    simp only [pushedAll, h1, List.nil_append]
    exact ih _ (by rw [step_policy]; exact hp)

theorem cnt_zero_nil (l : List HObj) (h : ∀ id, cnt l id = 0) : l = [] := by
  cases l with
  | nil => rfl
  | cons o l =>
    have := h o.id
    rw [cnt_cons] at this
    simp at this

/-! ## `fake_once` -/

/-- **`fake_once`.**  For every history from a fresh reader and every header identity:
(1) *re-presented so far + still on the stack = pushed so far*;
(2) once the end has been reported the stack is empty, so every directory has been re-presented
    exactly as many times as it was successfully extracted — once per extract;
(3) under the PLAIN policy no directory is ever pushed nor re-presented. -/
theorem fake_once (st : Stream.St) (pol : DirPolicy) (mk : Nat → Nat) (ops : List Op) :
    (∀ id, cnt (fakedAll (fresh st pol mk) ops) id + cnt (run (fresh st pol mk) ops).dirStack id =
      cnt (pushedAll (fresh st pol mk) ops) id) ∧
    ((run (fresh st pol mk) ops).currType = .eof →
      ∀ id, cnt (fakedAll (fresh st pol mk) ops) id = cnt (pushedAll (fresh st pol mk) ops) id) ∧
    (pol = .plain → pushedAll (fresh st pol mk) ops = [] ∧ fakedAll (fresh st pol mk) ops = []) := by
  have h1 : ∀ id, cnt (fakedAll (fresh st pol mk) ops) id + cnt (run (fresh st pol mk) ops).dirStack id =
      cnt (pushedAll (fresh st pol mk) ops) id := by
    intro id
    have := history_count (fresh st pol mk) ops id
    simpa [fresh] using this
  refine ⟨h1, fun he id => ?_, fun hp => ?_⟩
  · have := run_eofEmpty (s := fresh st pol mk) (fun h => rfl) ops he
    have h := h1 id
    rw [this] at h
    simpa using h
  · have hpush := pushedAll_plain (fresh st pol mk) hp ops
    refine ⟨hpush, cnt_zero_nil _ (fun id => ?_)⟩
    have h := h1 id
    rw [hpush] at h
    simp at h
    exact h.1

end LhasaV.ReaderIndep
