import LhasaV.Lemmas.ExtractTreeOpt
/-!
# C06 with implicit parents (part 1): the order condition, the expected tree, `MadeFrom` seen
through `lookup`

Archives written by LHA for DOS / LHarc carry NO directory entries: the members are `a/b/c.txt`,
`a/d.txt`, `e.txt`, and `lha x` creates the missing directories with `make_parent_directories`
(mode 0755 under the umask, time = now; stamped again whenever something is created in them).

* `impMode umask`: the mode of such a directory; `accessW_of_access`: a user who may use the
  directories `extract_directory` makes (0700 / 0777 under the umask) may use these too.
* `WFI stk seen es`: the order condition for MIXED archives — explicit directory entries and
  members whose parents are implicit.  For every entry: clean path; every earlier entry above
  it (or at its path) is a directory entry that is still open (so a file is not also a
  directory, and a closed directory — whose recorded mode may forbid writing — gets nothing new);
  and either its path is not a prefix of an earlier path (it is new), or it is a LATE directory
  entry (`lateDir`: the directory was made implicitly for an earlier member, or is open) — such
  an entry is ignored by `lha`, `keptOf` drops it.
  `ImplicitOk es` (files and links only, no path a prefix of another) gives `WFI [] [] es`.
* `impTreeOf now umask es`: the expected tree — `treeOf` at entry paths, a directory
  `impMode umask` / `now` at every other proper prefix of an entry path, nothing elsewhere.
* `split_exist`, `MadeFrom.lookups`, `MadeFrom.cwd_dir`, `Created.same_below`, `Created.cwd_dir`.
-/
namespace LhasaV.ExtractTree
open LhasaV LhasaV.Header LhasaV.Extract LhasaV.GlobFs LhasaV.Contain

/-- the mode of a directory made by `make_parent_directories`: 0755 under the umask -/
def impMode (umask : Nat) : Nat := 0o755 - (0o755 &&& umask)

theorem and_low (a u : Nat) (ha : a < 512) : a &&& u = a &&& (u % 512) := by
  have h1 : (a &&& u) % 2 ^ 9 = a % 2 ^ 9 &&& u % 2 ^ 9 := Nat.and_mod_two_pow
  have h2 : (a &&& u) % 2 ^ 9 = a &&& u :=
    Nat.mod_eq_of_lt (Nat.lt_of_le_of_lt Nat.and_le_left ha)
  have h3 : a % 2 ^ 9 = a := Nat.mod_eq_of_lt ha
  rw [h2, h3] at h1
  exact h1

theorem owner_bits_fin : ∀ v : Fin 512,
    ((0o700 - (0o700 &&& v.val)) / 64 % 2 = 1 ∧ (0o700 - (0o700 &&& v.val)) / 128 % 2 = 1) →
    ((0o755 - (0o755 &&& v.val)) / 64 % 2 = 1 ∧ (0o755 - (0o755 &&& v.val)) / 128 % 2 = 1) := by
  decide +kernel

/-- a umask that keeps the owner bits of 0700 keeps those of 0755 -/
theorem owner_bits_755 (u : Nat) (h : OwnerRWX u) :
    impMode u / 64 % 2 = 1 ∧ impMode u / 128 % 2 = 1 := by
  have h7 := h 0o700 (Or.inl rfl)
  unfold impMode
  rw [and_low 0o700 u (by decide)] at h7
  rw [and_low 0o755 u (by decide)]
  exact owner_bits_fin ⟨u % 512, Nat.mod_lt _ (by decide)⟩ h7

/-- `Access` (ExtractTree8) is all that is needed for the directories `make_parent_directories`
creates as well -/
theorem accessW_of_access {fs0 : Fs.St} (h : Access fs0) : AccessW fs0 := by
  rcases h with h | h
  · exact Or.inl h
  · exact Or.inr ⟨h, owner_bits_755 _ h⟩

/-! ## the order condition -/

/-- a directory entry that arrives when its directory exists already: made implicitly for an
earlier member below it (or a repeated entry for an open directory).  `lha` ignores it. -/
def lateDir (seen : List Fs.Path) (e : Entry) : Bool :=
  e.isDir && seen.any (fun p => decide (e.path <+: p))

/-- **mixed archives**: relative to the open directory entries `stk` (innermost first) and the
paths seen so far -/
def WFI : List Fs.Path → List Fs.Path → List Entry → Prop
  | _, _, [] => True
  | stk, seen, e :: es =>
    EntryOk e ∧ (∀ p ∈ seen, p <+: e.path → p ∈ popStk stk e.dirPart) ∧
    if lateDir seen e = true then WFI (popStk stk e.dirPart) seen es
    else (∀ p ∈ seen, ¬ e.path <+: p) ∧
      WFI (if e.isDir then e.path :: popStk stk e.dirPart else popStk stk e.dirPart) (seen ++ [e.path]) es

instance decWFI : ∀ (stk seen : List Fs.Path) (es : List Entry), Decidable (WFI stk seen es)
  | _, _, [] => isTrue trivial
  | stk, seen, e :: es =>
    have := decWFI (if e.isDir then e.path :: popStk stk e.dirPart else popStk stk e.dirPart)
      (seen ++ [e.path]) es
    have := decWFI (popStk stk e.dirPart) seen es
    inferInstanceAs (Decidable (EntryOk e ∧ (∀ p ∈ seen, p <+: e.path → p ∈ popStk stk e.dirPart) ∧
      if lateDir seen e = true then WFI (popStk stk e.dirPart) seen es
      else (∀ p ∈ seen, ¬ e.path <+: p) ∧
        WFI (if e.isDir then e.path :: popStk stk e.dirPart else popStk stk e.dirPart) (seen ++ [e.path]) es))

theorem WFI_pop (t : Fs.Path) (stk seen : List Fs.Path) (e : Entry) (es : List Entry)
    (h : ¬ t <+: e.dirPart) : WFI (t :: stk) seen (e :: es) ↔ WFI stk seen (e :: es) := by
  simp only [WFI, popStk_out t stk _ h]

theorem wfi_entries : ∀ (es : List Entry) (stk seen : List Fs.Path), WFI stk seen es → ∀ e ∈ es, EntryOk e := by
  intro es
  induction es with
  | nil => intro _ _ _ e he; cases he
  | cons x xs ih =>
    intro stk seen h e he
    rcases List.mem_cons.1 he with rfl | he
    · exact h.1
    · have h2 := h.2.2
      split at h2
      · exact ih _ _ h2 e he
      · exact ih _ _ h2.2 e he

/-- the entries that take effect: late directory entries are dropped -/
def keptOf : List Fs.Path → List Entry → List Entry
  | _, [] => []
  | seen, e :: es => if lateDir seen e = true then keptOf seen es else e :: keptOf (seen ++ [e.path]) es

theorem lateDir_nodir (seen : List Fs.Path) (e : Entry) (h : e.isDir = false) : lateDir seen e = false := by
  simp [lateDir, h]

theorem keptOf_nodir : ∀ (es : List Entry) (seen : List Fs.Path), (∀ e ∈ es, e.isDir = false) →
    keptOf seen es = es := by
  intro es
  induction es with
  | nil => intro _ _; rfl
  | cons e es ih =>
    intro seen h
    simp only [keptOf, lateDir_nodir seen e (h e (by simp)), Bool.false_eq_true, if_false]
    rw [ih _ (fun x hx => h x (by simp [hx]))]

/-- **archives without directory entries**: files and safe links with clean paths, in any order,
no path a prefix of another (unique paths; a file is not also a directory) -/
structure ImplicitOk (es : List Entry) : Prop where
  ok : ∀ e ∈ es, EntryOk e
  nodir : ∀ e ∈ es, e.isDir = false
  free : (es.map Entry.path).Pairwise (fun a b => ¬ a <+: b ∧ ¬ b <+: a)

theorem implicitOk_iff (es : List Entry) : ImplicitOk es ↔
    ((∀ e ∈ es, EntryOk e) ∧ (∀ e ∈ es, e.isDir = false) ∧
      (es.map Entry.path).Pairwise (fun a b => ¬ a <+: b ∧ ¬ b <+: a)) :=
  ⟨fun h => ⟨h.ok, h.nodir, h.free⟩, fun h => ⟨h.1, h.2.1, h.2.2⟩⟩

instance (es : List Entry) : Decidable (ImplicitOk es) := decidable_of_iff _ (implicitOk_iff es).symm

theorem wfi_of_free : ∀ (es : List Entry) (seen : List Fs.Path), (∀ e ∈ es, EntryOk e) →
    (∀ e ∈ es, e.isDir = false) →
    (seen ++ es.map Entry.path).Pairwise (fun a b => ¬ a <+: b ∧ ¬ b <+: a) → WFI [] seen es := by
  intro es
  induction es with
  | nil => intro _ _ _ _; trivial
  | cons e es ih =>
    intro seen hok hnd hfree
    have hd : e.isDir = false := hnd e (by simp)
    have hx := (List.pairwise_append.1 hfree).2.2
    refine ⟨hok e (by simp), ?_, ?_⟩
    · intro p hp h; exact absurd h (hx p hp e.path (by simp)).1
    · simp only [lateDir_nodir seen e hd, Bool.false_eq_true, if_false, hd, popStk_nil]
      refine ⟨fun p hp => (hx p hp e.path (by simp)).2, ?_⟩
      apply ih _ (fun x hx => hok x (by simp [hx])) (fun x hx => hnd x (by simp [hx]))
      simpa using hfree

theorem wfi_of_implicit {es : List Entry} (h : ImplicitOk es) : WFI [] [] es :=
  wfi_of_free es [] h.ok h.nodir (by simpa using h.free)

/-! ## the expected tree -/

/-- **the tree `lha x` makes of an archive with implicit parents**: at the path of an entry the
entry in its final form (`treeOf`); at every other non-empty proper prefix of an entry path a
directory with mode 0755 under the umask and the time of the run; nothing anywhere else -/
def impTreeOf (now umask : Nat) (es : List Entry) (p : Fs.Path) : Option Fs.Ent :=
  match treeOf now umask es p with
  | some x => some x
  | none => if es.any (fun e => decide (p <+: e.path)) then some (.dir (impMode umask) now) else none

/-- with an explicit entry for every parent there are no implicit directories -/
theorem impTreeOf_entry (now umask : Nat) (es : List Entry) (e : Entry) (he : e ∈ es)
    (hn : (es.map Entry.path).Nodup) : impTreeOf now umask es e.path = some (e.final now umask) := by
  unfold impTreeOf treeOf
  cases hf : es.find? (fun x => x.path == e.path) with
  | none =>
    rw [List.find?_eq_none] at hf
    exact absurd (by simp) (hf e he)
  | some x =>
    have hm := List.mem_of_find?_eq_some hf
    have hpe : x.path = e.path := by simpa using List.find?_some hf
    rw [eq_of_path_eq es hn x hm e he hpe]; rfl

theorem impTreeOf_parent (now umask : Nat) (es : List Entry) (p : Fs.Path) (e : Entry) (he : e ∈ es)
    (hp : p <+: e.path) (hno : ∀ x ∈ es, x.path ≠ p) :
    impTreeOf now umask es p = some (.dir (impMode umask) now) := by
  unfold impTreeOf treeOf
  have hf : es.find? (fun x => x.path == p) = none := by
    rw [List.find?_eq_none]; intro x hx; simpa using hno x hx
  rw [hf]
  have : es.any (fun e => decide (p <+: e.path)) = true := List.any_eq_true.2 ⟨e, he, by simpa using hp⟩
  simp [this]

theorem impTreeOf_none (now umask : Nat) (es : List Entry) (p : Fs.Path)
    (hno : ∀ x ∈ es, ¬ p <+: x.path) : impTreeOf now umask es p = none := by
  unfold impTreeOf treeOf
  have hf : es.find? (fun x => x.path == p) = none := by
    rw [List.find?_eq_none]; intro x hx
    have : x.path ≠ p := fun h => hno x hx (h ▸ List.prefix_refl _)
    simpa using this
  rw [hf]
  have : es.any (fun e => decide (p <+: e.path)) = false := by
    rw [List.any_eq_false]; intro x hx; simpa using hno x hx
  simp [this]

/-! ## how far the directories above a path exist -/

/-- for a downward-closed property of paths that holds at `w`: it holds along `b` up to some
`k` components and for no longer prefix -/
theorem split_exist (Q : List Bytes → Prop) (hdc : ∀ p q, p <+: q → Q q → Q p) :
    ∀ (b w : List Bytes), Q w → ∃ k, k ≤ b.length ∧ Q (w ++ b.take k) ∧
      ∀ q, q ≠ [] → q <+: b.drop k → ¬ Q (w ++ b.take k ++ q) := by
  intro b
  induction b with
  | nil =>
    intro w hw
    exact ⟨0, Nat.le_refl _, by simpa using hw, fun q hq hp => absurd (List.prefix_nil.1 hp) hq⟩
  | cons c b ih =>
    intro w hw
    by_cases hc : Q (w ++ [c])
    · obtain ⟨k, hk, h1, h2⟩ := ih (w ++ [c]) hc
      refine ⟨k + 1, by simp only [List.length_cons]; omega, by simpa using h1, ?_⟩
      intro q hq hp
      have := h2 q hq (by simpa using hp)
      simpa using this
    · refine ⟨0, Nat.zero_le _, by simpa using hw, ?_⟩
      intro q hq hp
      simp only [List.drop_zero] at hp
      simp only [List.take_zero, List.append_nil]
      cases q with
      | nil => exact absurd rfl hq
      | cons x q =>
        obtain ⟨rfl, _⟩ := List.cons_prefix_cons.1 hp
        intro hQ
        exact hc (hdc _ _ ⟨q, by simp⟩ hQ)

/-! ## `MadeFrom` and `Created` seen from below the working directory -/

theorem prefix_split {α} {p w b : List α} (h : p <+: w ++ b) :
    p <+: w ∨ ∃ q, q ≠ [] ∧ q <+: b ∧ p = w ++ q := by
  rcases List.prefix_or_prefix_of_prefix h (List.prefix_append w b) with h1 | h1
  · exact Or.inl h1
  · obtain ⟨q, rfl⟩ := h1
    by_cases hq : q = []
    · subst hq; exact Or.inl (by simp)
    · exact Or.inr ⟨q, hq, (List.prefix_append_right_inj _).1 h, rfl⟩

/-- **after `make_parent_directories`**, when the deepest existing directory `w` already carries
the time of the run: everything that is not one of the new directories is as before; the new
ones are directories `impMode` / `now` -/
theorem MadeFrom.lookups {fs fs' : Fs.St} {w b : List Bytes} (h : MadeFrom fs fs' w b)
    (hnow : w ≠ [] → ∃ m, Fs.lookup fs (fs.cwd ++ w) = some (.dir m fs.now)) :
    (∀ x, (∀ q, q <+: w ++ b → x ≠ fs.cwd ++ q) → Fs.lookup fs' x = Fs.lookup fs x) ∧
    (∀ p, p <+: w → p ≠ [] → Fs.lookup fs' (fs.cwd ++ p) = Fs.lookup fs (fs.cwd ++ p)) ∧
    (∀ q, q ≠ [] → q <+: b →
      Fs.lookup fs' (fs.cwd ++ (w ++ q)) = some (.dir (impMode fs.umask) fs.now)) := by
  refine ⟨?_, ?_, ?_⟩
  · intro x hx
    apply h.frame x (hx w (List.prefix_append _ _))
    intro q _ hq
    rw [List.append_assoc]
    exact hx (w ++ q) ((List.prefix_append_right_inj _).2 hq)
  · intro p hp hp0
    by_cases hb : b = []
    · rw [h.same hb]
    by_cases hpw : p = w
    · subst hpw
      obtain ⟨m, hl⟩ := hnow hp0
      rw [h.stamp hb (fun e => hp0 (List.append_eq_nil_iff.1 e).2) m _ hl, hl]
    · have hlt := prefix_len_lt hp hpw
      apply h.frame _ (append_ne_of_ne hpw)
      intro q _ _
      exact len_ne (by simp only [List.length_append]; omega)
  · intro q hq hqb
    rw [← List.append_assoc]
    exact h.made q hq hqb

/-- the working directory itself: mode kept, time kept or `now`; `now` when the first new
directory was made in it -/
theorem MadeFrom.cwd_dir {fs fs' : Fs.St} {w b : List Bytes} (h : MadeFrom fs fs' w b) (m t : Nat)
    (hl : Fs.lookup fs fs.cwd = some (.dir m t)) :
    ∃ t', Fs.lookup fs' fs.cwd = some (.dir m t') ∧ (t' = t ∨ t' = fs.now) ∧
      (w = [] → b ≠ [] → fs.cwd ≠ [] → t' = fs.now) := by
  by_cases hb : b = []
  · rw [h.same hb]; exact ⟨t, hl, Or.inl rfl, fun _ h' => absurd hb h'⟩
  by_cases hw : w = []
  · subst hw
    by_cases hc : fs.cwd = []
    · refine ⟨t, ?_, Or.inl rfl, fun _ _ h' => absurd hc h'⟩
      rw [hc] at hl ⊢; rw [lookup_nil] at hl ⊢; exact hl
    · have := h.stamp hb (by simpa using hc) m t (by simpa using hl)
      exact ⟨fs.now, by simpa using this, Or.inr rfl, fun _ _ _ => rfl⟩
  · refine ⟨t, ?_, Or.inl rfl, fun h' => absurd h' hw⟩
    rw [h.frame _ (cwd_ne_append hw) (fun q _ _ => by
      rw [List.append_assoc]; exact cwd_ne_append (by simp [hw])), hl]

/-- **after a creation** at `cwd ++ path` whose parent (when it is not `cwd`) already carries the
time of the run: nothing but the new object changes below `cwd` -/
theorem Created.same_below {fs fs' : Fs.St} {cwd path : Fs.Path} {e : Fs.Ent}
    (h : Created fs fs' (cwd ++ path) e) (hne : path ≠ [])
    (hnow : path.dropLast ≠ [] → ∃ m, Fs.lookup fs (cwd ++ path.dropLast) = some (.dir m fs.now)) :
    ∀ x, x ≠ cwd ++ path → x ≠ cwd → Fs.lookup fs' x = Fs.lookup fs x := by
  intro x hx1 hx2
  have hq : (cwd ++ path).dropLast = cwd ++ path.dropLast := List.dropLast_append_of_ne_nil hne
  by_cases hxp : x = cwd ++ path.dropLast
  · subst hxp
    have h0 : path.dropLast ≠ [] := fun e0 => hx2 (by rw [e0, List.append_nil])
    obtain ⟨m, hl⟩ := hnow h0
    have := h.parent m fs.now (by rw [hq]; exact hl)
      (by rw [hq]; exact fun e0 => h0 (List.append_eq_nil_iff.1 e0).2)
    rw [hq] at this
    rw [this, hl]
  · exact h.frame x hx1 (by rw [hq]; exact hxp)

theorem Created.cwd_dir {fs fs' : Fs.St} {cwd path : Fs.Path} {e : Fs.Ent}
    (h : Created fs fs' (cwd ++ path) e) (hne : path ≠ []) (m t : Nat)
    (hl : Fs.lookup fs cwd = some (.dir m t)) :
    ∃ t', Fs.lookup fs' cwd = some (.dir m t') ∧ (t' = t ∨ t' = fs.now) ∧
      (path.dropLast = [] → cwd ≠ [] → t' = fs.now) := by
  have hq : (cwd ++ path).dropLast = cwd ++ path.dropLast := List.dropLast_append_of_ne_nil hne
  by_cases h0 : path.dropLast = []
  · rw [h0, List.append_nil] at hq
    by_cases hc : cwd = []
    · refine ⟨t, ?_, Or.inl rfl, fun _ h' => absurd hc h'⟩
      rw [hc] at hl ⊢; rw [lookup_nil] at hl ⊢; exact hl
    · have := h.parent m t (by rw [hq]; exact hl) (by rw [hq]; exact hc)
      rw [hq] at this
      exact ⟨fs.now, this, Or.inr rfl, fun _ _ => rfl⟩
  · refine ⟨t, ?_, Or.inl rfl, fun h' => absurd h' h0⟩
    rw [h.frame _ (cwd_ne_append hne) (by rw [hq]; exact cwd_ne_append h0), hl]

end LhasaV.ExtractTree
